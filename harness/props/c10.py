"""C10 — all parsing entry points agree and dispatch on the declared type; header_only; TypeError gate.

Cases (all on real files under <worktree>/.work/, removed afterwards):
  c10.entry  payload = (class instance autocorrect header_only styles)
             the instance (payload shapes of c01 / c08 / c09) is built and written by the implementation; the
             canonical file is restyled (line endings LF / CRLF / CR, padding of every line with whitespace that
             is no line boundary, runs of U+0020 inside ballot lines but not inside numbers) and the restyled
             bytes are parsed through parse_file, parse_str, parse_url (file:// URL) and get_parsed_instance
             with the flags, and the canonical bytes through parse_file.  The extracted model (Model/Entry.v)
             restyles the same canonical text (c10.restyle: must give the same bytes, so that every tested
             variant is inside the quantifier of C10_entrypoints) and parses the same bytes (c10.parse, c10.get).
  c10.gate   payload = (class entrypoint ext content autocorrect header_only)
             a fresh instance of the class parses the content under the extension / data type ext through the
             entry point (3 = get_parsed_instance: class ignored); result or exception, and whether the
             instance's ballots / edges are still empty afterwards.  Every (class, extension) pair, wrong and right.
  c10.seq    payload = (class ext contentA contentB wrong_type)  one scripted sequence in ONE worker call (object lifetime,
             aliasing, purity): for each of the four entry points A is read into one object, B (same ids / ballots /
             node pairs, other values) into another, the first object is looked at again, the second is scribbled
             over, both contents are read again; one object: full parse of A, a parse that must be rejected (the
             object must hold exactly what it held), header_only parse of B (no ballot added or removed, header of
             B); fresh object: rejected parse (still empty), header_only parse; parse_lines on the caller's list of
             lines (list untouched); parse_str(content, None).  Every dump is compared with the model's parse of the
             content it should show.
  c10.name   payload = (class directory base_name autocorrect header_only bare)  a small file of the class under a file
             name with 0-3+ dots, upper case, spaces, non-ASCII characters, in a directory with or without dots;
             parse_file(path), parse_url(file:// + pathname2url(path)), get_parsed_instance(path) against the model's
             derivation of the declared type (splitext_ext, url_ext) + parse; the three must agree whenever the two
             derivations name the same type (they differ on the unchanged tree for ".soc", "...soc": os.path.splitext
             sees no extension there, url.split(".")[-1] does).
  c10.large  payload = (class ext items generator_seed autocorrect header_only terminator)  a generated well-formed file
             larger than one 65536-byte read block (large_content), all four entry points + the model.
  c10.raw    payload = (class entrypoint ext content autocorrect header_only)  content outside the restyling
             quantifier (blank / whitespace-only lines, missing final newline, tabs inside ballot lines, padding
             with characters that are line boundaries for splitlines only): implementation against model, no
             agreement between entry points demanded.
"""
import os
import random
import shutil
import struct
import tempfile

from core import proto, oracle
from .common import case, guarded
from . import c01, c08, c09

ID = "C10"
RULE = ("instances from the generators of C01 / C08 / C09 (small exhaustive ranges + random: ids up to 10^18, ties, "
        "Unicode names and metadata, empty names, special floats) written by the implementation, restyled by k "
        "cyclic line styles (terminator LF / CRLF / CR uniform or mixed, leading / trailing padding from U+0020, TAB, "
        "U+001F, U+00A0, U+1680, U+2003, U+202F, U+205F, U+3000, runs of 0-3 spaces at the character boundaries of "
        "ballot lines except between two digits) x header_only x autocorrect; each variant through parse_file, "
        "parse_str, parse_url(file://) and get_parsed_instance, compared attribute by attribute (everything except "
        "file_path) with the model on the same bytes, with each other and (autocorrect off) with the canonical file; "
        "header_only results compared with the header part of the full parse (model: header_of); the gate on every "
        "(class, extension) pair x entry point incl. unknown extensions for get_parsed_instance, with the object "
        "inspected after the TypeError; raw contents outside the quantifier (blank lines, no final newline, tabs in "
        "ballot lines, U+001C / U+0085 / U+2028 padding) implementation against model only; LARGE contents (c10.large: "
        "generated ordinal / categorical / matching files of 70-200 KB in quick, up to 2.3 MB in thorough, several "
        "65536-byte blocks, names made of 2- to 4-byte UTF-8 characters, the TITLE lengthened until no multiple of 65536 "
        "bytes falls on a line end and, where the header is long enough, the first one falls inside a multi-byte "
        "character) through all four entry points, compared with each other and - up to 400 KB - with the model's "
        "parse_url on the same bytes; FILE NAMES (c10.name): base names with 0-3+ dots, upper case, spaces, non-ASCII "
        "characters (percent-encoded in the file: URL), in directories with and without dots, x every valid / one wrong "
        "/ no / upper-case extension per class x header_only, through parse_file, parse_url and get_parsed_instance "
        "against the model's derivation of the declared type (os.path.splitext vs url.split('.')[-1]) and with each "
        "other where the two derivations agree. "
        "non-trivial = an entry case whose content has >= 1 ballot / edge line and >= 1 padded line")
EXHAUSTIVE = {"quick": "every (class, extension in soc soi toc toi cat wmd + 8 others) x entry point in file str url get "
                       "x 3 contents (gate matrix); every terminator x {no padding, padding} x {no gaps, gaps} uniform "
                       "style on 3 small instances per class x header_only x autocorrect",
              "thorough": "the same, on 12 small instances per class"}
THEOREMS_FOR_OP = {"c10.seq": "C10_entrypoints_text, C10_gate, C10_header_only (each result is a function of the content alone)", "c10.name": "C10_declared_type (splitext_ext / url_ext), C10_gate, C10_dispatch", "c10.large": "C10_entrypoints_text, C10_splitters (no size bound in either)", "c10.entry": "C10_entrypoints, C10_splitters, C10_lines_equiv, C10_header_only, C10_dispatch",
                   "c10.gate": "C10_gate, C10_gate_get, C10_dispatch", "c10.raw": "(model correspondence only)"}
TRUSTED = ["modelled: PrefLibInstance.parse_lines / parse_file / parse_str / parse_url, get_parsed_instance, the "
           "three type_validator methods, on top of the C01 / C08 / C09 file models; os.path.splitext / "
           "url.split('.')[-1] are modelled as 'the extension' (file names used here have exactly one dot in the "
           "last component and the URL's last dot is the extension's)",
           "urllib's file: handler and the UTF-8 codec are exercised (real files, real file:// URLs), not modelled",
           "matching weights: the model keeps the raw token; the harness compares float(token) bitwise with the "
           "implementation's float (CPython float() trusted, as in C09)"]
ASSUMPTIONS = ["'the same instance' = every attribute except file_path; file_name is determined by the '# FILE NAME' "
               "header line, which every written file has (its entry-point specific initial value is not modelled)",
               "line-ending style = LF, CRLF or lone CR per line; padding = whitespace (str.isspace) characters that "
               "are no str.splitlines boundary; spaces inside ballot lines = U+0020 only, not between two digits",
               "metadata / names are single-line (none of the 10 splitlines boundaries) without outer whitespace"]
TIMEOUT_S = 60.0
CHUNK = 12

WORK = os.path.join(oracle.VERIF, ".work")
T = proto.text
U = proto.untext

CLASSES = ["OrdinalInstance", "CategoricalInstance", "MatchingInstance"]
ORD_EXT = ["soc", "soi", "toc", "toi"]
EXT_OF_CLASS = [ORD_EXT, ["cat"], ["wmd"]]
OTHER_EXT = ["txt", "dat", "csv", "SOC", "socx", "so", "ca", "wmdx"]
ALL_EXT = ORD_EXT + ["cat", "wmd"] + OTHER_EXT
EOLS = ["\n", "\r\n", "\r"]
PADCH = [" ", " ", " ", "\t", "\t", "\x1f", "\u00a0", "\u1680", "\u2003", "\u202f", "\u205f", "\u3000"]
BREAKPAD = ["\x1c", "\x1d", "\x1e", "\x85", "\u2028", "\u2029", "\x0b", "\x0c"]


def _cls():
    from preflibtools.instances import OrdinalInstance, CategoricalInstance, MatchingInstance
    return [OrdinalInstance, CategoricalInstance, MatchingInstance]


# ------------------------------------------------------------------------------------------------ restyling
def _isdigit(ch):
    return "0" <= ch <= "9"


def spread(gaps, line):
    out, prev = [], None
    for j, ch in enumerate(line):
        g = gaps[j] if j < len(gaps) else 0
        if prev is None or not (_isdigit(prev) and _isdigit(ch)):
            out.append(" " * g)
        out.append(ch)
        prev = ch
    return "".join(out)


def lf_lines(text):
    ls = text.split("\n")
    if ls[-1] == "":
        ls.pop()
    return ls


def restyle(styles, text):
    """the Python twin of Model/Entry.v restyle (styles applied cyclically); compared with the model's on every case"""
    out = []
    for k, l in enumerate(lf_lines(text)):
        lead, gaps, trail, term = styles[k % len(styles)]
        body = l if l.strip().startswith("#") else spread(gaps, l)
        out.append(U(lead) + body + U(trail) + EOLS[term])
    return "".join(out)


def rand_pad(rng, p_empty=0.4):
    if rng.random() < p_empty:
        return ""
    return "".join(rng.choice(PADCH) for _ in range(rng.randint(1, 4)))


def rand_gaps(rng, density):
    if density == 0:
        return []
    return [rng.choice([1, 1, 2, 3]) if rng.random() < density else 0 for _ in range(rng.randint(1, 60))]


def rand_styles(rng):
    k = rng.choice([1, 2, 3, 5, 7, 40])
    eolmode = rng.choice([0, 1, 2, 3, 3])          # uniform LF / CRLF / CR, or mixed
    density = rng.choice([0, 0.2, 0.6, 1.0])
    p_empty = rng.choice([0.0, 0.4, 0.8])
    return [[T(rand_pad(rng, p_empty)), rand_gaps(rng, density), T(rand_pad(rng, p_empty)),
             eolmode if eolmode < 3 else rng.randrange(3)] for _ in range(k)]


def uniform_style(term, pad, gaps):
    return [[T(" \t" if pad else ""), [1, 2, 1, 3, 1, 1, 2] * 8 if gaps else [], T("\t  " if pad else ""), term]]


# ------------------------------------------------------------------------------------------------ instances
def build(cl, pl):
    if cl == 0:
        return c01.build_instance(pl)
    if cl == 1:
        return c08.build(pl)
    import inspect
    if len(inspect.signature(c09.build_instance).parameters) >= 2:
        return c09.build_instance(pl, {"paths": []})      # plain (non-history) payloads never touch the hist argument
    return c09.build_instance(pl)


def _bits(x):
    return int.from_bytes(struct.pack(">d", x), "big")


def dump(inst):
    """(class tag, attributes) — the encoding of Ops/C10.v e_inst, matching weights as 64-bit patterns"""
    O, C, M = _cls()
    if isinstance(inst, O):
        return [0, c01.dump_instance(inst)]
    if isinstance(inst, C):
        return [1, proto.norm(c08.canon(inst))]
    if isinstance(inst, M):
        meta = [T(getattr(inst, f)) for f in c09.META_FIELDS]
        meta += [inst.num_alternatives, inst.num_voters, [[a, T(nm)] for a, nm in inst.alternatives_name.items()]]
        return [2, proto.norm([meta, inst.num_edges, [[n, list(s)] for n, s in inst.node_mapping.items()],
                               [[[a, b], _bits(w)] for (a, b), w in inst.weights.items()]])]
    raise TypeError("unknown instance class %r" % type(inst))


def canon(d, model=False):
    """observable content: dicts / sets as sorted item lists; ballot lists keep their order; model-side matching
    weights (raw tokens) become the bit pattern of float(token)"""
    tag, x = d
    if tag == 0:
        f, na, nv, names, nu, orders, mult = x
        return [0, f, na, nv, sorted(names), nu, orders, sorted(mult)]
    if tag == 1:
        return [1, x[0], x[1], x[2], sorted(x[3]), x[4], x[5], sorted(x[6]), x[7], sorted(x[8])]
    meta, ne, nodes, weights = x
    if model:
        weights = [[k, _bits(float(U(tok)))] for k, tok in weights]
    return [2, meta[:11] + [sorted(meta[11])], ne, sorted([n, sorted(s)] for n, s in nodes), sorted(weights)]


def canon_res(r, model=False):
    """result -> comparable: (0 canon) | (1 code ...)"""
    if r[0] == 0:
        return [0, canon(r[1], model)]
    return [1, r[1]]


def is_empty(inst):
    O, C, M = _cls()
    if isinstance(inst, O):
        return int(inst.orders == [] and inst.multiplicity == {} and inst.preferences == [])
    if isinstance(inst, C):
        return int(inst.preferences == [] and inst.multiplicity == {})
    return int(len(inst.edges()) == 0 and inst.node_mapping == {} and inst.weights == {})


def header_part(cn):
    """canon() of a full parse -> canon() of its header part (ballot list / graph emptied; wmd: num_edges is
    recomputed by the full parse, so it is not comparable and is taken from the header-only side by the caller)"""
    cn = list(cn)
    if cn[0] == 0:
        cn[6], cn[7] = [], []
    elif cn[0] == 1:
        cn[8], cn[9] = [], []
    else:
        cn[3], cn[4] = [], []
    return cn


def content_view(cn):
    """canon() -> the content the property speaks of, independent of the order of the ballot list (the writer sorts it)
    and, for matching instances, of isolated nodes / num_voters (C09: not preserved by design)"""
    cn = list(cn)
    if cn[0] == 0:
        cn[6] = sorted(cn[6])
    elif cn[0] == 1:
        cn[8] = sorted(cn[8])
    else:
        meta = list(cn[1])
        meta[10] = meta[9]                                   # num_voters := num_alternatives
        cn[1] = meta
        cn[3] = sorted([n, s] for n, s in cn[3] if s)        # nodes with out-edges; weights carry the rest
        cn[3] = [[n, s] for n, s in cn[3]]
    return cn


def n_ballots(d):
    tag, x = d
    return len(x[5]) if tag == 0 else len(x[7]) if tag == 1 else len(x[3])


# ------------------------------------------------------------------------------------------------ implementation
def _read(path):
    with open(path, "r", encoding="utf-8", newline="") as f:
        return f.read()


def _write_raw(path, s):
    with open(path, "w", encoding="utf-8", newline="") as f:     # newline="": no translation of \r, \r\n
        f.write(s)


def _run_entry(cl, e, ext, path, text, ac, ho):
    """-> (guarded dump, emptiness of the object after the call or None)"""
    kw = {"autocorrect": bool(ac), "header_only": bool(ho)}
    box = []

    def go():
        if e == 3:
            from preflibtools.instances import get_parsed_instance
            inst = get_parsed_instance(path, **kw)
            box.append(inst)
            return dump(inst)
        inst = _cls()[cl]()
        box.append(inst)
        if e == 0:
            inst.parse_file(path, **kw)
        elif e == 1:
            inst.parse_str(text, ext, **kw)
        else:
            inst.parse_url("file://" + path, **kw)
        return dump(inst)

    r = guarded(go)
    return r, (is_empty(box[0]) if box else None)


BLOCK = 65536
ORACLE_MAX_BYTES = 400000          # above this size only the entry points are compared with each other


def _weak(rng, m):
    a = list(range(1, m + 1))
    rng.shuffle(a)
    a = a[: rng.randint(2, m)]
    out = [[a[0]]]
    for x in a[1:]:
        if rng.random() < 0.35:
            out[-1].append(x)
        else:
            out.append([x])
    return out


def _cls_str(c_):
    return str(c_[0]) if len(c_) == 1 else "{" + ", ".join(map(str, c_)) + "}"


def large_lines(cl, ext, n, rng):
    """the lines of a large well-formed file (canonical spacing); names carry 2-, 3- and 4-byte UTF-8 characters"""
    wide = ["\u00e9", "\u4e2d", "\u6f22", "\u5b57", "\U0001f600", "\u0416", "\u00df"]
    hdr = lambda name, dt: ["# FILE NAME: " + name, "# TITLE: ", "# DESCRIPTION: large \u6f22\u5b57 file", "# DATA TYPE: " + dt,
                            "# MODIFICATION TYPE: synthetic", "# RELATES TO: ", "# RELATED FILES: ",
                            "# PUBLICATION DATE: 2024-01-01", "# MODIFICATION DATE: 2024-01-02"]
    wname = lambda k: "".join(rng.choice(wide) for _ in range(k))
    if cl == 0:
        m = 8
        seen, orders = set(), []
        while len(orders) < n:
            if ext in ("soc", "soi"):
                o = [[a] for a in rng.sample(range(1, m + 1), m if ext == "soc" else rng.randint(2, m))]
            else:
                o = _weak(rng, m)
            key = repr(o)
            if key not in seen:
                seen.add(key)
                orders.append(o)
        mults = sorted((rng.choice([1, 1, 2, 3, 7]) for _ in orders), reverse=True)
        ls = hdr("large." + ext, ext) + ["# NUMBER ALTERNATIVES: %d" % m, "# NUMBER VOTERS: %d" % sum(mults),
                                         "# NUMBER UNIQUE ORDERS: %d" % n]
        ls += ["# ALTERNATIVE NAME %d: %s %d" % (a, wname(3), a) for a in range(1, m + 1)]
        ls += ["%d: %s" % (k, ", ".join(_cls_str(c_) for c_ in o)) for k, o in zip(mults, orders)]
        return ls
    if cl == 1:
        na, k = n, 3
        nb = max(50, n // 6)
        seen, ballots = set(), []
        while len(ballots) < nb:
            pool = rng.sample(range(1, na + 1), rng.randint(0, 12))
            b = [[] for _ in range(k)]
            for a in pool:
                b[rng.randrange(k)].append(a)
            if repr(b) not in seen:
                seen.add(repr(b))
                ballots.append(b)
        mults = sorted((rng.choice([1, 2, 5]) for _ in ballots), reverse=True)
        ls = hdr("large.cat", "cat") + ["# NUMBER ALTERNATIVES: %d" % na, "# NUMBER VOTERS: %d" % sum(mults),
                                        "# NUMBER UNIQUE PREFERENCES: %d" % nb, "# NUMBER CATEGORIES: %d" % k]
        ls += ["# CATEGORY NAME %d: %s" % (j + 1, wname(4)) for j in range(k)]
        ls += ["# ALTERNATIVE NAME %d: %s" % (a, wname(rng.randint(8, 14))) for a in range(1, na + 1)]
        ls += ["%d: %s" % (mu, ", ".join("{}" if not c_ else _cls_str(c_) for c_ in b)) for mu, b in zip(mults, ballots)]
        return ls
    nn = max(20, n // 3)
    seen, edges = set(), []
    while len(edges) < n:
        a, b = rng.randint(1, nn), rng.randint(1, nn)
        if (a, b) not in seen:
            seen.add((a, b))
            edges.append((a, b, repr(rng.choice([rng.random() * 100, float(rng.randint(-9, 9)), rng.random() * 1e-6, 1 / 3]))))
    edges.sort(key=lambda e_: (e_[0], e_[1]))
    ls = hdr("large.wmd", "wmd") + ["# NUMBER ALTERNATIVES: %d" % nn, "# NUMBER EDGES: %d" % n]
    ls += ["# ALTERNATIVE NAME %d: %s" % (a, wname(rng.randint(8, 14))) for a in range(1, nn + 1)]
    ls += ["%d, %d, %s" % e_ for e_ in edges]
    return ls


def large_content(cl, ext, n, seed, term):
    """deterministic large content; the TITLE is lengthened until no multiple of 65536 bytes falls on a line end
    (and, where the header is that long, until the first one falls INSIDE a multi-byte character)"""
    ls = large_lines(cl, ext, n, random.Random(977 * seed + 13 * n + cl))
    eol = EOLS[term]
    best = None
    for pad in range(0, 120):
        ls[1] = "# TITLE: " + "t" * pad
        text = eol.join(ls) + eol
        b = text.encode("utf-8")
        cuts = list(range(BLOCK, len(b), BLOCK))
        if not cuts:
            return text, "single block"
        if any(b[k - 1] in (10, 13) for k in cuts):
            continue
        inside = (b[cuts[0]] & 0xC0) == 0x80
        if best is None:
            best = (text, "inside a line")
        if inside:
            return text, "inside a multi-byte character"
        if pad >= 40 and best:
            break
    return best if best else (text, "on a line end")


def impl_large(c, d):
    cl, ext, n, seed, ac, ho, term = c["payload"]
    ext = U(ext)
    text, cut = large_content(cl, ext, n, seed, term)
    p = os.path.join(d, "L." + ext)
    _write_raw(p, text)
    nbytes = len(text.encode("utf-8"))
    res = [_run_entry(cl, e, ext, p, text, ac, ho)[0] for e in range(4)]
    base = canon_res(res[0])
    same = [int(canon_res(r) == base) for r in res]
    brief = [r if r[0] != 0 else [0, r[1][0], n_ballots(r[1])] for r in res]
    out = {"nbytes": nbytes, "cut": cut, "res0": res[0], "same": same, "brief": brief}
    if nbytes <= ORACLE_MAX_BYTES:
        out["text"] = T(text)
    return out


def bare_content(cl):
    """CONTENTS[cl] without the FILE NAME and DATA TYPE lines: data_type / file_name stay as the entry point set them"""
    return "".join(l for l in CONTENTS[cl].splitlines(True)
                   if not l.startswith("# FILE NAME") and not l.startswith("# DATA TYPE"))


def impl_name(c, d):
    import urllib.request
    cl, reldir, base, ac, ho, bare = c["payload"]
    reldir, base = U(reldir), U(base)
    dirpath = os.path.join(d, reldir) if reldir else d
    os.makedirs(dirpath, exist_ok=True)
    path = os.path.join(dirpath, base)
    content = bare_content(cl) if bare else CONTENTS[cl]
    _write_raw(path, content)
    url = "file://" + urllib.request.pathname2url(path)
    kw = {"autocorrect": bool(ac), "header_only": bool(ho)}

    def run(e):
        def go():
            if e == 3:
                from preflibtools.instances import get_parsed_instance
                return dump(get_parsed_instance(path, **kw))
            inst = _cls()[cl]()
            if e == 0:
                inst.parse_file(path, **kw)
            else:
                inst.parse_url(url, **kw)
            return dump(inst)
        return guarded(go)

    return {"path": T(path), "url": T(url), "content": T(content), "res": {str(e): run(e) for e in (0, 2, 3)}}


# ---- sequences inside one worker call: several objects alive, one object parsed repeatedly (notes/round5_lessons.md)
def pair_contents(cl, ext, rng):
    """two well-formed contents over the SAME ids / ballots / node pairs with different values (names, counts,
    multiplicities, weights, title): anything shared between two objects shows up as a wrong value"""
    m = rng.randint(2, 5)
    ids = sorted(rng.sample(range(1, 40), m))
    hdr = lambda v, dt: ("# FILE NAME: %s.%s\n# TITLE: title %s\n# DESCRIPTION: \n# DATA TYPE: %s\n# MODIFICATION TYPE: "
                         "original\n# RELATES TO: \n# RELATED FILES: \n# PUBLICATION DATE: 2020-0%d-01\n"
                         "# MODIFICATION DATE: \n") % (v, dt, v, dt, 1 if v == "A" else 2)
    names = lambda v: "".join("# ALTERNATIVE NAME %d: %s%d\n" % (a, v, a) for a in ids)
    out = []
    if cl == 0:
        orders = []
        while len(orders) < rng.randint(2, 4):
            a = rng.sample(ids, rng.randint(2, m) if ext in ("soi", "toi") else m)
            o, k = [], 0
            while k < len(a):
                w = rng.randint(1, 2) if ext in ("toc", "toi") else 1
                o.append(a[k:k + w])
                k += w
            if o not in orders:
                orders.append(o)
        for v, base in (("A", 10), ("B", 50)):
            mults = [base - j for j in range(len(orders))]
            out.append(hdr(v, ext) + "# NUMBER ALTERNATIVES: %d\n# NUMBER VOTERS: %d\n# NUMBER UNIQUE ORDERS: %d\n" % (
                m, sum(mults), len(orders)) + names(v) + "".join(
                "%d: %s\n" % (mu, ", ".join(_cls_str(c_) for c_ in o)) for mu, o in zip(mults, orders)))
    elif cl == 1:
        k = rng.randint(2, 3)
        ballots = []
        while len(ballots) < rng.randint(2, 4):
            b = [[] for _ in range(k)]
            for a in rng.sample(ids, rng.randint(0, m)):
                b[rng.randrange(k)].append(a)
            if b not in ballots:
                ballots.append(b)
        for v, base in (("A", 10), ("B", 50)):
            mults = [base - j for j in range(len(ballots))]
            out.append(hdr(v, "cat") + "# NUMBER ALTERNATIVES: %d\n# NUMBER VOTERS: %d\n# NUMBER UNIQUE PREFERENCES: %d\n"
                       "# NUMBER CATEGORIES: %d\n" % (m, sum(mults), len(ballots), k)
                       + "".join("# CATEGORY NAME %d: %scat%d\n" % (j + 1, v, j + 1) for j in range(k)) + names(v)
                       + "".join("%d: %s\n" % (mu, ", ".join("{}" if not c_ else _cls_str(c_) for c_ in b))
                                 for mu, b in zip(mults, ballots)))
    else:
        pairs = []
        while len(pairs) < rng.randint(2, 5):
            e_ = (rng.choice(ids), rng.choice(ids))
            if e_ not in pairs:
                pairs.append(e_)
        pairs.sort()
        for v, base in (("A", 1.5), ("B", -40.25)):
            out.append(hdr(v, "wmd") + "# NUMBER ALTERNATIVES: %d\n# NUMBER EDGES: %d\n" % (m, len(pairs)) + names(v)
                       + "".join("%d, %d, %r\n" % (a, b, base + j) for j, (a, b) in enumerate(pairs)))
    return out


def poison(inst):
    """scribble over everything a parsed instance holds (a later look at ANOTHER instance must not notice)"""
    O, C, M = _cls()
    junk = ((987654321,),)
    if isinstance(inst, (O, C)):
        for k in list(inst.multiplicity):
            inst.multiplicity[k] = 777
        inst.multiplicity[junk] = 5
        getattr(inst, "orders", inst.preferences).append(junk)
        inst.preferences.reverse()
        if isinstance(inst, C):
            inst.categories_name[99] = "junk"
    else:
        for k in list(inst.weights):
            inst.weights[k] = -777.0
        inst.weights[(987654321, 1)] = 3.0
        for n in list(inst.node_mapping):
            inst.node_mapping[n].add(987654321)
        inst.node_mapping[987654321] = {1}
    for k in list(inst.alternatives_name):
        inst.alternatives_name[k] = "junk"
    inst.alternatives_name[987654321] = "junk"
    inst.reserved_names.add("junk")


def impl_seq(c, d):
    import urllib.request
    cl, ext, A, B, wrong = c["payload"]
    ext, A, B, wrong = U(ext), U(A), U(B), U(wrong)
    paths = {}
    for nm, text, x in (("A", A, ext), ("B", B, ext), ("W", A, wrong)):
        os.makedirs(os.path.join(d, nm))
        paths[nm] = os.path.join(d, nm, "s." + x)
        _write_raw(paths[nm], text)
    texts = {"A": A, "B": B, "W": A}
    exts = {"A": ext, "B": ext, "W": wrong}

    def call(inst, e, which, **kw):
        """parse content `which` into inst (e < 3) or through get_parsed_instance (e = 3: returns the new object)"""
        if e == 3:
            from preflibtools.instances import get_parsed_instance
            return get_parsed_instance(paths[which], **kw)
        if e == 0:
            inst.parse_file(paths[which], **kw)
        elif e == 1:
            inst.parse_str(texts[which], exts[which], **kw)
        else:
            inst.parse_url("file://" + urllib.request.pathname2url(paths[which]), **kw)
        return inst

    new = _cls()[cl]
    obs = {}
    for e in range(4):
        k = str(e)
        # (a) / (c): two objects alive, earlier object re-read, returned objects poisoned
        oa = call(new(), e, "A")
        obs["a1_" + k] = dump(oa)
        ob = call(new(), e, "B")
        obs["b1_" + k] = dump(ob)
        obs["a_after_b_" + k] = dump(oa)
        poison(ob)
        obs["a_after_poison_" + k] = dump(oa)
        obs["b2_" + k] = dump(call(new(), e, "B"))
        obs["a2_" + k] = dump(call(new(), e, "A"))
        obs["a_end_" + k] = dump(oa)
        if e == 3:
            continue
        # (b) one object: full parse, rejected parse, header-only parse
        o = call(new(), e, "A")
        obs["rej_" + k] = guarded(lambda: dump(call(o, e, "W")))
        obs["after_rej_" + k] = dump(o)
        obs["ho_" + k] = guarded(lambda: dump(call(o, e, "B", header_only=True)))
        o2 = new()
        obs["rej_fresh_" + k] = guarded(lambda: dump(call(o2, e, "W")))
        obs["rej_fresh_empty_" + k] = is_empty(o2)
        obs["ho_fresh_" + k] = guarded(lambda: dump(call(o2, e, "B", header_only=True)))
    # (d) the caller's list of lines
    lines = A.splitlines(True)
    before = list(lines)
    o = new()
    o.data_type = ext
    o.parse_lines(lines)
    obs["pl"] = dump(o)
    obs["pl_same"] = int(len(lines) == len(before) and all(x is y for x, y in zip(lines, before)))
    # (e) data_type None
    o = new()
    obs["none"] = guarded(lambda: dump(call_none(o, A)))
    obs["none_empty"] = is_empty(o)
    return {"obs": obs}


def call_none(o, text):
    o.parse_str(text, None)
    return o


def impl(c):
    op, pl = c["op"], c["payload"]
    os.makedirs(WORK, exist_ok=True)
    d = tempfile.mkdtemp(prefix="c10_", dir=WORK)
    try:
        if op == "c10.seq":
            return impl_seq(c, d)
        if op == "c10.large":
            return impl_large(c, d)
        if op == "c10.name":
            return impl_name(c, d)
        if op == "c10.entry":
            cl, ipl, ac, ho, styles = pl
            inst = build(cl, ipl)
            ext = inst.data_type
            os.makedirs(os.path.join(d, "canon"))
            p0 = os.path.join(d, "canon", "w." + ext)
            inst.write(p0)
            orig = dump(inst)                      # the instance as it is after write() (file_name default filled in)
            canon_text = _read(p0)
            text = restyle(styles, canon_text)
            p1 = os.path.join(d, "r." + ext)
            _write_raw(p1, text)
            res = [_run_entry(cl, e, ext, p1, text, ac, ho)[0] for e in range(4)]
            full = _run_entry(cl, 0, ext, p1, text, ac, 0)[0] if ho else None
            return {"ext": T(ext), "canon": T(canon_text), "text": T(text), "res": res, "orig": orig,
                    "canon_res": _run_entry(cl, 0, ext, p0, canon_text, ac, ho)[0], "full": full}
        if op in ("c10.gate", "c10.raw"):
            cl, e, ext, content, ac, ho = pl
            ext, content = U(ext), U(content)
            p = os.path.join(d, "g." + ext if ext else "g")
            _write_raw(p, content)
            r, emp = _run_entry(cl, e, ext, p, content, ac, ho)
            return {"res": r, "empty": emp}
        return {"crash": "unknown op " + op}
    finally:
        shutil.rmtree(d, ignore_errors=True)


# ------------------------------------------------------------------------------------------------ model side
def oracle_requests(c, r):
    op, pl = c["op"], c["payload"]
    if op == "c10.seq":
        cl, ext, A, B, wrong = pl
        reqs = []
        for e in range(3):
            reqs += [("c10.parse", [cl, e, ext, 0, 0, A]), ("c10.parse", [cl, e, ext, 0, 0, B]),
                     ("c10.parse", [cl, e, ext, 0, 1, B]), ("c10.parse", [cl, e, wrong, 0, 0, A])]
        reqs += [("c10.get", [ext, 0, 0, A]), ("c10.get", [ext, 0, 0, B])]
        return reqs
    if op == "c10.name":
        if not isinstance(r, dict) or "path" not in r:
            return []
        cl, reldir, base, ac, ho, bare = pl
        return [("c10.parse_path", [cl, 0, r["path"], ac, ho, r["content"]]),
                ("c10.parse_path", [cl, 2, r["url"], ac, ho, r["content"]]),
                ("c10.parse_path", [cl, 3, r["path"], ac, ho, r["content"]]),
                ("c10.declared", [r["path"], r["url"]])]
    if op == "c10.large":
        if not isinstance(r, dict) or "text" not in r:
            return []
        cl, ext, n, seed, ac, ho, term = pl
        return [("c10.parse", [cl, 2, ext, ac, ho, r["text"]])]        # the model's parse_url on the same bytes
    if not isinstance(r, dict) or "res" not in r:
        return []
    if op == "c10.entry":
        cl, ipl, ac, ho, styles = pl
        ext, text = r["ext"], r["text"]
        reqs = [("c10.restyle", [styles, r["canon"]])]
        reqs += [("c10.parse", [cl, e, ext, ac, ho, text]) for e in range(3)]
        reqs += [("c10.get", [ext, ac, ho, text]), ("c10.parse", [cl, 0, ext, ac, ho, r["canon"]]),
                 ("c10.parse_header", [cl, 0, ext, ac, text])]
        return reqs
    cl, e, ext, content, ac, ho = pl
    if e == 3:
        return [("c10.get", [ext, ac, ho, content]), ("c10.dispatch", ext)]
    return [("c10.parse", [cl, e, ext, ac, ho, content]), ("c10.validate", [cl, ext])]


ENTRY_NAMES = ["parse_file", "parse_str", "parse_url", "get_parsed_instance"]


def _short(x, lim=300):
    s = repr(x)
    return s if len(s) <= lim else s[:lim] + "..."


def initial_name(e, base, ext):
    """the file_name an entry point stores before the header is read (not modelled: the model starts from "")"""
    if e == 1:
        return ""
    if e == 2:
        return base
    return base + "." + ext if ext else base


def _cmp(what, impl_r, model_r, initial=""):
    a, b = canon_res(impl_r), canon_res(model_r, model=True)
    if a[0] == 0 and b[0] == 0 and b[1][1][0] == [] and initial and a[1][1][0] == T(initial):
        a[1][1] = [[]] + a[1][1][1:]          # no "# FILE NAME" value in the content: the entry point's own default
    if a != b:
        if a[0] == 0 and b[0] == 0:
            k = next((k for k, (x, y) in enumerate(zip(a[1], b[1])) if x != y), None)
            return "%s: implementation and model differ at field %r: %s vs %s" % (what, k, _short(a[1][k] if k is not None else a), _short(b[1][k] if k is not None else b))
        return "%s: implementation %s, model %s" % (what, _short(a), _short(b))
    return None


def judge_large(c, r, mres):
    cl, ext, n, seed, ac, ho, term = c["payload"]
    if not isinstance(r, dict) or "res0" not in r:
        return {"kind": "broken-correspondence", "reason": "implementation side returned %r" % (r,)}
    if r["nbytes"] <= BLOCK:
        return {"kind": "broken-correspondence", "reason": "large-content generator produced only %d bytes" % r["nbytes"]}
    if r["res0"][0] != 0:
        return "parse_file rejects a well-formed %d-byte file: %s" % (r["nbytes"], _short(r["res0"]))
    for e in (1, 2, 3):
        if not r["same"][e]:
            return "%s and parse_file build different instances from the same %d-byte content (65536-byte boundary %s): %s vs %s" % (
                ENTRY_NAMES[e], r["nbytes"], r["cut"], _short(r["brief"][e]), _short(r["brief"][0]))
    if r["brief"][3][1] != cl:
        return "get_parsed_instance built class %r" % (r["brief"][3][1],)
    if ho and r["brief"][0][2] != 0:
        return "header_only=True loaded ballots / edges"
    if not ho and r["brief"][0][2] < (n if cl != 1 else 50):
        return "only %d ballots / edges read from a file with %d" % (r["brief"][0][2], n)
    if mres:
        return _cmp("parse_url model vs parse_file implementation on %d bytes" % r["nbytes"], r["res0"], mres[0],
                    initial_name(0, "L", U(ext)))
    return None


def judge_name(c, r, mres):
    cl, reldir, base, ac, ho, bare = c["payload"]
    if not isinstance(r, dict) or "path" not in r or len(mres) != 4:
        return {"kind": "broken-correspondence", "reason": "implementation side returned %r" % (r,)}
    path, url = U(r["path"]), U(r["url"])
    m_file, m_url, m_get, (t_file, t_url) = mres
    # file_name before the header is read (documented, not modelled): basename / last URL component up to its first dot
    init = {"0": os.path.basename(path), "3": os.path.basename(path), "2": url.split("/")[-1].split(".")[0]}
    for e, m in (("0", m_file), ("2", m_url), ("3", m_get)):
        bad = _cmp("%s on the file name %r (declared type per model: path %r, url %r)" % (
            ENTRY_NAMES[int(e)], os.path.join(U(reldir), U(base)), U(t_file), U(t_url)), r["res"][e], m, init[e])
        if bad:
            return bad
    if t_file == t_url:
        # in-domain shape: os.path.splitext and url.split(".")[-1] name the same type - the entry points must agree
        a = [canon_res(r["res"][e]) for e in ("0", "2", "3")]
        for x in a:
            if x[0] == 0:
                x[1][1] = [[]] + x[1][1][1:]         # entry-point specific initial file_name
        # (get_parsed_instance picks its own class: comparable with the class under test only when that class accepts)
        if a[0] != a[1] or (a[0][0] == 0 and a[0] != a[2]):
            return "entry points disagree on the file name %r: parse_file %s, parse_url %s, get_parsed_instance %s" % (
                U(base), _short(a[0]), _short(a[1]), _short(a[2]))
    return None


def _no_id(cn):
    """canon() without the fields every entry point sets before the gate (file_name, data_type)"""
    cn = [list(x) if isinstance(x, list) else x for x in cn]
    f = list(cn[1])
    f[0], f[3] = [], []
    cn[1] = f
    return cn


def _ballot_part(cn):
    return [cn[6], cn[7]] if cn[0] == 0 else [cn[8], cn[9]] if cn[0] == 1 else [cn[3], cn[4]]


def judge_seq(c, r, mres):
    cl, ext, A, B, wrong = c["payload"]
    if not isinstance(r, dict) or "obs" not in r or len(mres) != 14:
        return {"kind": "broken-correspondence", "reason": "implementation side returned %r" % (r,)}
    obs = r["obs"]
    mA = [mres[4 * e] for e in range(3)] + [mres[12]]
    mB = [mres[4 * e + 1] for e in range(3)] + [mres[13]]
    mBho = [mres[4 * e + 2] for e in range(3)]
    mW = [mres[4 * e + 3] for e in range(3)]
    for e in range(4):
        if mA[e][0] != 0 or mB[e][0] != 0 or canon(mA[e][1], True) == canon(mB[e][1], True):
            return {"kind": "broken-correspondence", "reason": "generated pair of contents is not usable: %r" % (mA[e][:1],)}
        wantA, wantB = canon(mA[e][1], True), canon(mB[e][1], True)
        k = str(e)
        for key, want, what in (("a1_", wantA, "content A"), ("b1_", wantB, "content B read while the object of A is alive"),
                                ("a_after_b_", wantA, "the object of A, looked at again after B was read into another object"),
                                ("a_after_poison_", wantA, "the object of A after the object of B was scribbled over"),
                                ("b2_", wantB, "content B read again after an earlier object of B was scribbled over"),
                                ("a2_", wantA, "content A read a second time into a new object"),
                                ("a_end_", wantA, "the first object of A at the end of the sequence")):
            got = canon(obs[key + k])
            if got != want:
                j = next((j for j, (x, y) in enumerate(zip(got, want)) if x != y), None)
                return "%s, %s: field %r is %s, the content says %s" % (
                    ENTRY_NAMES[e], what, j, _short(got[j] if j is not None else got), _short(want[j] if j is not None else want))
        if e == 3:
            continue
        if mW[e] != [1, proto.E_TYPE]:
            return {"kind": "broken-correspondence", "reason": "the wrong type %r is not wrong for the model" % U(wrong)}
        if obs["rej_" + k][:2] != [1, proto.E_TYPE]:
            return "%s with the declared type %r on a used %s: %s (TypeError expected)" % (
                ENTRY_NAMES[e], U(wrong), CLASSES[cl], _short(obs["rej_" + k]))
        if _no_id(canon(obs["after_rej_" + k])) != _no_id(wantA):
            return "%s: after the rejected parse the instance differs from what it held before: %s vs %s" % (
                ENTRY_NAMES[e], _short(_no_id(canon(obs["after_rej_" + k]))), _short(_no_id(wantA)))
        if obs["rej_fresh_" + k][:2] != [1, proto.E_TYPE] or obs["rej_fresh_empty_" + k] != 1:
            return "%s: rejected parse on a fresh instance: %s, empty afterwards: %r" % (
                ENTRY_NAMES[e], _short(obs["rej_fresh_" + k]), obs["rej_fresh_empty_" + k])
        wantH = canon(mBho[e][1], True)
        got = canon_res(obs["ho_fresh_" + k])
        if got != [0, wantH]:
            return "%s: header_only parse after a rejected parse on the same (still empty) instance: %s, the header says %s" % (
                ENTRY_NAMES[e], _short(got), _short(wantH))
        # header_only on an instance that already holds A: no ballot / edge is added or removed, the header is B's
        got = canon_res(obs["ho_" + k])
        if got[0] != 0:
            return "%s: header_only parse on a used instance raised %s" % (ENTRY_NAMES[e], _short(got))
        if _ballot_part(got[1]) != _ballot_part(wantA):
            return "%s: header_only=True on an instance holding A changed its ballots / edges: %s vs %s" % (
                ENTRY_NAMES[e], _short(_ballot_part(got[1])), _short(_ballot_part(wantA)))
        hg, hw = list(got[1]), list(wantH)
        for cn in (hg, hw):
            if cn[0] == 0:
                cn[6], cn[7] = [], []
            elif cn[0] == 1:
                cn[8], cn[9] = [], []
            else:
                cn[3], cn[4] = [], []
        if hg != hw:
            j = next((j for j, (x, y) in enumerate(zip(hg, hw)) if x != y), None)
            return "%s: header_only=True on a used instance: header field %r is %s, the header of B says %s" % (
                ENTRY_NAMES[e], j, _short(hg[j] if j is not None else hg), _short(hw[j] if j is not None else hw))
    if canon(obs["pl"]) != canon(mA[0][1], True):
        return "parse_lines on the caller's list of lines: %s, the content says %s" % (_short(canon(obs["pl"])), _short(canon(mA[0][1], True)))
    if obs["pl_same"] != 1:
        return "parse_lines modified the list of lines it was given"
    if obs["none"][:2] != [1, proto.E_TYPE] or obs["none_empty"] != 1:
        return "parse_str(content, None): %s, instance empty afterwards: %r (TypeError expected: None is no data type of the class)" % (
            _short(obs["none"]), obs["none_empty"])
    return None


def judge(c, r, mres):
    op, pl = c["op"], c["payload"]
    if op == "c10.seq":
        return judge_seq(c, r, mres)
    if op == "c10.name":
        return judge_name(c, r, mres)
    if op == "c10.large":
        return judge_large(c, r, mres)
    if not isinstance(r, dict) or "res" not in r or not mres:
        return {"kind": "broken-correspondence", "reason": "implementation side returned %r" % (r,)}
    if op == "c10.entry":
        cl, ipl, ac, ho, styles = pl
        m_restyle, m_file, m_str, m_url, m_get, m_canon, m_full = mres
        if m_restyle[0] != 1:
            return {"kind": "broken-correspondence", "reason": "generated styles are outside wf_pad"}
        if m_restyle[1] != r["text"]:
            return {"kind": "broken-correspondence",
                    "reason": "harness restyle differs from Model/Entry.v restyle: %r vs %r" % (U(r["text"])[:200], U(m_restyle[1])[:200])}
        # implementation = model, entry point by entry point, on the same bytes
        for e, m in enumerate((m_file, m_str, m_url, m_get)):
            bad = _cmp("%s (autocorrect=%d header_only=%d)" % (ENTRY_NAMES[e], ac, ho), r["res"][e], m,
                       initial_name(e, "r", U(r["ext"])))
            if bad:
                return bad
        bad = _cmp("parse_file of the canonical file", r["canon_res"], m_canon, initial_name(0, "w", U(r["ext"])))
        if bad:
            return bad
        # the clauses of the property, directly on the implementation's results
        base = canon_res(r["res"][0])
        if base[0] != 0:
            return "parse_file rejects a restyled well-formed file: %s" % _short(r["res"][0])
        for e in (1, 2, 3):
            if canon_res(r["res"][e]) != base:
                return "%s and parse_file build different instances from the same content: %s vs %s" % (
                    ENTRY_NAMES[e], _short(canon_res(r["res"][e])), _short(base))
        if canon_res(r["canon_res"]) != base:
            return "the restyled content is read differently from the canonical content: %s vs %s" % (
                _short(base), _short(canon_res(r["canon_res"])))
        if not ac and not ho:
            # against the CONTENT: the instance that was written (all entry points could be wrong in the same way)
            want, got = content_view(canon(r["orig"])), content_view(base[1])
            if want != got:
                k = next((k for k, (x, y) in enumerate(zip(want, got)) if x != y), None)
                return "the restyled file is not read back as the instance that was written (field %r): written %s, read %s" % (
                    k, _short(want[k] if k is not None else want), _short(got[k] if k is not None else got))
        if r["res"][3][1][0] != cl:
            return "get_parsed_instance built class %r for a %s file" % (r["res"][3][1][0], U(r["ext"]))
        if ho:
            if n_ballots(r["res"][0][1]) != 0:
                return "header_only=True loaded ballots / edges: %s" % _short(r["res"][0][1])
            if not ac:
                # same metadata and counts as the full parse (model: header_of (full) = header-only result)
                if m_full[0] != 0 or r["full"][0] != 0:
                    return "full parse fails where the header-only parse succeeds: %s" % _short(r["full"])
                if canon(m_full[1], model=True) != base[1]:
                    return "header_only result differs from the header part of the full parse: %s vs %s" % (
                        _short(base[1]), _short(canon(m_full[1], model=True)))
                hi = header_part(canon(r["full"][1]))
                if hi != base[1]:
                    return "header_only result differs from the implementation's own full parse minus ballots: %s vs %s" % (
                        _short(base[1]), _short(hi))
        return None
    # gate / raw
    cl, e, ext, content, ac, ho = pl
    m_res, m_aux = mres
    bad = _cmp("%s on class %s, extension %r" % (ENTRY_NAMES[e], CLASSES[cl], U(ext)), r["res"], m_res,
               initial_name(e, "g", U(ext)))
    if bad:
        return bad
    if op == "c10.gate":
        if e == 3:
            known = m_aux[0] == 0
            if not known and r["res"][:2] != [1, proto.E_TYPE]:
                return "get_parsed_instance on unknown extension %r: %s (TypeError expected)" % (U(ext), _short(r["res"]))
            if known and r["res"][0] == 0 and r["res"][1][0] != m_aux[1]:
                return "get_parsed_instance built class %r for extension %r, model %r" % (r["res"][1][0], U(ext), m_aux[1])
        else:
            valid = m_aux == 1
            if not valid:
                if r["res"][:2] != [1, proto.E_TYPE]:
                    return "class %s accepted / mis-rejected extension %r: %s (TypeError expected)" % (CLASSES[cl], U(ext), _short(r["res"]))
                if r["empty"] != 1:
                    return "after the TypeError the instance holds ballots / edges"
    return None


def nontrivial(c, r, m):
    if c["op"] == "c10.seq":
        return True
    if c["op"] == "c10.name":
        return U(c["payload"][2]).count(".") >= 2 or bool(c["payload"][1])
    if c["op"] == "c10.large":
        return isinstance(r, dict) and r.get("nbytes", 0) > BLOCK and r.get("cut") != "on a line end"
    if c["op"] != "c10.entry" or not isinstance(r, dict) or r.get("res", [[1]])[0][0] != 0:
        return False
    styles = c["payload"][4]
    padded = any(s[0] or s[2] for s in styles)
    full = r["canon_res"]
    return padded and (c["payload"][3] == 1 or (full[0] == 0 and n_ballots(full[1]) >= 1))


def stats(c, r, m):
    op, pl = c["op"], c["payload"]
    if op == "c10.seq":
        return ["seq class=%s (two objects alive x 4 entry points, poison, rejected + header_only on one object, "
                "parse_lines list, data_type None)" % CLASSES[pl[0]][:3]]
    if op == "c10.name":
        base, reldir = U(pl[2]), U(pl[1])
        lab = ["name dots in base name=%d%s" % (min(base.count("."), 3), "+" if base.count(".") > 3 else "")]
        if "." in reldir:
            lab.append("name directory with dots")
        if any(ord(ch) > 127 or ch == " " for ch in base + reldir):
            lab.append("name with space / non-ASCII (percent-encoded in the URL)")
        if any(ch.isupper() for ch in base):
            lab.append("name with upper-case characters")
        if m and len(m) == 4 and isinstance(m[3], list):
            lab.append("name declared types %s, %s" % ("agree" if m[3][0] == m[3][1] else "DIFFER (out of domain)",
                                                       "accepted" if isinstance(m[0], list) and m[0][0] == 0 else "refused by parse_file"))
        return lab
    if op == "c10.large":
        nb = r.get("nbytes", 0) if isinstance(r, dict) else 0
        size = "> 1 MiB" if nb > 1 << 20 else "> 128 KiB" if nb > 1 << 17 else "> 64 KiB" if nb > BLOCK else "small"
        return ["large class=%s %s, 65536-byte boundary %s, model=%s" % (
            CLASSES[pl[0]][:3], size, r.get("cut") if isinstance(r, dict) else "?", "yes" if m else "no")]
    if op == "c10.entry":
        cl, ipl, ac, ho, styles = pl
        terms = sorted({s[3] for s in styles})
        lab = []
        if isinstance(r, dict) and "text" in r:
            lines = U(r["text"]).replace("\r\n", "\n").replace("\r", "\n").split("\n")
            hdr = [l for l in lines if l.strip().startswith("#")]
            bal = [l.strip() for l in lines if l.strip() and not l.strip().startswith("#")]
            if ho and any(l[:1] in (" ", "\t") for l in hdr):
                lab.append("corner: header_only + indented header lines (space/tab) class=%s" % CLASSES[cl][:3])
            if cl in (0, 1):
                tied = any(len(c_) != 1 for o in (ipl[5] if cl == 0 else ipl[7]) for c_ in o)
                pats = [("2+ blanks after comma", ",  "), ("blank before comma", " ,"), ("padded brace", "{ "),
                        ("padded brace", " }"), ("blank before colon", " :"), ("2+ blanks after colon", ":  ")]
                hit = sorted({nm for nm, pt in pats if any(pt in l for l in bal)})
                for nm in hit:
                    lab.append("corner: %s ballots%s: %s" % (CLASSES[cl][:3], " with ties" if tied else "", nm))
                if cl == 0 and tied and U(r["ext"]) in ("toc", "toi") and len(hit) >= 3:
                    lab.append("corner: toc/toi with ties and >= 3 kinds of odd spacing")
        lab += ["entry class=%s ac=%d ho=%d" % (CLASSES[cl][:3], ac, ho),
               "entry eol=%s" % ("mixed" if len(terms) > 1 else ["LF", "CRLF", "CR"][terms[0]]),
               "entry padded=%d gaps=%d" % (int(any(s[0] or s[2] for s in styles)), int(any(any(s[1]) for s in styles)))]
        return lab
    cl, e, ext, content, ac, ho = pl
    verdict = "?"
    if m and isinstance(m[0], list):
        verdict = "ok" if m[0][0] == 0 else "error%d" % m[0][1]
    return ["%s %s %s" % (op[4:], ENTRY_NAMES[e], verdict)]


def describe(c):
    op, pl = c["op"], c["payload"]
    if op == "c10.seq":
        return {"op": op, "class": CLASSES[pl[0]], "extension": U(pl[1]), "content A": U(pl[2]), "content B": U(pl[3]),
                "wrong type used for the rejected parse": U(pl[4])}
    if op == "c10.name":
        cl, reldir, base, ac, ho, bare = pl
        return {"op": op, "class": CLASSES[cl], "directory (below the scratch directory)": U(reldir), "base name": U(base),
                "autocorrect": ac, "header_only": ho,
                "content": "without FILE NAME / DATA TYPE lines" if bare else "canonical small file of the class"}
    if op == "c10.large":
        cl, ext, n, seed, ac, ho, term = pl
        return {"op": op, "class": CLASSES[cl], "extension": U(ext), "items (orders / alternatives / edges)": n,
                "generator_seed": seed, "autocorrect": ac, "header_only": ho, "terminator": ["LF", "CRLF", "CR"][term],
                "content": "props.c10.large_content(%d, %r, %d, %d, %d)[0]" % (cl, U(ext), n, seed, term)}
    if op == "c10.entry":
        cl, ipl, ac, ho, styles = pl
        return {"op": op, "class": CLASSES[cl], "autocorrect": ac, "header_only": ho, "instance_payload": ipl,
                "styles (lead, gaps, trail, terminator)": [[U(s[0]), s[1], U(s[2]), ["LF", "CRLF", "CR"][s[3]]] for s in styles]}
    cl, e, ext, content, ac, ho = pl
    return {"op": op, "class": CLASSES[cl], "entry_point": ENTRY_NAMES[e], "extension_or_data_type": U(ext),
            "content": U(content), "autocorrect": ac, "header_only": ho}


def shrink(c):
    op, pl = c["op"], c["payload"]
    if op in ("c10.large", "c10.name", "c10.seq"):
        return
    if op == "c10.entry":
        cl, ipl, ac, ho, styles = pl
        if len(styles) > 1:
            for k in range(min(len(styles), 6)):
                yield dict(c, payload=[cl, ipl, ac, ho, [styles[k]]])
        elif styles:
            s = styles[0]
            for s2 in ([[], [], [], 0], [[], s[1], s[2], s[3]], [s[0], [], s[2], s[3]], [s[0], s[1], [], s[3]],
                       [s[0], s[1], s[2], 0]):
                if s2 != s:
                    yield dict(c, payload=[cl, ipl, ac, ho, [s2]])
        if ac:
            yield dict(c, payload=[cl, ipl, 0, ho, styles])
        if cl == 0:
            for n, c2 in enumerate(c01.shrink({"op": "c01.file", "payload": ipl, "tags": {}})):
                if n >= 12:
                    break
                yield dict(c, payload=[cl, c2["payload"], ac, ho, styles])
    else:
        cl, e, ext, content, ac, ho = pl
        ls = U(content).splitlines(True)
        for k in range(len(ls)):
            yield dict(c, payload=[cl, e, ext, T("".join(ls[:k] + ls[k + 1:])), ac, ho])


# ------------------------------------------------------------------------------------------------ generation
SOC = ("# FILE NAME: a.soc\n# TITLE: t\n# DESCRIPTION: \n# DATA TYPE: soc\n# MODIFICATION TYPE: original\n"
       "# RELATES TO: \n# RELATED FILES: \n# PUBLICATION DATE: \n# MODIFICATION DATE: \n# NUMBER ALTERNATIVES: 3\n"
       "# NUMBER VOTERS: 5\n# NUMBER UNIQUE ORDERS: 2\n# ALTERNATIVE NAME 1: a\n# ALTERNATIVE NAME 2: b\n"
       "# ALTERNATIVE NAME 3: c\n3: 1, 2, 3\n2: 3, {1, 2}\n")
CAT = ("# FILE NAME: a.cat\n# TITLE: t\n# DESCRIPTION: \n# DATA TYPE: cat\n# MODIFICATION TYPE: original\n"
       "# RELATES TO: \n# RELATED FILES: \n# PUBLICATION DATE: \n# MODIFICATION DATE: \n# NUMBER ALTERNATIVES: 3\n"
       "# NUMBER VOTERS: 5\n# NUMBER UNIQUE PREFERENCES: 2\n# NUMBER CATEGORIES: 2\n# CATEGORY NAME 1: yes\n"
       "# CATEGORY NAME 2: no\n# ALTERNATIVE NAME 1: a\n# ALTERNATIVE NAME 2: b\n# ALTERNATIVE NAME 3: c\n"
       "3: {1, 2}, 3\n2: {}, {1, 2, 3}\n")
WMD = ("# FILE NAME: a.wmd\n# TITLE: t\n# DESCRIPTION: \n# DATA TYPE: wmd\n# MODIFICATION TYPE: original\n"
       "# RELATES TO: \n# RELATED FILES: \n# PUBLICATION DATE: \n# MODIFICATION DATE: \n# NUMBER ALTERNATIVES: 3\n"
       "# NUMBER EDGES: 3\n# ALTERNATIVE NAME 1: a\n# ALTERNATIVE NAME 2: b\n# ALTERNATIVE NAME 3: c\n"
       "1, 2, 0.5\n2, 1, -1.0\n3, 3, 1e-05\n")
CONTENTS = [SOC, CAT, WMD]


def small_instances(cl, n, rng):
    out = []
    if cl == 0:
        orders = c01.all_orders(3)
        out.append(c01.simple_instance([([[1, 2], [3]], 2), ([[3], [1, 2]], 1), ([[1, 2, 3]], 1)], "toc"))
        out.append(c01.simple_instance([([[1], [2, 3]], 2), ([[2, 3]], 2), ([[3, 1]], 1), ([[2], [1], [3]], 1)], "toi"))
        for k in range(n):
            o1, o2 = orders[(7 * k + 3) % len(orders)], orders[(11 * k + 5) % len(orders)]
            om = [(o1, 2)] + ([(o2, 1 + k % 2)] if o2 != o1 else [])
            out.append(c01.simple_instance(om, ORD_EXT[k % 4]))
    elif cl == 1:
        ps = list(c08.placements([1, 2, 3], 2)) + list(c08.placements([1, 2], 3))
        out.append(c08.simple_instance([([[1, 2], [], [3]], 2), ([[], [1, 2, 3], []], 1), ([[3], [2], [1]], 1)], 3, [1, 2, 3]))
        for k in range(n):
            b1, b2 = ps[(5 * k + 1) % len(ps)], ps[(13 * k + 4) % len(ps)]
            bm = [(b1, 2)] + ([(b2, 1 + k % 2)] if b2 != b1 else [])
            out.append(c08.simple_instance(bm, len(b1), [1, 2, 3]))
        out += c08.corpus_like()[:max(1, n // 3)]
    else:
        pal = [1.0, 0.1, -0.0, 1 / 3, 5e-324, -2.5, 1e22, 1.7976931348623157e308, 7.0]
        for k in range(n):
            es = [(1, 2), (2, 1), (3, 3), (2, 3), (1, 1)][: 1 + k % 5]
            ops = [[1, a, b, c09.bits_of_f(pal[(a * 3 + b + k) % 9])] for a, b in es]
            alts = [(x, "Alt %d" % x) for x in c09.nodes_of_ops(ops)]
            out.append(c09.mk_case(c09.default_meta(), 0, alts, ops)["payload"])
    return out


def rand_instance(cl, rng):
    if cl == 0:
        return c01.rand_instance(rng)
    if cl == 1:
        return c08.rand_instance(rng)
    # a small random matching instance (the generator of c09 is inlined in its generate())
    k = rng.randint(1, 8)
    scale = rng.choice([1, 1, 2, 6, 18])
    ids = rng.sample(range(0, k + 3), k) if scale == 1 else rng.sample(range(0, 10 ** scale + 1), k)
    ops = []
    for _ in range(rng.randint(1, 3 * k)):
        a = rng.choice(ids)
        b = a if rng.random() < 0.15 else rng.choice(ids)
        ops.append([1, a, b, c09.rand_weight_bits(rng)])
        if rng.random() < 0.2:
            ops.append([1, b, a, c09.rand_weight_bits(rng)])
    for _ in range(rng.randint(0, 2)):
        ops.insert(rng.randint(0, len(ops)), [0, rng.choice(ids)])
    nodes = c09.nodes_of_ops(ops)
    alts = [(n, c09.rand_text(rng) if rng.random() < 0.7 else "Alternative %d" % n) for n in nodes]
    return c09.mk_case(c09.default_meta(rng), rng.choice([0, len(nodes)]), alts, ops)["payload"]


def raw_variants(rng, cl):
    """contents outside the restyling quantifier"""
    s = CONTENTS[cl]
    ls = s.split("\n")[:-1]
    k = rng.randrange(len(ls) + 1)
    r = rng.random()
    if r < 0.25:
        ls.insert(k, rng.choice(["", " ", "\t", " \t "]))                     # blank / whitespace-only line
        return "\n".join(ls) + "\n"
    if r < 0.4:
        return s[:-1]                                                          # no final newline
    if r < 0.5:
        return s + rng.choice([" ", "\t", "\n", "\r\n", "\r"])                 # something after the last newline
    if r < 0.65:
        hdr = [l for l in ls if l.startswith("#")]
        bal = [l.replace(", ", ",\t").replace(": ", ":\t") for l in ls if not l.startswith("#")]
        return "\n".join(hdr + bal) + "\n"                                     # tabs inside ballot lines
    if r < 0.85:
        j = rng.randrange(len(ls))
        b = rng.choice(BREAKPAD)
        ls[j] = (b + ls[j]) if rng.random() < 0.5 else (ls[j] + b)             # "whitespace" that splitlines breaks at
        return rng.choice(EOLS).join(ls) + "\n"
    if r < 0.93:
        return "\n".join(l for l in ls if l.startswith("#")) + "\n"            # header only, no ballots
    return ""


def generate(tier, seed):
    rng = random.Random(1000003 * seed + 10)
    quick = tier == "quick"
    out = []
    # ---- gate matrix: every (class, extension) x entry point x content
    for cl in range(3):
        for ext in ALL_EXT + [""]:
            for e in range(4):
                if e == 2 and ext == "":
                    continue                      # a URL without extension: '.' of the scratch directory would be split
                if e == 3 and cl != 0:
                    continue                      # get_parsed_instance ignores the class
                for k, content in enumerate(CONTENTS):
                    ac, ho = (k + e) % 2, (k + cl + len(ext)) % 2
                    out.append(case("c10.gate", [cl, e, T(ext), T(content), ac, ho], gate=1))
    for cl in range(3):                            # parse_str with odd data types
        for dt in ["soc ", " cat", "Cat", "wmd\n", "toi.soc", "c", "soc,soi", "\u0441at"]:
            out.append(case("c10.gate", [cl, 1, T(dt), T(CONTENTS[cl]), 0, 0], gate=2))
    # every substring of the valid names, their concatenations, case and blank variants, for the gate of every class
    valid = ORD_EXT + ["cat", "wmd"]
    odd = set()
    for v in valid:
        odd |= {v[i:j] for i in range(len(v)) for j in range(i, len(v) + 1)}          # incl. "" and v itself
        odd |= {v.upper(), v.capitalize(), " " + v, v + " ", "\t" + v, v + "\n", v + v, "." + v, v + "."}
    odd |= {a + b for a in valid for b in valid} | {"soc,soi,toc,toi", "('cat')", "['soc', 'soi', 'toc', 'toi']"}
    for cl in range(3):
        for n, dt in enumerate(sorted(odd)):
            out.append(case("c10.gate", [cl, 1, T(dt), T(CONTENTS[cl]), 0, (n + cl) % 2], gate=3))
            if dt and all(ch.isalnum() for ch in dt):
                out.append(case("c10.gate", [cl, (0, 2, 3)[(n + cl) % 3], T(dt), T(CONTENTS[cl]), 0, n % 2], gate=3))
    # ---- sequences inside one case: several objects alive, one object parsed repeatedly (round-5 lessons)
    for n in range(36 if quick else 400):
        cl = n % 3
        ext = EXT_OF_CLASS[cl][(n // 3) % len(EXT_OF_CLASS[cl])]
        A, B = pair_contents(cl, ext, rng)
        wrong = [["cat", "wmd"], ["soc", "wmd", "toi"], ["cat", "toc"]][cl][(n // 3) % 2]
        out.append(case("c10.seq", [cl, T(ext), T(A), T(B), T(wrong)], seq=1))
    # ---- exhaustive uniform styles on small instances
    nsmall = 3 if quick else 12
    for cl in range(3):
        for ipl in small_instances(cl, nsmall, rng):
            for term in range(3):
                for pad in (0, 1):
                    for gaps in (0, 1):
                        for ac in (0, 1):
                            for ho in (0, 1):
                                out.append(case("c10.entry", [cl, ipl, ac, ho, uniform_style(term, pad, gaps)], exh=1))
    # ---- random instances x random styles
    for n in range(420 if quick else 9000):
        cl = n % 3
        ipl = rand_instance(cl, rng)
        ac, ho = int(rng.random() < 0.3), int(rng.random() < 0.35)
        out.append(case("c10.entry", [cl, ipl, ac, ho, rand_styles(rng)], rnd=1))
    # ---- file names: dots in the base name and in directories, case, spaces, non-ASCII
    stems = ["inst", "inst.v2", "a.b.c", "x.", "00002-00000001.v2", "Inst", "MY.File", "my file", "caf\u00e9 \u4e2d.1",
             "", "..", "x.y.", ".hid"]
    dirs = ["", "dir.v1", "a.b/c", "Dir With Space", "d\u00e9p.x", "plain"]
    k = 0
    for cl in range(3):
        wrong = ["cat", "wmd", "soc"][cl]
        for stem in stems:
            for ext in EXT_OF_CLASS[cl] + [wrong, "", EXT_OF_CLASS[cl][0].upper()]:
                base = stem + "." + ext if ext else stem
                if base in ("", ".", "..") or base.endswith("/"):
                    continue
                for ho in (0, 1):
                    for dname in (dirs if (not quick or stem in ("inst.v2", "inst")) else [dirs[k % len(dirs)]]):
                        k += 1
                        out.append(case("c10.name", [cl, T(dname), T(base), k % 2 if cl != 2 else 0, ho, (k // 2) % 2], name=1))
    # ---- large contents (more than one 65536-byte block; names with multi-byte UTF-8 characters)
    big = [(0, "soc", 4000, 0, 0, 0), (0, "toi", 3200, 0, 0, 1), (1, "cat", 2000, 0, 0, 0), (2, "wmd", 4500, 0, 0, 0),
           (1, "cat", 1800, 1, 1, 2)]
    if not quick:
        big += [(0, "toc", 6000, 0, 0, 0), (2, "wmd", 9000, 1, 0, 1), (1, "cat", 6000, 0, 0, 0), (0, "soi", 9000, 0, 1, 2),
                (0, "soc", 36000, 0, 0, 0), (2, "wmd", 50000, 0, 0, 0)]
    for cl, ext, n, ac, ho, term in big:
        out.append(case("c10.large", [cl, T(ext), n, seed, ac, ho, term], large=1))
    # ---- raw contents outside the quantifier: implementation against model
    for n in range(240 if quick else 4000):
        cl = n % 3
        content = raw_variants(rng, cl)
        e = rng.randrange(3)
        out.append(case("c10.raw", [cl, e, T(EXT_OF_CLASS[cl][n % len(EXT_OF_CLASS[cl])]), T(content),
                                    int(rng.random() < 0.3), int(rng.random() < 0.3)], raw=1))
    return out
