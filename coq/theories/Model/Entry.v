(* Model/Entry.v — mirror model of the parsing entry points of preflibtools (property C10):
     PrefLibInstance.parse_lines / parse_file / parse_str / parse_url   (instances/preflibinstance/instance.py)
     get_parsed_instance                                                 (instances/preflibinstance/utils.py)
     OrdinalInstance / CategoricalInstance / MatchingInstance.type_validator
   on top of the three file models Model/OrdIO.v, Model/CatIO.v, Model/WmdIO.v.
   Executable definitions only; lemmas are in Proofs/Entry.v, the theorems in Properties/C10.v.

   What is modelled
   - the three ways the entry points cut the content into lines (Lib/PyStr.v):
       parse_file : open(path, "r", encoding="utf-8").readlines()  (universal newlines)     = readlines
       parse_str  : string.splitlines()                                                      = splitlines
       parse_url  : [l.strip() for l in data.read().decode("utf-8").splitlines()]            = urllines
   - the data_type each entry point stores before parse_lines: the extension of the path / of the URL, or the
     data_type argument of parse_str.  It is the ONLY thing the gate looks at.
   - parse_lines: `if self.type_validator(self.data_type): … self.parse(…) else: raise TypeError`.  The raise
     happens before anything of the content is looked at: the model returns [Err TypeErr], i.e. no instance
     at all (in Python the object keeps the empty orders / preferences / graph it was created with).
   - get_parsed_instance: class chosen from the extension, TypeError for any other extension, then parse_file.
   What is not modelled: file_path (never read by any code) and the value file_name has BEFORE the header is read
   (basename of the path for parse_file, the file_name argument for parse_str, the URL's last component up to
   the first "." for parse_url).  These legitimately differ per entry point; a "# FILE NAME" header line — which
   every written file has — overwrites file_name.  "The same instance" in C10 therefore means: every attribute
   except file_path, and file_name as far as the content determines it.  The model starts from file_name = "".
   The UTF-8 codec is below the model (text = code points). *)
From Coq Require Import List NArith Bool String.
From PrefVerif Require Import Lib.Val Lib.Dec Lib.PyStr Model.Meta Model.OrdIO Model.CatIO Model.WmdIO.
Import ListNotations.

(* ------------------------------------------------------------------------------------------------ *)
(* classes, instances, flags                                                                        *)
(* ------------------------------------------------------------------------------------------------ *)
Inductive cls := COrd | CCat | CWmd.                      (* OrdinalInstance, CategoricalInstance, MatchingInstance *)

Inductive inst :=
| IOrd (i : oinst)
| ICat (i : cinst)
| IWmd (i : twinst).

Record flags := mkFlags { autocorrect : bool; header_only : bool }.

(* type_validator of the three classes *)
Definition type_validator (c : cls) (dt : text) : bool :=
  match c with
  | COrd => teqb dt (lit "soc") || teqb dt (lit "soi") || teqb dt (lit "toc") || teqb dt (lit "toi")
  | CCat => teqb dt (lit "cat")
  | CWmd => teqb dt (lit "wmd")
  end.

(* self.parse(lines, autocorrect, header_only) of the class — together with the part of parse_lines that
   follows a successful gate (the names reserved for autocorrect), on a fresh object whose inherited fields
   are [m0].  (cat_parse and wmd_parse repeat the gate of their own class on data_type m0; ord_parse does not.) *)
Definition class_parse (c : cls) (f : flags) (m0 : meta) (lines : list text) : result inst :=
  match c with
  | COrd => rmap IOrd (ord_parse (autocorrect f) (header_only f) m0 lines)
  | CCat => rmap ICat (cat_parse (autocorrect f) (header_only f) m0 lines)
  | CWmd => rmap IWmd (wmd_parse_tok (autocorrect f) (header_only f) m0 lines)
  end.

(* PrefLibInstance.parse_lines on a fresh instance of class c whose data_type has been set to dt *)
Definition parse_lines (c : cls) (dt : text) (f : flags) (lines : list text) : result inst :=
  if type_validator c dt then class_parse c f (meta0 dt) lines else Err TypeErr.

(* ------------------------------------------------------------------------------------------------ *)
(* the entry points                                                                                 *)
(* ------------------------------------------------------------------------------------------------ *)
Inductive entry := EFile | EStr | EUrl.

Definition split_entry (e : entry) (content : text) : list text :=
  match e with
  | EFile => readlines content
  | EStr => splitlines content
  | EUrl => urllines content
  end.

(* instance.parse_file(path) where path has extension ext and the file has the given content *)
Definition parse_file_model (c : cls) (ext : text) (f : flags) (content : text) : result inst :=
  parse_lines c ext f (readlines content).
(* instance.parse_str(content, dt) *)
Definition parse_str_model (c : cls) (dt : text) (f : flags) (content : text) : result inst :=
  parse_lines c dt f (splitlines content).
(* instance.parse_url(url) where url ends in "." ++ ext and the resource has the given content *)
Definition parse_url_model (c : cls) (ext : text) (f : flags) (content : text) : result inst :=
  parse_lines c ext f (urllines content).

Definition parse_entry (e : entry) (c : cls) (dt : text) (f : flags) (content : text) : result inst :=
  parse_lines c dt f (split_entry e content).

(* get_parsed_instance: extension (without the dot) -> class *)
Definition class_of_ext (ext : text) : option cls :=
  if teqb ext (lit "soc") || teqb ext (lit "soi") || teqb ext (lit "toc") || teqb ext (lit "toi") then Some COrd
  else if teqb ext (lit "cat") then Some CCat
  else if teqb ext (lit "wmd") then Some CWmd
  else None.

Definition get_parsed_instance_model (ext : text) (f : flags) (content : text) : result inst :=
  match class_of_ext ext with
  | Some c => parse_file_model c ext f content
  | None => Err TypeErr
  end.

(* ------------------------------------------------------------------------------------------------ *)
(* the declared type each entry point derives from the path / URL it is given                       *)
(* ------------------------------------------------------------------------------------------------ *)
(* s up to (not including) the first c *)
Fixpoint take_until (c : N) (s : text) : text :=
  match s with
  | [] => []
  | x :: r => if N.eqb x c then [] else x :: take_until c r
  end.
(* s.split(c)[-1] : what follows the LAST c; the whole of s when c does not occur *)
Definition after_last (c : N) (s : text) : text := rev (take_until c (rev s)).
Definition has_char (c : N) (s : text) : bool := existsb (N.eqb c) s.

(* parse_file: os.path.splitext(filepath)[1][1:]  (posixpath: the extension starts at the last dot of the LAST path
   component, unless only dots precede it in that component - ".soc" and "...soc" have no extension) *)
Definition splitext_ext (path : text) : text :=
  let base := after_last 47 path in
  if has_char 46 base then
    let e := after_last 46 base in
    let stem := firstn (List.length base - S (List.length e)) base in
    if forallb (N.eqb 46) stem then [] else e
  else [].
(* parse_url: url.split(".")[-1]  (what follows the last dot of the WHOLE url) *)
Definition url_ext (url : text) : text := after_last 46 url.

Definition parse_file_path (c : cls) (path : text) (f : flags) (content : text) : result inst :=
  parse_file_model c (splitext_ext path) f content.
Definition parse_url_url (c : cls) (url : text) (f : flags) (content : text) : result inst :=
  parse_url_model c (url_ext url) f content.
(* get_parsed_instance(path): os.path.splitext(path)[1] is compared with ".soc" ... ".wmd" *)
Definition get_parsed_instance_path (path : text) (f : flags) (content : text) : result inst :=
  get_parsed_instance_model (splitext_ext path) f content.

(* ------------------------------------------------------------------------------------------------ *)
(* observables shared by the three classes                                                          *)
(* ------------------------------------------------------------------------------------------------ *)
Definition inst_meta (i : inst) : meta :=
  match i with IOrd o => o_meta o | ICat c => c_meta c | IWmd w => w_meta w end.

(* "no ballots / no edges loaded": orders + multiplicity, preferences + multiplicity, node_mapping + weights *)
Definition inst_empty (i : inst) : bool :=
  match i with
  | IOrd o => match o_orders o, o_mult o with [], [] => true | _, _ => false end
  | ICat c => match c_prefs c, c_mult c with [], [] => true | _, _ => false end
  | IWmd w => match w_nodes w, w_weights w with [], [] => true | _, _ => false end
  end.

(* the header part of an instance: the same instance with the ballot list / graph emptied.  The counts that
   the header declares (num_unique_orders; num_unique_preferences, num_categories, categories_name;
   num_edges) are kept. *)
Definition header_of (i : inst) : inst :=
  match i with
  | IOrd o => IOrd (mkOinst (o_meta o) (o_num_unique o) [] [])
  | ICat c => ICat (set_c_ballots c [] [])
  | IWmd w => IWmd (mkW (w_meta w) (w_num_edges w) [] [])
  end.

(* ------------------------------------------------------------------------------------------------ *)
(* restyling a canonical text                                                                       *)
(* ------------------------------------------------------------------------------------------------ *)
(* A canonical text is what the writers produce: every line terminated by one LF.  A restyling keeps the
   lines and changes, per line,
     - the terminator: LF, CR LF or a lone CR                                        (line-ending style)
     - the padding: arbitrary whitespace before and after the line                    (lead / trail)
     - for ballot lines (lines whose first non-whitespace character is not "#"): runs of U+0020 inserted between characters, but
       never between two digits (i.e. not inside a number): gaps = the run length at each character boundary,
       boundary k being the one in front of the k-th character (a missing entry means 0; the entry of a
       boundary between two digits is ignored).
   [restyle pads t] applies the k-th description to the k-th line; lines beyond the list are left canonical. *)
Inductive eol := LF | CRLF | CR.
Definition eol_text (e : eol) : text :=
  match e with LF => [10%N] | CRLF => [13%N; 10%N] | CR => [13%N] end.

Record linestyle := mkStyle { lead : text; gaps : list nat; trail : text; term : eol }.
Definition plain : linestyle := mkStyle [] [] [] LF.

(* padding characters: whitespace for str.strip() that no splitter takes for a line boundary — U+0020, TAB,
   U+001F, U+00A0, U+1680, U+2000..U+200A, U+202F, U+205F, U+3000 *)
Definition is_pad (c : N) : bool := is_space c && negb (is_linebreak c).
Definition wf_style (s : linestyle) : bool := forallb is_pad (lead s) && forallb is_pad (trail s).
Definition wf_pad (pads : list linestyle) : bool := forallb wf_style pads.

Definition gap_ok (prev : option N) (c : N) : bool :=
  match prev with None => true | Some p => negb (is_digit p && is_digit c) end.

Fixpoint spread (prev : option N) (g : list nat) (s : text) : text :=
  match s with
  | [] => []
  | c :: r =>
    (if gap_ok prev c then repeat 32%N (hd O g) else []) ++ c :: spread (Some c) (tl g) r
  end.

(* a header line as every parser recognises it: line.strip().startswith("#") *)
Definition is_header_line (l : text) : bool := startswith (lit "#") (strip l).

Definition restyle_line (st : linestyle) (l : text) : text :=
  lead st ++ (if is_header_line l then l else spread None (gaps st) l) ++ trail st ++ eol_text (term st).

(* the lines of a canonical text (split at LF; a text that does not end in LF keeps its last piece) *)
Fixpoint lf_lines_aux (cur : text) (s : text) : list text :=
  match s with
  | [] => match cur with [] => [] | _ => [rev cur] end
  | c :: r => if N.eqb c 10 then rev cur :: lf_lines_aux [] r else lf_lines_aux (c :: cur) r
  end.
Definition lf_lines (s : text) : list text := lf_lines_aux [] s.

Fixpoint restyle_lines (pads : list linestyle) (ls : list text) : text :=
  match ls with
  | [] => []
  | l :: r => restyle_line (hd plain pads) l ++ restyle_lines (tl pads) r
  end.

Definition restyle (pads : list linestyle) (t : text) : text := restyle_lines pads (lf_lines t).
