(* Proofs/PQTreeSP.v — the PQ-tree soundness chain re-exported for C11: a True answer of the algorithm
   is_single_peaked_pq_tree runs (mirrored: sp_matrix, isC1P's duplicate removal, the PQ-tree) means the profile is
   single-peaked for weak orders (some axis passes the axis test). *)
From Coq Require Import List Arith NArith Bool Lia Permutation.
From PrefVerif Require Import Lib.Val Lib.Perms Lib.Contig Model.C1P Model.PQTree Model.SP Model.PQTreeSP.
From PrefVerif Require Import Proofs.C1P Proofs.PQTree Proofs.SP.
Import ListNotations.

(* the two consecutive-ones tests (C05's contig01, the shared library's ones_consecb) coincide *)
Lemma ones_zeros_drop_true l : ones_zeros l = forallb negb (drop_true l).
Proof. induction l as [|[|] t IH]; simpl; auto. Qed.

Lemma contig01_ones_consecb l : contig01 l = ones_consecb l.
Proof.
  unfold ones_consecb. induction l as [|[|] t IH]; simpl; auto. apply ones_zeros_drop_true.
Qed.

Lemma sp_rows_check_eq rows perm : sp_c1p_rows_check rows perm = forallb (row_contig perm) rows.
Proof.
  unfold sp_c1p_rows_check. induction rows as [|row rows IH]; simpl; [reflexivity|]. rewrite IH. f_equal.
  unfold sp_c1p_row_check, row_contig, permute_row, pick. symmetry. apply contig01_ones_consecb.
Qed.

Lemma sp_c1p_decide_eq rows nc : sp_c1p_decide rows nc = c1p_decide rows nc.
Proof.
  unfold sp_c1p_decide, c1p_decide. generalize (perms (seq 0 nc)). intros l.
  induction l as [|perm l IH]; simpl; [reflexivity|]. now rewrite IH, sp_rows_check_eq.
Qed.

(* isC1P with the mirrored PQ-tree: a True answer is right (any matrix), for a visiting order elems that covers the
   elements of the family handed to reorder_sets *)
Theorem pq_isC1P_opt_sound elems rows nc :
  incl (concat (dedup_sets (map (col_set rows) (seq 0 nc)))) elems ->
  isC1P_model (pq_reorder_opt elems) rows nc = true -> c1p_decide rows nc = true.
Proof.
  intros Hcov. unfold isC1P_model, pq_reorder_opt. pose proof (dedup_sets_family rows nc) as Hfam.
  destruct (pq_reorder elems (dedup_sets (map (col_set rows) (seq 0 nc)))) as [res|e] eqn:E; [|discriminate].
  intros _. apply (c1p_check_decide rows nc (flat_map (cols_of rows nc) res)).
  apply (family_witness rows nc _ res Hfam). now apply (pq_reorder_sound elems).
Qed.

Theorem pq_tree_sp_sound elems d (alts : list N) (p : list order) :
  NoDup alts -> Forall (complete_on alts) p ->
  incl (concat (dedup_sets (map (col_set (sp_matrix alts p)) (seq 0 (length alts))))) elems ->
  is_single_peaked_pq_tree_algo elems d alts p = Ok true ->
  exists axis, Permutation alts axis /\ sp_axis_profile p axis = true.
Proof.
  intros Hnd Hc Hcov Hres. unfold is_single_peaked_pq_tree_algo in Hres.
  destruct (dt_soc_toc d); [|discriminate].
  assert (Hb : isC1P_model (pq_reorder_opt elems) (sp_matrix alts p) (length alts) = true) by congruence. clear Hres.
  apply (pq_isC1P_opt_sound elems) in Hb; [|exact Hcov].
  apply (sp_matrix_correct alts p Hnd Hc). now rewrite sp_c1p_decide_eq.
Qed.

(* the type guard is the one of the reference model *)
Theorem pq_tree_algo_gate elems d alts p :
  dt_soc_toc d = false -> is_single_peaked_pq_tree_algo elems d alts p = Err TypeErr.
Proof. intros H. unfold is_single_peaked_pq_tree_algo. now rewrite H. Qed.

(* ---- completeness (Proofs/PQTreeComplete.v): the mirrored algorithm answers True whenever some axis passes the axis
   test; no hypothesis on the visiting order ---- *)
From PrefVerif Require Import Proofs.PQTreeComplete.

Theorem pq_isC1P_opt_complete elems rows nc :
  c1p_decide rows nc = true -> isC1P_model (pq_reorder_opt elems) rows nc = true.
Proof.
  intros Hd. unfold isC1P_model, pq_reorder_opt. pose proof (dedup_sets_family rows nc) as Hfam.
  apply c1p_decide_correct in Hd. destruct (family_arrangement rows nc _ Hfam Hd) as (res & Hres).
  destruct (pq_reorder_complete elems (dedup_sets (map (col_set rows) (seq 0 nc))) (ex_intro _ res Hres)) as (r & Hr).
  now rewrite Hr.
Qed.

Theorem pq_tree_sp_complete elems d (alts : list N) (p : list order) :
  NoDup alts -> Forall (complete_on alts) p -> dt_soc_toc d = true ->
  (exists axis, Permutation alts axis /\ sp_axis_profile p axis = true) ->
  is_single_peaked_pq_tree_algo elems d alts p = Ok true.
Proof.
  intros Hnd Hc Hd Hax. unfold is_single_peaked_pq_tree_algo. rewrite Hd. f_equal.
  apply pq_isC1P_opt_complete. rewrite <- sp_c1p_decide_eq. now apply (sp_matrix_correct alts p Hnd Hc).
Qed.

(* the mirrored algorithm decides weak-order single-peakedness *)
Theorem pq_tree_sp_correct elems d (alts : list N) (p : list order) :
  NoDup alts -> Forall (complete_on alts) p -> dt_soc_toc d = true ->
  incl (concat (dedup_sets (map (col_set (sp_matrix alts p)) (seq 0 (length alts))))) elems ->
  (is_single_peaked_pq_tree_algo elems d alts p = Ok true <->
   exists axis, Permutation alts axis /\ sp_axis_profile p axis = true).
Proof.
  intros Hnd Hc Hd Hcov. split; [now apply pq_tree_sp_sound|now apply pq_tree_sp_complete].
Qed.
