(* Proofs/WmdSort.v — the insertion sort of Model/WmdIO.v sorts (Sorted + Permutation); strictly sorted
   lists are determined by their elements; the order in which MatchingInstance.write visits the edges
   (edge_keys) is strictly increasing for the lexicographic order on (source, target). *)
From Coq Require Import List NArith ZArith Bool Lia Permutation Sorted.
From PrefVerif Require Import Lib.Val Lib.Dec Lib.PyStr Model.Meta Model.WmdIO.
Import ListNotations.

(* ---- insertion sort ---- *)
Lemma insert_Z_perm x l : Permutation (x :: l) (insert_Z x l).
Proof.
  induction l as [|y r IH]; simpl; [apply Permutation_refl|].
  destruct (Z.leb x y); [apply Permutation_refl|].
  eapply Permutation_trans; [apply perm_swap|]. now apply perm_skip.
Qed.

Theorem isort_Z_perm l : Permutation l (isort_Z l).
Proof.
  induction l as [|x r IH]; simpl; [constructor|].
  eapply Permutation_trans; [|apply insert_Z_perm]. now apply perm_skip.
Qed.

Lemma insert_Z_In x y l : In y (insert_Z x l) <-> y = x \/ In y l.
Proof.
  split; intros H.
  - apply (Permutation_in y (Permutation_sym (insert_Z_perm x l))) in H. simpl in H. intuition.
  - apply (Permutation_in y (insert_Z_perm x l)). simpl. intuition.
Qed.

Lemma insert_Z_sorted x l : StronglySorted Z.le l -> StronglySorted Z.le (insert_Z x l).
Proof.
  induction l as [|y r IH]; intros H; simpl.
  - constructor; constructor.
  - destruct (Z.leb_spec x y) as [L|L].
    + constructor; [exact H|]. constructor; [exact L|].
      apply StronglySorted_inv in H as [_ H]. rewrite Forall_forall in *. intros z Hz.
      specialize (H z Hz). lia.
    + apply StronglySorted_inv in H as [H1 H2]. constructor; [now apply IH|].
      rewrite Forall_forall in *. intros z Hz. apply insert_Z_In in Hz as [->|Hz]; [lia|now apply H2].
Qed.

Theorem isort_Z_sorted l : StronglySorted Z.le (isort_Z l).
Proof. induction l as [|x r IH]; simpl; [constructor|now apply insert_Z_sorted]. Qed.

Lemma isort_Z_In x l : In x (isort_Z l) <-> In x l.
Proof.
  split; intros H.
  - now apply (Permutation_in x (Permutation_sym (isort_Z_perm l))).
  - now apply (Permutation_in x (isort_Z_perm l)).
Qed.

Lemma isort_Z_NoDup l : NoDup l -> NoDup (isort_Z l).
Proof. intros H. eapply Permutation_NoDup; [apply isort_Z_perm|exact H]. Qed.

Lemma sorted_le_nodup_lt l : StronglySorted Z.le l -> NoDup l -> StronglySorted Z.lt l.
Proof.
  induction l as [|x r IH]; intros S D; [constructor|].
  apply StronglySorted_inv in S as [S1 S2]. inversion D as [|? ? D1 D2]; subst.
  constructor; [now apply IH|]. rewrite Forall_forall in *. intros y Hy.
  specialize (S2 y Hy). assert (x <> y) by (intros ->; contradiction). lia.
Qed.

Lemma isort_Z_strict l : NoDup l -> StronglySorted Z.lt (isort_Z l).
Proof. intros H. apply sorted_le_nodup_lt; [apply isort_Z_sorted|now apply isort_Z_NoDup]. Qed.

(* ---- strictly sorted lists with the same elements are equal ---- *)
Section Unique.
  Variable A : Type.
  Variable lt : A -> A -> Prop.
  Hypothesis lt_irrefl : forall x, ~ lt x x.
  Hypothesis lt_trans : forall x y z, lt x y -> lt y z -> lt x z.

  Lemma ssorted_unique : forall l1 l2, StronglySorted lt l1 -> StronglySorted lt l2 ->
    (forall x, In x l1 <-> In x l2) -> l1 = l2.
  Proof.
    induction l1 as [|a r1 IH]; intros [|b r2] S1 S2 E.
    - reflexivity.
    - exfalso. apply (E b). now left.
    - exfalso. apply (E a). now left.
    - apply StronglySorted_inv in S1 as [S1 F1]. apply StronglySorted_inv in S2 as [S2 F2].
      rewrite Forall_forall in F1, F2.
      assert (a = b) as ->.
      { destruct (proj1 (E a) (or_introl eq_refl)) as [->|Ha]; [reflexivity|].
        destruct (proj2 (E b) (or_introl eq_refl)) as [->|Hb]; [reflexivity|].
        exfalso. apply (lt_irrefl a). eapply lt_trans; [apply F1, Hb|apply F2, Ha]. }
      f_equal. apply IH; [exact S1|exact S2|]. intros x. split; intros Hx.
      + destruct (proj1 (E x) (or_intror Hx)) as [<-|H]; [|exact H].
        exfalso. apply (lt_irrefl b). now apply F1.
      + destruct (proj2 (E x) (or_intror Hx)) as [<-|H]; [|exact H].
        exfalso. apply (lt_irrefl b). now apply F2.
  Qed.

  Lemma ssorted_app l1 l2 : StronglySorted lt l1 -> StronglySorted lt l2 ->
    (forall x y, In x l1 -> In y l2 -> lt x y) -> StronglySorted lt (l1 ++ l2).
  Proof.
    induction l1 as [|a r IH]; intros S1 S2 C; simpl; [exact S2|].
    apply StronglySorted_inv in S1 as [S1 F1]. constructor.
    - apply IH; [exact S1|exact S2|]. intros x y Hx Hy. apply C; [now right|exact Hy].
    - rewrite Forall_forall in *. intros y Hy. apply in_app_or in Hy as [Hy|Hy]; [now apply F1|].
      apply C; [now left|exact Hy].
  Qed.

  Lemma ssorted_NoDup l : StronglySorted lt l -> NoDup l.
  Proof.
    induction l as [|a r IH]; intros S; [constructor|].
    apply StronglySorted_inv in S as [S F]. constructor; [|now apply IH].
    intros Ha. rewrite Forall_forall in F. apply (lt_irrefl a). now apply F.
  Qed.
End Unique.

(* ---- lexicographic order on (source, target) ---- *)
Definition plt (a b : Z * Z) : Prop := (fst a < fst b)%Z \/ (fst a = fst b /\ (snd a < snd b)%Z).

Lemma plt_irrefl x : ~ plt x x.
Proof. unfold plt. lia. Qed.
Lemma plt_trans x y z : plt x y -> plt y z -> plt x z.
Proof. unfold plt. lia. Qed.

Lemma ssorted_map_pair n l : StronglySorted Z.lt l -> StronglySorted plt (map (pair n) l).
Proof.
  induction l as [|x r IH]; intros S; simpl; [constructor|].
  apply StronglySorted_inv in S as [S F]. constructor; [now apply IH|].
  rewrite Forall_forall in *. intros y Hy. apply in_map_iff in Hy as [z [<- Hz]].
  right. simpl. split; [reflexivity|now apply F].
Qed.

Lemma ssorted_flat_pairs (f : Z -> list Z) ns :
  StronglySorted Z.lt ns -> (forall n, StronglySorted Z.lt (f n)) ->
  StronglySorted plt (flat_map (fun n => map (pair n) (f n)) ns).
Proof.
  intros S Hf. induction ns as [|n r IH]; simpl; [constructor|].
  apply StronglySorted_inv in S as [S F]. apply ssorted_app.
  - now apply ssorted_map_pair.
  - now apply IH.
  - intros x y Hx Hy. apply in_map_iff in Hx as [a [<- _]].
    apply in_flat_map in Hy as [n' [Hn' Hy]]. apply in_map_iff in Hy as [b [<- _]].
    left. simpl. rewrite Forall_forall in F. now apply F.
Qed.

Theorem edge_keys_sorted g : NoDup (keys g) -> (forall n, NoDup (nbrs g n)) ->
  StronglySorted plt (edge_keys g).
Proof.
  intros D Dn. unfold edge_keys. apply (ssorted_flat_pairs (fun n => isort_Z (nbrs g n))).
  - now apply isort_Z_strict.
  - intros n. now apply isort_Z_strict.
Qed.

Lemma edge_keys_In g n m : In (n, m) (edge_keys g) <-> In n (keys g) /\ In m (nbrs g n).
Proof.
  unfold edge_keys. rewrite in_flat_map. split.
  - intros [x [Hx H]]. apply in_map_iff in H as [y [E Hy]]. injection E as -> ->.
    split; [exact (proj1 (isort_Z_In _ _) Hx)|exact (proj1 (isort_Z_In _ _) Hy)].
  - intros [Hn Hm]. exists n. split; [exact (proj2 (isort_Z_In _ _) Hn)|].
    apply in_map_iff. exists m. split; [reflexivity|exact (proj2 (isort_Z_In _ _) Hm)].
Qed.

Lemma edge_keys_NoDup g : NoDup (keys g) -> (forall n, NoDup (nbrs g n)) -> NoDup (edge_keys g).
Proof.
  intros D Dn. apply (ssorted_NoDup _ plt plt_irrefl). now apply edge_keys_sorted.
Qed.
