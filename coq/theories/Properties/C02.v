(* Properties/C02.v — placeholder until Proofs/OrdState.v exists *)
From Coq Require Import List NArith.
From PrefVerif Require Import Lib.Val Model.OrdState.
Import ListNotations.
Example C02_run_example :
  n_vot (run [AppendOrder [1;2]%N; AppendVoteMap [([[1];[2]]%N, 2%N)]]) = 3%N.
Proof. vm_compute. reflexivity. Qed.
Print Assumptions C02_run_example.
