(* Extract.v — the only extraction site.  ExtrOcamlBasic only (bool, option, unit, list, prod,
   sumbool mapped to OCaml natives); N, Z, positive, nat, Q, ascii, string stay extracted inductives.
   No Extract Constant / Extract Inductive directive of our own. *)
From Coq Require Import List ZArith NArith String Decimal.
From PrefVerif Require Import Lib.Val.
From PrefVerif Require Ops.C01 Ops.C02 Ops.C03 Ops.C04 Ops.C05 Ops.C06 Ops.C07 Ops.C08 Ops.C09 Ops.C10
  Ops.C11 Ops.C12 Ops.C13 Ops.C14 Ops.C15 Ops.C16 Ops.C17 Ops.C18 Ops.C19 Ops.C20.
Require Extraction.
Require Import ExtrOcamlBasic.

Definition all_ops : optable :=
  Ops.C01.ops ++ Ops.C02.ops ++ Ops.C03.ops ++ Ops.C04.ops ++ Ops.C05.ops ++ Ops.C06.ops ++ Ops.C07.ops
  ++ Ops.C08.ops ++ Ops.C09.ops ++ Ops.C10.ops ++ Ops.C11.ops ++ Ops.C12.ops ++ Ops.C13.ops ++ Ops.C14.ops
  ++ Ops.C15.ops ++ Ops.C16.ops ++ Ops.C17.ops ++ Ops.C18.ops ++ Ops.C19.ops ++ Ops.C20.ops.

Definition dispatch (name : string) (v : val) : val :=
  match find_op all_ops name with Some f => f v | None => unknown_op end.

Definition z_of_int : Decimal.int -> Z := Z.of_int.
Definition z_to_int : Z -> Decimal.int := Z.to_int.

Set Extraction Output Directory "oracle".
Extraction "model.ml" dispatch z_of_int z_to_int.
