(* Proofs/ELPOptimal.v — towards optimality of the mirrored dynamic programme (Model/ELPDP.v).

   Part 1 (this file, proved): DOMINATION.  `place` only looks at the boundary of the axis (two alternatives on each
   side of the gap) and at the set X; hence a table entry with the same key (boundary, last placed set) and at least
   the same length can replay every continuation.  A `Run` is an idealised execution: a sequence of rounds
   i_1 < i_2 < .. with sets X_t eligible at round i_t after X_(t-1), each accepted by place.  dp_dominates_runs: the
   longest axis kept by the dynamic programme is at least as long as the axis of every Run, and as every Run followed
   by one rejected-but-extended placement (the locked axis of case_3), in spite of the pruning test
   `len(A) + len(remaining_alternatives) < len(longest)`.
   Part 2 (canonical_run): every single-peaked target set is built by a Run (place_complete + completeness of
   last_check and of the levels); elp_optimal follows. *)
From Coq Require Import List Arith NArith Bool Lia Permutation.
From PrefVerif Require Import Lib.Val Lib.Contig Lib.Subsets Model.SP Model.Deletion Model.ELPDP
                              Proofs.SP Proofs.Deletion Proofs.ELPDP Proofs.ELPComplete Proofs.ELPLevels Model.MaxAxis Proofs.MaxAxis.
Import ListNotations.

(* ---------------------------------------------------------------------------------------------- *)
(* 1. place depends on the axis only through its boundary                                          *)

Lemma boundary_left x A : boundary (x :: fst A, snd A) = (nth_error (fst A) 0, Some x, nth_error (snd A) 0, nth_error (snd A) 1).
Proof. reflexivity. Qed.
Lemma boundary_right x A : boundary (fst A, x :: snd A) = (nth_error (fst A) 1, nth_error (fst A) 0, Some x, nth_error (snd A) 0).
Proof. reflexivity. Qed.

Definition bnd_hd (bd : bnd) : option N * option N := match bd with (_, a1, a2, _) => (a1, a2) end.

(* the result of place, described from the boundary alone: None = returned unchanged with False;
   Some (side information, ok) otherwise *)
Inductive placed : Type :=
| PlNone
| PlLeft (x : N) (ok : bool)            (* x inserted left of the gap  *)
| PlRight (x : N) (ok : bool)           (* x inserted right of the gap *)
| PlBoth (u w : N).                     (* u left, w right, consistent *)

Definition apply_placed (A : paxis) (p : placed) : paxis * bool :=
  match p with
  | PlNone => (A, false)
  | PlLeft x ok => ((x :: fst A, snd A), ok)
  | PlRight x ok => ((fst A, x :: snd A), ok)
  | PlBoth u w => ((u :: fst A, w :: snd A), true)
  end.

Definition case_3_abs (bd : bnd) (x : N) (votes : list (list N)) : placed :=
  match bd with
  | (a0, a1, a2, a3) =>
    let st := if isS a1 || isS a2 then fold_left (c3_step (a0, a1, a2, a3) x) votes (false, false, false)
              else (false, false, false) in
    match st with
    | (fail, c, d) => if fail then PlNone else if d then PlRight x (negb (c && d)) else PlLeft x (negb (c && d))
    end
  end.

Definition case_2_abs (bd : bnd) (x1 x2 : N) (votes : list (list N)) : placed :=
  match bd with
  | (a0, a1, a2, a3) =>
    let st := if isS a1 || isS a2 then fold_left (c2_step (a0, a1, a2, a3) x1 x2) votes (false, false, false, false, false)
              else (false, false, false, false, false) in
    match st with
    | (fail, c1, d1, c2, d2) => if fail then PlNone else if c2 || d1 then PlBoth x2 x1 else PlBoth x1 x2
    end
  end.

Definition place_abs (pair_first : N -> N -> bool) (bd : bnd) (X : list N) (votes : list (list N)) : placed :=
  match X with
  | [x] => case_3_abs bd x votes
  | [a; b] => if pair_first a b then case_2_abs bd a b votes else case_2_abs bd b a votes
  | _ => PlNone
  end.

Lemma case_3_abs_ok A x votes : case_3 A x votes = apply_placed A (case_3_abs (boundary A) x votes).
Proof.
  unfold case_3, case_3_abs. destruct (boundary A) as [[[a0 a1] a2] a3].
  destruct (if isS a1 || isS a2 then _ else _) as [[f c] d]. destruct f; [reflexivity|]. destruct d; reflexivity.
Qed.

Lemma case_2_abs_ok A x1 x2 votes : case_2 A x1 x2 votes = apply_placed A (case_2_abs (boundary A) x1 x2 votes).
Proof.
  unfold case_2, case_2_abs. destruct (boundary A) as [[[a0 a1] a2] a3].
  destruct (if isS a1 || isS a2 then _ else _) as [[[[f c1] d1] c2] d2]. destruct f; [reflexivity|].
  destruct (c2 || d1); reflexivity.
Qed.

Theorem place_abs_ok pf A X votes : place pf A X votes = apply_placed A (place_abs pf (boundary A) X votes).
Proof.
  unfold place, place_abs. destruct X as [|a [|b [|c X]]]; try reflexivity.
  - apply case_3_abs_ok.
  - destruct (pf a b); apply case_2_abs_ok.
Qed.

(* what apply_placed does to the boundary, the length and the equality test *)
Definition bnd_after (bd : bnd) (p : placed) : bnd :=
  match bd, p with
  | _, PlNone => bd
  | (a0, a1, a2, a3), PlLeft x _ => (a1, Some x, a2, a3)
  | (a0, a1, a2, a3), PlRight x _ => (a0, a1, Some x, a2)
  | (a0, a1, a2, a3), PlBoth u w => (a1, Some u, Some w, a2)
  end.
Definition gain (p : placed) : nat := match p with PlNone => 0 | PlLeft _ _ | PlRight _ _ => 1 | PlBoth _ _ => 2 end.

Lemma apply_placed_boundary A p : boundary (fst (apply_placed A p)) = bnd_after (boundary A) p.
Proof. destruct A as [M1 M2]. destruct p; reflexivity. Qed.

Lemma apply_placed_len A p : pa_len (fst (apply_placed A p)) = pa_len A + gain p.
Proof. destruct A as [M1 M2]. destruct p; unfold pa_len; simpl; lia. Qed.

Lemma apply_placed_ok A B p : snd (apply_placed A p) = snd (apply_placed B p).
Proof. destruct p; reflexivity. Qed.

Lemma apply_placed_eqb A p : pa_eqb (fst (apply_placed A p)) A = match p with PlNone => true | _ => false end.
Proof.
  destruct A as [M1 M2].
  assert (L : forall (x : N) M, (if list_eq_dec N.eq_dec (x :: M) M then true else false) = false).
  { intros x M. destruct (list_eq_dec N.eq_dec (x :: M) M) as [E|]; [|reflexivity].
    exfalso. apply (f_equal (@length N)) in E. simpl in E. lia. }
  destruct p; unfold pa_eqb; cbn [apply_placed fst snd].
  - apply (pa_eqb_refl (M1, M2)).
  - now rewrite L.
  - rewrite L. apply andb_false_r.
  - now rewrite L.
Qed.

(* ---------------------------------------------------------------------------------------------- *)
(* 2. tables                                                                                       *)

Lemma tbl_get_In t k B : tbl_get t k = Some B -> In (k, B) t.
Proof.
  induction t as [|[k' A'] r IH]; simpl; [discriminate|]. destruct (key_eq_dec k k') as [->|].
  - intros E. injection E as ->. now left.
  - intros E. right. now apply IH.
Qed.

Lemma tbl_get_set_same t k A : tbl_get (tbl_set t k A) k = Some A.
Proof.
  induction t as [|[k' A'] r IH]; simpl.
  - destruct (key_eq_dec k k); congruence.
  - destruct (key_eq_dec k k') as [->|Hne]; simpl.
    + destruct (key_eq_dec k' k'); congruence.
    + destruct (key_eq_dec k k'); [congruence|assumption].
Qed.

Lemma tbl_get_set_other t k A k' : k' <> k -> tbl_get (tbl_set t k A) k' = tbl_get t k'.
Proof.
  intros Hne. induction t as [|[k0 A0] r IH]; simpl.
  - destruct (key_eq_dec k' k); congruence.
  - destruct (key_eq_dec k k0) as [->|Hk]; simpl.
    + destruct (key_eq_dec k' k0); congruence.
    + destruct (key_eq_dec k' k0); [reflexivity|assumption].
Qed.

Lemma fold_left_elem {S T} (f : S -> T -> S) (I P : S -> Prop) l x s :
  In x l -> I s -> (forall s y, I s -> I (f s y)) -> (forall s, I s -> P (f s x)) ->
  (forall s y, I s -> P s -> P (f s y)) -> P (fold_left f l s).
Proof.
  intros Hx Hs HI HP Hpres. revert s Hs. induction l as [|y l IH]; intros s Hs; [contradiction|]. simpl.
  destruct Hx as [->|Hx].
  - assert (G : forall l' s', I s' -> P s' -> P (fold_left f l' s')).
    { induction l' as [|z l' IH']; intros s' Is' Ps'; [assumption|]. simpl. apply IH'; auto. }
    apply G; auto.
  - apply IH; auto.
Qed.

Definition lk_len (st : dp_state) : nat := pa_len (s_locked st).

(* ---------------------------------------------------------------------------------------------- *)
(* 3. one extension step                                                                           *)

Section Ext.
Variables (votes : list (list N)) (pair_first : N -> N -> bool).

Definition TblOK (st : dp_state) : Prop :=
  forall bd Y B, In ((bd, Y), B) (s_cur st) -> boundary B = bd /\ pa_len B <= lg_len st.

Definition better_table (st st' : dp_state) : Prop :=
  (forall k B, tbl_get (s_cur st) k = Some B -> exists B', tbl_get (s_cur st') k = Some B' /\ pa_len B <= pa_len B') /\
  lg_len st <= lg_len st' /\ lk_len st <= lk_len st'.

Lemma better_refl st : better_table st st.
Proof. split; [eauto|]. split; lia. Qed.

Lemma better_trans a b c : better_table a b -> better_table b c -> better_table a c.
Proof.
  intros (A1 & A2 & A3) (B1 & B2 & B3). split; [|split; lia].
  intros k B H. destruct (A1 k B H) as (B' & H' & L). destruct (B1 k B' H') as (B'' & H'' & L'). exists B''. split; [assumption|lia].
Qed.

Lemma ext_step_better A st X : better_table st (ext_step pair_first votes A st X).
Proof.
  unfold ext_step. destruct (place pair_first A X votes) as [A' [|]].
  - split; [|split]; cbn [s_cur s_longest s_locked]; unfold lg_len, lk_len; cbn [s_longest s_locked].
    + intros k B H. destruct (tbl_get (s_cur st) (boundary A', X)) as [B0|] eqn:E0.
      * destruct (Nat.ltb_spec (pa_len B0) (pa_len A')); [|eauto].
        destruct (key_eq_dec k (boundary A', X)) as [->|Hne].
        -- rewrite tbl_get_set_same. exists A'. split; [reflexivity|]. rewrite E0 in H. injection H as <-. lia.
        -- rewrite tbl_get_set_other by assumption. eauto.
      * destruct (key_eq_dec k (boundary A', X)) as [->|Hne]; [congruence|].
        rewrite tbl_get_set_other by assumption. eauto.
    + destruct (Nat.ltb_spec (pa_len (s_longest st)) (pa_len A')); lia.
    + lia.
  - destruct (negb (pa_eqb A' A) && (pa_len (s_locked st) <? pa_len A')) eqn:E; [|apply better_refl].
    apply andb_true_iff in E. destruct E as [_ E]. apply Nat.ltb_lt in E.
    split; [eauto|]. unfold lg_len, lk_len. cbn [s_longest s_locked]. lia.
Qed.

Lemma ext_step_tblok A st X : TblOK st -> TblOK (ext_step pair_first votes A st X).
Proof.
  intros H. unfold ext_step. destruct (place pair_first A X votes) as [A' [|]].
  - intros bd Y B Hin. cbn [s_cur] in Hin. unfold lg_len. cbn [s_longest].
    assert (Hlg : pa_len (s_longest st) <= pa_len (if pa_len (s_longest st) <? pa_len A' then A' else s_longest st) /\
                  pa_len A' <= pa_len (if pa_len (s_longest st) <? pa_len A' then A' else s_longest st)).
    { destruct (Nat.ltb_spec (pa_len (s_longest st)) (pa_len A')); lia. }
    assert (Hold : In ((bd, Y), B) (s_cur st) ->
              boundary B = bd /\ pa_len B <= pa_len (if pa_len (s_longest st) <? pa_len A' then A' else s_longest st)).
    { intros Hi. destruct (H bd Y B Hi) as [E L]. unfold lg_len in L. split; [assumption|lia]. }
    assert (Hnew : forall e, In e (tbl_set (s_cur st) (boundary A', X) A') -> e = ((boundary A', X), A') \/ In e (s_cur st))
      by (intros e; apply tbl_set_In).
    destruct (tbl_get (s_cur st) (boundary A', X)) as [B0|].
    + destruct (pa_len B0 <? pa_len A'); [|now apply Hold].
      destruct (Hnew _ Hin) as [E|Hi]; [injection E as -> -> ->; split; [reflexivity|lia]|now apply Hold].
    + destruct (Hnew _ Hin) as [E|Hi]; [injection E as -> -> ->; split; [reflexivity|lia]|now apply Hold].
  - destruct (negb (pa_eqb A' A) && (pa_len (s_locked st) <? pa_len A')); [|assumption].
    intros bd Y B Hin. exact (H bd Y B Hin).
Qed.

(* the effect of the step for the placed set itself *)
Lemma ext_step_post A st X A' ok : place pair_first A X votes = (A', ok) ->
  let st' := ext_step pair_first votes A st X in
  (ok = true -> (exists B'', tbl_get (s_cur st') (boundary A', X) = Some B'' /\ pa_len A' <= pa_len B'') /\ pa_len A' <= lg_len st') /\
  (ok = false -> pa_eqb A' A = false -> pa_len A' <= lk_len st').
Proof.
  intros Hpl st'. unfold st', ext_step. rewrite Hpl. destruct ok; split; try discriminate.
  - intros _. cbn [s_cur]. unfold lg_len. cbn [s_longest]. split.
    + destruct (tbl_get (s_cur st) (boundary A', X)) as [B0|] eqn:E0.
      * destruct (Nat.ltb_spec (pa_len B0) (pa_len A')).
        -- rewrite tbl_get_set_same. eauto.
        -- rewrite E0. eauto.
      * rewrite tbl_get_set_same. eauto.
    + destruct (Nat.ltb_spec (pa_len (s_longest st)) (pa_len A')); lia.
  - intros _ Hne. rewrite Hne. cbn [negb andb]. unfold lk_len.
    destruct (Nat.ltb_spec (pa_len (s_locked st)) (pa_len A')); cbn [s_locked]; lia.
Qed.
End Ext.

(* ---------------------------------------------------------------------------------------------- *)
(* 4. what an accepted placement does to the axis                                                  *)

Lemma place_shape pf A x1 x2 votes A' ok : place pf A (mkset x1 x2) votes = (A', ok) ->
  (A' = A /\ ok = false) \/
  ((forall a, In a (pa_elems A') <-> In a (pa_elems A) \/ In a (mkset x1 x2)) /\
   pa_len A' = pa_len A + length (mkset x1 x2) /\ pa_eqb A' A = false).
Proof.
  intros Hpl. rewrite place_abs_ok in Hpl.
  assert (Hshape : forall p, (A', ok) = apply_placed A p ->
            match p with
            | PlNone => A' = A /\ ok = false
            | PlLeft x _ | PlRight x _ => (forall a, In a (pa_elems A') <-> In a (pa_elems A) \/ a = x) /\ pa_len A' = pa_len A + 1 /\ pa_eqb A' A = false
            | PlBoth u w => (forall a, In a (pa_elems A') <-> In a (pa_elems A) \/ a = u \/ a = w) /\ pa_len A' = pa_len A + 2 /\ pa_eqb A' A = false
            end).
  { intros p E. pose proof (apply_placed_eqb A p) as Q. pose proof (apply_placed_len A p) as Ln.
    rewrite <- E in Q, Ln. cbn [fst] in Q, Ln. destruct A as [M1 M2]. destruct p; cbn [apply_placed fst snd] in E; injection E as -> ->.
    - auto.
    - split; [|split; [exact Ln|assumption]]. intros a. rewrite pa_elems_left. unfold pa_elems. cbn [fst snd].
      rewrite !in_app_iff. simpl. intuition auto.
    - split; [|split; [exact Ln|assumption]]. intros a. unfold pa_elems. cbn [fst snd].
      rewrite !in_app_iff. simpl. intuition auto.
    - split; [|split; [exact Ln|assumption]]. intros a. rewrite pa_elems_both. unfold pa_elems. cbn [fst snd].
      rewrite !in_app_iff. simpl. intuition auto. }
  unfold mkset in *. destruct (N.eqb_spec x1 x2) as [->|Hne].
  - cbn [place_abs] in Hpl. specialize (Hshape _ (eq_sym Hpl)). unfold case_3_abs in *.
    destruct (boundary A) as [[[a0 a1] a2] a3]. destruct (if isS a1 || isS a2 then _ else _) as [[f c] d].
    destruct f; [left; exact Hshape|right]. destruct d; destruct Hshape as (H1 & H2 & H3); (split; [|split; [cbn [length]; lia|assumption]]);
      intros a; rewrite H1; simpl; intuition auto.
  - assert (G : forall y1 y2, ((y1 = x1 /\ y2 = x2) \/ (y1 = x2 /\ y2 = x1)) ->
              (A', ok) = apply_placed A (case_2_abs (boundary A) y1 y2 votes) ->
              (A' = A /\ ok = false) \/
              ((forall a, In a (pa_elems A') <-> In a (pa_elems A) \/ a = x1 \/ a = x2) /\ pa_len A' = pa_len A + 2 /\ pa_eqb A' A = false)).
    { intros y1 y2 Hy E. specialize (Hshape _ E). unfold case_2_abs in *.
      destruct (boundary A) as [[[a0 a1] a2] a3]. destruct (if isS a1 || isS a2 then _ else _) as [[[[f c1] d1] c2] d2].
      destruct f; [left; exact Hshape|right]. destruct (c2 || d1); destruct Hshape as (H1 & H2 & H3); (split; [|split; assumption]);
        intros a; rewrite H1; destruct Hy as [[-> ->]|[-> ->]]; intuition auto. }
    destruct (N.ltb x1 x2); cbn [place_abs] in Hpl.
    + destruct (pf x1 x2); [destruct (G x1 x2 (or_introl (conj eq_refl eq_refl)) (eq_sym Hpl)) as [H|(H1 & H2 & H3)]|
                            destruct (G x2 x1 (or_intror (conj eq_refl eq_refl)) (eq_sym Hpl)) as [H|(H1 & H2 & H3)]];
        [now left|right|now left|right]; (split; [|split; [cbn [length]; lia|assumption]]); intros a; rewrite H1; simpl; intuition auto.
    + destruct (pf x2 x1); [destruct (G x2 x1 (or_intror (conj eq_refl eq_refl)) (eq_sym Hpl)) as [H|(H1 & H2 & H3)]|
                            destruct (G x1 x2 (or_introl (conj eq_refl eq_refl)) (eq_sym Hpl)) as [H|(H1 & H2 & H3)]];
        [now left|right|now left|right]; (split; [|split; [cbn [length]; lia|assumption]]); intros a; rewrite H1; simpl; intuition auto.
Qed.

(* ---------------------------------------------------------------------------------------------- *)
(* 5. runs, the potential, and the rounds of the dynamic programme                                 *)

Lemma In_skipn_nth {T} (l : list T) n x d : In x (skipn n l) -> exists k, n <= k < length l /\ nth k l d = x.
Proof.
  revert l. induction n as [|n IH]; intros l H.
  - simpl in H. apply (In_nth _ _ d) in H. destruct H as (k & Hk & E). exists k. split; [lia|assumption].
  - destruct l as [|y l]; [contradiction|]. simpl in H. destruct (IH l H) as (k & Hk & E). exists (S k). simpl. split; [lia|assumption].
Qed.

Lemma In_firstn {T} n (l : list T) y : In y (firstn n l) -> In y l.
Proof.
  revert l. induction n as [|n IH]; intros l Hy; [contradiction|]. destruct l; [contradiction|].
  destruct Hy as [<-|Hy]; [now left|right; now apply IH].
Qed.

Lemma mkset_in x1 x2 a : In a (mkset x1 x2) <-> a = x1 \/ a = x2.
Proof.
  unfold mkset. destruct (N.eqb_spec x1 x2) as [->|]; [simpl; intuition auto|].
  destruct (N.ltb x1 x2); simpl; intuition auto.
Qed.

Lemma mkset_nodup x1 x2 : NoDup (mkset x1 x2).
Proof.
  unfold mkset. destruct (N.eqb_spec x1 x2) as [->|Hne]; [repeat constructor; auto|].
  destruct (N.ltb x1 x2); repeat constructor; simpl; intuition congruence.
Qed.

Section Dom.
Variables (alts : list N) (votes : list (list N)).
Hypothesis Halts : NoDup alts.
Hypothesis Hvotes : forall v, In v votes -> NoDup v /\ incl alts v.
Variable pair_first : N -> N -> bool.
Variable ext_order : list (list N) -> list (list N).
Hypothesis Hext : forall l X, In X (ext_order l) -> In X l.
Let m := length alts.
Let Ls := get_L_sets alts votes.

Inductive Run : nat -> paxis -> list N -> Prop :=
| run0 : Run 0 pa_empty []
| runS j A Y i X A' : Run j A Y -> j < i -> i <= m -> In X (eligible ext_order i m Y Ls votes) ->
                      place pair_first A X votes = (A', true) -> Run i A' X.

Lemma Ls_incl : forall L, In L Ls -> incl L alts.
Proof. apply L_sets_incl. Qed.

Lemma Run_inv j A Y : Run j A Y -> Inv alts votes A Y.
Proof.
  induction 1 as [|j A Y i X A' _ IH _ _ Hel Hpl]; [apply Inv_empty|].
  destruct (eligible_spec alts votes ext_order Hext i m Y Ls X Ls_incl Hel) as (x1 & x2 & -> & H1 & H2 & Hlc).
  now apply (place_inv alts votes Hvotes pair_first A Y x1 x2 A' true IH H1 H2 Hlc Hpl).
Qed.

(* alternatives of python level > k *)
Definition remP (k : nat) : list N := filter (fun c => negb (memN c (concat (Lspec alts votes k)))) alts.
Definition phi (A : paxis) (k : nat) : nat := length (filter (fun c => negb (memN c (pa_elems A))) (remP k)).

Lemma remP_in k a : In a (remP k) <-> In a alts /\ ~ In a (concat (Lspec alts votes k)).
Proof. unfold remP. rewrite filter_In, negb_true_iff, memN_false. reflexivity. Qed.

Lemma remP_nodup k : NoDup (remP k).
Proof. now apply NoDup_filter. Qed.

Lemma remP_mono k a : In a (remP (S k)) -> In a (remP k).
Proof.
  rewrite !remP_in. intros [H1 H2]. split; [assumption|]. intros H. apply H2. cbn [Lspec]. rewrite concat_app.
  apply in_or_app. now left.
Qed.

Lemma level_in_remP k j a : k <= j -> at_level alts votes j a -> In a (remP k).
Proof.
  intros Hkj Hl. apply remP_in. split; [apply (level_alts alts votes Hvotes j a Hl)|]. intros H.
  apply in_Lspec_level in H. destruct H as (j0 & Hj0 & Hl0).
  apply (levels_disjoint alts votes Hvotes j0 j a); auto. lia.
Qed.

Lemma elig_in_rem i Y X : 1 <= i -> i <= m -> In X (eligible ext_order i m Y Ls votes) ->
  forall x, In x X -> In x (remP (i - 1)).
Proof.
  intros Hi1 Him HX x Hx. unfold eligible in HX. apply Hext in HX. apply nodup_In in HX.
  assert (ELs : Ls = Lspec alts votes m) by apply get_L_sets_spec.
  assert (HLi : forall y, In y (nth (i - 1) Ls []) -> at_level alts votes (i - 1) y).
  { intros y Hy. unfold at_level. rewrite <- (Lspec_nth alts votes m (i - 1)) by lia. now rewrite <- ELs. }
  apply in_flat_map in HX. destruct HX as (x1 & H1 & HX). apply in_flat_map in HX. destruct HX as (x2 & H2 & HX).
  destruct (last_check votes Y x1 x2); [|contradiction]. destruct HX as [<-|[]].
  apply mkset_in in Hx. destruct Hx as [-> | ->].
  - apply (level_in_remP (i - 1) (i - 1)); [lia|now apply HLi].
  - apply dedupN_incl in H2. apply in_app_or in H2. destruct H2 as [H2|H2].
    + apply (level_in_remP (i - 1) (i - 1)); [lia|now apply HLi].
    + apply in_concat in H2. destruct H2 as (L & HL & Hx2). apply In_firstn in HL.
      apply (In_skipn_nth _ _ _ []) in HL. destruct HL as (k & Hk & E).
      apply (level_in_remP (i - 1) k); [lia|]. unfold at_level.
      rewrite ELs, Lspec_length in Hk. rewrite <- (Lspec_nth alts votes m k) by lia. rewrite <- ELs, E. exact Hx2.
Qed.

Lemma phi_le A k : phi A k <= length (remP k).
Proof.
  unfold phi. generalize (remP k). intros l. induction l as [|y l IH]; simpl; [lia|].
  destruct (negb (memN y (pa_elems A))); simpl; lia.
Qed.

Lemma phi_mono A k : phi A (S k) <= phi A k.
Proof.
  unfold phi. apply NoDup_incl_length; [apply NoDup_filter, remP_nodup|].
  intros a Ha. apply filter_In in Ha. apply filter_In. split; [apply remP_mono|]; tauto.
Qed.

(* an accepted (or locked) placement at round i uses up potential *)
Lemma phi_step j A Y i X A' ok : Run j A Y -> 1 <= i -> i <= m -> In X (eligible ext_order i m Y Ls votes) ->
  place pair_first A X votes = (A', ok) -> pa_eqb A' A = false ->
  phi A' i + length X <= phi A (i - 1) /\ pa_len A' = pa_len A + length X.
Proof.
  intros HR Hi1 Him Hel Hpl Hne. pose proof (Run_inv j A Y HR) as HI.
  pose proof (elig_in_rem i Y X Hi1 Him Hel) as Hrem.
  destruct (eligible_spec alts votes ext_order Hext i m Y Ls X Ls_incl Hel) as (x1 & x2 & -> & H1 & H2 & Hlc).
  destruct (place_shape pair_first A x1 x2 votes A' ok Hpl) as [[-> _]|(Hel' & Hlen & _)];
    [rewrite pa_eqb_refl in Hne; discriminate|]. split; [|assumption].
  pose proof (inv_fresh alts votes Hvotes A Y x1 x2 HI H1 H2 Hlc) as Hfresh.
  unfold phi. rewrite Nat.add_comm, <- app_length. apply NoDup_incl_length.
  -     assert (Hd : forall a, In a (mkset x1 x2) -> ~ In a (filter (fun c => negb (memN c (pa_elems A'))) (remP i))).
    { intros a Ha Hf. apply filter_In in Hf. destruct Hf as [_ Hf]. apply negb_true_iff, memN_false in Hf.
      apply Hf. apply Hel'. now right. }
    pose proof (mkset_nodup x1 x2) as N1.
    assert (N2 : NoDup (filter (fun c => negb (memN c (pa_elems A'))) (remP i))) by apply NoDup_filter, remP_nodup.
    clear -Hd N1 N2. induction (mkset x1 x2) as [|y l IH]; [exact N2|]. simpl. inversion N1; subst. constructor.
    + intros H. apply in_app_or in H. destruct H as [H|H]; [contradiction|]. apply (Hd y); [now left|assumption].
    + apply IH; [|assumption]. intros a Ha. apply Hd. now right.
  - intros a Ha. apply in_app_or in Ha. apply filter_In. destruct Ha as [Ha|Ha].
    + split; [now apply Hrem|]. apply negb_true_iff, memN_false. intros HaA. destruct (Hfresh a HaA) as (N1 & N2 & _).
      apply mkset_in in Ha. destruct Ha; congruence.
    + apply filter_In in Ha. destruct Ha as [Ha Hf]. split.
      * replace i with (S (i - 1)) in Ha by lia. now apply remP_mono.
      * apply negb_true_iff, memN_false. apply negb_true_iff, memN_false in Hf. intros HaA. apply Hf. apply Hel'. now left.
Qed.

Lemma Run_le j A Y : Run j A Y -> j <= m.
Proof. induction 1; lia. Qed.

Definition dominated (st : dp_state) (A : paxis) (Y : list N) : Prop :=
  exists B, tbl_get (s_cur st) (boundary A, Y) = Some B /\ pa_len A <= pa_len B.
Definition DomAll (k : nat) (st : dp_state) : Prop :=
  forall j A Y, j <= k -> Run j A Y -> dominated st A Y \/ pa_len A + phi A k <= lg_len st.
Definition LockedAll (k : nat) (st : dp_state) : Prop :=
  forall j A Y i X A', Run j A Y -> j < i -> i <= k -> In X (eligible ext_order i m Y Ls votes) ->
    place pair_first A X votes = (A', false) -> pa_eqb A' A = false ->
    pa_len A' <= Nat.max (lg_len st) (lk_len st).

Lemma dominated_better st st' A Y : better_table st st' -> dominated st A Y -> dominated st' A Y.
Proof.
  intros (H & _ & _) (B & E & L). destruct (H _ _ E) as (B' & E' & L'). exists B'. split; [assumption|lia].
Qed.

Lemma key_step_better i rem st e : better_table st (key_step pair_first ext_order i m Ls votes rem st e).
Proof.
  destruct e as [[bd Y] A]. unfold key_step. destruct (pa_len A + length rem <? pa_len (s_longest st)); [apply better_refl|].
  apply (fold_left_inv _ (fun s => better_table st s)); [|apply better_refl].
  intros X _ s' Hs'. eapply better_trans; [exact Hs'|apply ext_step_better].
Qed.

Lemma key_step_tblok i rem st e : TblOK st -> TblOK (key_step pair_first ext_order i m Ls votes rem st e).
Proof.
  intros H. destruct e as [[bd Y] A]. unfold key_step. destruct (pa_len A + length rem <? pa_len (s_longest st)); [assumption|].
  apply fold_left_inv; [|assumption]. intros X _ s' Hs'. now apply ext_step_tblok.
Qed.

(* processing the table entry that dominates a run extends the domination to the run's next step *)
Lemma process_entry k j0 A0 Y0 B0 X A ok s : TblOK s -> Run j0 A0 Y0 -> j0 <= k -> S k <= m ->
  boundary B0 = boundary A0 -> pa_len A0 <= pa_len B0 ->
  In X (eligible ext_order (S k) m Y0 Ls votes) -> place pair_first A0 X votes = (A, ok) -> pa_eqb A A0 = false ->
  let s' := key_step pair_first ext_order (S k) m Ls votes (remP k) s ((boundary A0, Y0), B0) in
  (ok = true -> dominated s' A X \/ pa_len A + phi A (S k) <= lg_len s') /\
  (ok = false -> pa_len A <= Nat.max (lg_len s') (lk_len s')).
Proof.
  intros Hok HR Hj Hk Hbd Hlen Hel Hpl Hne s'.
  destruct (phi_step j0 A0 Y0 (S k) X A ok HR ltac:(lia) Hk Hel Hpl Hne) as [Hphi HlenA].
  replace (S k - 1) with k in Hphi by lia.
  unfold s', key_step. destruct (Nat.ltb_spec (pa_len B0 + length (remP k)) (pa_len (s_longest s))) as [Hpr|Hnpr].
  - (* pruned *)
    pose proof (phi_le A0 k). unfold lg_len. split; intros _; [right|]; lia.
  - (* every eligible set is tried on B0 *)
    set (p := place_abs pair_first (boundary B0) X votes).
    assert (HplB : place pair_first B0 X votes = apply_placed B0 p) by apply place_abs_ok.
    assert (HplA : (A, ok) = apply_placed A0 p) by (unfold p; rewrite Hbd, <- place_abs_ok; now symmetry).
    assert (HokB : snd (apply_placed B0 p) = ok) by (rewrite (apply_placed_ok B0 A0 p), <- HplA; reflexivity).
    assert (HbdB : boundary (fst (apply_placed B0 p)) = boundary A).
    { rewrite apply_placed_boundary, Hbd, <- apply_placed_boundary, <- HplA. reflexivity. }
    assert (HlenB : pa_len A <= pa_len (fst (apply_placed B0 p))).
    { rewrite apply_placed_len. pose proof (apply_placed_len A0 p) as L. rewrite <- HplA in L. cbn [fst] in L. lia. }
    assert (HneB : pa_eqb (fst (apply_placed B0 p)) B0 = false).
    { rewrite apply_placed_eqb. pose proof (apply_placed_eqb A0 p) as Q. rewrite <- HplA in Q. cbn [fst] in Q. congruence. }
    apply (fold_left_elem (ext_step pair_first votes B0) (fun _ => True)
             (fun s1 => (ok = true -> dominated s1 A X \/ pa_len A + phi A (S k) <= lg_len s1) /\
                        (ok = false -> pa_len A <= Nat.max (lg_len s1) (lk_len s1)))
             _ X s Hel I); [auto| |].
    + intros s1 _. destruct (apply_placed B0 p) as [B' ok'] eqn:EB. cbn [fst snd] in *. subst ok'.
      destruct (ext_step_post votes pair_first B0 s1 X B' ok HplB) as [P1 P2]. split.
      * intros ->. destruct (P1 eq_refl) as [(B'' & E & L) _]. left. exists B''. rewrite <- HbdB. split; [assumption|lia].
      * intros ->. specialize (P2 eq_refl HneB). lia.
    + intros s1 Y1 _ [Q1 Q2]. pose proof (ext_step_better votes pair_first B0 s1 Y1) as Hb. split.
      * intros E. destruct (Q1 E) as [D|D]; [left; eapply dominated_better; eauto|right].
        destruct Hb as (_ & Hb & _). lia.
      * intros E. specialize (Q2 E). destruct Hb as (_ & Hb1 & Hb2). lia.
Qed.

Lemma round_step k st : S k <= m -> TblOK st -> DomAll k st -> LockedAll k st ->
  let st' := fold_left (key_step pair_first ext_order (S k) m Ls votes (remP k)) (s_cur st) st in
  TblOK st' /\ DomAll (S k) st' /\ LockedAll (S k) st'.
Proof.
  intros Hk Hok HD HL st'.
  assert (Hbetter : better_table st st').
  { apply (fold_left_inv _ (fun s => better_table st s)); [|apply better_refl].
    intros e _ s' Hs'. eapply better_trans; [exact Hs'|apply key_step_better]. }
  assert (Hok' : TblOK st') by (apply fold_left_inv; [intros e _ s' Hs'; now apply key_step_tblok|assumption]).
  (* the generic argument for a run extended at round k+1 *)
  assert (Hnew : forall j0 A0 Y0 X A ok, Run j0 A0 Y0 -> j0 <= k -> In X (eligible ext_order (S k) m Y0 Ls votes) ->
            place pair_first A0 X votes = (A, ok) -> pa_eqb A A0 = false ->
            (ok = true -> dominated st' A X \/ pa_len A + phi A (S k) <= lg_len st') /\
            (ok = false -> pa_len A <= Nat.max (lg_len st') (lk_len st'))).
  { intros j0 A0 Y0 X A ok HR Hj Hel Hpl Hne.
    destruct (phi_step j0 A0 Y0 (S k) X A ok HR ltac:(lia) Hk Hel Hpl Hne) as [Hphi HlenA].
    replace (S k - 1) with k in Hphi by lia.
    destruct (HD j0 A0 Y0 Hj HR) as [(B0 & E0 & L0)|Hdead].
    - pose proof (tbl_get_In _ _ _ E0) as Hin. destruct (Hok _ _ _ Hin) as [Hbd _].
      apply (fold_left_elem (key_step pair_first ext_order (S k) m Ls votes (remP k)) TblOK
               (fun s1 => (ok = true -> dominated s1 A X \/ pa_len A + phi A (S k) <= lg_len s1) /\
                          (ok = false -> pa_len A <= Nat.max (lg_len s1) (lk_len s1)))
               _ _ st Hin Hok).
      + intros s1 e H1. now apply key_step_tblok.
      + intros s1 H1. now apply (process_entry k j0 A0 Y0 B0 X A ok s1).
      + intros s1 e _ [Q1 Q2]. pose proof (key_step_better (S k) (remP k) s1 e) as Hb. split.
        * intros E. destruct (Q1 E) as [D|D]; [left; eapply dominated_better; eauto|right].
          destruct Hb as (_ & Hb & _). lia.
        * intros E. specialize (Q2 E). destruct Hb as (_ & Hb1 & Hb2). lia.
    - destruct Hbetter as (_ & Hb & _). split; intros _; [right|]; lia. }
  split; [assumption|]. split.
  - intros j A Y Hj HR. destruct (Nat.eq_dec j (S k)) as [->|Hne].
    + inversion HR as [|j0 A0 Y0 i X A' HR0 Hlt Hle Hel Hpl]; subst.
      assert (Hne : pa_eqb A A0 = false).
      { destruct (eligible_spec alts votes ext_order Hext _ _ _ _ _ Ls_incl Hel) as (x1 & x2 & -> & _).
        destruct (place_shape _ _ _ _ _ _ _ Hpl) as [[_ E]|(_ & _ & E)]; [discriminate|assumption]. }
      destruct (Hnew j0 A0 Y0 Y A true HR0 ltac:(lia) Hel Hpl Hne) as [Q _]. now apply Q.
    + destruct (HD j A Y ltac:(lia) HR) as [D|D]; [left; eapply dominated_better; eauto|right].
      pose proof (phi_mono A k). destruct Hbetter as (_ & Hb & _). lia.
  - intros j A Y i X A' HR Hlt Hle Hel Hpl Hne. destruct (Nat.eq_dec i (S k)) as [->|Hni].
    + destruct (Hnew j A Y X A' false HR ltac:(lia) Hel Hpl Hne) as [_ Q]. now apply Q.
    + specialize (HL j A Y i X A' HR Hlt ltac:(lia) Hel Hpl Hne). destruct Hbetter as (_ & Hb1 & Hb2). lia.
Qed.

Definition st0 : dp_state := mk_dp init_table pa_empty pa_empty.

Lemma remP_next k : k < m -> filter (fun c => negb (memN c (nth k Ls []))) (remP k) = remP (S k).
Proof.
  intros Hk. unfold remP. rewrite filter_filter_and. apply filter_ext. intros a.
  assert (E : nth k Ls [] = next_level alts votes (Lspec alts votes k)).
  { unfold Ls. rewrite get_L_sets_spec. now apply Lspec_nth. }
  rewrite E. cbn [Lspec]. rewrite concat_app. cbn [concat]. rewrite app_nil_r, memN_app.
  destruct (memN a (concat (Lspec alts votes k))), (memN a (next_level alts votes (Lspec alts votes k))); reflexivity.
Qed.

Lemma rounds k : k <= m ->
  let r := fold_left (outer_step pair_first ext_order m Ls votes) (seq 1 k) (st0, alts) in
  snd r = remP k /\ TblOK (fst r) /\ DomAll k (fst r) /\ LockedAll k (fst r).
Proof.
  induction k as [|k IH]; intros Hk.
  - cbn [seq fold_left fst snd]. split; [|split; [|split]].
    + unfold remP. cbn [Lspec concat]. symmetry. apply filter_all_true. reflexivity.
    + intros bd Y B [E|[]]. injection E as <- <- <-. split; [reflexivity|]. unfold lg_len. cbn. lia.
    + intros j A Y Hj HR. assert (j = 0) by lia. subst. inversion HR; subst; [|lia]. left. exists pa_empty.
      split; [|lia]. unfold st0, init_table. cbn [s_cur tbl_get].
      destruct (key_eq_dec (boundary pa_empty, []) (None, None, None, None, [])) as [|n]; [reflexivity|exfalso; apply n; reflexivity].
    + intros j A Y i X A' _ H1 H2. lia.
  - rewrite seq_S, fold_left_app. cbn [fold_left Nat.add]. destruct (IH ltac:(lia)) as (E1 & E2 & E3 & E4).
    destruct (fold_left (outer_step pair_first ext_order m Ls votes) (seq 1 k) (st0, alts)) as [st rem].
    cbn [fst snd] in *. subst rem. unfold outer_step. cbn [fst snd].
    replace (S k - 1) with k by lia. split; [apply remP_next; lia|].
    now apply round_step.
Qed.

(* the dynamic programme keeps an axis at least as long as that of every run, and as every locked extension *)
Theorem dp_dominates_runs :
  let r := longest_axis pair_first ext_order alts votes in
  (forall j A Y, Run j A Y -> pa_len A <= S (length (fst r))) /\
  (forall j A Y i X A', Run j A Y -> j < i -> i <= m -> In X (eligible ext_order i m Y Ls votes) ->
     place pair_first A X votes = (A', false) -> pa_eqb A' A = false -> pa_len A' <= S (length (fst r))).
Proof.
  unfold longest_axis. cbv zeta. cbn [fst]. fold m Ls. fold st0.
  destruct (rounds m (Nat.le_refl m)) as (_ & Hok & HD & HL).
  set (stf := fst (fold_left (outer_step pair_first ext_order m Ls votes) (seq 1 m) (st0, alts))) in *.
  assert (Hres : forall B, S (length (pa_elems B)) = pa_len B).
  { intros [M1 M2]. unfold pa_elems, pa_len. cbn [fst snd]. rewrite app_length, rev_length. reflexivity. }
  assert (Hmax : S (length (pa_elems (if pa_len (s_longest stf) <? pa_len (s_locked stf) then s_locked stf else s_longest stf)))
                 = Nat.max (lg_len stf) (lk_len stf)).
  { rewrite Hres. unfold lg_len, lk_len. destruct (Nat.ltb_spec (pa_len (s_longest stf)) (pa_len (s_locked stf))); lia. }
  rewrite Hmax. split.
  - intros j A Y HR. destruct (HD j A Y (Run_le j A Y HR) HR) as [(B & E & L)|D]; [|lia].
    apply tbl_get_In in E. destruct (Hok _ _ _ E) as [_ Hle]. lia.
  - intros j A Y i X A' HR Hlt Hle Hel Hpl Hne. now apply (HL j A Y i X A').
Qed.
End Dom.

(* ---------------------------------------------------------------------------------------------- *)
(* 6. completeness of last_check                                                                   *)

Section LastCheck.
Variables (alts : list N) (votes : list (list N)).
Hypothesis Hvotes : forall v, In v votes -> NoDup v /\ incl alts v.

Lemma last_check_complete Y U x1 x2 : incl U alts -> incl Y alts ->
  isbottom votes U x1 -> isbottom votes U x2 ->
  (Y = [] \/ forall v, In v votes -> exists y, In y Y /\ forall u, In u U -> rk v u < rk v y) ->
  last_check votes Y x1 x2 = true.
Proof.
  intros HU HY (v1 & Hv1 & B1) (v2 & Hv2 & B2) Hprev. unfold last_check.
  set (restr := [x1; x2] ++ Y).
  assert (Hx1U : In x1 U) by apply B1. assert (Hx2U : In x2 U) by apply B2.
  apply andb_true_iff. split.
  - apply negb_true_iff, orb_false_iff.
    assert (G : forall x, In x U -> memN x (flat_map (fun v => last_opt (filter (fun a => memN a restr) v)) votes) && negb (is_nil Y) = false).
    { intros x Hx. destruct Hprev as [->|Hprev]; [apply andb_false_r|].
      destruct (memN x _) eqn:E; [exfalso|reflexivity]. apply memN_last_opt in E. destruct E as (v & Hv & Hne & Ex).
      destruct (Hvotes v Hv) as [Nv Iv]. destruct (Hprev v Hv) as (y & Hy & Hlow).
      assert (Fy : memN y restr = true) by (apply memN_In; unfold restr; apply in_or_app; now right).
      destruct (last_filter_max v (fun a => memN a restr) 0%N Nv y (Iv y (HY y Hy)) Fy) as (_ & _ & Hle).
      rewrite <- Ex in Hle. specialize (Hlow x Hx). lia. }
    split; apply G; assumption.
  - assert (G : forall x x' v, In v votes -> bottom_in v U x -> In x' U -> (x = x1 \/ x = x2) -> (x' = x1 \/ x' = x2) ->
                (forall z, z = x1 \/ z = x2 -> z = x \/ z = x') ->
                memN x (flat_map (fun v => last_opt (filter (fun a => memN a [x1; x2]) (filter (fun a => memN a restr) v))) votes) = true).
    { intros x x' v Hv [HxU Hb] Hx'U Hx Hx' Hcov. apply memN_last_opt. exists v. split; [assumption|].
      destruct (Hvotes v Hv) as [Nv Iv]. rewrite filter_filter_and.
      set (f := fun a => memN a restr && memN a [x1; x2]).
      assert (Fx : f x = true).
      { unfold f, restr. apply andb_true_iff. split; apply memN_In; simpl; destruct Hx as [-> | ->]; auto. }
      destruct (last_filter_max v f 0%N Nv x (Iv x (HU x HxU)) Fx) as (E1 & E2 & E3). split.
      - intros E. assert (In x (filter f v)) by (apply filter_In; split; [apply Iv, HU|]; assumption). rewrite E in H. contradiction.
      - set (e := last (filter f v) 0%N) in *. unfold f in E2. apply andb_true_iff in E2. destruct E2 as [_ E2].
        apply memN_In in E2. simpl in E2.
        assert (He : e = x \/ e = x') by (apply Hcov; destruct E2 as [E2|[E2|[]]]; auto).
        destruct He as [He|He]; [now symmetry|]. destruct (N.eq_dec e x) as [|Hne]; [now symmetry|exfalso].
        assert (rk v e < rk v x) by (apply Hb; [rewrite He; assumption|assumption]). lia. }
    apply andb_true_iff. split.
    + apply (G x1 x2 v1 Hv1 B1 Hx2U); auto; intros z [-> | ->]; auto.
    + apply (G x2 x1 v2 Hv2 B2 Hx1U); auto; intros z [-> | ->]; auto.
Qed.
End LastCheck.

(* ---------------------------------------------------------------------------------------------- *)
(* 7. the canonical run of a single-peaked target                                                  *)

Lemma mkset_comm a b : mkset a b = mkset b a.
Proof.
  unfold mkset. destruct (N.eqb_spec a b) as [->|Hne].
  - now rewrite N.eqb_refl.
  - destruct (N.eqb_spec b a) as [E|_]; [congruence|].
    destruct (N.ltb_spec a b), (N.ltb_spec b a); try reflexivity; lia.
Qed.

Lemma nth_in_firstn {T} d n : forall (l : list T) k', k' < n -> k' < length l -> In (nth k' l d) (firstn n l).
Proof.
  induction n as [|n IHn]; intros l k' H2 H3; [lia|].
  destruct l as [|y l]; [simpl in H3; lia|]. destruct k' as [|k']; [now left|]. simpl. right. apply IHn; simpl in *; lia.
Qed.

Lemma nth_in_firstn_skipn {T} d n k : forall (l : list T) k', k <= k' -> k' < k + n -> k' < length l ->
  In (nth k' l d) (firstn n (skipn k l)).
Proof.
  induction k as [|k IH]; intros l k' H1 H2 H3.
  - simpl. apply nth_in_firstn; lia.
  - destruct l as [|y l]; [simpl in H3; lia|]. destruct k' as [|k']; [lia|]. simpl. apply IH; simpl in *; lia.
Qed.

Section Canon.
Variables (alts : list N) (votes : list (list N)).
Hypothesis Halts : NoDup alts.
Hypothesis Hvotes : forall v, In v votes -> NoDup v /\ incl alts v.
Hypothesis Hvne : votes <> [].
Variable pair_first : N -> N -> bool.
Variable ext_order : list (list N) -> list (list N).
Hypothesis Hext : forall l X, In X (ext_order l) <-> In X l.
Let m := length alts.
Let Ls := get_L_sets alts votes.
Let Hext1 : forall l X, In X (ext_order l) -> In X l := fun l X => proj1 (Hext l X).

Notation remPk := (remP alts votes).
Notation lev := (at_level alts votes).

Lemma remP_Gd k u : In u (remPk k) <-> Gd alts (Lspec alts votes k) u = true.
Proof. rewrite remP_in, (Gd_true alts). reflexivity. Qed.

Lemma level_of u : In u alts -> exists k, k < m /\ lev k u.
Proof. intros H. apply level_total; auto. Qed.

Lemma remP_level_ge j k u : In u (remPk j) -> lev k u -> j <= k.
Proof.
  intros Hr Hl. destruct (le_lt_dec j k) as [|Hlt]; [assumption|exfalso].
  apply remP_in in Hr. apply (proj2 Hr). now apply (level_in_Lspec alts votes k j).
Qed.

Lemma min_level n : forall U j, m - j <= n -> U <> [] -> incl U alts -> (forall u, In u U -> In u (remPk j)) ->
  exists k, j <= k /\ k < m /\ (forall u, In u U -> In u (remPk k)) /\ exists x, In x U /\ lev k x.
Proof.
  induction n as [|n IH]; intros U j Hn HU Hin Hrem.
  - destruct U as [|u0 U']; [congruence|]. destruct (level_of u0 (Hin u0 (or_introl eq_refl))) as (k0 & Hk0 & Hl0).
    pose proof (remP_level_ge j k0 u0 (Hrem u0 (or_introl eq_refl)) Hl0). lia.
  - destruct (existsb (fun u => memN u (next_level alts votes (Lspec alts votes j))) U) eqn:E.
    + apply existsb_exists in E. destruct E as (x & Hx & Hm). apply memN_In in Hm.
      destruct (level_of x (Hin x Hx)) as (k0 & Hk0 & Hl0).
      assert (k0 = j).
      { destruct (Nat.lt_trichotomy k0 j) as [H|[H|H]]; [|assumption|]; exfalso.
        - apply (levels_disjoint alts votes Hvotes k0 j x H Hl0 Hm).
        - apply (levels_disjoint alts votes Hvotes j k0 x H Hm Hl0). }
      subst k0. exists j. repeat split; auto. exists x. auto.
    + assert (Hno : forall u, In u U -> ~ lev j u).
      { intros u Hu Hl. assert (existsb (fun u => memN u (next_level alts votes (Lspec alts votes j))) U = true); [|congruence].
        apply existsb_exists. exists u. split; [assumption|now apply memN_In]. }
      assert (Hjm : S j <= m).
      { destruct U as [|u0 U']; [congruence|]. destruct (level_of u0 (Hin u0 (or_introl eq_refl))) as (k0 & Hk0 & Hl0).
        pose proof (remP_level_ge j k0 u0 (Hrem u0 (or_introl eq_refl)) Hl0).
        destruct (Nat.eq_dec k0 j) as [->|]; [exfalso; apply (Hno u0 (or_introl eq_refl) Hl0)|lia]. }
      destruct (IH U (S j) ltac:(lia) HU Hin) as (k & H1 & H2 & H3 & H4).
      * intros u Hu. apply remP_in. split; [now apply Hin|]. intros Hc. cbn [Lspec] in Hc. rewrite concat_app in Hc.
        apply in_app_or in Hc. destruct Hc as [Hc|Hc]; [pose proof (Hrem u Hu) as Hr; apply remP_in in Hr; apply (proj2 Hr Hc)|].
        simpl in Hc. rewrite app_nil_r in Hc. now apply (Hno u Hu).
      * exists k. repeat split; auto. lia.
Qed.

Lemma level_bottom U k x : (forall u, In u U -> In u (remPk k)) -> In x U -> lev k x -> isbottom votes U x.
Proof.
  intros Hrem Hx Hl. apply (next_level_iff alts votes Hvotes) in Hl. destruct Hl as (_ & v & Hv & Hb).
  exists v. split; [assumption|]. split; [assumption|]. intros u Hu Hne. apply Hb; [|assumption]. now apply remP_Gd, Hrem.
Qed.

(* the partner of a bottom at level k is eligible: it cannot sit alone in the last of the |alts| levels *)
Lemma partner_level U k x x' : (forall u, In u U -> In u (remPk k)) -> incl U alts -> In x U -> lev k x -> k < m ->
  isbottom votes U x' -> x' <> x -> exists k', k <= k' /\ k' + 1 < m + (if Nat.eqb k' k then 1 else 0) /\ lev k' x'.
Proof.
  intros Hrem Hin Hx Hl Hk (w & Hw & Bw) Hne.
  assert (Hx' : In x' U) by apply Bw.
  destruct (level_of x' (Hin x' Hx')) as (k' & Hk' & Hl').
  pose proof (remP_level_ge k k' x' (Hrem x' Hx') Hl') as Hge.
  exists k'. split; [assumption|]. split; [|assumption].
  destruct (Nat.eqb_spec k' k) as [->|Hkk]; [lia|].
  destruct (Nat.eq_dec k' (m - 1)) as [E|]; [exfalso|lia].
  (* every level is a singleton; the vote w ranks x last among the remaining ones, hence below x' *)
  destruct (Hvotes w Hw) as [Nw Iw].
  destruct (exists_worst w (remaining_after alts (Lspec alts votes k)) Nw) as (d & Hd & Hbot).
  { intros b Hb. apply (remaining_in alts) in Hb. apply Iw. tauto. }
  { intros E0. assert (In x (remaining_after alts (Lspec alts votes k))); [|rewrite E0 in H; contradiction].
    apply (remaining_in alts). apply remP_in. now apply Hrem. }
  assert (Hld : lev k d).
  { apply (next_level_iff alts votes Hvotes). apply (remaining_in alts) in Hd. split; [now apply (Gd_true alts)|].
    exists w. split; [assumption|]. intros b Gb Hb. apply Hbot; [|assumption]. apply (remaining_in alts). now apply (Gd_true alts) in Gb. }
  assert (d = x).
  { subst k'. eapply (top_level_singletons alts votes) with (a := x') (k := k); try eassumption; auto. }
  subst d.
  assert (H1 : rk w x' < rk w x).
  { apply Hbot; [|assumption]. apply (remaining_in alts). apply remP_in. now apply Hrem. }
  assert (H2 : rk w x < rk w x') by (apply (proj2 Bw); auto). lia.
Qed.

Lemma eligible_complete k Y x x' : k < m -> lev k x ->
  (exists k', k <= k' /\ k' + 1 < m + (if Nat.eqb k' k then 1 else 0) /\ lev k' x') ->
  last_check votes Y x x' = true -> In (mkset x x') (eligible ext_order (S k) m Y Ls votes).
Proof.
  intros Hk Hl (k' & Hge & Hlt & Hl') Hlc. unfold eligible. apply Hext. apply nodup_In.
  assert (ELs : Ls = Lspec alts votes m) by apply get_L_sets_spec.
  assert (Enth : forall j, j < m -> nth j Ls [] = next_level alts votes (Lspec alts votes j)).
  { intros j Hj. rewrite ELs. now apply Lspec_nth. }
  replace (S k - 1) with k by lia. apply in_flat_map. exists x. split; [rewrite Enth by assumption; exact Hl|].
  apply in_flat_map. exists x'. split; [|rewrite Hlc; now left].
  apply dedupN_complete. apply in_or_app. destruct (Nat.eqb_spec k' k) as [->|Hkk].
  - left. rewrite Enth by assumption. exact Hl'.
  - right. apply in_concat. exists (nth k' Ls []). split.
    + apply nth_in_firstn_skipn; [assumption|lia|]. rewrite ELs, Lspec_length. lia.
    + rewrite Enth by lia. exact Hl'.
Qed.

Definition PrevLast (Y U : list N) : Prop :=
  Y = [] \/ forall v, In v votes -> exists y, In y Y /\ forall u, In u U -> rk v u < rk v y.

Notation RunC := (Run alts votes pair_first ext_order).

Lemma canon n : forall j A Y U, length U <= n -> RunC j A Y -> completable votes A U ->
  NoDup (pa_elems A ++ U) -> incl (pa_elems A ++ U) alts -> (forall u, In u U -> In u (remPk j)) ->
  PrevLast Y U -> incl Y alts ->
  (exists j' A' Y', RunC j' A' Y' /\ pa_len A' = pa_len A + length U) \/
  (exists j0 A0 Y0 i X A', RunC j0 A0 Y0 /\ j0 < i /\ i <= m /\ In X (eligible ext_order i m Y0 Ls votes) /\
     place pair_first A0 X votes = (A', false) /\ pa_eqb A' A0 = false /\ pa_len A' = pa_len A + length U).
Proof.
  induction n as [|n IH]; intros j A Y U Hn HR Hc Hnd Hin Hrem Hprev HY.
  - destruct U; [|simpl in Hn; lia]. left. exists j, A, Y. split; [assumption|cbn [length]; lia].
  - destruct U as [|u0 U0] eqn:EU; [left; exists j, A, Y; split; [assumption|cbn [length]; lia]|]. rewrite <- EU in *.
    assert (HUne : U <> []) by (rewrite EU; discriminate).
    assert (HinU : incl U alts) by (intros a Ha; apply Hin; apply in_or_app; now right).
    assert (Hwf : forall v, In v votes -> NoDup v /\ incl (pa_elems A ++ U) v).
    { intros v Hv. destruct (Hvotes v Hv) as [N1 N2]. split; [assumption|]. intros a Ha. apply N2. now apply Hin. }
    destruct (place_complete votes Hvne pair_first A U HUne Hnd Hwf Hc)
      as (x1 & x2 & B1 & B2 & Bcov & A' & ok & Hpl & Hlen & Hperm & Hc' & Hok & Hne).
    set (X := mkset x1 x2) in *.
    destruct (min_level (m - j) U j (Nat.le_refl _) HUne HinU Hrem) as (k & Hjk & Hkm & Hremk & x & Hx & Hlx).
    pose proof (level_bottom U k x Hremk Hx Hlx) as Bx.
    assert (Hx1U : In x1 U) by (destruct B1 as (? & _ & H & _); exact H).
    assert (Hx2U : In x2 U) by (destruct B2 as (? & _ & H & _); exact H).
    (* X is eligible at round k + 1 *)
    assert (Hel : In X (eligible ext_order (S k) m Y Ls votes)).
    { assert (Hlc : last_check votes Y x1 x2 = true) by (apply (last_check_complete alts votes Hvotes Y U); auto).
      destruct (Bcov x Bx) as [-> | ->].
      - apply eligible_complete; auto.
        destruct (N.eq_dec x2 x1) as [->|Hd]; [exists k; rewrite Nat.eqb_refl; repeat split; auto; lia|].
        apply (partner_level U k x1 x2); auto.
      - unfold X. rewrite mkset_comm. apply eligible_complete; auto.
        + destruct (N.eq_dec x1 x2) as [->|Hd]; [exists k; rewrite Nat.eqb_refl; repeat split; auto; lia|].
          apply (partner_level U k x2 x1); auto.
        + assert (Hlc' : last_check votes Y x2 x1 = true) by (apply (last_check_complete alts votes Hvotes Y U); auto).
          exact Hlc'. }
    assert (HlenU : length U = length X + length (rest X U)).
    { apply Permutation_length in Hperm. rewrite !app_length in Hperm.
      assert (Hres : forall B, S (length (pa_elems B)) = pa_len B).
      { intros [M1 M2]. unfold pa_elems, pa_len. cbn [fst snd]. rewrite app_length, rev_length. reflexivity. }
      pose proof (Hres A). pose proof (Hres A'). lia. }
    assert (HX1 : 1 <= length X) by (unfold X, mkset; destruct (N.eqb x1 x2); [simpl; lia|destruct (N.ltb x1 x2); simpl; lia]).
    destruct (rest X U) as [|r0 R0] eqn:ER.
    + (* the last step *)
      destruct ok.
      * left. exists (S k), A', X. split; [|simpl in HlenU; lia].
        apply (runS alts votes pair_first ext_order j A Y (S k) X A'); auto; lia.
      * right. exists j, A, Y, (S k), X, A'. repeat split; auto; try lia. simpl in HlenU. lia.
    + assert (Hok' : ok = true) by (apply Hok; discriminate). subst ok. rewrite <- ER in *.
      assert (HR' : RunC (S k) A' X) by (apply (runS alts votes pair_first ext_order j A Y (S k) X A'); auto; lia).
      assert (Hsub : forall u, In u (rest X U) -> In u U /\ ~ In u X).
      { intros u Hu. unfold rest in Hu. apply filter_In in Hu. destruct Hu as [H1 H2]. split; [assumption|].
        now apply negb_true_iff, memN_false in H2. }
      destruct (IH (S k) A' X (rest X U)) as [(j' & A'' & Y'' & HR'' & Hl'')|(j0 & A0 & Y0 & i & X0 & A'' & H1 & H2 & H3 & H4 & H5 & H6 & H7)].
      * lia.
      * assumption.
      * assumption.
      * eapply Permutation_NoDup; [apply Permutation_sym; exact Hperm|assumption].
      * intros a Ha. apply Hin. eapply Permutation_in; [exact Hperm|assumption].
      * intros u Hu. destruct (Hsub u Hu) as [HuU HuX]. apply remP_in. split; [now apply HinU|].
        intros Hcc. cbn [Lspec] in Hcc. rewrite concat_app in Hcc. apply in_app_or in Hcc. destruct Hcc as [Hcc|Hcc].
        -- pose proof (Hremk u HuU) as Hr. apply remP_in in Hr. tauto.
        -- simpl in Hcc. rewrite app_nil_r in Hcc. pose proof (level_bottom U k u Hremk HuU Hcc) as Bu.
           apply HuX. apply mkset_in. now apply Bcov.
      * right. intros v Hv. destruct (Hvotes v Hv) as [Nv Iv].
        destruct (exists_worst v U Nv) as (y & By); [intros a Ha; apply Iv; now apply HinU|assumption|].
        exists y. assert (HyX : In y X) by (apply mkset_in; apply Bcov; exists v; auto). split; [assumption|].
        intros u Hu. destruct (Hsub u Hu) as [HuU HuX]. apply (proj2 By); [assumption|]. intros ->. contradiction.
      * intros a Ha. apply mkset_in in Ha. destruct Ha as [-> | ->]; now apply HinU.
      * left. exists j', A'', Y''. split; [assumption|lia].
      * right. exists j0, A0, Y0, i, X0, A''. repeat split; auto. lia.
Qed.
End Canon.

(* ---------------------------------------------------------------------------------------------- *)
(* 8. optimality                                                                                   *)

Section Optimal.
Variable pair_first : N -> N -> bool.
Variable ext_order : list (list N) -> list (list N).
Hypothesis Hext : forall l X, In X (ext_order l) <-> In X l.

(* the axis found by the dynamic programme is at least as long as every list on which all votes are
   single-peaked (a longest single-peaked axis over any subset of the alternatives) *)
Theorem longest_axis_longest alts votes O : NoDup alts -> votes <> [] ->
  (forall v, In v votes -> NoDup v /\ incl alts v) -> GoodL alts votes O ->
  length O <= length (fst (longest_axis pair_first ext_order alts votes)).
Proof.
  intros Hnd Hvne Hv (G1 & G2 & G3).
  assert (Hext1 : forall l X, In X (ext_order l) -> In X l) by (intros l X; apply Hext).
  destruct (dp_dominates_runs alts votes Hnd Hv pair_first ext_order Hext1) as [D1 D2].
  assert (Hc : completable votes pa_empty O).
  { exists O. split; [apply Permutation_refl|]. intros v Hin. simpl. rewrite app_nil_r. now apply G3. }
  destruct (canon alts votes Hnd Hv Hvne pair_first ext_order Hext (length O) 0 pa_empty [] O (Nat.le_refl _))
    as [(j & A & Y & HR & Hl)|(j0 & A0 & Y0 & i & X & A' & HR & H1 & H2 & H3 & H4 & H5 & H6)].
  - apply run0.
  - exact Hc.
  - exact G1.
  - exact G2.
  - intros u Hu. apply remP_in. split; [now apply G2|]. simpl. tauto.
  - now left.
  - intros a [].
  - specialize (D1 j A Y HR). unfold pa_len in Hl. simpl in Hl. unfold pa_len in D1 at 1. lia.
  - specialize (D2 j0 A0 Y0 i X A' HR H1 H2 H3 H4 H5). unfold pa_len in H6 at 2. simpl in H6. lia.
Qed.

(* Erdelyi-Lackner-Pfandler: k_alternative_deletion removes a minimum number of alternatives *)
Theorem elp_optimal alts votes : NoDup alts -> votes <> [] -> (forall v, In v votes -> Permutation alts v) ->
  length (snd (k_alternative_deletion pair_first ext_order alts votes)) = min_alt_del alts (map strictify votes).
Proof.
  intros Hnd Hvne Hp.
  assert (Hext1 : forall l X, In X (ext_order l) -> In X l) by (intros l X; apply Hext).
  assert (Hv : forall v, In v votes -> NoDup v /\ incl alts v) by (apply votes_wf; assumption).
  pose proof (elp_bound pair_first ext_order Hext1 alts votes Hnd Hp) as Hlow.
  destruct (optimum_good_list alts votes Hnd Hp) as (O & HO & HlenO).
  pose proof (longest_axis_longest alts votes O Hnd Hvne Hv HO) as Hlong.
  destruct (longest_axis_sound pair_first ext_order Hext1 alts votes Hnd Hv) as (_ & _ & Hperm & _).
  unfold k_alternative_deletion in *. apply Permutation_length in Hperm. rewrite app_length in Hperm. lia.
Qed.
End Optimal.
