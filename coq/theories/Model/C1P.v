(* Model/C1P.v — consecutive-ones property of 0/1 matrices (C05, also used by C11).
   Shape (R): specification, verified witness checker, verified reference decider by enumeration.
   The PQ-tree internals of preflibtools/properties/subdomains/consecutive_ones.py are NOT modelled;
   solve_consecutive_ones(matrix) and isC1P(matrix) both decide: "is there an order of the COLUMNS of
   matrix such that in every ROW the ones are consecutive" (checked by brute force on all 3x4 and 4x3
   matrices: both functions take the sets {rows with a 1 in column c} and reorder the columns).
   Executable definitions only; proofs are in Proofs/C1P.v. *)
From Coq Require Import List Arith Bool.
From PrefVerif Require Import Lib.Perms.
Import ListNotations.

(* a matrix is the list of its rows; the number of columns nc is carried separately *)
Definition matrix := list (list bool).

(* entry j of a row (false outside the row) and the row read in the column order perm *)
Definition pick (row : list bool) (j : nat) : bool := nth j row false.
Definition permute_row (perm : list nat) (row : list bool) : list bool := map (pick row) perm.

(* shapes of 0/1 words *)
Definition all_zero (l : list bool) : bool := forallb negb l.
Definition all_one (l : list bool) : bool := forallb (fun b => b) l.

Fixpoint ones_zeros (l : list bool) : bool :=        (* 1*0* : the ones form a prefix *)
  match l with
  | [] => true
  | true :: t => ones_zeros t
  | false :: t => all_zero t
  end.

Fixpoint zeros_ones (l : list bool) : bool :=        (* 0*1* : the ones form a suffix *)
  match l with
  | [] => true
  | false :: t => zeros_ones t
  | true :: t => all_one t
  end.

Fixpoint contig01 (l : list bool) : bool :=          (* 0*1*0* : the ones are consecutive *)
  match l with
  | [] => true
  | false :: t => contig01 t
  | true :: t => ones_zeros t
  end.

Definition extremal01 (l : list bool) : bool := ones_zeros l || zeros_ones l.

(* the ones of the row occupy consecutive positions when the columns are listed in the order perm *)
Definition row_contig (perm : list nat) (row : list bool) : bool := contig01 (permute_row perm row).
(* ... a prefix or a suffix *)
Definition row_extremal (perm : list nat) (row : list bool) : bool := extremal01 (permute_row perm row).

(* perm is a permutation of 0 .. nc-1 *)
Definition memn (j : nat) (l : list nat) : bool := existsb (Nat.eqb j) l.
Definition perm_of_seq (nc : nat) (perm : list nat) : bool :=
  (length perm =? nc) && forallb (fun j => memn j perm) (seq 0 nc).

(* the verified witness checker *)
Definition c1p_check (rows : matrix) (nc : nat) (perm : list nat) : bool :=
  perm_of_seq nc perm && forallb (row_contig perm) rows.

(* the verified reference decider (enumeration of all column orders) *)
Definition c1p_decide (rows : matrix) (nc : nat) : bool :=
  existsb (fun perm => forallb (row_contig perm) rows) (perms (seq 0 nc)).

(* matrix operations used by the reductions *)
Definition complement (M : matrix) : matrix := map (map negb) M.
Definition transpose (nc : nat) (M : matrix) : matrix :=
  map (fun j => map (fun r => pick r j) M) (seq 0 nc).

(* submatrix certificate for a negative verdict: the rows with indices ridx restricted to the distinct columns
   cols form a matrix without the consecutive-ones property (then the whole matrix has not got it either:
   Proofs/C1P.v c1p_core_refuted_sound) *)
Definition select_cols (cols : list nat) (row : list bool) : list bool := map (pick row) cols.
Fixpoint nodupb (l : list nat) : bool :=
  match l with
  | [] => true
  | x :: t => negb (memn x t) && nodupb t
  end.
Definition c1p_core_refuted (rows : matrix) (nc : nat) (ridx cols : list nat) : bool :=
  nodupb cols && forallb (fun j => j <? nc) cols && forallb (fun i => i <? length rows) ridx &&
  negb (c1p_decide (map (select_cols cols) (map (fun i => nth i rows []) ridx)) (length cols)).
