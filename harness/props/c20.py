"""C20 — ranking distances (kendall_tau_distance, spearman_footrule_distance, sertel_distance, distance_matrix)."""
import itertools
import random

from core import proto
from .common import case, guarded, ordinal_instance, strict, rand_perm

ID = "C20"
RULE = ("exhaustive: all ordered pairs of permutations of {1..n} for n <= 5 (quick: n <= 4) for the three distances, "
        "all pairs of rankings of different length over <= 3 alternatives; random: pairs of permutations of up to 40 "
        "arbitrary ids, tuple-of-singleton form, distance_matrix on random soc profiles with multiplicities. "
        "non-trivial = the two rankings differ (for distance_matrix: >= 2 distinct orders and some multiplicity > 1)")
EXHAUSTIVE = {"quick": "all pairs of permutations n<=4; all different-length pairs over <=3 alternatives",
              "thorough": "all pairs of permutations n<=5; all different-length pairs over <=4 alternatives"}
TRUSTED = ["modelled: preflibtools/properties/distances.py (all four functions) and OrdinalInstance.full_profile; "
           "the final floating-point division of spearman_footrule_distance / sertel_distance is compared as "
           "float(impl) == num/den with one IEEE division (numpy float64 semantics trusted)"]
ASSUMPTIONS = ["rankings are tuples of hashable alternatives compared by ==; ids are non-negative integers"]
TIMEOUT_S = 30.0


def generate(tier, seed):
    rng = random.Random(1000003 * seed + 20)
    nmax = 4 if tier == "quick" else 5
    out = []
    for n in range(2, nmax + 1):
        perms = list(itertools.permutations(range(1, n + 1)))
        for p in perms:
            for q in perms:
                for op in ("c20.kt", "c20.footrule", "c20.sertel"):
                    out.append(case(op, [p, q], n=n, exh=1))
    # different lengths (must be refused)
    lmax = 3 if tier == "quick" else 4
    pool = []
    for n in range(0, lmax + 1):
        pool.extend(itertools.permutations(range(1, n + 1)))
    for p in pool:
        for q in pool:
            if len(p) != len(q):
                for op in ("c20.kt", "c20.footrule", "c20.sertel"):
                    out.append(case(op, [p, q], mismatch=1))
    # random large
    nrand = 300 if tier == "quick" else 4000
    for i in range(nrand):
        n = rng.randint(2, 40)
        ids = rng.sample(range(0, 10 ** rng.choice([1, 2, 6, 18]) + 50), n)
        p = rand_perm(rng, ids)
        q = list(p)
        # mixture: near (few swaps) and far
        if rng.random() < 0.5:
            for _ in range(rng.randint(0, 3)):
                a, b = rng.randrange(n), rng.randrange(n)
                q[a], q[b] = q[b], q[a]
        else:
            rng.shuffle(q)
        for op in ("c20.kt", "c20.footrule", "c20.sertel"):
            out.append(case(op, [p, q], n=n, tup=i % 2))
    # distance_matrix
    ndm = 60 if tier == "quick" else 600
    for i in range(ndm):
        m = rng.randint(2, 6)
        alts = rng.sample(range(1, 30), m)
        k = rng.randint(1, 5)
        orders = []
        for _ in range(k):
            o = rand_perm(rng, alts)
            if o not in orders:
                orders.append(o)
        prof = [[o, rng.randint(1, 3)] for o in orders]
        out.append(case("c20.dm", [i % 3, prof], dm=1))
    return out


def _frac(x, n_den):
    return x


def impl(c):
    from preflibtools.properties import distances as D
    op, pl = c["op"], c["payload"]
    if op == "c20.dm":
        which, prof = pl
        inst = ordinal_instance([(strict(o), m) for o, m in prof], data_type="soc")
        fn = [D.kendall_tau_distance, D.spearman_footrule_distance, D.sertel_distance][which]
        mat = D.distance_matrix(inst, fn)
        return {"shape": list(mat.shape), "m": [[float(x) for x in row] for row in mat]}
    o1, o2 = pl
    if c["tags"].get("tup"):
        o1, o2 = tuple((a,) for a in o1), tuple((a,) for a in o2)
    else:
        o1, o2 = tuple(o1), tuple(o2)
    fn = {"c20.kt": D.kendall_tau_distance, "c20.footrule": D.spearman_footrule_distance,
          "c20.sertel": D.sertel_distance}[op]
    r = guarded(fn, o1, o2)
    if r[0] == 0:
        v = r[1]
        if op == "c20.kt":
            if not (isinstance(v, int) or hasattr(v, "__index__")):
                return {"crash": "kendall_tau_distance returned non-integer %r" % (v,)}
            return [0, int(v)]
        return {"float": float(v)}
    return r


def _same_float(x, num, den):
    if den == 0:
        return False
    return x == num / den


def judge(c, r, mres):
    m = mres[0]
    op = c["op"]
    if op == "c20.dm":
        nv = sum(mu for _, mu in c["payload"][1])
        if r["shape"] != [nv, nv] or len(m) != nv:
            return "distance_matrix shape %r, expected %dx%d" % (r["shape"], nv, nv)
        for i in range(nv):
            for j in range(nv):
                e = m[i][j]
                if e[0] != 0:
                    return "model error in entry"
                x = r["m"][i][j]
                if c["payload"][0] == 0:
                    good = (x == e[1])
                else:
                    good = _same_float(x, e[1][0], e[1][1])
                if not good:
                    return "entry (%d,%d): impl %r, model %r" % (i, j, x, e[1])
        return None
    if isinstance(r, dict) and "float" in r:
        if m[0] != 0:
            return "implementation returned %r where the model refuses (%r)" % (r["float"], m)
        num, den = m[1]
        if not _same_float(r["float"], num, den):
            return "impl %r != %d/%d" % (r["float"], num, den)
        return None
    if r != m:
        return "impl %r, model %r" % (r, m)
    return None


def nontrivial(c, r, m):
    if c["op"] == "c20.dm":
        prof = c["payload"][1]
        return len(prof) >= 2 and any(mu > 1 for _, mu in prof)
    return c["payload"][0] != c["payload"][1]


def stats(c, r, m):
    if c["op"] == "c20.dm":
        return ["dm voters=%d" % sum(mu for _, mu in c["payload"][1])]
    n = len(c["payload"][0])
    res = "refused" if (isinstance(m[0], list) and m[0][0] == 1) else "value"
    return ["%s n=%s %s" % (c["op"], n if n <= 5 else ">5", res)]


def describe(c):
    return {"op": c["op"], "args": c["payload"], "tuple_of_singletons": bool(c["tags"].get("tup"))}


def shrink(c):
    if c["op"] == "c20.dm":
        which, prof = c["payload"]
        for i in range(len(prof)):
            yield dict(c, payload=[which, prof[:i] + prof[i + 1:]])
        for i in range(len(prof)):
            if prof[i][1] > 1:
                yield dict(c, payload=[which, prof[:i] + [[prof[i][0], prof[i][1] - 1]] + prof[i + 1:]])
        return
    o1, o2 = c["payload"]
    if len(o1) == len(o2):
        for x in o1:
            if x in o2:
                yield dict(c, payload=[[a for a in o1 if a != x], [a for a in o2 if a != x]])
