(* Proofs/Entry.v — lemmas for property C10 (Model/Entry.v).
   1. gate and dispatch
   2. text lemmas: strip / remove_sp / remove_ws / "hashed"
   3. the three parsers depend on a line only through strip (header lines) resp. through
      remove_sp (strip _) (other lines): parse_lines respects [line_equiv]           -> C10_lines_equiv
   4. the three line splitters on a text assembled from break-free lines with LF / CRLF / CR   -> C10_splitters
   5. restyling: every entry point on a restyled text = parse_file on the canonical text       -> C10_entrypoints
   6. header_only                                                                              -> C10_header_only *)
From Coq Require Import List Arith NArith Bool String Lia.
From PrefVerif Require Import Lib.Val Lib.Dec Lib.PyStr Model.Meta Model.OrdIO Model.CatIO Model.WmdIO Model.Entry.
From PrefVerif Require Import Proofs.Meta.
Import ListNotations.

(* ================================================================================================ *)
(* 1. gate and dispatch                                                                             *)
(* ================================================================================================ *)
Lemma gate_proof c dt f ls : type_validator c dt = false -> parse_lines c dt f ls = Err TypeErr.
Proof. intros H. unfold parse_lines. now rewrite H. Qed.

Lemma gate_entry_proof e c dt f t : type_validator c dt = false -> parse_entry e c dt f t = Err TypeErr.
Proof. intros H. unfold parse_entry. now apply gate_proof. Qed.

Lemma gate_get_proof ext f t : class_of_ext ext = None -> get_parsed_instance_model ext f t = Err TypeErr.
Proof. intros H. unfold get_parsed_instance_model. now rewrite H. Qed.

(* an Ok result implies a valid (class, data type) pair *)
Lemma parse_ok_valid c dt f ls i : parse_lines c dt f ls = Ok i -> type_validator c dt = true.
Proof. unfold parse_lines. destruct (type_validator c dt); [easy|discriminate]. Qed.

Definition ord_ext (ext : text) : Prop :=
  ext = lit "soc" \/ ext = lit "soi" \/ ext = lit "toc" \/ ext = lit "toi".

Lemma valid_ord_iff dt : type_validator COrd dt = true <-> ord_ext dt.
Proof.
  unfold type_validator, ord_ext. rewrite !orb_true_iff, !teqb_eq. tauto.
Qed.
Lemma valid_cat_iff dt : type_validator CCat dt = true <-> dt = lit "cat".
Proof. unfold type_validator. apply teqb_eq. Qed.
Lemma valid_wmd_iff dt : type_validator CWmd dt = true <-> dt = lit "wmd".
Proof. unfold type_validator. apply teqb_eq. Qed.

(* class_of_ext ext = Some c  <->  the class c accepts ext: dispatch and gate agree, the three sets of
   extensions are disjoint *)
Lemma dispatch_valid ext c : class_of_ext ext = Some c <-> type_validator c ext = true.
Proof.
  unfold class_of_ext.
  destruct (teqb ext (lit "soc") || teqb ext (lit "soi") || teqb ext (lit "toc") || teqb ext (lit "toi")) eqn:EO.
  - split.
    + intros H. injection H as <-. exact EO.
    + intros H. destruct c; [reflexivity| |]; exfalso; apply teqb_eq in H; subst ext; discriminate EO.
  - destruct (teqb ext (lit "cat")) eqn:EC.
    + split.
      * intros H. injection H as <-. exact EC.
      * intros H. destruct c; [unfold type_validator in H; congruence|reflexivity|]. exfalso.
        apply teqb_eq in H. subst ext. discriminate EC.
    + destruct (teqb ext (lit "wmd")) eqn:EW.
      * split.
        -- intros H. injection H as <-. exact EW.
        -- intros H. destruct c; [unfold type_validator in H; congruence|unfold type_validator in H; congruence|reflexivity].
      * split; [discriminate|]. intros H. destruct c; unfold type_validator in H; congruence.
Qed.

Lemma dispatch_proof ext :
  (ord_ext ext -> class_of_ext ext = Some COrd) /\
  (ext = lit "cat" -> class_of_ext ext = Some CCat) /\
  (ext = lit "wmd" -> class_of_ext ext = Some CWmd) /\
  (~ ord_ext ext -> ext <> lit "cat" -> ext <> lit "wmd" -> class_of_ext ext = None).
Proof.
  repeat split.
  - intros H. apply dispatch_valid. now apply valid_ord_iff.
  - intros H. apply dispatch_valid. now apply valid_cat_iff.
  - intros H. apply dispatch_valid. now apply valid_wmd_iff.
  - intros HO HC HW. destruct (class_of_ext ext) as [c|] eqn:E; [|reflexivity]. exfalso.
    apply dispatch_valid in E. destruct c.
    + now apply HO, valid_ord_iff.
    + now apply HC, valid_cat_iff.
    + now apply HW, valid_wmd_iff.
Qed.

Lemma get_is_parse_file ext c f t :
  class_of_ext ext = Some c -> get_parsed_instance_model ext f t = parse_file_model c ext f t.
Proof. intros H. unfold get_parsed_instance_model. now rewrite H. Qed.

(* the class of the instance that comes back is the class of the object that parsed *)
Definition inst_cls (i : inst) : cls := match i with IOrd _ => COrd | ICat _ => CCat | IWmd _ => CWmd end.

Lemma parse_lines_cls c dt f ls i : parse_lines c dt f ls = Ok i -> inst_cls i = c.
Proof.
  unfold parse_lines. destruct (type_validator c dt); [|discriminate]. unfold class_parse.
  destruct c.
  - destruct (ord_parse _ _ _ _); simpl; [|discriminate]. now intros [= <-].
  - destruct (cat_parse _ _ _ _); simpl; [|discriminate]. now intros [= <-].
  - destruct (wmd_parse_tok _ _ _ _); simpl; [|discriminate]. now intros [= <-].
Qed.

(* ================================================================================================ *)
(* 2. text lemmas                                                                                   *)
(* ================================================================================================ *)
Definition sw_hash (s : text) : bool := startswith (lit "#") s.
Definition hashed (l : text) : bool := sw_hash (strip l).
Definition key (l : text) : text := remove_sp (strip l).

Lemma filter_rev' {T} (g : T -> bool) l : filter g (rev l) = rev (filter g l).
Proof.
  induction l as [|x r IH]; [reflexivity|]. simpl. rewrite filter_app, IH. simpl.
  destruct (g x); simpl; [reflexivity|now rewrite app_nil_r].
Qed.

Section StripFilter.
  Variables f g : N -> bool.

  Lemma lstrip_filter s : lstrip_by f (filter g s) = lstrip_by f (filter g (lstrip_by f s)).
  Proof.
    induction s as [|c r IH]; [reflexivity|]. simpl. destruct (f c) eqn:Fc.
    - destruct (g c) eqn:Gc; simpl; [rewrite Fc|]; exact IH.
    - reflexivity.
  Qed.

  Lemma rstrip_filter s : rstrip_by f (filter g s) = rstrip_by f (filter g (rstrip_by f s)).
  Proof.
    unfold rstrip_by. rewrite <- !filter_rev'. rewrite rev_involutive. now rewrite <- lstrip_filter.
  Qed.
End StripFilter.

Section FilterStrip.
  Variables f g : N -> bool.

  (* removing strippable characters first and stripping afterwards = stripping, then removing, then stripping *)
  Lemma strip_filter s : strip_by f (filter g s) = strip_by f (filter g (strip_by f s)).
  Proof.
    unfold strip_by.
    rewrite (lstrip_filter f g s).
    set (y := lstrip_by f s).
    (* rstrip (lstrip (filter y)) vs rstrip (lstrip (filter (rstrip y))) *)
    assert (L : forall z, rstrip_by f (lstrip_by f (filter g z)) = rstrip_by f (lstrip_by f (filter g (rstrip_by f z)))).
    { intros z. unfold rstrip_by at 3.
      (* z = rstrip z ++ tail of f-characters *)
      assert (P : exists t, z = rstrip_by f z ++ t /\ forallb f t = true).
      { unfold rstrip_by. clear. remember (rev z) as w eqn:Hw.
        assert (Q : exists p, w = p ++ lstrip_by f w /\ forallb f p = true).
        { clear. induction w as [|c r [p [E A]]]; simpl; [now exists []|].
          destruct (f c) eqn:Fc.
          - exists (c :: p). simpl. rewrite Fc, A. split; [now rewrite <- E|reflexivity].
          - now exists []. }
        destruct Q as [p [E A]]. exists (rev p). split.
        - rewrite <- rev_app_distr. rewrite <- E. subst w. now rewrite rev_involutive.
        - rewrite forallb_forall in *. intros x Hx. apply A. now apply in_rev. }
      destruct P as [t [E A]]. fold (rstrip_by f z). rewrite E at 1.
      rewrite filter_app.
      assert (At : forallb f (filter g t) = true).
      { rewrite forallb_forall in *. intros x Hx. apply filter_In in Hx as [Hx _]. now apply A. }
      destruct (forallb f (filter g (rstrip_by f z))) eqn:B.
      - rewrite (lstrip_by_all_nil f _ B).
        rewrite lstrip_by_all_nil; [reflexivity|].
        rewrite forallb_app. now rewrite B, At.
      - assert (G : forall a b, forallb f a = false -> lstrip_by f (a ++ b) = lstrip_by f a ++ b).
        { clear. induction a as [|c r IH]; simpl; [discriminate|]. intros b. destruct (f c); simpl; [apply IH|reflexivity]. }
        rewrite G by exact B. now rewrite rstrip_by_all. }
    apply L.
  Qed.
End FilterStrip.

Lemma sp_is_space c : negb (N.eqb c 32) = false -> is_space c = true.
Proof. intros H. apply negb_false_iff in H. apply N.eqb_eq in H. now subst. Qed.

Lemma ws_is_space c : negb (is_space c) = false -> is_space c = true.
Proof. now intros H%negb_false_iff. Qed.

(* strip of a text and of its space-free form *)
Lemma strip_remove_sp s : strip (remove_sp s) = strip (remove_sp (strip s)).
Proof. unfold strip, remove_sp. apply strip_filter. Qed.

Lemma filter_lstrip_ws (s : text) : filter (fun c => negb (is_space c)) (lstrip_by is_space s) = filter (fun c => negb (is_space c)) s.
Proof. induction s as [|c r IH]; [reflexivity|]. simpl. destruct (is_space c) eqn:E; simpl; [exact IH|now rewrite E]. Qed.

Lemma remove_ws_strip s : remove_ws (strip s) = remove_ws s.
Proof.
  unfold remove_ws, strip, strip_by, rstrip_by.
  rewrite <- (rev_involutive (filter _ (rev _))). rewrite <- filter_rev'. rewrite rev_involutive.
  rewrite filter_lstrip_ws. rewrite filter_rev', rev_involutive. apply filter_lstrip_ws.
Qed.

Lemma remove_ws_remove_sp s : remove_ws (remove_sp s) = remove_ws s.
Proof.
  unfold remove_ws, remove_sp. induction s as [|c r IH]; [reflexivity|]. simpl.
  destruct (N.eqb_spec c 32) as [->|]; simpl; [exact IH|]. now rewrite IH.
Qed.

Lemma remove_ws_key l : remove_ws (key l) = remove_ws l.
Proof. unfold key. now rewrite remove_ws_remove_sp, remove_ws_strip. Qed.

Lemma strip_idem s : strip (strip s) = strip s.
Proof.
  (* strip s is a fixed point: it has no outer whitespace *)
  unfold strip, strip_by.
  assert (A : forall y, lstrip_by is_space (lstrip_by is_space y) = lstrip_by is_space y).
  { induction y as [|c r IH]; [reflexivity|]. simpl. destruct (is_space c) eqn:E; [exact IH|]. simpl. now rewrite E. }
  assert (B : forall y, rstrip_by is_space (rstrip_by is_space y) = rstrip_by is_space y).
  { intros y. unfold rstrip_by. rewrite rev_involutive. now rewrite A. }
  (* lstrip (rstrip (lstrip s)) = rstrip (lstrip s) *)
  set (y := lstrip_by is_space s).
  assert (C : lstrip_by is_space (rstrip_by is_space y) = rstrip_by is_space y).
  { destruct y as [|c r] eqn:Ey; [reflexivity|].
    assert (Fc : is_space c = false).
    { subst y. clear -Ey. induction s as [|d t IH]; [discriminate|]. simpl in Ey. destruct (is_space d) eqn:E; [now apply IH|].
      now injection Ey as <- _. }
    assert (R : rstrip_by is_space (c :: r) = c :: rstrip_by is_space r).
    { unfold rstrip_by. simpl.
      assert (G : forall a, lstrip_by is_space (a ++ [c]) = lstrip_by is_space a ++ [c]).
      { induction a as [|d t IH]; simpl; [now rewrite Fc|]. destruct (is_space d); [exact IH|reflexivity]. }
      rewrite G. now rewrite rev_app_distr. }
    rewrite R. simpl. now rewrite Fc. }
  rewrite C. apply B.
Qed.

(* the head of a stripped text is not whitespace: "#"-test before / after removing spaces *)
Lemma lstrip_head s : lstrip_by is_space s = [] \/ exists c r, lstrip_by is_space s = c :: r /\ is_space c = false.
Proof.
  induction s as [|d t IH]; [now left|]. simpl. destruct (is_space d) eqn:E; [exact IH|]. right. now exists d, t.
Qed.

Lemma rstrip_cons c r : is_space c = false -> rstrip_by is_space (c :: r) = c :: rstrip_by is_space r.
Proof.
  intros Fc. unfold rstrip_by. simpl.
  assert (G : forall a, lstrip_by is_space (a ++ [c]) = lstrip_by is_space a ++ [c]).
  { induction a as [|d t IH]; simpl; [now rewrite Fc|]. destruct (is_space d); [exact IH|reflexivity]. }
  rewrite G. now rewrite rev_app_distr.
Qed.

Lemma strip_head s : strip s = [] \/ exists c r, strip s = c :: r /\ is_space c = false.
Proof.
  unfold strip, strip_by. destruct (lstrip_head s) as [->|[c [r [-> Fc]]]]; [now left|].
  right. exists c, (rstrip_by is_space r). split; [now apply rstrip_cons|exact Fc].
Qed.

Lemma hashed_key l : hashed l = sw_hash (key l).
Proof.
  unfold hashed, key. destruct (strip_head l) as [->|[c [r [-> Fc]]]]; [reflexivity|].
  unfold remove_sp. simpl. destruct (N.eqb_spec c 32) as [->|]; [discriminate Fc|]. reflexivity.
Qed.

Lemma key_strip l : key (strip l) = key l.
Proof. unfold key. now rewrite strip_idem. Qed.

Lemma hashed_strip l : hashed (strip l) = hashed l.
Proof. unfold hashed. now rewrite strip_idem. Qed.

(* the name patterns only match lines that start with "#" *)
Lemma match_name_unhashed prefix x :
  sw_hash prefix = true -> sw_hash x = false -> match_name prefix x = None.
Proof.
  intros HP HX. unfold match_name.
  destruct (startswith prefix x) eqn:E; [|reflexivity]. exfalso.
  destruct prefix as [|p ps]; [discriminate|]. destruct x as [|c r]; [discriminate|].
  unfold sw_hash in *. simpl in *. apply andb_true_iff in E as [E _]. apply N.eqb_eq in E. subst.
  congruence.
Qed.

(* ================================================================================================ *)
(* 3. the parsers respect line_equiv                                                                *)
(* ================================================================================================ *)
(* two lines are equivalent when they agree after strip(), or when neither is a "#" line and they agree after
   strip() and removal of U+0020 *)
Definition line_equiv (l l' : text) : Prop :=
  strip l = strip l' \/ (hashed l = false /\ key l = key l').

Lemma line_equiv_hashed l l' : line_equiv l l' -> hashed l' = hashed l.
Proof.
  intros [E|[H E]].
  - unfold hashed. now rewrite E.
  - rewrite !hashed_key. now rewrite E.
Qed.

Lemma line_equiv_key l l' : line_equiv l l' -> key l = key l'.
Proof. intros [E|[_ E]]; [unfold key; now rewrite E|exact E]. Qed.

Lemma line_equiv_hashed_strip l l' : line_equiv l l' -> hashed l = true -> strip l = strip l'.
Proof. intros [E|[H _]] Hh; [exact E|congruence]. Qed.

Lemma line_equiv_refl l : line_equiv l l.
Proof. now left. Qed.

Lemma line_equiv_sym l l' : line_equiv l l' -> line_equiv l' l.
Proof.
  intros H. pose proof (line_equiv_hashed _ _ H) as Hh. destruct H as [E|[H E]]; [now left|].
  right. split; [congruence|now symmetry].
Qed.

Lemma line_equiv_trans a b c : line_equiv a b -> line_equiv b c -> line_equiv a c.
Proof.
  intros H1 H2. pose proof (line_equiv_hashed _ _ H1) as Hh.
  destruct H1 as [E1|[Ha E1]].
  - destruct H2 as [E2|[Hb E2]]; [left; congruence|]. right. split; [congruence|].
    unfold key in *. now rewrite E1.
  - right. split; [exact Ha|]. rewrite E1. now apply line_equiv_key.
Qed.

(* only strip l matters *)
Lemma line_equiv_strip_l a b : strip a = strip b -> forall c, line_equiv b c -> line_equiv a c.
Proof. intros E c H. eapply line_equiv_trans; [left; exact E|exact H]. Qed.

Lemma reserved_of_equiv prefix ls ls' :
  sw_hash prefix = true -> Forall2 line_equiv ls ls' -> reserved_of prefix ls = reserved_of prefix ls'.
Proof.
  intros HP H. unfold reserved_of. induction H as [|l l' r r' E _ IH]; [reflexivity|]. simpl. rewrite IH. f_equal.
  pose proof (line_equiv_hashed _ _ E) as Hh.
  destruct E as [E|[H1 _]]; [now rewrite E|].
  rewrite !match_name_unhashed; try exact HP; [reflexivity| |]; unfold hashed in *; congruence.
Qed.

(* ---- ordinal ---- *)
Lemma ord_ballot_loop_equiv ac ls ls' : Forall2 line_equiv ls ls' ->
  forall st, OrdIO.ballot_loop ac st ls = OrdIO.ballot_loop ac st ls'.
Proof.
  induction 1 as [|l l' r r' E _ IH]; intros st; [reflexivity|]. simpl.
  assert (W : remove_ws l = remove_ws l').
  { rewrite <- (remove_ws_key l), <- (remove_ws_key l'). now rewrite (line_equiv_key _ _ E). }
  rewrite W. destruct (remove_ws l'); [apply IH|]. destruct (parse_ballot _); simpl; [apply IH|reflexivity].
Qed.

Definition rel_rest {S} (a b : result (S * list text)) : Prop :=
  match a, b with
  | Ok (s, r), Ok (s', r') => s = s' /\ Forall2 line_equiv r r'
  | Err e, Err e' => e = e'
  | _, _ => False
  end.

Lemma ord_header_loop_equiv ac ls ls' : Forall2 line_equiv ls ls' ->
  forall st, rel_rest (OrdIO.header_loop ac st ls) (OrdIO.header_loop ac st ls').
Proof.
  induction 1 as [|l l' r r' E R IH]; intros st; [simpl; auto|].
  cbn [OrdIO.header_loop]. pose proof (line_equiv_hashed _ _ E) as Hh. unfold hashed, sw_hash in Hh. unfold hash.
  destruct (startswith (lit "#") (strip l)) eqn:Hl.
  - rewrite Hh. rewrite <- (line_equiv_hashed_strip _ _ E Hl).
    destruct (header_step ac st (strip l)) as [st'|e]; simpl; [|reflexivity].
    destruct R as [|x x' y y' Ex Ry]; [simpl; split; [reflexivity|constructor; [exact E|constructor]]|].
    apply IH.
  - rewrite Hh. simpl. split; [reflexivity|]. constructor; assumption.
Qed.

Lemma ord_parse_equiv ac ho m0 ls ls' : Forall2 line_equiv ls ls' ->
  ord_parse ac ho m0 ls = ord_parse ac ho m0 ls'.
Proof.
  intros H. unfold ord_parse.
  rewrite (reserved_of_equiv alt_name_prefix ls ls' eq_refl H).
  set (m1 := if ac then _ else _).
  pose proof (ord_header_loop_equiv ac ls ls' H (m1, 0%N)) as R. unfold rel_rest in R.
  destruct (OrdIO.header_loop ac (m1, 0%N) ls) as [[s rest]|e], (OrdIO.header_loop ac (m1, 0%N) ls') as [[s' rest']|e'];
    try contradiction; [|now subst].
  destruct R as [<- R]. simpl. destruct s as [m nu]. destruct ho; [reflexivity|].
  now rewrite (ord_ballot_loop_equiv ac rest rest' R).
Qed.

(* ---- categorical ---- *)
Lemma cat_ballot_of_line_equiv l l' : line_equiv l l' -> ballot_of_line l = ballot_of_line l'.
Proof. intros E. unfold ballot_of_line. fold (key l) (key l'). now rewrite (line_equiv_key _ _ E). Qed.

Lemma cat_ballot_loop_equiv ac ls ls' : Forall2 line_equiv ls ls' ->
  forall i, CatIO.ballot_loop ac i ls = CatIO.ballot_loop ac i ls'.
Proof.
  induction 1 as [|l l' r r' E _ IH]; intros i; [reflexivity|]. simpl.
  rewrite (cat_ballot_of_line_equiv _ _ E). destruct (ballot_of_line l') as [[k b]|e]; simpl; [apply IH|reflexivity].
Qed.

Lemma cat_header_loop_equiv ac resv ls ls' : Forall2 line_equiv ls ls' ->
  forall i, rel_rest (CatIO.header_loop ac resv i ls) (CatIO.header_loop ac resv i ls').
Proof.
  induction 1 as [|l l' r r' E R IH]; intros i; [simpl; auto|].
  cbn [CatIO.header_loop]. pose proof (line_equiv_hashed _ _ E) as Hh. unfold hashed, sw_hash in Hh. unfold hash_prefix.
  destruct (startswith (lit "#") (strip l)) eqn:Hl.
  - rewrite Hh. rewrite <- (line_equiv_hashed_strip _ _ E Hl).
    destruct (header_line ac resv i (strip l)) as [i'|e]; simpl; [|reflexivity].
    destruct R as [|x x' y y' Ex Ry]; [simpl; split; [reflexivity|constructor; [exact E|constructor]]|].
    apply IH.
  - rewrite Hh. simpl. split; [reflexivity|]. constructor; assumption.
Qed.

Lemma cat_parse_equiv ac ho m0 ls ls' : Forall2 line_equiv ls ls' ->
  cat_parse ac ho m0 ls = cat_parse ac ho m0 ls'.
Proof.
  intros H. unfold cat_parse. destruct (teqb (data_type m0) (lit "cat")); [|reflexivity].
  rewrite (reserved_of_equiv alt_name_prefix ls ls' eq_refl H).
  set (m1 := if ac then _ else _). unfold cat_parse_body.
  rewrite (reserved_of_equiv cat_name_prefix ls ls' eq_refl H).
  set (resv := if ac then _ else _).
  pose proof (cat_header_loop_equiv ac resv ls ls' H (cinst0 m1)) as R. unfold rel_rest in R.
  destruct (CatIO.header_loop ac resv (cinst0 m1) ls) as [[s rest]|e],
           (CatIO.header_loop ac resv (cinst0 m1) ls') as [[s' rest']|e'];
    try contradiction; [|now subst].
  destruct R as [<- R]. simpl. destruct ho; [reflexivity|].
  now rewrite (cat_ballot_loop_equiv ac rest rest' R).
Qed.

(* ---- matching ---- *)
Section WmdEquiv.
  Variable W : Type.
  Variable read_w : text -> option W.

  Lemma wmd_edge_line_equiv l l' : line_equiv l l' -> parse_edge_line W read_w l = parse_edge_line W read_w l'.
  Proof. intros E. unfold parse_edge_line. fold (key l) (key l'). now rewrite (line_equiv_key _ _ E). Qed.

  Lemma wmd_edges_equiv ls ls' : Forall2 line_equiv ls ls' ->
    forall g, parse_edges W read_w ls g = parse_edges W read_w ls' g.
  Proof.
    induction 1 as [|l l' r r' E _ IH]; intros g; [reflexivity|]. simpl.
    rewrite (wmd_edge_line_equiv _ _ E). destruct (parse_edge_line W read_w l') as [e|e]; simpl; [apply IH|reflexivity].
  Qed.

  Definition rel_rest3 (a b : result (meta * N * list text)) : Prop :=
    match a, b with
    | Ok (s, r), Ok (s', r') => s = s' /\ Forall2 line_equiv r r'
    | Err e, Err e' => e = e'
    | _, _ => False
    end.

  Lemma wmd_header_equiv ac ls ls' : Forall2 line_equiv ls ls' ->
    forall m ne, rel_rest3 (wmd_header ac m ne ls) (wmd_header ac m ne ls').
  Proof.
    induction 1 as [|l l' r r' E R IH]; intros m ne; [simpl; auto|].
    cbn [wmd_header]. pose proof (line_equiv_hashed _ _ E) as Hh. unfold hashed, sw_hash in Hh. unfold is_hash_line.
    destruct (startswith (lit "#") (strip l)) eqn:Hl.
    - rewrite Hh. rewrite <- (line_equiv_hashed_strip _ _ E Hl).
      destruct (if startswith (lit "# NUMBER EDGES") (strip l) then _ else _) as [st|e]; simpl; [|reflexivity].
      destruct R as [|x x' y y' Ex Ry]; [simpl; split; [reflexivity|constructor; [exact E|constructor]]|].
      apply IH.
    - rewrite Hh. simpl. split; [reflexivity|]. constructor; assumption.
  Qed.

  Lemma wmd_parse_equiv ac ho m0 ls ls' : Forall2 line_equiv ls ls' ->
    wmd_parse W read_w ac ho m0 ls = wmd_parse W read_w ac ho m0 ls'.
  Proof.
    intros H. unfold wmd_parse. destruct (teqb (data_type m0) (lit "wmd")); [|reflexivity].
    rewrite (reserved_of_equiv alt_name_prefix ls ls' eq_refl H).
    set (m1 := if ac then _ else _).
    pose proof (wmd_header_equiv ac ls ls' H m1 0%N) as R. unfold rel_rest3 in R.
    destruct (wmd_header ac m1 0%N ls) as [[s rest]|e], (wmd_header ac m1 0%N ls') as [[s' rest']|e'];
      try contradiction; [|now subst].
    destruct R as [<- R]. simpl. destruct ho; [reflexivity|].
    now rewrite (wmd_edges_equiv rest rest' R).
  Qed.
End WmdEquiv.

Theorem parse_lines_equiv c dt f ls ls' : Forall2 line_equiv ls ls' ->
  parse_lines c dt f ls = parse_lines c dt f ls'.
Proof.
  intros H. unfold parse_lines. destruct (type_validator c dt); [|reflexivity]. unfold class_parse.
  destruct c.
  - now rewrite (ord_parse_equiv _ _ _ ls ls' H).
  - now rewrite (cat_parse_equiv _ _ _ ls ls' H).
  - unfold wmd_parse_tok. now rewrite (wmd_parse_equiv _ _ _ _ _ ls ls' H).
Qed.

(* special case: only the stripped lines matter *)
Corollary parse_lines_strip c dt f ls ls' : map strip ls = map strip ls' ->
  parse_lines c dt f ls = parse_lines c dt f ls'.
Proof.
  intros H. apply parse_lines_equiv. revert ls' H. induction ls as [|l r IH]; intros [|l' r'] H; try discriminate; [constructor|].
  simpl in H. injection H as E1 E2. constructor; [now left|now apply IH].
Qed.

(* ================================================================================================ *)
(* 4. the three splitters on a text assembled from break-free lines                                 *)
(* ================================================================================================ *)
(* a text given as lines (without line-boundary characters), each with its own terminator *)
Definition assemble (segs : list (text * eol)) : text := flat_map (fun p => fst p ++ eol_text (snd p)) segs.

Definition starts_lf (s : text) : bool := match s with c :: _ => N.eqb c 10 | [] => false end.

(* a lone CR must not be followed by a LF (it would be a CR LF): the only way this can happen with break-free
   lines is a CR-terminated line followed by an EMPTY line that is terminated by LF *)
Fixpoint cr_safe (segs : list (text * eol)) : bool :=
  match segs with
  | [] => true
  | (_, e) :: rest => (match e with CR => negb (starts_lf (assemble rest)) | _ => true end) && cr_safe rest
  end.

Lemma readlines_aux_seg l : forall cur rest, no_nlcr l = true ->
  readlines_aux cur (l ++ rest) = readlines_aux (rev l ++ cur) rest.
Proof.
  induction l as [|c r IH]; intros cur rest H; [reflexivity|].
  simpl in H. apply andb_true_iff in H as [Hc Hr]. apply andb_true_iff in Hc as [H10 H13].
  apply negb_true_iff in H10. apply negb_true_iff in H13. cbn [app readlines_aux]. rewrite H10, H13.
  rewrite IH by exact Hr. cbn [rev]. now rewrite <- app_assoc.
Qed.

Lemma readlines_aux_lf cur rest : readlines_aux cur (10%N :: rest) = rev (10%N :: cur) :: readlines_aux [] rest.
Proof. reflexivity. Qed.
Lemma readlines_aux_crlf cur rest : readlines_aux cur (13%N :: 10%N :: rest) = rev (10%N :: cur) :: readlines_aux [] rest.
Proof. reflexivity. Qed.
Lemma readlines_aux_cr cur rest : starts_lf rest = false ->
  readlines_aux cur (13%N :: rest) = rev (10%N :: cur) :: readlines_aux [] rest.
Proof.
  intros H. destruct rest as [|d r]; [reflexivity|]. cbn [starts_lf] in H. apply N.eqb_neq in H.
  cbn [readlines_aux]. change (N.eqb 13 10) with false. change (N.eqb 13 13) with true. cbv iota.
  destruct d as [|p]; [reflexivity|].
  do 4 (destruct p as [p|p|]; try reflexivity). now elim H.
Qed.

Lemma splitlines_aux_seg l : forall cur rest, no_break l = true ->
  splitlines_aux cur (l ++ rest) = splitlines_aux (rev l ++ cur) rest.
Proof.
  induction l as [|c r IH]; intros cur rest H; [reflexivity|].
  simpl in H. apply andb_true_iff in H as [Hc Hr]. apply negb_true_iff in Hc.
  cbn [app splitlines_aux]. rewrite Hc. rewrite IH by exact Hr. cbn [rev]. now rewrite <- app_assoc.
Qed.

Lemma splitlines_aux_lf cur rest : splitlines_aux cur (10%N :: rest) = rev cur :: splitlines_aux [] rest.
Proof. reflexivity. Qed.
Lemma splitlines_aux_crlf cur rest : splitlines_aux cur (13%N :: 10%N :: rest) = rev cur :: splitlines_aux [] rest.
Proof. reflexivity. Qed.
Lemma splitlines_aux_cr cur rest : starts_lf rest = false ->
  splitlines_aux cur (13%N :: rest) = rev cur :: splitlines_aux [] rest.
Proof.
  intros H. destruct rest as [|d r]; [reflexivity|]. cbn [starts_lf] in H. apply N.eqb_neq in H.
  cbn [splitlines_aux]. change (is_linebreak 13) with true. cbv iota.
  destruct d as [|p]; [reflexivity|].
  do 4 (destruct p as [p|p|]; try reflexivity). now elim H.
Qed.

Definition seg_ok (p : text * eol) : Prop := no_break (fst p) = true.

Theorem readlines_assemble segs : Forall seg_ok segs -> cr_safe segs = true ->
  readlines (assemble segs) = map (fun p => fst p ++ nl) segs.
Proof.
  unfold readlines. induction segs as [|[l e] r IH]; intros HF HS; [reflexivity|].
  inversion HF as [|x y Hl Hr]; subst. unfold seg_ok in Hl. cbn [fst] in Hl.
  cbn [cr_safe] in HS. apply andb_true_iff in HS as [HS1 HS2].
  cbn [assemble flat_map map fst snd]. fold (assemble r). rewrite <- app_assoc.
  rewrite readlines_aux_seg by (now apply no_break_no_nlcr). rewrite app_nil_r.
  destruct e; cbn [eol_text app].
  - rewrite readlines_aux_lf. cbn [rev]. rewrite rev_involutive. f_equal. now apply IH.
  - rewrite readlines_aux_crlf. cbn [rev]. rewrite rev_involutive. f_equal. now apply IH.
  - rewrite readlines_aux_cr by (now apply negb_true_iff). cbn [rev]. rewrite rev_involutive. f_equal. now apply IH.
Qed.

Theorem splitlines_assemble segs : Forall seg_ok segs -> cr_safe segs = true ->
  splitlines (assemble segs) = map fst segs.
Proof.
  unfold splitlines. induction segs as [|[l e] r IH]; intros HF HS; [reflexivity|].
  inversion HF as [|x y Hl Hr]; subst. unfold seg_ok in Hl. cbn [fst] in Hl.
  cbn [cr_safe] in HS. apply andb_true_iff in HS as [HS1 HS2].
  cbn [assemble flat_map map fst snd]. fold (assemble r). rewrite <- app_assoc.
  rewrite splitlines_aux_seg by exact Hl. rewrite app_nil_r.
  destruct e; cbn [eol_text app].
  - rewrite splitlines_aux_lf. rewrite rev_involutive. f_equal. now apply IH.
  - rewrite splitlines_aux_crlf. rewrite rev_involutive. f_equal. now apply IH.
  - rewrite splitlines_aux_cr by (now apply negb_true_iff). rewrite rev_involutive. f_equal. now apply IH.
Qed.

Lemma strip_nl l : strip (l ++ nl) = strip l.
Proof. now apply strip_nl_r. Qed.

(* the three entry points hand the same stripped lines to the parser *)
Theorem splitters_proof segs : Forall seg_ok segs -> cr_safe segs = true ->
  let t := assemble segs in
  readlines t = map (fun p => fst p ++ nl) segs /\
  splitlines t = map fst segs /\
  urllines t = map strip (map fst segs) /\
  map strip (readlines t) = map strip (map fst segs) /\
  map strip (splitlines t) = map strip (map fst segs).
Proof.
  intros HF HS t. subst t.
  rewrite (readlines_assemble segs HF HS). unfold urllines. rewrite (splitlines_assemble segs HF HS).
  repeat split. rewrite !map_map. apply map_ext. intros p. apply strip_nl.
Qed.

(* lines that are non-empty (and break-free) are always safe *)
Lemma cr_safe_nonempty segs : Forall seg_ok segs -> Forall (fun p => fst p <> []) segs -> cr_safe segs = true.
Proof.
  induction segs as [|[l e] r IH]; intros HF HN; [reflexivity|].
  inversion HF as [|x y Hl Hr]; subst. inversion HN as [|x y Nl Nr]; subst.
  cbn [cr_safe]. rewrite IH by assumption. rewrite andb_true_r.
  destruct e; try reflexivity. apply negb_true_iff.
  destruct r as [|[l' e'] r']; [reflexivity|].
  inversion Hr as [|x y Hl' _]; subst. inversion Nr as [|x y Nl' _]; subst.
  unfold seg_ok in Hl'. cbn [fst] in *. cbn [assemble flat_map fst snd].
  destruct l' as [|c l'']; [now elim Nl'|]. cbn [app starts_lf].
  simpl in Hl'. apply andb_true_iff in Hl' as [Hc _]. apply negb_true_iff in Hc.
  destruct (N.eqb_spec c 10) as [->|]; [discriminate Hc|reflexivity].
Qed.

(* the witness for the side condition: CR, then an empty line terminated by LF, is read as one CR LF *)
Example cr_unsafe_witness :
  let segs := [(lit "a", CR); ([], LF)] in
  splitlines (assemble segs) = [lit "a"] /\ readlines (assemble segs) = [lit "a" ++ nl].
Proof. split; reflexivity. Qed.

(* ================================================================================================ *)
(* 6. header_only                                                                                   *)
(* ================================================================================================ *)
(* the header fields that no parser recomputes *)
Definition meta_texts (m : meta) :=
  (file_name m, title m, description m, data_type m, modification_type m, relates_to m, related_files m,
   publication_date m, modification_date m, alt_names m).

(* h is the header part of i.  For a matching instance the full parse replaces num_edges by the number of
   stored edges while the header-only parse keeps the declared number, so num_edges is left out there (the two
   agree exactly when the header declares the right number, as every written file does). *)
Definition header_agrees (h i : inst) : Prop :=
  match h, i with
  | IWmd a, IWmd b => w_meta a = w_meta b /\ w_nodes a = [] /\ w_weights a = []
  | _, _ => h = header_of i
  end.

Lemma ord_header_only ac m0 ls i : ord_parse ac false m0 ls = Ok i ->
  exists h, ord_parse ac true m0 ls = Ok h /\ o_orders h = [] /\ o_mult h = [] /\
            meta_texts (o_meta h) = meta_texts (o_meta i) /\
            (ac = false -> h = mkOinst (o_meta i) (o_num_unique i) [] []).
Proof.
  unfold ord_parse. set (m1 := if ac then _ else _).
  destruct (OrdIO.header_loop ac (m1, 0%N) ls) as [[[m nu] rest]|e]; simpl; [|discriminate].
  destruct (OrdIO.ballot_loop ac ([], []) rest) as [[ords mu]|e]; simpl; [|discriminate].
  intros H. exists (mkOinst m nu [] []). repeat split.
  - destruct ac; injection H as <-; reflexivity.
  - intros ->. injection H as <-. reflexivity.
Qed.

Lemma cat_header_line_ballots ac resv i line i' : header_line ac resv i line = Ok i' ->
  c_prefs i' = c_prefs i /\ c_mult i' = c_mult i.
Proof.
  unfold header_line.
  destruct (startswith (lit "# NUMBER UNIQUE PREFERENCES") line).
  - destruct (py_int (drop 28 line)) as [n|e]; cbn [rbind rmap]; [|discriminate].
    destruct (startswith (lit "# NUMBER CATEGORIES") line).
    + destruct (py_int (drop 20 line)); cbn [rbind rmap]; [|discriminate]. now intros [= <-].
    + destruct (startswith (lit "# CATEGORY NAME") line).
      * destruct (match_name cat_name_prefix line) as [[cat nm]|]; [|now intros [= <-]].
        destruct (corrected_name _ _ _ _); cbn [rbind rmap]; [|discriminate]. now intros [= <-].
      * destruct (parse_metadata _ _ _); cbn [rbind rmap]; [|discriminate]. now intros [= <-].
  - cbn [rbind rmap]. destruct (startswith (lit "# NUMBER CATEGORIES") line).
    + destruct (py_int (drop 20 line)); cbn [rbind rmap]; [|discriminate]. now intros [= <-].
    + destruct (startswith (lit "# CATEGORY NAME") line).
      * destruct (match_name cat_name_prefix line) as [[cat nm]|]; [|now intros [= <-]].
        destruct (corrected_name _ _ _ _); cbn [rbind rmap]; [|discriminate]. now intros [= <-].
      * destruct (parse_metadata _ _ _); cbn [rbind rmap]; [|discriminate]. now intros [= <-].
Qed.

Lemma cat_header_loop_ballots ac resv ls : forall i i1 rest,
  CatIO.header_loop ac resv i ls = Ok (i1, rest) -> c_prefs i1 = c_prefs i /\ c_mult i1 = c_mult i.
Proof.
  induction ls as [|l r IH]; intros i i1 rest; cbn [CatIO.header_loop]; [now intros [= <- _]|].
  destruct (startswith hash_prefix (strip l)); [|now intros [= <- _]].
  destruct (header_line ac resv i (strip l)) as [i'|e] eqn:E; simpl; [|discriminate].
  apply cat_header_line_ballots in E as [E1 E2].
  destruct r as [|x y]; [intros [= <- _]; now split|].
  intros H. apply IH in H as [H1 H2]. split; congruence.
Qed.

Lemma cat_ballot_loop_header ac ls : forall i i2,
  CatIO.ballot_loop ac i ls = Ok i2 -> set_c_ballots i2 [] [] = set_c_ballots i [] [].
Proof.
  induction ls as [|l r IH]; intros i i2; cbn [CatIO.ballot_loop]; [now intros [= <-]|].
  destruct (ballot_of_line l) as [[k b]|e]; simpl; [|discriminate].
  intros H. apply IH in H. rewrite H. unfold CatIO.add_ballot.
  destruct (if ac then _ else _); reflexivity.
Qed.

Lemma cat_header_only ac m0 ls i : cat_parse ac false m0 ls = Ok i ->
  exists h, cat_parse ac true m0 ls = Ok h /\ c_prefs h = [] /\ c_mult h = [] /\
            meta_texts (c_meta h) = meta_texts (c_meta i) /\
            (ac = false -> h = set_c_ballots i [] []).
Proof.
  unfold cat_parse. destruct (teqb (data_type m0) (lit "cat")); [|discriminate].
  set (m1 := if ac then _ else _). unfold cat_parse_body. set (resv := if ac then _ else _).
  destruct (CatIO.header_loop ac resv (cinst0 m1) ls) as [[i1 rest]|e] eqn:EH; simpl; [|discriminate].
  apply cat_header_loop_ballots in EH as [P M]. cbn [cinst0 c_prefs c_mult] in P, M.
  destruct (CatIO.ballot_loop ac i1 rest) as [i2|e] eqn:EB; simpl; [|discriminate].
  apply cat_ballot_loop_header in EB.
  assert (E1 : set_c_ballots i1 [] [] = i1) by (destruct i1; simpl in *; now subst).
  intros H. exists i1. repeat split; try assumption.
  - injection H as <-. apply (f_equal c_meta) in EB. cbn [set_c_ballots c_meta] in EB.
    destruct ac; [|now rewrite EB]. unfold recompute. cbn [set_c_num_unique set_c_meta c_meta]. now rewrite EB.
  - intros ->. injection H as <-. now rewrite EB.
Qed.

Lemma wmd_header_only W read_w ac m0 ls (i : winst W) : wmd_parse W read_w ac false m0 ls = Ok i ->
  exists ne, wmd_parse W read_w ac true m0 ls = Ok (mkW (w_meta i) ne [] []).
Proof.
  unfold wmd_parse. destruct (teqb (data_type m0) (lit "wmd")); [|discriminate].
  set (m1 := if ac then _ else _).
  destruct (wmd_header ac m1 0%N ls) as [[[m ne] rest]|e]; simpl; [|discriminate].
  destruct (parse_edges W read_w rest ([], [])) as [g|e]; simpl; [|discriminate].
  intros [= <-]. now exists ne.
Qed.

Theorem header_only_proof c dt ac ls i :
  parse_lines c dt (mkFlags ac false) ls = Ok i ->
  exists h, parse_lines c dt (mkFlags ac true) ls = Ok h /\
            inst_empty h = true /\
            meta_texts (inst_meta h) = meta_texts (inst_meta i) /\
            (ac = false -> header_agrees h i).
Proof.
  unfold parse_lines. destruct (type_validator c dt); [|discriminate]. unfold class_parse. cbn [autocorrect header_only].
  destruct c.
  - destruct (ord_parse ac false (meta0 dt) ls) as [o|e] eqn:E; simpl; [|discriminate]. intros [= <-].
    apply ord_header_only in E as [h [E [H1 [H2 [H3 H4]]]]]. rewrite E. simpl. exists (IOrd h).
    repeat split; [simpl; now rewrite H1, H2|exact H3|]. intros A. simpl. now rewrite (H4 A).
  - destruct (cat_parse ac false (meta0 dt) ls) as [o|e] eqn:E; simpl; [|discriminate]. intros [= <-].
    apply cat_header_only in E as [h [E [H1 [H2 [H3 H4]]]]]. rewrite E. simpl. exists (ICat h).
    repeat split; [simpl; now rewrite H1, H2|exact H3|]. intros A. simpl. now rewrite (H4 A).
  - unfold wmd_parse_tok. destruct (wmd_parse text tok_read ac false (meta0 dt) ls) as [o|e] eqn:E; simpl; [|discriminate].
    intros [= <-]. apply wmd_header_only in E as [ne E]. rewrite E. simpl.
    exists (IWmd (mkW (w_meta o) ne [] [])). repeat split.
Qed.

(* the header-only parse never looks at the lines behind the header: it succeeds whatever follows *)
Lemma ord_header_only_ok ac m0 ls st rest : OrdIO.header_loop ac ((if ac then set_reserved m0 (reserved_of alt_name_prefix ls) else m0), 0%N) ls = Ok (st, rest) ->
  ord_parse ac true m0 ls = Ok (mkOinst (fst st) (snd st) [] []).
Proof. unfold ord_parse. intros ->. destruct st. reflexivity. Qed.

(* ================================================================================================ *)
(* 5. restyling                                                                                     *)
(* ================================================================================================ *)
Lemma remove_sp_app a b : remove_sp (a ++ b) = remove_sp a ++ remove_sp b.
Proof. apply filter_app. Qed.

Lemma remove_sp_lstrip x : remove_sp (lstrip_by is_space x) = lstrip_by is_space (remove_sp x).
Proof.
  induction x as [|c r IH]; [reflexivity|]. cbn [lstrip_by]. destruct (is_space c) eqn:E.
  - rewrite IH. unfold remove_sp. cbn [filter]. destruct (negb (c =? 32)%N); [|reflexivity].
    cbn [lstrip_by]. now rewrite E.
  - unfold remove_sp. cbn [filter]. destruct (N.eqb_spec c 32) as [->|]; [discriminate E|].
    cbn [negb lstrip_by]. now rewrite E.
Qed.

Lemma remove_sp_rev x : remove_sp (rev x) = rev (remove_sp x).
Proof. apply filter_rev'. Qed.

(* removing U+0020 commutes with strip() *)
Lemma remove_sp_strip x : remove_sp (strip x) = strip (remove_sp x).
Proof.
  unfold strip, strip_by, rstrip_by. rewrite remove_sp_rev, remove_sp_lstrip, remove_sp_rev, remove_sp_lstrip.
  reflexivity.
Qed.

Lemma key_alt x : key x = strip (remove_sp x).
Proof. apply remove_sp_strip. Qed.

Lemma strip_pad a s b : forallb is_space a = true -> forallb is_space b = true -> strip (a ++ s ++ b) = strip s.
Proof.
  intros Ha Hb. rewrite app_assoc. rewrite strip_nl_r by exact Hb.
  unfold strip, strip_by. now rewrite lstrip_by_all.
Qed.

Lemma forallb_filter {T} (p g : T -> bool) l : forallb p l = true -> forallb p (filter g l) = true.
Proof. rewrite !forallb_forall. intros H x Hx. apply filter_In in Hx as [Hx _]. now apply H. Qed.

Lemma is_pad_space l : forallb is_pad l = true -> forallb is_space l = true.
Proof.
  rewrite !forallb_forall. intros H x Hx. specialize (H x Hx). unfold is_pad in H. now apply andb_true_iff in H as [H _].
Qed.
Lemma is_pad_no_break l : forallb is_pad l = true -> no_break l = true.
Proof.
  unfold no_break. rewrite !forallb_forall. intros H x Hx. specialize (H x Hx). unfold is_pad in H.
  now apply andb_true_iff in H as [_ H].
Qed.

Lemma remove_sp_repeat k : remove_sp (repeat 32%N k) = [].
Proof. induction k; [reflexivity|]. exact IHk. Qed.

Lemma remove_sp_spread l : forall prev g, remove_sp (spread prev g l) = remove_sp l.
Proof.
  induction l as [|c r IH]; intros prev g; [reflexivity|]. cbn [spread].
  rewrite remove_sp_app.
  assert (E : forall b : bool, remove_sp (if b then repeat 32%N (hd 0%nat g) else []) = []).
  { intros b. destruct b; [apply remove_sp_repeat|reflexivity]. }
  rewrite E. cbn [app]. change (c :: spread (Some c) (tl g) r) with ([c] ++ spread (Some c) (tl g) r).
  change (c :: r) with ([c] ++ r). rewrite !remove_sp_app. now rewrite IH.
Qed.

Lemma no_break_app a b : no_break (a ++ b) = no_break a && no_break b.
Proof. apply forallb_app. Qed.

Lemma no_break_repeat k : no_break (repeat 32%N k) = true.
Proof. induction k; [reflexivity|]. exact IHk. Qed.

Lemma no_break_spread l : forall prev g, no_break l = true -> no_break (spread prev g l) = true.
Proof.
  induction l as [|c r IH]; intros prev g H; [reflexivity|]. cbn [spread]. rewrite no_break_app.
  change (c :: r) with ([c] ++ r) in H. rewrite no_break_app in H. apply andb_true_iff in H as [Hc Hr].
  assert (E : forall b : bool, no_break (if b then repeat 32%N (hd 0%nat g) else []) = true).
  { intros b. destruct b; [apply no_break_repeat|reflexivity]. }
  rewrite E. cbn [andb]. change (c :: spread (Some c) (tl g) r) with ([c] ++ spread (Some c) (tl g) r).
  rewrite no_break_app, Hc. cbn [andb]. now apply IH.
Qed.

Lemma spread_nonempty l prev g : l <> [] -> spread prev g l <> [].
Proof. destruct l as [|c r]; [easy|]. intros _. cbn [spread]. now destruct (if gap_ok prev c then _ else _). Qed.

(* the content of a restyled line (without its terminator) *)
Definition styled_line (st : linestyle) (l : text) : text :=
  lead st ++ (if is_header_line l then l else spread None (gaps st) l) ++ trail st.

Fixpoint styled (pads : list linestyle) (ls : list text) : list (text * eol) :=
  match ls with
  | [] => []
  | l :: r => (styled_line (hd plain pads) l, term (hd plain pads)) :: styled (tl pads) r
  end.

Lemma restyle_lines_assemble ls : forall pads, restyle_lines pads ls = assemble (styled pads ls).
Proof.
  induction ls as [|l r IH]; intros pads; [reflexivity|].
  cbn [restyle_lines styled assemble flat_map fst snd]. fold (assemble (styled (tl pads) r)). rewrite IH.
  unfold restyle_line, styled_line. now rewrite <- !app_assoc.
Qed.

Lemma styled_line_equiv st l : wf_style st = true -> line_equiv (styled_line st l) l.
Proof.
  intros Hst. unfold wf_style in Hst. apply andb_true_iff in Hst as [Ha Hb].
  apply is_pad_space in Ha. apply is_pad_space in Hb.
  unfold styled_line. change (is_header_line l) with (hashed l). destruct (hashed l) eqn:Hh.
  - left. now apply strip_pad.
  - assert (K : key (lead st ++ spread None (gaps st) l ++ trail st) = key l).
    { rewrite !key_alt. rewrite !remove_sp_app, remove_sp_spread.
      apply strip_pad; now apply forallb_filter. }
    right. split; [|exact K]. rewrite hashed_key, K, <- hashed_key. exact Hh.
Qed.

Lemma styled_line_no_break st l : wf_style st = true -> no_break l = true -> no_break (styled_line st l) = true.
Proof.
  intros Hst Hl. unfold wf_style in Hst. apply andb_true_iff in Hst as [Ha Hb].
  unfold styled_line. rewrite !no_break_app. rewrite (is_pad_no_break _ Ha), (is_pad_no_break _ Hb).
  destruct (is_header_line l); [now rewrite Hl|]. now rewrite no_break_spread.
Qed.

Lemma styled_line_nonempty st l : l <> [] -> styled_line st l <> [].
Proof.
  intros Hl. unfold styled_line. intros E. apply app_eq_nil in E as [_ E]. apply app_eq_nil in E as [E _].
  destruct (is_header_line l); [easy|]. revert E. now apply spread_nonempty.
Qed.

Lemma wf_pad_hd pads : wf_pad pads = true -> wf_style (hd plain pads) = true.
Proof. destruct pads as [|p r]; [reflexivity|]. simpl. now intros H%andb_true_iff. Qed.
Lemma wf_pad_tl pads : wf_pad pads = true -> wf_pad (tl pads) = true.
Proof. destruct pads as [|p r]; [reflexivity|]. simpl. now intros H%andb_true_iff. Qed.

Definition line_ok (l : text) : Prop := no_break l = true /\ l <> [].

Lemma styled_facts ls : forall pads, wf_pad pads = true -> Forall line_ok ls ->
  Forall seg_ok (styled pads ls) /\ Forall (fun p => fst p <> []) (styled pads ls) /\
  Forall2 line_equiv (map fst (styled pads ls)) ls.
Proof.
  induction ls as [|l r IH]; intros pads Hp HL; [repeat split; constructor|].
  inversion HL as [|x y [Hb Hn] Hr]; subst.
  destruct (IH (tl pads) (wf_pad_tl _ Hp) Hr) as [A [B C]]. pose proof (wf_pad_hd _ Hp) as Hs.
  cbn [styled map fst]. repeat split; constructor; try assumption.
  - unfold seg_ok. cbn [fst]. now apply styled_line_no_break.
  - cbn [fst]. now apply styled_line_nonempty.
  - now apply styled_line_equiv.
Qed.

(* lf_lines inverts unlines *)
Lemma lf_lines_aux_line l : forall cur rest, no_nlcr l = true ->
  lf_lines_aux cur (l ++ 10%N :: rest) = (rev cur ++ l) :: lf_lines_aux [] rest.
Proof.
  induction l as [|c r IH]; intros cur rest H.
  - cbn [app lf_lines_aux]. change (N.eqb 10 10) with true. cbv iota. now rewrite app_nil_r.
  - simpl in H. apply andb_true_iff in H as [Hc Hr]. apply andb_true_iff in Hc as [H10 _].
    apply negb_true_iff in H10. cbn [app lf_lines_aux]. rewrite H10. rewrite IH by exact Hr.
    cbn [rev]. now rewrite <- app_assoc.
Qed.

Lemma lf_lines_unlines ls : forallb no_nlcr ls = true -> lf_lines (unlines ls) = ls.
Proof.
  unfold lf_lines. induction ls as [|l r IH]; intros H; [reflexivity|].
  simpl in H. apply andb_true_iff in H as [Hl Hr]. cbn [unlines flat_map]. fold (unlines r).
  unfold nl. rewrite <- app_assoc. cbn [app]. rewrite lf_lines_aux_line by exact Hl. cbn [rev app].
  now rewrite IH.
Qed.

Lemma Forall2_map_l {A B C} (R : B -> C -> Prop) (f : A -> B) l l' :
  Forall2 (fun a c => R (f a) c) l l' -> Forall2 R (map f l) l'.
Proof. induction 1; constructor; assumption. Qed.
Lemma Forall2_map_r {A B C} (R : A -> C -> Prop) (f : B -> C) l l' :
  Forall2 (fun a b => R a (f b)) l l' -> Forall2 R l (map f l').
Proof. induction 1; constructor; assumption. Qed.
Lemma Forall2_impl' {A B} (R S : A -> B -> Prop) l l' : (forall a b, R a b -> S a b) -> Forall2 R l l' -> Forall2 S l l'.
Proof. intros H. induction 1; constructor; auto. Qed.
Lemma Forall2_of_map {A B} (R : B -> B -> Prop) (f : A -> B) (l : list A) :
  (forall a, R (f a) (f a)) -> Forall2 R (map f l) (map f l).
Proof. intros H. induction l; constructor; auto. Qed.

(* the lines every entry point extracts from the restyled text are equivalent to the canonical lines *)
Theorem restyle_lines_equiv e pads ls : wf_pad pads = true -> Forall line_ok ls ->
  Forall2 line_equiv (split_entry e (restyle pads (unlines ls))) (readlines (unlines ls)).
Proof.
  intros Hp HL.
  assert (NB : forallb no_break ls = true).
  { apply forallb_forall. intros l Hl. rewrite Forall_forall in HL. now apply HL. }
  pose proof (forallb_no_nlcr _ NB) as NN.
  unfold restyle. rewrite lf_lines_unlines by exact NN. rewrite restyle_lines_assemble.
  rewrite readlines_unlines by exact NN.
  destruct (styled_facts ls pads Hp HL) as [A [B C]].
  pose proof (cr_safe_nonempty _ A B) as S.
  destruct (splitters_proof _ A S) as [R1 [R2 [R3 _]]].
  assert (G : forall (f g : text -> text), (forall x, strip (f x) = strip x) -> (forall x, strip (g x) = strip x) ->
              Forall2 line_equiv (map f (map fst (styled pads ls))) (map g ls)).
  { intros f g Hf Hg. apply Forall2_map_l, Forall2_map_r. eapply Forall2_impl'; [|exact C].
    intros a b H. cbv beta. eapply line_equiv_trans; [left; apply Hf|]. eapply line_equiv_trans; [exact H|].
    left. symmetry. apply Hg. }
  destruct e; cbn [split_entry].
  - rewrite R1. rewrite <- (map_map fst (fun x => x ++ nl)). apply G; intros x; apply strip_nl.
  - rewrite R2. rewrite <- (map_id (map fst (styled pads ls))). apply G; [reflexivity|intros x; apply strip_nl].
  - rewrite R3. apply G; [apply strip_idem|intros x; apply strip_nl].
Qed.

(* C10_entrypoints, general form: for ANY text made of non-empty LF-terminated lines without line-boundary
   characters (not only written files), every entry point on every restyling = parse_file on the text itself *)
Theorem entrypoints_text_proof e c dt f pads ls : wf_pad pads = true -> Forall line_ok ls ->
  parse_entry e c dt f (restyle pads (unlines ls)) = parse_file_model c dt f (unlines ls).
Proof.
  intros Hp HL. unfold parse_entry, parse_file_model. apply parse_lines_equiv. now apply restyle_lines_equiv.
Qed.

(* without restyling: the three entry points agree on the canonical text *)
Corollary entrypoints_plain_proof e c dt f ls : Forall line_ok ls ->
  parse_entry e c dt f (unlines ls) = parse_file_model c dt f (unlines ls).
Proof.
  intros HL.
  assert (NB : forallb no_break ls = true).
  { apply forallb_forall. intros l Hl. rewrite Forall_forall in HL. now apply HL. }
  unfold parse_entry, parse_file_model. apply parse_lines_strip.
  destruct e; cbn [split_entry]; [reflexivity| |]; rewrite readlines_unlines by (now apply forallb_no_nlcr).
  - rewrite splitlines_unlines by exact NB. rewrite map_map. apply map_ext. intros x. now rewrite strip_nl.
  - unfold urllines. rewrite splitlines_unlines by exact NB. rewrite !map_map. apply map_ext. intros x.
    now rewrite strip_idem, strip_nl.
Qed.

(* ================================================================================================ *)
(* 8. the declared type derived from a path / URL                                                   *)
(* ================================================================================================ *)
Lemma has_char_app c a b : has_char c (a ++ b) = has_char c a || has_char c b.
Proof. apply existsb_app. Qed.

Lemma has_char_rev c a : has_char c (rev a) = has_char c a.
Proof.
  unfold has_char. destruct (existsb (N.eqb c) a) eqn:E.
  - apply existsb_exists in E as [x [Hx Ex]]. apply existsb_exists. exists x. split; [now apply in_rev in Hx|exact Ex].
  - destruct (existsb (N.eqb c) (rev a)) eqn:F; [|reflexivity].
    apply existsb_exists in F as [x [Hx Ex]]. apply in_rev in Hx.
    assert (existsb (N.eqb c) a = true) by (apply existsb_exists; now exists x). congruence.
Qed.

Lemma take_until_stop c a b : has_char c a = false -> take_until c (a ++ c :: b) = a.
Proof.
  induction a as [|x r IH]; intros H; cbn [app take_until].
  - now rewrite N.eqb_refl.
  - cbn [has_char existsb] in H. apply orb_false_iff in H as [H1 H2]. rewrite N.eqb_sym in H1. rewrite H1.
    f_equal. now apply IH.
Qed.

Lemma take_until_all c a : has_char c a = false -> take_until c a = a.
Proof.
  induction a as [|x r IH]; intros H; [reflexivity|]. cbn [take_until].
  cbn [has_char existsb] in H. apply orb_false_iff in H as [H1 H2]. rewrite N.eqb_sym in H1. rewrite H1.
  f_equal. now apply IH.
Qed.

Lemma after_last_stop c x e : has_char c e = false -> after_last c (x ++ c :: e) = e.
Proof.
  intros H. unfold after_last. rewrite rev_app_distr. cbn [rev]. rewrite <- app_assoc. cbn [app].
  rewrite take_until_stop by (now rewrite has_char_rev). apply rev_involutive.
Qed.

Lemma after_last_all c s : has_char c s = false -> after_last c s = s.
Proof. intros H. unfold after_last. rewrite take_until_all by (now rewrite has_char_rev). apply rev_involutive. Qed.

Lemma firstn_exact {T} (a b : list T) : firstn (List.length a) (a ++ b) = a.
Proof. induction a as [|x r IH]; [reflexivity|]. cbn. now rewrite IH. Qed.

(* a path  dir/stem.ext  (dir empty or ending in "/"; no "/" in stem and ext, no "." in ext, stem not made of dots
   only - so NOT ".soc" or "...soc") has the declared type ext for parse_file / get_parsed_instance (os.path.splitext)
   and for parse_url (url.split(".")[-1]), whatever precedes the path in the URL and however many dots the stem or
   the directories contain *)
Theorem declared_type_proof pre d stem e :
  (d = [] \/ exists d', d = d' ++ [47%N]) ->
  has_char 47 stem = false -> has_char 47 e = false -> has_char 46 e = false ->
  forallb (N.eqb 46) stem = false ->
  splitext_ext (d ++ stem ++ 46%N :: e) = e /\ url_ext (pre ++ d ++ stem ++ 46%N :: e) = e.
Proof.
  intros Hd Hs He1 He2 Hst. split.
  - unfold splitext_ext.
    assert (B : after_last 47 (d ++ stem ++ 46%N :: e) = stem ++ 46%N :: e).
    { assert (N47 : has_char 47 (stem ++ 46%N :: e) = false).
      { rewrite has_char_app, Hs. cbn [has_char existsb orb]. exact He1. }
      destruct Hd as [->|[d' ->]].
      - now apply after_last_all.
      - rewrite <- app_assoc. cbn [app]. now apply after_last_stop. }
    rewrite B.
    assert (D : has_char 46 (stem ++ 46%N :: e) = true).
    { rewrite has_char_app. cbn [has_char existsb]. rewrite N.eqb_refl. now rewrite orb_true_r. }
    rewrite D. rewrite (after_last_stop 46 stem e He2).
    replace (List.length (stem ++ 46%N :: e) - S (List.length e))%nat with (List.length stem)
      by (rewrite app_length; cbn [List.length]; lia).
    rewrite firstn_exact. now rewrite Hst.
  - unfold url_ext. rewrite !app_assoc. now apply after_last_stop.
Qed.

(* the two derivations differ on the unchanged tree when only dots precede the last dot of the base name *)
Example declared_type_hidden :
  splitext_ext (lit "/d/.soc") = [] /\ url_ext (lit "file:///d/.soc") = lit "soc" /\
  splitext_ext (lit "/d/...soc") = [] /\ url_ext (lit "file:///d/...soc") = lit "soc" /\
  splitext_ext (lit "/dir.v1/inst") = [] /\ url_ext (lit "file:///dir.v1/inst") = lit "v1/inst" /\
  splitext_ext (lit "/dir.v1/00002-00000001.v2.soi") = lit "soi" /\ url_ext (lit "file:///dir.v1/00002-00000001.v2.soi") = lit "soi" /\
  splitext_ext (lit "/d/x..wmd") = lit "wmd" /\ url_ext (lit "file:///d/x..wmd") = lit "wmd".
Proof. repeat split; vm_compute; reflexivity. Qed.

Theorem paths_proof c pre d stem e f t :
  (d = [] \/ exists d', d = d' ++ [47%N]) ->
  has_char 47 stem = false -> has_char 47 e = false -> has_char 46 e = false ->
  forallb (N.eqb 46) stem = false ->
  let p := d ++ stem ++ 46%N :: e in
  parse_file_path c p f t = parse_file_model c e f t /\
  parse_url_url c (pre ++ p) f t = parse_url_model c e f t /\
  get_parsed_instance_path p f t = get_parsed_instance_model e f t.
Proof.
  intros Hd Hs He1 He2 Hst p. destruct (declared_type_proof pre d stem e Hd Hs He1 He2 Hst) as [A B].
  unfold parse_file_path, parse_url_url, get_parsed_instance_path. subst p. now rewrite A, B.
Qed.
