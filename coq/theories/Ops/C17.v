(* Ops/C17.v — protocol entry points for property C17 (from_ordinal, factorise_instance). *)
From Coq Require Import List ZArith NArith String.
From PrefVerif Require Import Lib.Val Lib.Dec Model.FromOrdinal.
Import ListNotations.
Open Scope string_scope.

Definition d_tuple2 (v : val) : list (list N) := dlist (dlist dN) v.      (* an order or a ballot *)
Definition d_text (v : val) : text := dlist dN v.
Definition e_tuple2 (b : list (list N)) : val := elist (elist eN) b.
Definition e_text (t : text) : val := elist eN t.

(* payload: (num_alternatives ((alt name) ...) ((order mult) ...) nic st rst category_name)
   nic, st : () for None, ((n ...)) for a list;  rst : () for None, ((table ...)) for a list of
   relative truncators, each given as the table  n |-> int(ceil(n * t)),  n = 0 .. max len(order) *)
(* the last field (the padded ballot of every source order, in source order) is not compared by the
   harness; it is used for its statistics (which orders collapse) and recorded in replay files *)
Definition e_cat_inst (per_order : list ballot) (c : cat_inst) : val :=
  VL [ elist e_tuple2 (ci_preferences c);
       elist (epair e_tuple2 eN) (ci_multiplicity c);
       eN (ci_num_voters c);
       eN (ci_num_unique_preferences c);
       eN (ci_num_categories c);
       elist (epair e_text e_text) (ci_categories_name c);
       eN (ci_num_alternatives c);
       elist (epair eN e_text) (ci_alternatives_name c);
       elist e_tuple2 per_order ].

Definition op_from_ordinal (v : val) : val :=
  let src := {| os_num_alternatives := dN (dnth 0 v);
                os_alternatives_name := dlist (dpair dN d_text) (dnth 1 v);
                os_multiplicity := dlist (dpair d_tuple2 dN) (dnth 2 v) |} in
  let nic := doption (dlist dN) (dnth 3 v) in
  let st := doption (dlist dN) (dnth 4 v) in
  let rst := doption (dlist (dlist dN)) (dnth 5 v) in
  let cn := doption (dlist d_text) (dnth 6 v) in      (* category_name: () = None, ((name ...)) = a list *)
  eresult (e_cat_inst (fo_ballots nic st rst (os_multiplicity src))) (from_ordinal src nic st rst cn).

(* payload: (reset prefs ((ballot mult) ...)) -> (prefs mult num_voters num_unique_preferences)
   (factorise_instance followed by recompute_cardinality_param) *)
Definition op_factorise (v : val) : val :=
  let '(prefs, mult) := factorise_instance (dbool (dnth 0 v)) (dlist d_tuple2 (dnth 1 v))
                                           (dlist (dpair d_tuple2 dN) (dnth 2 v)) in
  VL [ elist e_tuple2 prefs; elist (epair e_tuple2 eN) mult;
       eN (sumN (map snd mult)); eN (lenN (dedup prefs)) ].

(* payload: (((order mult) ...) prefs ((ballot mult) ...) k) -> (conv_check  all ballots trailing_ok) *)
Definition op_conv_check (v : val) : val :=
  VL [ ebool (conv_check (dlist (dpair d_tuple2 dN) (dnth 0 v)) (dlist d_tuple2 (dnth 1 v))
                         (dlist (dpair d_tuple2 dN) (dnth 2 v)) (dN (dnth 3 v)));
       ebool (forallb trailing_ok (dlist d_tuple2 (dnth 1 v))) ].

Definition ops : optable :=
  [ ("c17.from_ordinal", op_from_ordinal); ("c17.factorise", op_factorise);
    ("c17.conv_check", op_conv_check) ].
