(* Model/Bucklin.v — mirror model of fallback_voting_winner and bucklin_voting_winner
   (preflibtools/aggregation/singlewinner.py).  (C14)   Executable definitions only.

     scores = defaultdict(0); quota = num_voters // 2 + 1; current_pos = 0; current_max_value = -1
     while current_max_value < quota and current_pos < num_alternatives:
         for order, mult in multiplicity.items():          (bucklin: for order in orders: mult = multiplicity[order])
             if len(order) > current_pos:
                 a = order[current_pos][0]; scores[a] += mult
                 current_max_value = max(current_max_value, scores[a])
         current_pos += 1
     best = max(scores.values()); return {a | scores[a] == best}

   The while loop is recursion on explicit fuel; the loop test is evaluated before the fuel test, so that
   fuel = num_alternatives is exactly enough (Proofs/Bucklin.v: level_loop_fuel). *)
From Coq Require Import List Arith NArith ZArith Bool.
From PrefVerif Require Import Lib.Val Model.Scoring.
Import ListNotations.

Definition tbl_get (t : list (N * N)) (a : N) : N :=
  match find (fun e => N.eqb (fst e) a) t with Some e => snd e | None => 0%N end.

(* one pass of the for loop at depth pos; state = (score table, current_max_value) *)
Definition round_step (pos : nat) (st : list (N * N) * Z) (om : order * N) : list (N * N) * Z :=
  match nth_error (fst om) pos with
  | Some (a :: _) =>
      let t' := tbl_add N.add 0%N (fst st) a (snd om) in
      (t', Z.max (snd st) (Z.of_N (tbl_get t' a)))
  | _ => st                                   (* len(order) <= pos: skipped *)
  end.

Definition round (pos : nat) (p : profile) (st : list (N * N) * Z) : list (N * N) * Z :=
  fold_left (round_step pos) p st.

Fixpoint level_loop (fuel : nat) (p : profile) (quota : Z) (m : nat) (pos : nat) (st : list (N * N) * Z)
  : result (list (N * N)) :=
  if (snd st <? quota)%Z && (pos <? m) then
    match fuel with
    | O => Err OutOfFuel
    | S f => level_loop f p quota m (S pos) (round pos p st)
    end
  else Ok (fst st).

Definition quota_of (i : inst) : Z := Z.of_N (N.div (n_vot i) 2 + 1).

Definition level_core (i : inst) : result (list N) :=
  rbind (level_loop (N.to_nat (n_alt i)) (prof i) (quota_of i) (N.to_nat (n_alt i)) 0 ([], (-1)%Z))
        (tbl_winners N.leb).

Definition fallback_winner (i : inst) : result (list N) :=
  if dt_in (dt i) [Soc; Soi] then level_core i else Err Incompatible.

Definition bucklin_winner (i : inst) : result (list N) :=
  if dt_in (dt i) [Soc] then level_core i else Err Incompatible.
