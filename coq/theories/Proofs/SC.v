(* Proofs/SC.v — lemmas about Model/SC.v (C04; reused by C15, C19). *)
From Coq Require Import List Arith NArith Bool Lia Permutation Sorted.
From PrefVerif Require Import Lib.Perms Model.Distances Model.SC.
Import ListNotations.

(* ============================================================================================== *)
(* 1. boolean sequences: number of changes, monotone test                                         *)
(* ============================================================================================== *)
Fixpoint changes (l : list bool) : nat :=
  match l with
  | [] => 0
  | x :: t => match t with
              | [] => 0
              | y :: _ => (if Bool.eqb x y then 0 else 1) + changes t
              end
  end.

Lemma changes_cons2 x y t :
  changes (x :: y :: t) = (if Bool.eqb x y then 0 else 1) + changes (y :: t).
Proof. reflexivity. Qed.

Lemma switches_changes a b s : switches a b s = changes (map (fun o => prefers o a b) s).
Proof.
  induction s as [|o1 t IH]; [reflexivity|].
  destruct t as [|o2 t']; [reflexivity|].
  change (switches a b (o1 :: o2 :: t')) with
    ((if Bool.eqb (prefers o1 a b) (prefers o2 a b) then 0 else 1) + switches a b (o2 :: t')).
  rewrite IH. reflexivity.
Qed.

Lemma const_changes y t : forallb (Bool.eqb y) t = true <-> changes (y :: t) = 0.
Proof.
  revert y; induction t as [|z t IH]; intros y.
  - simpl. tauto.
  - rewrite changes_cons2. cbn [forallb]. rewrite andb_true_iff.
    destruct (Bool.eqb y z) eqn:E.
    + apply eqb_prop in E. subst z. rewrite IH. simpl. tauto.
    + split; [intros [H _]; discriminate | lia].
Qed.

Lemma mono_changes l : mono l = true <-> changes l <= 1.
Proof.
  induction l as [|x t IH]; [simpl; split; auto|].
  destruct t as [|y t']; [simpl; split; auto|].
  rewrite changes_cons2.
  change (mono (x :: y :: t')) with (if Bool.eqb x y then mono (y :: t') else forallb (Bool.eqb y) (y :: t')).
  destruct (Bool.eqb x y).
  - rewrite IH. simpl. tauto.
  - cbn [forallb]. rewrite eqb_reflx. cbn [andb]. rewrite const_changes. lia.
Qed.

(* ============================================================================================== *)
(* 2. sc_seq_check                                                                                *)
(* ============================================================================================== *)
Lemma prefers_same o a : prefers o a a = false.
Proof.
  induction o as [|x t IH]; [reflexivity|]. simpl.
  destruct (N.eqb x a); [reflexivity|exact IH].
Qed.

Lemma pair_ok_correct s a b : pair_ok s a b = true <-> (a <> b -> switches a b s <= 1).
Proof.
  unfold pair_ok. destruct (N.eqb_spec a b) as [->|Hne].
  - split; [intros _ H; contradiction|reflexivity].
  - rewrite mono_changes, <- switches_changes. tauto.
Qed.

Theorem sc_seq_check_correct alts s :
  sc_seq_check alts s = true <-> single_crossing_seq alts s.
Proof.
  unfold sc_seq_check, single_crossing_seq. rewrite forallb_forall. split.
  - intros H a b Ha Hb Hne. specialize (H a Ha). rewrite forallb_forall in H.
    apply (proj1 (pair_ok_correct s a b) (H b Hb) Hne).
  - intros H a Ha. rewrite forallb_forall. intros b Hb. apply pair_ok_correct. intros Hne. now apply H.
Qed.

(* ============================================================================================== *)
(* 3. sc_decide                                                                                   *)
(* ============================================================================================== *)
Theorem sc_decide_correct alts orders : sc_decide alts orders = true <-> SC alts orders.
Proof.
  unfold sc_decide, SC. apply exists_perm_dec. intros r. apply sc_seq_check_correct.
Qed.

Lemma sc_decide_false alts orders : sc_decide alts orders = false <-> ~ SC alts orders.
Proof.
  rewrite <- sc_decide_correct. destruct (sc_decide alts orders); split; intros; try discriminate; auto.
  exfalso; auto.
Qed.

(* ============================================================================================== *)
(* 4. witness checker                                                                             *)
(* ============================================================================================== *)
Lemma order_eqb_eq o1 o2 : order_eqb o1 o2 = true <-> o1 = o2.
Proof.
  revert o2; induction o1 as [|x t IH]; intros [|y t2]; simpl; try (split; [discriminate|discriminate]).
  - tauto.
  - rewrite andb_true_iff, N.eqb_eq, IH. split.
    + intros [-> ->]; reflexivity.
    + intros H; injection H as -> ->; auto.
Qed.

Lemma mem_order_In o l : mem_order o l = true <-> In o l.
Proof.
  unfold mem_order. rewrite existsb_exists. split.
  - intros (x & Hin & He). apply order_eqb_eq in He. now subst.
  - intros H. exists o. split; [assumption|now apply order_eqb_eq].
Qed.

Lemma nodup_b_NoDup l : nodup_b l = true <-> NoDup l.
Proof.
  induction l as [|x t IH]; simpl.
  - split; [constructor|reflexivity].
  - rewrite andb_true_iff, negb_true_iff, IH. split.
    + intros [Hn Ht]. constructor; [|assumption]. intros Hin. apply mem_order_In in Hin. congruence.
    + intros H. inversion H as [|? ? Hn Ht]; subst. split; [|assumption].
      destruct (mem_order x t) eqn:E; [|reflexivity]. apply mem_order_In in E. contradiction.
Qed.

Lemma same_orders_correct orders s :
  same_orders orders s = true <-> NoDup s /\ (forall o, In o s <-> In o orders).
Proof.
  unfold same_orders. rewrite !andb_true_iff, nodup_b_NoDup, !forallb_forall. split.
  - intros [[Hnd H1] H2]. split; [assumption|]. intros o. split; intros Hin.
    + apply mem_order_In. now apply H1.
    + apply mem_order_In. now apply H2.
  - intros [Hnd H]. repeat split; [assumption| |]; intros o Hin; apply mem_order_In; now apply H.
Qed.

(* on a duplicate-free order list: s is an arrangement of the orders *)
Lemma same_orders_perm orders s : NoDup orders ->
  (same_orders orders s = true <-> Permutation orders s).
Proof.
  intros Hnd. rewrite same_orders_correct. split.
  - intros [Hs H]. apply NoDup_Permutation; [assumption|assumption|]. intros o. symmetry. apply H.
  - intros HP. split.
    + eapply Permutation_NoDup; eassumption.
    + intros o. split; intros Hin.
      * eapply Permutation_in; [apply Permutation_sym; eassumption|assumption].
      * eapply Permutation_in; eassumption.
Qed.

(* the checker accepts exactly the sequences that contain every distinct order of the profile
   exactly once and along which every pair of alternatives switches at most once *)
Theorem sc_witness_check_correct alts orders s :
  sc_witness_check alts orders s = true <->
  NoDup s /\ (forall o, In o s <-> In o orders) /\ single_crossing_seq alts s.
Proof.
  unfold sc_witness_check. rewrite andb_true_iff, same_orders_correct, sc_seq_check_correct. tauto.
Qed.

Theorem sc_witness_check_perm alts orders s : NoDup orders ->
  (sc_witness_check alts orders s = true <-> Permutation orders s /\ single_crossing_seq alts s).
Proof.
  intros Hnd. unfold sc_witness_check.
  rewrite andb_true_iff, (same_orders_perm _ _ Hnd), sc_seq_check_correct. tauto.
Qed.

(* an accepted witness proves the profile single-crossing; a single-crossing profile has one *)
Corollary sc_witness_sound alts orders s : NoDup orders ->
  sc_witness_check alts orders s = true -> SC alts orders.
Proof. intros Hnd H. apply sc_witness_check_perm in H; [|assumption]. exists s. exact H. Qed.

Corollary sc_witness_complete alts orders : NoDup orders ->
  SC alts orders -> exists s, sc_witness_check alts orders s = true.
Proof. intros Hnd (s & H). exists s. now apply sc_witness_check_perm. Qed.

(* ============================================================================================== *)
(* 5. invariance: storage order, index set of alternatives, relabelling, reversal                 *)
(* ============================================================================================== *)
Theorem sc_perm alts orders orders' : Permutation orders orders' -> (SC alts orders <-> SC alts orders').
Proof.
  intros HP. split; intros (s & Hs & H); exists s; split; try assumption.
  - eapply Permutation_trans; [apply Permutation_sym; eassumption|assumption].
  - eapply Permutation_trans; eassumption.
Qed.

Lemma sc_alts_incl alts alts' orders : incl alts' alts -> SC alts orders -> SC alts' orders.
Proof.
  intros Hi (s & Hs & H). exists s. split; [assumption|]. intros a b Ha Hb. apply H; now apply Hi.
Qed.

Lemma sc_alts_perm alts alts' orders : Permutation alts alts' -> (SC alts orders <-> SC alts' orders).
Proof.
  intros HP. split; apply sc_alts_incl; intros x Hx.
  - eapply Permutation_in; [apply Permutation_sym; eassumption|assumption].
  - eapply Permutation_in; eassumption.
Qed.

Theorem sc_decide_perm alts alts' orders orders' :
  Permutation alts alts' -> Permutation orders orders' -> sc_decide alts orders = sc_decide alts' orders'.
Proof.
  intros Ha Ho.
  assert (E : sc_decide alts orders = true <-> sc_decide alts' orders' = true).
  { rewrite !sc_decide_correct, (sc_perm _ _ _ Ho). now apply sc_alts_perm. }
  destruct (sc_decide alts orders), (sc_decide alts' orders'); try reflexivity.
  - symmetry. now apply E.
  - now apply E.
Qed.

(* relabelling of the alternatives by an injective map *)
Section Relabel.
Variable f : N -> N.
Hypothesis f_inj : forall x y, f x = f y -> x = y.

Lemma f_eqb x y : N.eqb (f x) (f y) = N.eqb x y.
Proof.
  destruct (N.eqb_spec x y) as [->|Hne].
  - apply N.eqb_refl.
  - apply N.eqb_neq. intros H. apply Hne. now apply f_inj.
Qed.

Lemma prefers_relabel o a b : prefers (map f o) (f a) (f b) = prefers o a b.
Proof.
  induction o as [|x t IH]; [reflexivity|]. simpl. rewrite !f_eqb, IH. reflexivity.
Qed.

Lemma switches_relabel a b s : switches (f a) (f b) (map (map f) s) = switches a b s.
Proof.
  rewrite !switches_changes, map_map. f_equal. apply map_ext. intros o. apply prefers_relabel.
Qed.

Lemma sc_seq_relabel alts s :
  single_crossing_seq (map f alts) (map (map f) s) <-> single_crossing_seq alts s.
Proof.
  unfold single_crossing_seq. split.
  - intros H a b Ha Hb Hne. rewrite <- switches_relabel. apply H; try now apply in_map.
    intros E. apply Hne. now apply f_inj.
  - intros H a' b' Ha Hb Hne. apply in_map_iff in Ha. destruct Ha as (a & <- & Ha).
    apply in_map_iff in Hb. destruct Hb as (b & <- & Hb). rewrite switches_relabel. apply H; try assumption.
    intros ->. now apply Hne.
Qed.

Theorem sc_relabel alts orders : SC (map f alts) (map (map f) orders) <-> SC alts orders.
Proof.
  split.
  - intros (s' & Hs & H). apply Permutation_sym, Permutation_map_inv in Hs.
    destruct Hs as (s & -> & Hs). exists s. split; [now apply Permutation_sym|]. now apply sc_seq_relabel.
  - intros (s & Hs & H). exists (map (map f) s). split; [now apply Permutation_map|]. now apply sc_seq_relabel.
Qed.

Theorem sc_decide_relabel alts orders :
  sc_decide (map f alts) (map (map f) orders) = sc_decide alts orders.
Proof.
  assert (E : sc_decide (map f alts) (map (map f) orders) = true <-> sc_decide alts orders = true).
  { rewrite !sc_decide_correct. apply sc_relabel. }
  destruct (sc_decide (map f alts) (map (map f) orders)), (sc_decide alts orders); try reflexivity.
  - symmetry. now apply E.
  - now apply E.
Qed.
End Relabel.

(* reversing the sequence *)
Lemma changes_snoc2 l y x :
  changes (l ++ [y; x]) = changes (l ++ [y]) + (if Bool.eqb y x then 0 else 1).
Proof.
  induction l as [|z t IH].
  - simpl. lia.
  - destruct t as [|w t'].
    + simpl. lia.
    + change ((z :: w :: t') ++ [y; x]) with (z :: w :: (t' ++ [y; x])).
      change ((z :: w :: t') ++ [y]) with (z :: w :: (t' ++ [y])).
      rewrite !changes_cons2.
      change (w :: t' ++ [y; x]) with ((w :: t') ++ [y; x]).
      change (w :: t' ++ [y]) with ((w :: t') ++ [y]). rewrite IH. lia.
Qed.

Lemma changes_rev l : changes (rev l) = changes l.
Proof.
  induction l as [|x t IH]; [reflexivity|].
  destruct t as [|y t']; [reflexivity|].
  rewrite changes_cons2. cbn [rev] in *. rewrite <- app_assoc. cbn [app].
  rewrite changes_snoc2, IH. destruct x, y; simpl; lia.
Qed.

Lemma switches_rev a b s : switches a b (rev s) = switches a b s.
Proof. rewrite !switches_changes, map_rev. apply changes_rev. Qed.

Theorem sc_seq_rev alts s : single_crossing_seq alts s -> single_crossing_seq alts (rev s).
Proof. intros H a b Ha Hb Hne. rewrite switches_rev. now apply H. Qed.

(* ============================================================================================== *)
(* 6. heredity: deleting voters, restricting alternatives                                         *)
(* ============================================================================================== *)
Lemma changes_tail x l : changes l <= changes (x :: l).
Proof. destruct l as [|y t]; [simpl; lia|]. rewrite changes_cons2. lia. Qed.

Lemma changes_skip z x l : changes (z :: l) <= changes (z :: x :: l).
Proof.
  destruct l as [|y t]; [simpl; lia|]. rewrite !changes_cons2.
  destruct z, x, y; simpl; lia.
Qed.

Lemma changes_delete l1 x l2 : changes (l1 ++ l2) <= changes (l1 ++ x :: l2).
Proof.
  induction l1 as [|z t IH].
  - simpl app. apply changes_tail.
  - destruct t as [|w t'].
    + simpl app. apply changes_skip.
    + change ((z :: w :: t') ++ l2) with (z :: w :: (t' ++ l2)).
      change ((z :: w :: t') ++ x :: l2) with (z :: w :: (t' ++ x :: l2)).
      rewrite !changes_cons2.
      change (w :: t' ++ l2) with ((w :: t') ++ l2).
      change (w :: t' ++ x :: l2) with ((w :: t') ++ x :: l2). lia.
Qed.

Lemma switches_delete a b s1 x s2 : switches a b (s1 ++ s2) <= switches a b (s1 ++ x :: s2).
Proof. rewrite !switches_changes, !map_app. cbn [map]. apply changes_delete. Qed.

Lemma sc_delete_one alts x l : SC alts (x :: l) -> SC alts l.
Proof.
  intros (s & Hs & H).
  assert (Hin : In x s) by (eapply Permutation_in; [eassumption|now left]).
  apply in_split in Hin. destruct Hin as (s1 & s2 & ->).
  exists (s1 ++ s2). split.
  - eapply Permutation_cons_app_inv. eassumption.
  - intros a b Ha Hb Hne. eapply Nat.le_trans; [apply switches_delete|]. now apply H.
Qed.

(* deleting voters: every sub-multiset of a single-crossing profile is single-crossing *)
Theorem sc_sub_voters alts orders sub rest :
  Permutation orders (sub ++ rest) -> SC alts orders -> SC alts sub.
Proof.
  revert orders. induction rest as [|x r IH]; intros orders HP H.
  - rewrite app_nil_r in HP. now apply (sc_perm _ _ _ HP).
  - apply (IH (sub ++ r)); [apply Permutation_refl|].
    apply sc_delete_one with (x := x). apply (sc_perm alts _ _ HP) in H.
    eapply sc_perm; [|exact H]. apply Permutation_middle.
Qed.

Lemma nodup_incl_split {T} (sub l : list T) :
  NoDup sub -> incl sub l -> exists rest, Permutation l (sub ++ rest).
Proof.
  revert l. induction sub as [|x t IH]; intros l Hnd Hi.
  - exists l. apply Permutation_refl.
  - inversion Hnd as [|? ? Hx Ht]; subst.
    assert (Hin : In x l) by (apply Hi; now left).
    apply in_split in Hin. destruct Hin as (l1 & l2 & ->).
    destruct (IH (l1 ++ l2) Ht) as (rest & HP).
    + intros y Hy. assert (Hy' : In y (l1 ++ x :: l2)) by (apply Hi; now right).
      apply in_app_iff in Hy'. apply in_app_iff. destruct Hy' as [?|[<-|?]]; auto. contradiction.
    + exists rest. simpl. apply Permutation_sym, Permutation_cons_app, Permutation_sym. exact HP.
Qed.

Theorem sc_sub_voters_incl alts orders sub :
  NoDup sub -> incl sub orders -> SC alts orders -> SC alts sub.
Proof.
  intros Hnd Hi H. destruct (nodup_incl_split sub orders Hnd Hi) as (rest & HP).
  eapply sc_sub_voters; eassumption.
Qed.

Lemma select_split {T} (mask : list bool) (l : list T) :
  exists rest, Permutation l (select mask l ++ rest).
Proof.
  revert l. induction mask as [|b mt IH]; intros l.
  - exists l. destruct l; apply Permutation_refl.
  - destruct l as [|x t]; [exists []; apply Permutation_refl|].
    destruct (IH t) as (rest & HP). simpl. destruct b.
    + exists rest. simpl. now constructor.
    + exists (x :: rest). apply Permutation_cons_app. exact HP.
Qed.

(* restricting alternatives *)
Lemma memN_In x S : memN x S = true <-> In x S.
Proof.
  unfold memN. rewrite existsb_exists. split.
  - intros (y & Hy & E). apply N.eqb_eq in E. now subst.
  - intros H. exists x. split; [assumption|apply N.eqb_refl].
Qed.

Lemma prefers_restrict S o a b : In a S -> In b S -> prefers (restrict S o) a b = prefers o a b.
Proof.
  intros Ha Hb. induction o as [|x t IH]; [reflexivity|].
  unfold restrict in *. cbn [filter]. destruct (memN x S) eqn:E.
  - simpl. rewrite IH. reflexivity.
  - simpl. destruct (N.eqb_spec x a) as [->|_].
    + apply memN_In in Ha. congruence.
    + destruct (N.eqb_spec x b) as [->|_]; [|exact IH]. apply memN_In in Hb. congruence.
Qed.

Lemma switches_restrict S a b s :
  In a S -> In b S -> switches a b (map (restrict S) s) = switches a b s.
Proof.
  intros Ha Hb. rewrite !switches_changes, map_map. f_equal. apply map_ext.
  intros o. now apply prefers_restrict.
Qed.

Lemma restrict_In S o x : In x (restrict S o) <-> In x o /\ In x S.
Proof. unfold restrict. rewrite filter_In, memN_In. tauto. Qed.

Theorem sc_restrict alts orders S :
  SC alts orders -> SC (restrict S alts) (map (restrict S) orders).
Proof.
  intros (s & Hs & H). exists (map (restrict S) s). split; [now apply Permutation_map|].
  intros a b Ha Hb Hne. apply restrict_In in Ha, Hb. destruct Ha as [Ha HaS], Hb as [Hb HbS].
  rewrite switches_restrict by assumption. now apply H.
Qed.

(* both at once: the heredity statement used for exact negatives on large inputs *)
Theorem sc_sub alts orders S sub rest :
  Permutation orders (sub ++ rest) -> SC alts orders -> SC (restrict S alts) (map (restrict S) sub).
Proof. intros HP H. apply sc_restrict. eapply sc_sub_voters; eassumption. Qed.

Theorem sc_core_refutes_sound alts orders S mask :
  sc_core_refutes alts orders S mask = true -> ~ SC alts orders.
Proof.
  unfold sc_core_refutes. rewrite negb_true_iff, sc_decide_false. intros Hn H. apply Hn.
  destruct (select_split mask orders) as (rest & HP). eapply sc_sub; eassumption.
Qed.

(* ============================================================================================== *)
(* 7. the polynomial reference: nested conflict sets from some first voter                        *)
(* ============================================================================================== *)
Lemma changes_delete_block l1 m l2 : changes (l1 ++ l2) <= changes (l1 ++ m ++ l2).
Proof.
  induction m as [|x m IH]; [simpl; lia|].
  eapply Nat.le_trans; [exact IH|]. simpl app. apply changes_delete.
Qed.

(* three entries of a sequence with at most one change *)
Lemma changes_three x m1 y m2 z m3 :
  changes (x :: m1 ++ y :: m2 ++ z :: m3) <= 1 -> xorb x y = true -> xorb x z = true.
Proof.
  intros H Hxy.
  assert (H3 : changes [x; y; z] <= 1).
  { eapply Nat.le_trans; [|exact H].
    eapply Nat.le_trans; [|apply (changes_delete_block [x] m1 (y :: m2 ++ z :: m3))].
    eapply Nat.le_trans; [|apply (changes_delete_block [x; y] m2 (z :: m3))].
    pose proof (changes_delete_block [x; y; z] m3 []) as H0. rewrite !app_nil_r in H0. exact H0. }
  destruct x, y, z; simpl in *; try reflexivity; try discriminate; lia.
Qed.

Lemma conflict_same v a b : conflict v v a b = false.
Proof. unfold conflict. apply xorb_nilpotent. Qed.

Lemma conf_sub_spec alts v j k :
  conf_sub alts v j k = true <->
  forall a b, In a alts -> In b alts -> conflict v j a b = true -> conflict v k a b = true.
Proof.
  unfold conf_sub. rewrite forallb_forall. split.
  - intros H a b Ha Hb Hc. specialize (H a Ha). rewrite forallb_forall in H. specialize (H b Hb).
    rewrite Hc in H. exact H.
  - intros H a Ha. rewrite forallb_forall. intros b Hb. specialize (H a b Ha Hb).
    destruct (conflict v j a b); [rewrite H; reflexivity|reflexivity].
Qed.

Lemma conf_sub_first alts v k : conf_sub alts v v k = true.
Proof. apply conf_sub_spec. intros a b _ _ H. rewrite conflict_same in H. discriminate. Qed.

Lemma conf_sub_refl alts v j : conf_sub alts v j j = true.
Proof. apply conf_sub_spec. auto. Qed.

Lemma conf_sub_trans alts v i j k :
  conf_sub alts v i j = true -> conf_sub alts v j k = true -> conf_sub alts v i k = true.
Proof. rewrite !conf_sub_spec. intros H1 H2 a b Ha Hb Hc. apply H2; auto. Qed.

Lemma two_members {T} (x y : T) (l : list T) : In x l -> In y l ->
  x = y \/ (exists l1 l2 l3, l = l1 ++ x :: l2 ++ y :: l3) \/ (exists l1 l2 l3, l = l1 ++ y :: l2 ++ x :: l3).
Proof.
  intros Hx Hy. apply in_split in Hx. destruct Hx as (l1 & l2 & ->).
  apply in_app_iff in Hy. destruct Hy as [Hy|[Hy|Hy]].
  - apply in_split in Hy. destruct Hy as (k1 & k2 & ->). right. right.
    exists k1, k2, l2. rewrite <- app_assoc. reflexivity.
  - now left.
  - apply in_split in Hy. destruct Hy as (k1 & k2 & ->). right. left. exists l1, k1, k2. reflexivity.
Qed.

(* along a single-crossing sequence v :: t the conflict sets with v grow *)
Lemma sc_seq_conf_sub alts v t1 j t2 k t3 :
  single_crossing_seq alts (v :: t1 ++ j :: t2 ++ k :: t3) -> conf_sub alts v j k = true.
Proof.
  intros H. apply conf_sub_spec. intros a b Ha Hb Hc.
  destruct (N.eq_dec a b) as [->|Hne].
  - unfold conflict in Hc. rewrite !prefers_same in Hc. discriminate.
  - specialize (H a b Ha Hb Hne). rewrite switches_changes in H.
    cbn [map] in H. rewrite map_app in H. cbn [map] in H. rewrite map_app in H. cbn [map] in H.
    unfold conflict in *. eapply changes_three; eassumption.
Qed.

Lemma sc_seq_chain alts v t : single_crossing_seq alts (v :: t) ->
  forall j k, In j (v :: t) -> In k (v :: t) -> conf_sub alts v j k = true \/ conf_sub alts v k j = true.
Proof.
  intros H j k Hj Hk.
  destruct Hj as [<-|Hj]; [left; apply conf_sub_first|].
  destruct Hk as [<-|Hk]; [right; apply conf_sub_first|].
  destruct (two_members j k t Hj Hk) as [->|[(l1 & l2 & l3 & ->)|(l1 & l2 & l3 & ->)]].
  - left. apply conf_sub_refl.
  - left. eapply sc_seq_conf_sub. eassumption.
  - right. eapply sc_seq_conf_sub. eassumption.
Qed.

(* existence of a sorted arrangement for a relation that is transitive, and total on the list *)
Lemma sort_exists {T} (le : T -> T -> Prop) (l : list T) :
  (forall x y z, le x y -> le y z -> le x z) ->
  (forall x y, In x l -> In y l -> le x y \/ le y x) ->
  exists s, Permutation l s /\ StronglySorted le s.
Proof.
  intros Htr. induction l as [|x l IH]; intros Htot.
  - exists []. split; constructor.
  - destruct IH as (s & HP & Hs).
    { intros y z Hy Hz. apply Htot; now right. }
    assert (Hx : forall y, In y s -> le x y \/ le y x).
    { intros y Hy. apply Htot; [now left|right]. eapply Permutation_in; [apply Permutation_sym; eassumption|assumption]. }
    clear Htot.
    assert (Hins : exists s', Permutation (x :: s) s' /\ StronglySorted le s').
    { clear HP. induction Hs as [|y t Ht IHt Hall].
      - exists [x]. split; [apply Permutation_refl|]. constructor; constructor.
      - destruct (Hx y (or_introl eq_refl)) as [Hxy|Hyx].
        + exists (x :: y :: t). split; [apply Permutation_refl|].
          constructor; [constructor; assumption|]. constructor; [assumption|].
          rewrite Forall_forall in *. intros z Hz. eapply Htr; [exact Hxy|]. now apply Hall.
        + destruct IHt as (s' & HP' & Hs'). { intros z Hz. apply Hx. now right. }
          exists (y :: s'). split.
          * eapply Permutation_trans; [apply perm_swap|]. now constructor.
          * constructor; [assumption|]. rewrite Forall_forall in *. intros z Hz.
            assert (Hz' : In z (x :: t)) by (eapply Permutation_in; [apply Permutation_sym; eassumption|assumption]).
            destruct Hz' as [<-|Hz']; [assumption|now apply Hall]. }
    destruct Hins as (s' & HP' & Hs'). exists s'. split; [|assumption].
    eapply Permutation_trans; [|exact HP']. now constructor.
Qed.

(* a non-decreasing boolean sequence, i.e. some falses followed by some trues, has at most one change *)
Lemma changes_all_true t : Forall (fun y => y = true) t -> changes (true :: t) = 0.
Proof.
  intros H. apply const_changes. apply forallb_forall. rewrite Forall_forall in H.
  intros y Hy. rewrite (H y Hy). reflexivity.
Qed.

Lemma changes_sorted l : StronglySorted (fun x y => x = true -> y = true) l -> changes l <= 1.
Proof.
  induction 1 as [|x t Ht IH Hall]; [simpl; lia|].
  destruct x.
  - rewrite changes_all_true; [lia|]. rewrite Forall_forall in *. intros y Hy. now apply Hall.
  - destruct t as [|y t']; [simpl; lia|]. rewrite changes_cons2. destruct y.
    + inversion Ht as [|? ? Ht' Hall']; subst. rewrite changes_all_true; [simpl; lia|].
      rewrite Forall_forall in *. intros z Hz. now apply Hall'.
    + simpl. exact IH.
Qed.

Lemma changes_xorb x l : changes (map (xorb x) l) = changes l.
Proof.
  induction l as [|y t IH]; [reflexivity|]. destruct t as [|z t']; [reflexivity|].
  cbn [map] in *. rewrite !changes_cons2, IH. destruct x, y, z; reflexivity.
Qed.

Lemma sorted_conflict alts v a b s : In a alts -> In b alts ->
  StronglySorted (fun j k => conf_sub alts v j k = true) s ->
  StronglySorted (fun x y => x = true -> y = true) (map (fun o => conflict v o a b) s).
Proof.
  intros Ha Hb. induction 1 as [|j t Ht IH Hall]; [constructor|].
  cbn [map]. constructor; [assumption|]. rewrite Forall_forall in *. intros y Hy.
  apply in_map_iff in Hy. destruct Hy as (k & <- & Hk). intros Hc.
  specialize (Hall k Hk). rewrite conf_sub_spec in Hall. now apply Hall.
Qed.

Lemma sorted_conflict_sc alts v s :
  StronglySorted (fun j k => conf_sub alts v j k = true) s -> single_crossing_seq alts s.
Proof.
  intros Hs a b Ha Hb _. rewrite switches_changes.
  rewrite (map_ext _ (fun o => xorb (prefers v a b) (conflict v o a b))).
  - rewrite <- map_map, changes_xorb. apply changes_sorted. now apply (sorted_conflict alts).
  - intros o. unfold conflict. rewrite <- xorb_assoc, xorb_nilpotent, xorb_false_l. reflexivity.
Qed.

Lemma chain_from_spec alts orders v :
  chain_from alts orders v = true <->
  forall j k, In j orders -> In k orders -> conf_sub alts v j k = true \/ conf_sub alts v k j = true.
Proof.
  unfold chain_from. rewrite forallb_forall. split.
  - intros H j k Hj Hk. specialize (H j Hj). rewrite forallb_forall in H. specialize (H k Hk).
    now apply orb_true_iff.
  - intros H j Hj. rewrite forallb_forall. intros k Hk. apply orb_true_iff. now apply H.
Qed.

Lemma chain_from_sc alts orders v : chain_from alts orders v = true -> SC alts orders.
Proof.
  intros H. rewrite chain_from_spec in H.
  destruct (sort_exists (fun j k => conf_sub alts v j k = true) orders) as (s & HP & Hs).
  - intros x y z. apply conf_sub_trans.
  - exact H.
  - exists s. split; [assumption|]. eapply sorted_conflict_sc. eassumption.
Qed.

(* a profile is single-crossing iff it is empty or some voter's conflict sets with all the
   voters are nested — no well-formedness hypothesis is needed *)
Theorem sc_conflict_decide_correct alts orders : sc_conflict_decide alts orders = true <-> SC alts orders.
Proof.
  unfold sc_conflict_decide. destruct orders as [|o0 rest] eqn:E.
  - split; [|reflexivity]. intros _. exists []. split; [constructor|]. intros a b _ _ _. simpl. lia.
  - rewrite <- E. rewrite existsb_exists. split.
    + intros (v & _ & Hv). eapply chain_from_sc. eassumption.
    + intros (s & HP & Hs). destruct s as [|v t].
      * apply Permutation_sym, Permutation_nil in HP. rewrite E in HP. discriminate.
      * exists v. split; [eapply Permutation_in; [apply Permutation_sym; eassumption|now left]|].
        apply chain_from_spec. intros j k Hj Hk. eapply sc_seq_chain; try eassumption.
        -- eapply Permutation_in; eassumption.
        -- eapply Permutation_in; eassumption.
Qed.

Corollary sc_conflict_decide_eq alts orders : sc_conflict_decide alts orders = sc_decide alts orders.
Proof.
  assert (E : sc_conflict_decide alts orders = true <-> sc_decide alts orders = true).
  { rewrite sc_conflict_decide_correct, sc_decide_correct. tauto. }
  destruct (sc_conflict_decide alts orders), (sc_decide alts orders); try reflexivity.
  - symmetry. now apply E.
  - now apply E.
Qed.

(* ============================================================================================== *)
(* 8. repeated orders (multiplicities) do not matter                                              *)
(* ============================================================================================== *)
Lemma changes_dup l1 x l2 : changes (l1 ++ x :: x :: l2) = changes (l1 ++ x :: l2).
Proof.
  induction l1 as [|z t IH].
  - simpl app. rewrite changes_cons2, eqb_reflx. reflexivity.
  - destruct t as [|w t'].
    + simpl app. rewrite (changes_cons2 z x (x :: l2)), (changes_cons2 z x l2).
      rewrite (changes_cons2 x x l2), eqb_reflx. reflexivity.
    + change ((z :: w :: t') ++ x :: x :: l2) with (z :: w :: (t' ++ x :: x :: l2)).
      change ((z :: w :: t') ++ x :: l2) with (z :: w :: (t' ++ x :: l2)).
      rewrite !changes_cons2.
      change (w :: t' ++ x :: x :: l2) with ((w :: t') ++ x :: x :: l2).
      change (w :: t' ++ x :: l2) with ((w :: t') ++ x :: l2). rewrite IH. reflexivity.
Qed.

Lemma sc_add_dup alts x l : In x l -> SC alts l -> SC alts (x :: l).
Proof.
  intros Hin (s & HP & H).
  assert (Hs : In x s) by (eapply Permutation_in; eassumption).
  apply in_split in Hs. destruct Hs as (s1 & s2 & ->).
  exists (s1 ++ x :: x :: s2). split.
  - apply Permutation_cons_app. exact HP.
  - intros a b Ha Hb Hne. specialize (H a b Ha Hb Hne).
    rewrite switches_changes in *. rewrite map_app in *. cbn [map] in *. rewrite changes_dup. exact H.
Qed.

Lemma dedup_In x l : In x (dedup l) <-> In x l.
Proof.
  induction l as [|y t IH]; [tauto|]. simpl. destruct (mem_order y t) eqn:E.
  - rewrite IH. apply mem_order_In in E. split; [auto|]. intros [<-|?]; auto.
  - simpl. rewrite IH. tauto.
Qed.

Lemma dedup_NoDup l : NoDup (dedup l).
Proof.
  induction l as [|y t IH]; [constructor|]. simpl. destruct (mem_order y t) eqn:E; [assumption|].
  constructor; [|assumption]. rewrite dedup_In. intros Hin. apply mem_order_In in Hin. congruence.
Qed.

Lemma sc_undedup alts pre l : SC alts (pre ++ dedup l) -> SC alts (pre ++ l).
Proof.
  revert pre. induction l as [|x t IH]; intros pre H; [exact H|].
  simpl in H. destruct (mem_order x t) eqn:E.
  - apply mem_order_In in E. apply IH in H.
    eapply sc_perm; [|apply (sc_add_dup alts x (pre ++ t)); [apply in_app_iff; now right|exact H]].
    apply Permutation_sym, Permutation_middle.
  - specialize (IH (pre ++ [x])). rewrite <- !app_assoc in IH. now apply IH.
Qed.

Theorem sc_dedup alts orders : SC alts (dedup orders) <-> SC alts orders.
Proof.
  split.
  - apply (sc_undedup alts []).
  - apply sc_sub_voters_incl; [apply dedup_NoDup|]. intros x. apply dedup_In.
Qed.

(* ============================================================================================== *)
(* 9. a sufficient criterion for reuse (C19): every pair is monotone along the sequence           *)
(* ============================================================================================== *)
Lemma changes_negb l : changes (map negb l) = changes l.
Proof. rewrite <- (changes_xorb true l). f_equal. Qed.

Lemma sorted_map_bool {T} (p : T -> bool) (v : bool) (s : list T) :
  StronglySorted (fun o1 o2 => p o1 = v -> p o2 = v) s ->
  StronglySorted (fun x y => x = true -> y = true) (map (fun o => Bool.eqb (p o) v) s).
Proof.
  induction 1 as [|o t Ht IH Hall]; [constructor|]. cbn [map]. constructor; [assumption|].
  rewrite Forall_forall in *. intros y Hy. apply in_map_iff in Hy. destruct Hy as (o' & <- & Ho').
  intros E. apply eqb_prop in E. rewrite (Hall o' Ho' E). apply eqb_reflx.
Qed.

Lemma changes_eqb_const v l : changes (map (fun x => Bool.eqb x v) l) = changes l.
Proof.
  destruct v.
  - rewrite (map_ext _ (fun x => x)); [now rewrite map_id|]. intros []; reflexivity.
  - rewrite (map_ext _ negb); [apply changes_negb|]. intros []; reflexivity.
Qed.

(* if for every pair (a,b) the voters preferring a to b (or those preferring b to a) form a final
   segment of s, then s is a single-crossing sequence *)
Theorem sc_seq_of_monotone alts s :
  (forall a b, In a alts -> In b alts -> a <> b ->
     exists v : bool, StronglySorted (fun o1 o2 => prefers o1 a b = v -> prefers o2 a b = v) s) ->
  single_crossing_seq alts s.
Proof.
  intros H a b Ha Hb Hne. destruct (H a b Ha Hb Hne) as (v & Hs).
  rewrite switches_changes. apply (sorted_map_bool (fun o => prefers o a b)) in Hs.
  apply changes_sorted in Hs. rewrite <- map_map with (g := fun x => Bool.eqb x v) in Hs.
  now rewrite changes_eqb_const in Hs.
Qed.

(* ============================================================================================== *)
(* 10. the link to Kendall tau: the verification pass of is_single_crossing                        *)
(* ============================================================================================== *)
Lemma idx_cons x t a : idx (x :: t) a = if N.eqb a x then 0 else S (idx t a).
Proof. unfold idx. simpl. destruct (N.eqb a x); [reflexivity|]. destruct (index a t); reflexivity. Qed.

(* prefers is the comparison  o.index(a) < o.index(b)  of the Python code *)
Lemma prefers_idx o a b : prefers o a b = (idx o a <? idx o b).
Proof.
  induction o as [|x t IH]; [reflexivity|].
  rewrite !idx_cons. cbn [prefers]. rewrite (N.eqb_sym x a), (N.eqb_sym x b).
  destruct (N.eqb a x); destruct (N.eqb b x); try reflexivity. exact IH.
Qed.

Lemma prefers_total o a b : In a o -> In b o -> a <> b -> prefers o b a = negb (prefers o a b).
Proof.
  intros Ha Hb Hne. induction o as [|x t IH]; [contradiction|]. cbn [prefers].
  destruct (N.eqb_spec x a) as [Hxa|Hxa]; destruct (N.eqb_spec x b) as [Hxb|Hxb]; try reflexivity.
  - exfalso. congruence.
  - apply IH.
    + destruct Ha; [contradiction|assumption].
    + destruct Hb; [contradiction|assumption].
Qed.

Lemma prefers_app_notin p l a b : ~ In a p -> ~ In b p -> prefers (p ++ l) a b = prefers l a b.
Proof.
  intros Ha Hb. induction p as [|x t IH]; [reflexivity|]. simpl.
  destruct (N.eqb_spec x a) as [->|_]; [exfalso; apply Ha; now left|].
  destruct (N.eqb_spec x b) as [->|_]; [exfalso; apply Hb; now left|].
  apply IH; intros H; [apply Ha|apply Hb]; now right.
Qed.

Definition b2n (b : bool) : nat := if b then 1 else 0.

Fixpoint sumf {T} (f : T -> nat) (l : list T) : nat :=
  match l with [] => 0 | y :: t => f y + sumf f t end.

Fixpoint pairsum (g : N -> N -> nat) (l : list N) : nat :=
  match l with [] => 0 | x :: t => sumf (g x) t + pairsum g t end.

Lemma sumf_ext_in {T} (f g : T -> nat) l : (forall y, In y l -> f y = g y) -> sumf f l = sumf g l.
Proof.
  induction l as [|y t IH]; intros H; [reflexivity|]. simpl. rewrite H by now left.
  rewrite IH; [reflexivity|]. intros z Hz. apply H. now right.
Qed.

Lemma sumf_perm {T} (f : T -> nat) l l' : Permutation l l' -> sumf f l = sumf f l'.
Proof. induction 1; simpl; lia. Qed.

Lemma sumf_app {T} (f : T -> nat) l1 l2 : sumf f (l1 ++ l2) = sumf f l1 + sumf f l2.
Proof. induction l1; simpl; lia. Qed.

Lemma sumf_map {T U} (f : U -> nat) (h : T -> U) l : sumf f (map h l) = sumf (fun x => f (h x)) l.
Proof. induction l; simpl; congruence. Qed.

Lemma sumf_add {T} (f g : T -> nat) l : sumf (fun x => f x + g x) l = sumf f l + sumf g l.
Proof. induction l; simpl; lia. Qed.

Lemma sumf_eq_pointwise {T} (f g : T -> nat) l :
  (forall x, In x l -> f x <= g x) -> sumf f l = sumf g l -> forall x, In x l -> f x = g x.
Proof.
  induction l as [|y t IH]; intros Hle Heq x Hx; [contradiction|]. simpl in Heq.
  assert (Hy : f y <= g y) by (apply Hle; now left).
  assert (Ht : sumf f t <= sumf g t).
  { clear -Hle. induction t as [|z t IH]; [simpl; lia|]. simpl.
    assert (f z <= g z) by (apply Hle; right; now left).
    assert (sumf f t <= sumf g t); [|lia]. apply IH. intros w [->|Hw]; apply Hle; [now left|right; now right]. }
  destruct Hx as [<-|Hx]; [lia|]. apply IH; try assumption; [|lia]. intros z Hz. apply Hle. now right.
Qed.

Lemma length_filter_sumf {T} (p : T -> bool) l : length (filter p l) = sumf (fun y => b2n (p y)) l.
Proof. induction l as [|y t IH]; [reflexivity|]. simpl. destruct (p y); simpl; lia. Qed.

Lemma kt_count_pairsum o2 o1 : kt_count o2 o1 = pairsum (fun x y => b2n (prefers o2 y x)) o1.
Proof.
  induction o1 as [|x t IH]; [reflexivity|]. simpl. rewrite IH, length_filter_sumf. f_equal.
  apply sumf_ext_in. intros y _. now rewrite prefers_idx.
Qed.

Lemma nodup_app_disjoint {T} (p l : list T) y : NoDup (p ++ l) -> In y p -> In y l -> False.
Proof.
  induction p as [|z p IH]; [contradiction|]. simpl. intros Hnd Hp Hl. inversion Hnd as [|? ? Hz Hr]; subst.
  destruct Hp as [->|Hp]; [apply Hz; apply in_app_iff; now right|now apply IH].
Qed.

Lemma kt_count_conflict p l o2 : NoDup (p ++ l) -> incl l o2 ->
  pairsum (fun x y => b2n (prefers o2 y x)) l = pairsum (fun a b => b2n (conflict (p ++ l) o2 a b)) l.
Proof.
  revert p. induction l as [|x t IH]; intros p Hnd Hi; [reflexivity|].
  cbn [pairsum]. f_equal.
  - apply sumf_ext_in. intros y Hy. unfold conflict.
    assert (Hnd' := Hnd). apply NoDup_remove_2 in Hnd'.
    assert (Hxy : x <> y). { intros ->. apply Hnd'. apply in_app_iff. now right. }
    rewrite prefers_app_notin.
    + cbn [prefers]. rewrite N.eqb_refl. destruct (N.eqb_spec x y) as [E|_]; [contradiction|].
      cbn [negb xorb]. rewrite (prefers_total o2 x y); [destruct (prefers o2 x y); reflexivity| | |assumption].
      * apply Hi. now left.
      * apply Hi. now right.
    + intros Hx. apply Hnd'. apply in_app_iff. now left.
    + intros Hyp. eapply nodup_app_disjoint; [exact Hnd|exact Hyp|now right].
  - replace (p ++ x :: t) with ((p ++ [x]) ++ t) by (rewrite <- app_assoc; reflexivity).
    apply IH.
    + rewrite <- app_assoc. exact Hnd.
    + intros y Hy. apply Hi. now right.
Qed.

Lemma pairsum_perm g l l' : Permutation l l' ->
  (forall a b, In a l -> In b l -> g a b = g b a) -> pairsum g l = pairsum g l'.
Proof.
  induction 1 as [|x l l' HP IH|x y l|l l' l'' HP1 IH1 HP2 IH2]; intros Hs.
  - reflexivity.
  - cbn [pairsum]. rewrite (sumf_perm _ _ _ HP), IH; [reflexivity|].
    intros a b Ha Hb. apply Hs; now right.
  - cbn [pairsum sumf]. rewrite (Hs x y); [lia|right; now left|now left].
  - rewrite IH1 by assumption. apply IH2. intros a b Ha Hb.
    apply Hs; eapply Permutation_in; try eassumption; now apply Permutation_sym.
Qed.

Lemma conflict_sym o1 o2 a b : In a o1 -> In b o1 -> In a o2 -> In b o2 ->
  conflict o1 o2 a b = conflict o1 o2 b a.
Proof.
  intros H1 H2 H3 H4. destruct (N.eq_dec a b) as [->|Hne]; [reflexivity|]. unfold conflict.
  rewrite (prefers_total o1 a b), (prefers_total o2 a b) by assumption.
  destruct (prefers o1 a b), (prefers o2 a b); reflexivity.
Qed.

(* Kendall tau = number of pairs of alternatives ranked differently, counted over a fixed index list *)
Theorem ktd_conflicts alts o1 o2 : NoDup alts -> Permutation alts o1 -> Permutation alts o2 ->
  ktd o1 o2 = pairsum (fun a b => b2n (conflict o1 o2 a b)) alts.
Proof.
  intros Hnd H1 H2. unfold ktd. rewrite kt_count_pairsum.
  rewrite (kt_count_conflict [] o1 o2).
  - cbn [app]. symmetry. apply pairsum_perm; [assumption|].
    intros a b Ha Hb. f_equal. apply conflict_sym; eapply Permutation_in; eassumption.
  - cbn [app]. eapply Permutation_NoDup; eassumption.
  - intros x Hx. eapply Permutation_in; [|eapply Permutation_in; [apply Permutation_sym; exact H1|exact Hx]]. exact H2.
Qed.

Lemma pairsum_pairs g l : pairsum g l = sumf (fun p => g (fst p) (snd p)) (pairs l).
Proof.
  induction l as [|x t IH]; [reflexivity|]. cbn [pairsum pairs]. rewrite sumf_app, sumf_map, IH. reflexivity.
Qed.

Lemma pairs_In a b l : In (a, b) (pairs l) -> In a l /\ In b l.
Proof.
  induction l as [|x t IH]; [contradiction|]. cbn [pairs]. rewrite in_app_iff, in_map_iff.
  intros [(y & E & Hy)|H].
  - injection E as -> ->. split; [now left|now right].
  - destruct (IH H). split; now right.
Qed.

Lemma pairs_neq a b l : NoDup l -> In (a, b) (pairs l) -> a <> b.
Proof.
  induction l as [|x t IH]; [contradiction|]. intros Hnd. inversion Hnd as [|? ? Hx Ht]; subst.
  cbn [pairs]. rewrite in_app_iff, in_map_iff. intros [(y & E & Hy)|H].
  - injection E as -> ->. intros ->. contradiction.
  - now apply IH.
Qed.

Lemma pairs_cover a b l : In a l -> In b l -> a <> b -> In (a, b) (pairs l) \/ In (b, a) (pairs l).
Proof.
  induction l as [|x t IH]; [contradiction|]. intros Ha Hb Hne. cbn [pairs]. rewrite !in_app_iff, !in_map_iff.
  destruct Ha as [->|Ha]; destruct Hb as [->|Hb].
  - contradiction.
  - left. left. exists b. auto.
  - right. left. exists a. auto.
  - destruct (IH Ha Hb Hne); [left|right]; now right.
Qed.

(* additivity of Kendall tau along x, y, z  <->  no pair on which x and z agree against y *)
Lemma ktd_additive alts x y z : NoDup alts ->
  Permutation alts x -> Permutation alts y -> Permutation alts z ->
  (ktd x y + ktd y z = ktd x z <->
   forall p, In p (pairs alts) ->
     Bool.eqb (prefers y (fst p) (snd p)) (prefers x (fst p) (snd p))
     || Bool.eqb (prefers z (fst p) (snd p)) (prefers y (fst p) (snd p)) = true).
Proof.
  intros Hnd Hx Hy Hz.
  rewrite (ktd_conflicts alts x y), (ktd_conflicts alts y z), (ktd_conflicts alts x z) by assumption.
  rewrite !pairsum_pairs, <- sumf_add.
  assert (Hpt : forall p : N * N,
            b2n (conflict x z (fst p) (snd p)) <= b2n (conflict x y (fst p) (snd p)) + b2n (conflict y z (fst p) (snd p))).
  { intros p. unfold conflict.
    destruct (prefers x (fst p) (snd p)), (prefers y (fst p) (snd p)), (prefers z (fst p) (snd p)); simpl; lia. }
  split.
  - intros Heq p Hp. symmetry in Heq.
    pose proof (sumf_eq_pointwise _ _ _ (fun q _ => Hpt q) Heq p Hp) as E. cbv beta in E.
    unfold conflict in E.
    destruct (prefers x (fst p) (snd p)), (prefers y (fst p) (snd p)), (prefers z (fst p) (snd p));
      simpl in *; try reflexivity; discriminate.
  - intros H. apply sumf_ext_in. intros p Hp. specialize (H p Hp). unfold conflict.
    destruct (prefers x (fst p) (snd p)), (prefers y (fst p) (snd p)), (prefers z (fst p) (snd p));
      simpl in *; try reflexivity; discriminate.
Qed.

(* the condition on boolean sequences checked pair by pair *)
Fixpoint adj_ok (x : bool) (l : list bool) : bool :=
  match l with
  | [] => true
  | y :: t => match t with
              | [] => true
              | z :: _ => (Bool.eqb y x || Bool.eqb z y) && adj_ok x t
              end
  end.

Lemma adj_ok_cons2 x y z t : adj_ok x (y :: z :: t) = (Bool.eqb y x || Bool.eqb z y) && adj_ok x (z :: t).
Proof. reflexivity. Qed.

Lemma eqb_sym_bool (a b : bool) : Bool.eqb a b = Bool.eqb b a.
Proof. destruct a, b; reflexivity. Qed.

Lemma adj_ok_other x y t : y <> x -> adj_ok x (y :: t) = forallb (Bool.eqb y) t.
Proof.
  intros Hne. induction t as [|z t IH]; [reflexivity|].
  rewrite adj_ok_cons2. cbn [forallb].
  assert (E : Bool.eqb y x = false) by (destruct y, x; try reflexivity; contradiction).
  rewrite E. cbn [orb]. destruct (Bool.eqb z y) eqn:Ez.
  - apply eqb_prop in Ez. subst z. rewrite eqb_reflx, IH. reflexivity.
  - rewrite eqb_sym_bool in Ez. rewrite Ez. reflexivity.
Qed.

Lemma adj_ok_changes x l : adj_ok x l = true <-> changes (x :: l) <= 1.
Proof.
  induction l as [|y t IH]; [simpl; split; auto|].
  rewrite changes_cons2. destruct (Bool.eqb x y) eqn:E.
  - apply eqb_prop in E. subst y. destruct t as [|z t'].
    + simpl. split; auto.
    + rewrite adj_ok_cons2, eqb_reflx. cbn [orb andb]. rewrite IH. simpl. tauto.
  - assert (Hne : y <> x) by (intros ->; rewrite eqb_reflx in E; discriminate).
    rewrite (adj_ok_other x y t Hne), const_changes. lia.
Qed.

Lemma ordered_check_from_cons2 first y z t :
  ordered_check_from first (y :: z :: t) =
  (ktd first y + ktd y z =? ktd first z) && ordered_check_from first (z :: t).
Proof. reflexivity. Qed.

Lemma ordered_from_spec alts first t : NoDup alts -> Permutation alts first ->
  Forall (fun o => Permutation alts o) t ->
  (ordered_check_from first t = true <->
   forall p, In p (pairs alts) ->
     adj_ok (prefers first (fst p) (snd p)) (map (fun o => prefers o (fst p) (snd p)) t) = true).
Proof.
  intros Hnd Hf. induction t as [|y t IH]; intros Ht.
  - simpl. split; auto.
  - destruct t as [|z t'].
    + simpl. split; auto.
    + inversion Ht as [|? ? Hy Ht']; subst. inversion Ht' as [|? ? Hz _]; subst.
      rewrite ordered_check_from_cons2, andb_true_iff, Nat.eqb_eq.
      rewrite (ktd_additive alts first y z Hnd Hf Hy Hz), (IH Ht'). split.
      * intros [H1 H2] p Hp. cbn [map]. rewrite adj_ok_cons2, andb_true_iff. split; [now apply H1|].
        specialize (H2 p Hp). exact H2.
      * intros H. split; intros p Hp; specialize (H p Hp); cbn [map] in H;
          rewrite adj_ok_cons2, andb_true_iff in H; destruct H as [H1 H2]; assumption.
Qed.

Lemma switches_swap_args alts a b s : Forall (fun o => Permutation alts o) s ->
  In a alts -> In b alts -> a <> b -> switches b a s = switches a b s.
Proof.
  intros Hs Ha Hb Hne. rewrite !switches_changes, <- (changes_negb (map (fun o => prefers o a b) s)), map_map.
  f_equal. apply map_ext_in. intros o Ho. rewrite Forall_forall in Hs. specialize (Hs o Ho).
  apply prefers_total; try assumption; eapply Permutation_in; eassumption.
Qed.

(* the verification pass of is_single_crossing (additivity of the Kendall-tau distances from the first
   order of the sequence) accepts exactly the single-crossing sequences *)
Theorem ordered_check_correct alts s : NoDup alts -> Forall (fun o => Permutation alts o) s ->
  (ordered_check s = true <-> single_crossing_seq alts s).
Proof.
  intros Hnd Hs. destruct s as [|first t].
  - simpl. split; [|reflexivity]. intros _ a b _ _ _. simpl. lia.
  - inversion Hs as [|? ? Hf Ht]; subst. cbn [ordered_check].
    rewrite (ordered_from_spec alts first t Hnd Hf Ht). split.
    + intros H a b Ha Hb Hne.
      assert (Hp : forall a b, In (a, b) (pairs alts) -> switches a b (first :: t) <= 1).
      { intros a' b' Hp. specialize (H (a', b') Hp). cbn [fst snd] in H.
        apply adj_ok_changes in H. rewrite switches_changes. exact H. }
      destruct (pairs_cover a b alts Ha Hb Hne) as [Hin|Hin].
      * now apply Hp.
      * rewrite (switches_swap_args alts b a) by auto. now apply Hp.
    + intros H [a b] Hp. cbn [fst snd]. apply adj_ok_changes.
      pose proof (pairs_In a b alts Hp) as [Ha Hb]. pose proof (pairs_neq a b alts Hnd Hp) as Hne.
      specialize (H a b Ha Hb Hne). rewrite switches_changes in H. exact H.
Qed.

Corollary ordered_check_seq_check alts s : NoDup alts -> Forall (fun o => Permutation alts o) s ->
  ordered_check s = sc_seq_check alts s.
Proof.
  intros Hnd Hs.
  assert (E : ordered_check s = true <-> sc_seq_check alts s = true).
  { rewrite (ordered_check_correct alts s Hnd Hs), sc_seq_check_correct. tauto. }
  destruct (ordered_check s), (sc_seq_check alts s); try reflexivity.
  - symmetry. now apply E.
  - now apply E.
Qed.

(* switches-free characterisation: Kendall tau is additive along every triple i < j < k of the sequence *)
Lemma changes_sub3 m1 x m2 y m3 z m4 :
  changes [x; y; z] <= changes (m1 ++ x :: m2 ++ y :: m3 ++ z :: m4).
Proof.
  eapply Nat.le_trans; [|apply (changes_delete_block [] m1 (x :: m2 ++ y :: m3 ++ z :: m4))]. cbn [app].
  eapply Nat.le_trans; [|apply (changes_delete_block [x] m2 (y :: m3 ++ z :: m4))].
  eapply Nat.le_trans; [|apply (changes_delete_block [x; y] m3 (z :: m4))].
  pose proof (changes_delete_block [x; y; z] m4 []) as H0. rewrite !app_nil_r in H0. exact H0.
Qed.

Lemma ordered_from_adjacent first t :
  (forall l2 y z rest, t = l2 ++ y :: z :: rest -> ktd first y + ktd y z = ktd first z) ->
  ordered_check_from first t = true.
Proof.
  induction t as [|y t IH]; intros H; [reflexivity|]. destruct t as [|z t']; [reflexivity|].
  rewrite ordered_check_from_cons2, andb_true_iff, Nat.eqb_eq. split.
  - apply (H [] y z t'). reflexivity.
  - apply IH. intros l2 y' z' rest E. apply (H (y :: l2) y' z' rest). rewrite E. reflexivity.
Qed.

Theorem sc_seq_kt_triples alts s : NoDup alts -> Forall (fun o => Permutation alts o) s ->
  (single_crossing_seq alts s <->
   forall l1 x l2 y l3 z l4, s = l1 ++ x :: l2 ++ y :: l3 ++ z :: l4 -> ktd x y + ktd y z = ktd x z).
Proof.
  intros Hnd Hs. split.
  - intros H l1 x l2 y l3 z l4 E.
    assert (Hin : forall o, In o [x; y; z] -> In o s).
    { intros o Ho. rewrite E. simpl in Ho. rewrite !in_app_iff; cbn [In]; rewrite !in_app_iff; cbn [In].
      rewrite !in_app_iff; cbn [In]. intuition. }
    assert (H3 : Forall (fun o => Permutation alts o) [x; y; z]).
    { rewrite Forall_forall in *. intros o Ho. apply Hs. now apply Hin. }
    assert (Hsc : single_crossing_seq alts [x; y; z]).
    { intros a b Ha Hb Hne. specialize (H a b Ha Hb Hne). rewrite switches_changes in *.
      eapply Nat.le_trans; [|exact H]. rewrite E. rewrite map_app. cbn [map]. rewrite map_app. cbn [map].
      rewrite map_app. cbn [map]. apply changes_sub3. }
    apply (ordered_check_correct alts [x; y; z] Hnd H3) in Hsc.
    cbn [ordered_check ordered_check_from] in Hsc. rewrite andb_true_r in Hsc. now apply Nat.eqb_eq.
  - intros H. apply (ordered_check_correct alts s Hnd Hs). destruct s as [|first t]; [reflexivity|].
    cbn [ordered_check]. apply ordered_from_adjacent. intros l2 y z rest E.
    apply (H [] first l2 y [] z rest). rewrite E. reflexivity.
Qed.

(* Kendall tau as a count over the unordered pairs of alternatives *)
Theorem ktd_pairs alts o1 o2 : NoDup alts -> Permutation alts o1 -> Permutation alts o2 ->
  ktd o1 o2 = length (filter (fun p => conflict o1 o2 (fst p) (snd p)) (pairs alts)).
Proof.
  intros Hnd H1 H2. rewrite (ktd_conflicts alts o1 o2 Hnd H1 H2), pairsum_pairs, length_filter_sumf. reflexivity.
Qed.

(* ktd is the value of the C20 model of kendall_tau_distance on rankings over the same alternatives *)
Lemma index_some x l : In x l -> exists i, index x l = Some i.
Proof.
  induction l as [|y t IH]; [contradiction|]. intros Hin. simpl.
  destruct (N.eqb_spec x y) as [->|Hne]; [eexists; reflexivity|].
  destruct Hin as [->|Hin]; [contradiction|]. destruct (IH Hin) as (i & ->). eexists; reflexivity.
Qed.

Lemma ktd_kendall_tau alts o1 o2 : Permutation alts o1 -> Permutation alts o2 ->
  kendall_tau o1 o2 = Lib.Val.Ok (ktd o1 o2).
Proof.
  intros H1 H2. unfold kendall_tau, ktd.
  assert (HP : Permutation o1 o2) by (eapply Permutation_trans; [apply Permutation_sym; exact H1|exact H2]).
  rewrite (Permutation_length HP), Nat.eqb_refl. cbn [negb].
  assert (Ha : all_in o1 o2 = true).
  { unfold all_in. apply forallb_forall. intros x Hx.
    destruct (index_some x o2) as (i & ->); [eapply Permutation_in; eassumption|reflexivity]. }
  rewrite Ha. cbn [negb]. rewrite andb_false_r. reflexivity.
Qed.

(* invariance of the polynomial reference (for C15), from its equality with sc_decide *)
Corollary sc_conflict_decide_perm alts alts' orders orders' :
  Permutation alts alts' -> Permutation orders orders' ->
  sc_conflict_decide alts orders = sc_conflict_decide alts' orders'.
Proof. intros Ha Ho. rewrite !sc_conflict_decide_eq. now apply sc_decide_perm. Qed.

Corollary sc_conflict_decide_relabel (f : N -> N) : (forall x y, f x = f y -> x = y) ->
  forall alts orders, sc_conflict_decide (map f alts) (map (map f) orders) = sc_conflict_decide alts orders.
Proof. intros Hf alts orders. rewrite !sc_conflict_decide_eq. now apply sc_decide_relabel. Qed.
