(* Ops/C06.v — protocol entry points for property C06 (scoring rules).
   instance payload: (dt alts n_alt n_vot prof), dt: 0 soc, 1 soi, 2 toc, 3 toi, 4 cat, other = any other type;
   prof = ((order mult) ...), order = ((a ...) ...).  k-approval payload: (instance k). *)
From Coq Require Import List ZArith NArith String.
From PrefVerif Require Import Lib.Val Model.Scoring.
Import ListNotations.
Open Scope string_scope.

Definition d_dtype (v : val) : dtype :=
  match dnat v with 0 => Soc | 1 => Soi | 2 => Toc | 3 => Toi | 4 => Cat | _ => DOther end.
Definition d_order (v : val) : order := dlist (dlist dN) v.
Definition d_inst (v : val) : inst :=
  {| dt := d_dtype (dnth 0 v); alts := dlist dN (dnth 1 v); n_alt := dN (dnth 2 v); n_vot := dN (dnth 3 v);
     prof := dlist (dpair d_order dN) (dnth 4 v) |}.

Definition e_winners (r : result (list N)) : val := eresult (elist eN) r.

(* every rule on one instance: (instance (k ...)) -> (plurality veto borda copeland approval sav kapp_k ...) *)
Definition op_all (v : val) : val :=
  let i := d_inst (dnth 0 v) in
  VL ([ e_winners (plurality_winner i); e_winners (veto_winner i); e_winners (borda_winner i);
        e_winners (copeland_winner i); e_winners (approval_winner i); e_winners (sav_winner i) ]
      ++ map (fun k => e_winners (k_approval_winner i k)) (dlist dnat (dnth 1 v))).

Definition ops : optable :=
  [ ("c06.all", op_all); ("c06.plurality", fun v => e_winners (plurality_winner (d_inst v)));
    ("c06.veto", fun v => e_winners (veto_winner (d_inst v)));
    ("c06.kapp", fun v => e_winners (k_approval_winner (d_inst (dnth 0 v)) (dnat (dnth 1 v))));
    ("c06.borda", fun v => e_winners (borda_winner (d_inst v)));
    ("c06.copeland", fun v => e_winners (copeland_winner (d_inst v)));
    ("c06.approval", fun v => e_winners (approval_winner (d_inst v)));
    ("c06.sav", fun v => e_winners (sav_winner (d_inst v))) ].
