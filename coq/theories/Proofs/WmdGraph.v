(* Proofs/WmdGraph.v — the graph part of Model/WmdIO.v: association lists, add_node / add_edge invariants,
   the graph rebuilt from the sorted edge list (what parse makes of a written file). *)
From Coq Require Import List NArith ZArith Bool Lia Permutation Sorted.
From PrefVerif Require Import Lib.Val Lib.Dec Lib.PyStr Model.Meta Model.WmdIO Proofs.WmdSort.
Import ListNotations.

(* ================================================================================================ *)
(* 1. association lists                                                                             *)
(* ================================================================================================ *)
Section Assoc.
  Variables (K V : Type) (eqb : K -> K -> bool).
  Hypothesis eqb_spec : forall a b, eqb a b = true <-> a = b.

  Lemma eqb_refl' a : eqb a a = true.
  Proof. now apply eqb_spec. Qed.
  Lemma eqb_false a b : eqb a b = false <-> a <> b.
  Proof.
    split; intros H.
    - intros E. apply eqb_spec in E. congruence.
    - destruct (eqb a b) eqn:E; [|reflexivity]. apply eqb_spec in E. contradiction.
  Qed.

  Lemma assoc_get_None k (d : list (K * V)) : assoc_get eqb k d = None <-> ~ In k (keys d).
  Proof.
    induction d as [|[k' v] r IH]; simpl; [tauto|].
    destruct (eqb k k') eqn:E.
    - apply eqb_spec in E. subst. split; [discriminate|]. intros H. exfalso. apply H. now left.
    - apply eqb_false in E. rewrite IH. split; intros H; [intros [A|A]; [congruence|contradiction]|tauto].
  Qed.

  Lemma assoc_get_Some_In k v (d : list (K * V)) : assoc_get eqb k d = Some v -> In (k, v) d.
  Proof.
    induction d as [|[k' v'] r IH]; simpl; [discriminate|].
    destruct (eqb k k') eqn:E.
    - apply eqb_spec in E. subst. intros H. injection H as ->. now left.
    - intros H. right. now apply IH.
  Qed.

  Lemma assoc_get_In k v (d : list (K * V)) : NoDup (keys d) -> In (k, v) d -> assoc_get eqb k d = Some v.
  Proof.
    induction d as [|[k' v'] r IH]; simpl; intros D H; [contradiction|].
    inversion D as [|? ? D1 D2]; subst. destruct H as [H|H].
    - injection H as -> ->. now rewrite eqb_refl'.
    - destruct (eqb k k') eqn:E; [|now apply IH].
      apply eqb_spec in E. subst. exfalso. apply D1. unfold keys. apply in_map_iff. now exists (k', v).
  Qed.

  Lemma assoc_get_app k (d1 d2 : list (K * V)) :
    assoc_get eqb k (d1 ++ d2) = match assoc_get eqb k d1 with Some v => Some v | None => assoc_get eqb k d2 end.
  Proof.
    induction d1 as [|[k' v'] r IH]; simpl; [reflexivity|]. destruct (eqb k k'); [reflexivity|exact IH].
  Qed.

  Lemma assoc_set_fresh k v (d : list (K * V)) : ~ In k (keys d) -> assoc_set eqb k v d = d ++ [(k, v)].
  Proof.
    induction d as [|[k' v'] r IH]; simpl; intros H; [reflexivity|].
    destruct (eqb k k') eqn:E.
    - apply eqb_spec in E. subst. exfalso. apply H. now left.
    - f_equal. apply IH. tauto.
  Qed.
End Assoc.

Lemma peqb_spec a b : peqb a b = true <-> a = b.
Proof.
  destruct a as [a1 a2], b as [b1 b2]. unfold peqb. simpl. rewrite andb_true_iff, !Z.eqb_eq.
  split; [intros [-> ->]; reflexivity|intros H; injection H; auto].
Qed.
Lemma Zeqb_spec a b : Z.eqb a b = true <-> a = b.
Proof. apply Z.eqb_eq. Qed.

(* ================================================================================================ *)
(* 2. node_mapping: add_node, set.add, add_edge                                                      *)
(* ================================================================================================ *)
Lemma NoDup_snoc {A} (x : A) l : ~ In x l -> NoDup l -> NoDup (l ++ [x]).
Proof.
  intros H D. eapply Permutation_NoDup; [apply Permutation_cons_append|]. now constructor.
Qed.

Lemma has_node_In n g : has_node n g = true <-> In n (keys g).
Proof.
  unfold has_node, keys. rewrite existsb_exists, in_map_iff. split.
  - intros [p [Hp E]]. apply Z.eqb_eq in E. exists p. split; [now symmetry|exact Hp].
  - intros [p [E Hp]]. exists p. split; [exact Hp|]. apply Z.eqb_eq. now symmetry.
Qed.

Lemma keys_app {K V} (a b : list (K * V)) : keys (a ++ b) = keys a ++ keys b.
Proof. unfold keys. apply map_app. Qed.

Lemma keys_add_node n g x : In x (keys (add_node n g)) <-> x = n \/ In x (keys g).
Proof.
  unfold add_node. destruct (has_node n g) eqn:E.
  - apply has_node_In in E. split; [tauto|]. intros [->|H]; assumption.
  - rewrite keys_app, in_app_iff. simpl. split; intros H; [destruct H as [H|[H|[]]]; auto|destruct H; auto].
Qed.

Lemma add_node_NoDup n g : NoDup (keys g) -> NoDup (keys (add_node n g)).
Proof.
  intros D. unfold add_node. destruct (has_node n g) eqn:E; [exact D|].
  rewrite keys_app. simpl. apply NoDup_snoc; [|exact D].
  intros H. apply has_node_In in H. congruence.
Qed.

Lemma nbrs_add_node n g x : nbrs (add_node n g) x = nbrs g x.
Proof.
  unfold add_node. destruct (has_node n g) eqn:E; [reflexivity|].
  unfold nbrs. rewrite assoc_get_app. destruct (assoc_get Z.eqb x g) eqn:A; [reflexivity|].
  simpl. destruct (Z.eqb x n); reflexivity.
Qed.

Lemma set_add_In m s x : In x (set_add m s) <-> x = m \/ In x s.
Proof.
  unfold set_add. destruct (existsb (Z.eqb m) s) eqn:E.
  - apply existsb_exists in E as [y [Hy E]]. apply Z.eqb_eq in E. subst y.
    split; [tauto|]. intros [->|H]; assumption.
  - rewrite in_app_iff. simpl. split; intros H; [destruct H as [H|[H|[]]]; auto|destruct H; auto].
Qed.

Lemma set_add_NoDup m s : NoDup s -> NoDup (set_add m s).
Proof.
  intros D. unfold set_add. destruct (existsb (Z.eqb m) s) eqn:E; [exact D|].
  apply NoDup_snoc; [|exact D]. intros H.
  assert (existsb (Z.eqb m) s = true) as C; [|congruence].
  apply existsb_exists. exists m. split; [exact H|apply Z.eqb_refl].
Qed.

Lemma keys_nb_add n m g : keys (nb_add n m g) = keys g.
Proof.
  induction g as [|[k s] r IH]; simpl; [reflexivity|].
  destruct (Z.eqb n k); simpl; [reflexivity|now rewrite IH].
Qed.

Lemma nbrs_nb_add_same n m g : In n (keys g) -> nbrs (nb_add n m g) n = set_add m (nbrs g n).
Proof.
  induction g as [|[k s] r IH]; simpl; intros H; [contradiction|].
  unfold nbrs. simpl. destruct (Z.eqb n k) eqn:E; simpl.
  - now rewrite E.
  - rewrite E. apply Z.eqb_neq in E. destruct H as [H|H]; [congruence|]. now apply IH.
Qed.

Lemma nbrs_nb_add_other n m g x : x <> n -> nbrs (nb_add n m g) x = nbrs g x.
Proof.
  intros Hx. induction g as [|[k s] r IH]; simpl; [reflexivity|].
  unfold nbrs in *. destruct (Z.eqb n k) eqn:E; simpl.
  - apply Z.eqb_eq in E. subst k. apply Z.eqb_neq in Hx. now rewrite Hx.
  - destruct (Z.eqb x k); [reflexivity|exact IH].
Qed.

Lemma nbrs_In_key g n m : In m (nbrs g n) -> In n (keys g).
Proof.
  unfold nbrs. destruct (assoc_get Z.eqb n g) eqn:E; [|contradiction]. intros _.
  apply assoc_get_Some_In in E; [|exact Zeqb_spec]. unfold keys. apply in_map_iff. now exists (n, l).
Qed.

Lemma aen_keys n1 n2 g x : In x (keys (add_edge_nodes n1 n2 g)) <-> x = n1 \/ x = n2 \/ In x (keys g).
Proof. unfold add_edge_nodes. rewrite keys_nb_add, !keys_add_node. tauto. Qed.

Lemma aen_NoDup_keys n1 n2 g : NoDup (keys g) -> NoDup (keys (add_edge_nodes n1 n2 g)).
Proof. intros D. unfold add_edge_nodes. rewrite keys_nb_add. now apply add_node_NoDup, add_node_NoDup. Qed.

Lemma aen_nbrs n1 n2 g x :
  nbrs (add_edge_nodes n1 n2 g) x = if Z.eqb x n1 then set_add n2 (nbrs g n1) else nbrs g x.
Proof.
  unfold add_edge_nodes. destruct (Z.eqb_spec x n1) as [->|Hx].
  - rewrite nbrs_nb_add_same; [now rewrite !nbrs_add_node|]. rewrite !keys_add_node. auto.
  - rewrite nbrs_nb_add_other by exact Hx. now rewrite !nbrs_add_node.
Qed.

Lemma aen_nbrs_In n1 n2 g x y :
  In y (nbrs (add_edge_nodes n1 n2 g) x) <-> (x = n1 /\ y = n2) \/ In y (nbrs g x).
Proof.
  rewrite aen_nbrs. destruct (Z.eqb_spec x n1) as [->|Hx].
  - rewrite set_add_In. tauto.
  - tauto.
Qed.

Lemma aen_nbrs_NoDup n1 n2 g : (forall x, NoDup (nbrs g x)) -> forall x, NoDup (nbrs (add_edge_nodes n1 n2 g) x).
Proof.
  intros D x. rewrite aen_nbrs. destruct (Z.eqb x n1); [apply set_add_NoDup|]; apply D.
Qed.

(* well-formed node_mapping: a dict (distinct keys) of sets (duplicate-free) whose elements are nodes *)
Definition wf_nmap (g : nmap) : Prop :=
  NoDup (keys g) /\ (forall n, NoDup (nbrs g n)) /\ (forall n m, In m (nbrs g n) -> In m (keys g)).

Lemma wf_nmap_nil : wf_nmap [].
Proof. repeat split; simpl; try constructor. intros n m []. Qed.

Lemma aen_wf n1 n2 g : wf_nmap g -> wf_nmap (add_edge_nodes n1 n2 g).
Proof.
  intros [D [Dn C]]. repeat split.
  - now apply aen_NoDup_keys.
  - now apply aen_nbrs_NoDup.
  - intros n m H. apply aen_nbrs_In in H. apply aen_keys. destruct H as [[-> ->]|H]; [tauto|].
    right. right. now apply (C n).
Qed.

(* ---- the graph built by a sequence of add_edge calls ---- *)
Definition build_nodes (ks : list (Z * Z)) (g : nmap) : nmap :=
  fold_left (fun g k => add_edge_nodes (fst k) (snd k) g) ks g.

Lemma build_wf ks : forall g, wf_nmap g -> wf_nmap (build_nodes ks g).
Proof. induction ks as [|k r IH]; intros g H; simpl; [exact H|]. apply IH. now apply aen_wf. Qed.

Lemma build_keys ks : forall g x,
  In x (keys (build_nodes ks g)) <-> In x (keys g) \/ exists k, In k ks /\ (x = fst k \/ x = snd k).
Proof.
  induction ks as [|k r IH]; intros g x; simpl.
  - split; [tauto|]. intros [H|[k [[] _]]]. exact H.
  - fold (build_nodes r (add_edge_nodes (fst k) (snd k) g)). rewrite IH, aen_keys. split.
    + intros [[H|[H|H]]|[k' [Hk H]]].
      * right. exists k. tauto.
      * right. exists k. tauto.
      * now left.
      * right. exists k'. tauto.
    + intros [H|[k' [[<-|Hk] H]]].
      * tauto.
      * left. tauto.
      * right. exists k'. tauto.
Qed.

Lemma build_nbrs ks : forall g x y,
  In y (nbrs (build_nodes ks g) x) <-> In y (nbrs g x) \/ In (x, y) ks.
Proof.
  induction ks as [|k r IH]; intros g x y; simpl.
  - tauto.
  - fold (build_nodes r (add_edge_nodes (fst k) (snd k) g)). rewrite IH, aen_nbrs_In.
    destruct k as [a b]. simpl. split.
    + intros [[[-> ->]|H]|H]; auto.
    + intros [H|[H|H]]; auto. injection H as <- <-. auto.
Qed.

(* ================================================================================================ *)
(* 3. edges(): all_edges, num_stored                                                                *)
(* ================================================================================================ *)
Lemma num_stored_length g : num_stored g = N.of_nat (List.length (all_edges g)).
Proof.
  induction g as [|[k s] r IH]; simpl; [reflexivity|].
  rewrite app_length, map_length, IH. lia.
Qed.

Lemma all_edges_In g n m : NoDup (keys g) -> (In (n, m) (all_edges g) <-> In m (nbrs g n)).
Proof.
  intros D. unfold all_edges. rewrite in_flat_map. split.
  - intros [[k s] [Hp H]]. simpl in H. apply in_map_iff in H as [y [E Hy]]. injection E as -> ->.
    unfold nbrs. now rewrite (assoc_get_In _ _ Z.eqb Zeqb_spec n s g D Hp).
  - intros H. unfold nbrs in H. destruct (assoc_get Z.eqb n g) as [s|] eqn:E; [|contradiction].
    apply assoc_get_Some_In in E; [|exact Zeqb_spec]. exists (n, s). split; [exact E|].
    simpl. apply in_map_iff. now exists m.
Qed.

Lemma all_edges_NoDup g : NoDup (keys g) -> (forall n, NoDup (nbrs g n)) -> NoDup (all_edges g).
Proof.
  induction g as [|[k s] r IH]; intros D Dn; simpl; [constructor|].
  inversion D as [|? ? D1 D2]; subst.
  assert (Hs : NoDup s). { specialize (Dn k). unfold nbrs in Dn. simpl in Dn. now rewrite Z.eqb_refl in Dn. }
  assert (Hr : forall n, NoDup (nbrs r n)).
  { intros n. specialize (Dn n). unfold nbrs in *. simpl in Dn. destruct (Z.eqb n k) eqn:Hn; [|exact Dn].
    apply Z.eqb_eq in Hn. subst n. destruct (assoc_get Z.eqb k r) eqn:E; [|constructor].
    apply assoc_get_Some_In in E; [|exact Zeqb_spec]. exfalso. apply D1. unfold keys. apply in_map_iff. now exists (k, l). }
  assert (A : NoDup (map (pair k) s)).
  { apply FinFun.Injective_map_NoDup; [|exact Hs]. intros a b E. now injection E. }
  assert (B : NoDup (all_edges r)) by (apply IH; assumption).
  clear - A B D1 D2. induction (map (pair k) s) as [|e l IHl] eqn:Q in A, s |- *.
  - exact B.
  - (* not used: handled below *)
    simpl. inversion A as [|? ? A1 A2]; subst. destruct s as [|m s']; [discriminate|]. simpl in Q.
    injection Q as <- <-. constructor.
    + intros H. apply in_app_or in H as [H|H]; [contradiction|].
      apply all_edges_In in H; [|exact D2]. apply nbrs_In_key in H. contradiction.
    + now apply (IHl s').
Qed.

Lemma all_edges_perm_edge_keys g : wf_nmap g -> Permutation (all_edges g) (edge_keys g).
Proof.
  intros [D [Dn C]]. apply NoDup_Permutation.
  - now apply all_edges_NoDup.
  - now apply edge_keys_NoDup.
  - intros [n m]. rewrite all_edges_In by exact D. rewrite edge_keys_In. split; [|tauto].
    intros H. split; [now apply nbrs_In_key in H|exact H].
Qed.

Lemma all_edges_length g : wf_nmap g -> List.length (all_edges g) = List.length (edge_keys g).
Proof. intros H. now apply Permutation_length, all_edges_perm_edge_keys. Qed.

(* ================================================================================================ *)
(* 4. the graph rebuilt from the sorted edge list                                                    *)
(* ================================================================================================ *)
Definition incident (g : nmap) (x : Z) : Prop := exists y, In y (nbrs g x) \/ In x (nbrs g y).

Definition rebuilt (g : nmap) : nmap := build_nodes (edge_keys g) [].

Lemma rebuilt_wf g : wf_nmap (rebuilt g).
Proof. apply build_wf, wf_nmap_nil. Qed.

Lemma rebuilt_nbrs g x y : In y (nbrs (rebuilt g) x) <-> In y (nbrs g x).
Proof.
  unfold rebuilt. rewrite build_nbrs, edge_keys_In. simpl. split.
  - intros [[]|[_ H]]. exact H.
  - intros H. right. split; [now apply nbrs_In_key in H|exact H].
Qed.

Lemma rebuilt_keys g x : In x (keys (rebuilt g)) <-> incident g x.
Proof.
  unfold rebuilt, incident. rewrite build_keys. simpl. split.
  - intros [[]|[[a b] [Hk H]]]. apply edge_keys_In in Hk as [_ Hk]. simpl in H.
    destruct H as [->| ->]; [exists b; now left|exists a; now right].
  - intros [y [H|H]]; right.
    + exists (x, y). split; [|now left]. apply edge_keys_In. split; [now apply nbrs_In_key in H|exact H].
    + exists (y, x). split; [|now right]. apply edge_keys_In. split; [now apply nbrs_In_key in H|exact H].
Qed.

(* writing visits the same edges in the same order *)
Theorem rebuilt_edge_keys g : wf_nmap g -> edge_keys (rebuilt g) = edge_keys g.
Proof.
  intros [D [Dn C]]. destruct (rebuilt_wf g) as [D' [Dn' C']].
  apply (ssorted_unique _ plt plt_irrefl plt_trans).
  - now apply edge_keys_sorted.
  - now apply edge_keys_sorted.
  - intros [n m]. rewrite !edge_keys_In. rewrite rebuilt_nbrs. split; intros [_ H]; (split; [|exact H]).
    + now apply nbrs_In_key in H.
    + apply rebuilt_nbrs in H. now apply nbrs_In_key in H.
Qed.

Lemma rebuilt_num_stored g : wf_nmap g ->
  num_stored (rebuilt g) = N.of_nat (List.length (all_edges g)).
Proof.
  intros H. rewrite num_stored_length. f_equal.
  rewrite (all_edges_length _ (rebuilt_wf g)), (all_edges_length _ H). now rewrite rebuilt_edge_keys.
Qed.

(* ================================================================================================ *)
(* 5. the weight table                                                                              *)
(* ================================================================================================ *)
Section Weights.
  Variable W : Type.
  Notation wtab := (list ((Z * Z) * W)).

  (* the (edge, weight) pairs in the order in which they are written *)
  Definition wlist (wt : wtab) (ks : list (Z * Z)) : wtab :=
    flat_map (fun k => match assoc_get peqb k wt with Some w => [(k, w)] | None => [] end) ks.

  Definition all_weighted (wt : wtab) (ks : list (Z * Z)) : Prop :=
    forall k, In k ks -> assoc_get peqb k wt <> None.

  Lemma wlist_keys wt ks : all_weighted wt ks -> keys (wlist wt ks) = ks.
  Proof.
    induction ks as [|k r IH]; intros H; simpl; [reflexivity|].
    destruct (assoc_get peqb k wt) eqn:E.
    - simpl. f_equal. apply IH. intros k' Hk'. apply H. now right.
    - exfalso. apply (H k); [now left|exact E].
  Qed.

  Lemma wlist_get_notin wt ks k : ~ In k ks -> assoc_get peqb k (wlist wt ks) = None.
  Proof.
    intros H. apply (assoc_get_None _ _ peqb peqb_spec). intros C. apply H.
    unfold keys, wlist in C. apply in_map_iff in C as [[k' w] [E C]]. simpl in E. subst k'.
    apply in_flat_map in C as [k' [Hk' C]]. destruct (assoc_get peqb k' wt); [|contradiction].
    destruct C as [C|[]]. injection C as -> _. exact Hk'.
  Qed.

  Lemma wlist_get_in wt ks k : In k ks -> assoc_get peqb k (wlist wt ks) = assoc_get peqb k wt.
  Proof.
    induction ks as [|k' r IH]; intros H; [contradiction|]. simpl.
    rewrite (assoc_get_app _ _ peqb). destruct (peqb k k') eqn:E.
    - apply peqb_spec in E. subst k'. destruct (assoc_get peqb k wt) eqn:G.
      + simpl. now rewrite (proj2 (peqb_spec k k) eq_refl).
      + simpl. destruct (in_dec (fun a b : Z * Z => ltac:(decide equality; apply Z.eq_dec)) k r) as [I|I].
        * now apply IH.
        * now apply wlist_get_notin.
    - assert (k <> k') as Hne by (intros ->; rewrite (proj2 (peqb_spec k' k') eq_refl) in E; discriminate).
      destruct H as [H|H]; [congruence|].
      destruct (assoc_get peqb k' wt) eqn:G; simpl; [rewrite E|]; now apply IH.
  Qed.

  (* add_edge called along a list with distinct keys stores exactly that list *)
  Lemma fold_assoc_set_fresh (es : wtab) : forall d, NoDup (keys d ++ keys es) ->
    fold_left (fun d e => assoc_set peqb (fst e) (snd e) d) es d = d ++ es.
  Proof.
    induction es as [|[k w] r IH]; intros d D; simpl; [now rewrite app_nil_r|].
    simpl in D. rewrite (assoc_set_fresh _ _ peqb peqb_spec).
    - rewrite IH; [now rewrite <- app_assoc|]. rewrite keys_app. simpl. rewrite <- app_assoc. simpl.
      exact D.
    - apply NoDup_remove_2 in D. intros H. apply D. apply in_or_app. now left.
  Qed.

  Lemma fold_add_edge_split (es : wtab) : forall (g : nmap * wtab),
    fold_left (fun g e => add_edge (fst (fst e)) (snd (fst e)) (snd e) g) es g =
    (build_nodes (keys es) (fst g), fold_left (fun d e => assoc_set peqb (fst e) (snd e) d) es (snd g)).
  Proof.
    induction es as [|[[a b] w] r IH]; intros [g d]; simpl; [reflexivity|].
    rewrite IH. reflexivity.
  Qed.
End Weights.

Arguments wlist {W}.
Arguments all_weighted {W}.
