(* Lib/PyStr.v — the fragment of Python's str API used by the PrefLib parsers and writers, over
   code-point text.  Executable definitions; algebraic laws are proved where they are used. *)
From Coq Require Import List NArith Bool String Ascii.
From PrefVerif Require Import Lib.Dec.
Import ListNotations.

(* a Coq string literal as code points (ASCII only) *)
Fixpoint lit (s : string) : text :=
  match s with
  | EmptyString => []
  | String a r => N_of_ascii a :: lit r
  end.

Arguments lit _%string_scope.

Definition ceqb (a b : N) : bool := N.eqb a b.
Fixpoint teqb (a b : text) : bool :=
  match a, b with
  | [], [] => true
  | x :: a', y :: b' => N.eqb x y && teqb a' b'
  | _, _ => false
  end.

(* str.isspace() for a single code point: the 29 code points Python treats as whitespace *)
Definition is_space (c : N) : bool :=
  ((9 <=? c) && (c <=? 13) || (28 <=? c) && (c <=? 32) || (c =? 133) || (c =? 160) || (c =? 5760)
   || (8192 <=? c) && (c <=? 8202) || (c =? 8232) || (c =? 8233) || (c =? 8239) || (c =? 8287)
   || (c =? 12288))%N.

(* the line boundaries of str.splitlines(): \n \v \f \r \x1c \x1d \x1e \x85 U+2028 U+2029 (\r\n is one) *)
Definition is_linebreak (c : N) : bool :=
  ((10 <=? c) && (c <=? 13) || (28 <=? c) && (c <=? 30) || (c =? 133) || (c =? 8232) || (c =? 8233))%N.

Fixpoint lstrip_by (f : N -> bool) (s : text) : text :=
  match s with
  | [] => []
  | c :: r => if f c then lstrip_by f r else s
  end.
Definition rstrip_by (f : N -> bool) (s : text) : text := rev (lstrip_by f (rev s)).
Definition strip_by (f : N -> bool) (s : text) : text := rstrip_by f (lstrip_by f s).

(* s.strip() *)
Definition strip (s : text) : text := strip_by is_space s.
(* s.strip(chars) *)
Definition strip_chars (chars : text) (s : text) : text := strip_by (fun c => existsb (N.eqb c) chars) s.

Fixpoint startswith (p s : text) : bool :=
  match p, s with
  | [], _ => true
  | _ :: _, [] => false
  | a :: p', b :: s' => N.eqb a b && startswith p' s'
  end.

(* s[n:] *)
Definition drop (n : nat) (s : text) : text := skipn n s.

(* s.split(sep) for a one-character separator: k occurrences give k+1 fields, empties kept *)
Fixpoint split_on (sep : N) (s : text) : list text :=
  match s with
  | [] => [[]]
  | c :: r =>
    if N.eqb c sep then [] :: split_on sep r
    else match split_on sep r with
         | [] => [[c]]          (* unreachable: split_on never returns [] *)
         | f :: fs => (c :: f) :: fs
         end
  end.

(* "".join(s.split()) : remove every whitespace character *)
Definition remove_ws (s : text) : text := filter (fun c => negb (is_space c)) s.
(* s.replace(" ", "") *)
Definition remove_sp (s : text) : text := filter (fun c => negb (N.eqb c 32)) s.

(* sep.join(parts) *)
Fixpoint join (sep : text) (parts : list text) : text :=
  match parts with
  | [] => []
  | [p] => p
  | p :: ps => p ++ sep ++ join sep ps
  end.

(* s.splitlines(): split at every line boundary, "\r\n" counting as one, no final empty line *)
Fixpoint splitlines_aux (cur : text) (s : text) : list text :=
  match s with
  | [] => match cur with [] => [] | _ => [rev cur] end
  | c :: r =>
    if is_linebreak c then
      match c, r with
      | 13%N, 10%N :: r' => rev cur :: splitlines_aux [] r'
      | _, _ => rev cur :: splitlines_aux [] r
      end
    else splitlines_aux (c :: cur) r
  end.
Definition splitlines (s : text) : list text := splitlines_aux [] s.

(* open(path, "r").readlines() with universal newlines: \r\n and \r become \n, lines keep their "\n" *)
Fixpoint readlines_aux (cur : text) (s : text) : list text :=
  match s with
  | [] => match cur with [] => [] | _ => [rev cur] end
  | c :: r =>
    if N.eqb c 10 then rev (10%N :: cur) :: readlines_aux [] r
    else if N.eqb c 13 then
      match r with
      | 10%N :: r' => rev (10%N :: cur) :: readlines_aux [] r'
      | _ => rev (10%N :: cur) :: readlines_aux [] r
      end
    else readlines_aux (c :: cur) r
  end.
Definition readlines (s : text) : list text := readlines_aux [] s.

(* [line.strip() for line in data.read().decode().splitlines()]  (parse_url after fix F10) *)
Definition urllines (s : text) : list text := map strip (splitlines s).

(* all characters are ASCII digits *)
Definition all_digits (s : text) : bool := forallb is_digit s.
