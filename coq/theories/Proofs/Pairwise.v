(* Proofs/Pairwise.v — lemmas about Model/Pairwise.v (property C07). *)
From Coq Require Import List Arith NArith ZArith Bool Lia Permutation.
From PrefVerif Require Import Lib.Val Model.Pairwise.
Import ListNotations.
Local Open Scope Z_scope.

(* ------------------------------------------------------------------------------------------ *)
(** * Small list facts *)

Lemma mem_In a l : mem a l = true <-> In a l.
Proof.
  unfold mem. rewrite existsb_exists. split.
  - intros [x [Hx E]]. apply N.eqb_eq in E. subst. exact Hx.
  - intros H. exists a. split; [exact H | apply N.eqb_refl].
Qed.

Lemma mem_false a l : mem a l = false <-> ~ In a l.
Proof. rewrite <- mem_In. destruct (mem a l); split; intros H; congruence. Qed.

Lemma mem_app a l1 l2 : mem a (l1 ++ l2) = mem a l1 || mem a l2.
Proof. unfold mem. apply existsb_app. Qed.

Lemma NoDup_app_iff {X} (l1 l2 : list X) :
  NoDup (l1 ++ l2) <-> NoDup l1 /\ NoDup l2 /\ (forall x, In x l1 -> ~ In x l2).
Proof.
  induction l1 as [|x l1 IH]; simpl.
  - split; [intros H; repeat split; [constructor | exact H | tauto] | tauto].
  - split.
    + intros H. inversion H as [|y l Hn Hd]; subst. apply IH in Hd. destruct Hd as [H1 [H2 H3]].
      repeat split.
      * constructor; [|exact H1]. intros Hx. apply Hn. apply in_or_app. left; exact Hx.
      * exact H2.
      * intros z [Hz|Hz] Hz2; [subst; apply Hn; apply in_or_app; right; exact Hz2 | exact (H3 z Hz Hz2)].
    + intros [H1 [H2 H3]]. inversion H1 as [|y l Hn Hd]; subst. constructor.
      * intros Hx. apply in_app_or in Hx. destruct Hx as [Hx|Hx]; [exact (Hn Hx)| exact (H3 x (or_introl eq_refl) Hx)].
      * apply IH. repeat split; [exact Hd | exact H2 | intros z Hz; apply H3; right; exact Hz].
Qed.

Lemma existsb_map {X Y} (f : Y -> bool) (g : X -> Y) l : existsb f (map g l) = existsb (fun x => f (g x)) l.
Proof. induction l; simpl; [reflexivity | rewrite IHl; reflexivity]. Qed.
Lemma forallb_map {X Y} (f : Y -> bool) (g : X -> Y) l : forallb f (map g l) = forallb (fun x => f (g x)) l.
Proof. induction l; simpl; [reflexivity | rewrite IHl; reflexivity]. Qed.

(* sums *)
Definition zsum {X} (f : X -> Z) (l : list X) : Z := fold_right (fun x s => f x + s) 0 l.

Lemma zsum_ext {X} (f g : X -> Z) l : (forall x, In x l -> f x = g x) -> zsum f l = zsum g l.
Proof.
  induction l as [|x l IH]; simpl; intros H; [reflexivity|].
  rewrite (H x (or_introl eq_refl)), IH; [reflexivity | intros y Hy; apply H; right; exact Hy].
Qed.
Lemma zsum_app {X} (f : X -> Z) l1 l2 : zsum f (l1 ++ l2) = zsum f l1 + zsum f l2.
Proof. induction l1; simpl; [reflexivity | rewrite IHl1; ring]. Qed.
Lemma zsum_zero {X} (f : X -> Z) l : (forall x, In x l -> f x = 0) -> zsum f l = 0.
Proof.
  induction l as [|x l IH]; simpl; intros H; [reflexivity|].
  rewrite (H x (or_introl eq_refl)), IH; [reflexivity | intros y Hy; apply H; right; exact Hy].
Qed.
Lemma zsum_perm {X} (f : X -> Z) l1 l2 : Permutation l1 l2 -> zsum f l1 = zsum f l2.
Proof. induction 1; simpl; try lia. Qed.

Definition ind (a x : N) : Z := if N.eqb a x then 1 else 0.
Definition cnt (a : N) (l : list N) : Z := zsum (ind a) l.
Definition b2z (b : bool) : Z := if b then 1 else 0.

Lemma cnt_notin a l : ~ In a l -> cnt a l = 0.
Proof.
  intros H. apply zsum_zero. intros x Hx. unfold ind.
  destruct (N.eqb_spec a x); [subst; contradiction | reflexivity].
Qed.
Lemma cnt_NoDup a l : NoDup l -> cnt a l = b2z (mem a l).
Proof.
  induction 1 as [|x l Hn Hd IH]; [reflexivity|].
  unfold cnt in *. simpl. rewrite IH. unfold ind, mem. simpl.
  destruct (N.eqb_spec a x) as [E|E]; simpl; [|reflexivity].
  subst. apply mem_false in Hn. unfold mem in Hn. rewrite Hn. reflexivity.
Qed.
Lemma cnt_app a l1 l2 : cnt a (l1 ++ l2) = cnt a l1 + cnt a l2.
Proof. apply zsum_app. Qed.

(* ------------------------------------------------------------------------------------------ *)
(** * Tables in explicit form: [rebuild f sh] is the table with the keys of [sh] and values [f a b] *)

Definition shape := list (N * list N).
Definition rebuild (f : N -> N -> Z) (sh : shape) : table :=
  map (fun aks => (fst aks, map (fun b => (b, f (fst aks) b)) (snd aks))) sh.
Definition shape_of (al : list N) : shape := map (fun a => (a, others al a)) al.
Definition wf_shape (sh : shape) : Prop :=
  NoDup (map fst sh) /\ Forall (fun aks => NoDup (snd aks)) sh.

Lemma init_table_rebuild al : init_table al = rebuild (fun _ _ => 0) (shape_of al).
Proof. unfold init_table, rebuild, shape_of. rewrite map_map. reflexivity. Qed.

Lemma rebuild_ext_in f g sh :
  (forall a ks b, In (a, ks) sh -> In b ks -> f a b = g a b) -> rebuild f sh = rebuild g sh.
Proof.
  intros H. unfold rebuild. apply map_ext_in. intros [a ks] Hin. simpl. f_equal.
  apply map_ext_in. intros b Hb. f_equal. exact (H a ks b Hin Hb).
Qed.
Lemma rebuild_ext f g sh : (forall a b, f a b = g a b) -> rebuild f sh = rebuild g sh.
Proof. intros H. apply rebuild_ext_in. intros; apply H. Qed.

Lemma NoDup_others al a : NoDup al -> NoDup (others al a).
Proof. intros H. unfold others. apply NoDup_filter. exact H. Qed.

Lemma wf_shape_of al : NoDup al -> wf_shape (shape_of al).
Proof.
  intros H. split.
  - unfold shape_of. rewrite map_map. simpl. rewrite map_id. exact H.
  - unfold shape_of. apply Forall_forall. intros [a ks] Hin. apply in_map_iff in Hin.
    destruct Hin as [x [E _]]. inversion E; subst. simpl. apply NoDup_others. exact H.
Qed.

Lemma row_add_map (g : N -> Z) ks b d : NoDup ks ->
  row_add (map (fun c => (c, g c)) ks) b d
  = map (fun c => (c, if N.eqb c b then g c + d else g c)) ks.
Proof.
  induction 1 as [|c ks Hn Hd IH]; simpl; [reflexivity|].
  destruct (N.eqb_spec c b) as [E|E].
  - subst. f_equal. apply map_ext_in. intros c' Hc'.
    destruct (N.eqb_spec c' b); [subst; contradiction | reflexivity].
  - f_equal. exact IH.
Qed.

Lemma tbl_add_rebuild f sh w b d : wf_shape sh ->
  tbl_add (rebuild f sh) w b d
  = rebuild (fun a c => if N.eqb a w && N.eqb c b then f a c + d else f a c) sh.
Proof.
  intros [Hk Hr]. induction sh as [|[a ks] sh IH]; simpl; [reflexivity|].
  inversion Hk as [|x l Hn Hd]; subst. inversion Hr as [|x l Hks Hrest]; subst. simpl in *.
  destruct (N.eqb_spec a w) as [E|E].
  - subst. f_equal.
    + f_equal. rewrite row_add_map by exact Hks. apply map_ext. intros c. reflexivity.
    + apply rebuild_ext_in. intros a' ks' c Hin _.
      destruct (N.eqb_spec a' w) as [E'|E']; [|reflexivity].
      subst. exfalso. apply Hn. apply in_map_iff. exists (w, ks'). split; [reflexivity | exact Hin].
  - f_equal. apply IH; assumption.
Qed.

(* a sequence of `t[w][b] += d` statements *)
Definition upd := (N * N * Z)%type.
Definition apply_ups (t : table) (us : list upd) : table :=
  fold_left (fun t u => tbl_add t (fst (fst u)) (snd (fst u)) (snd u)) us t.
Definition hit (u : upd) (a c : N) : Z :=
  if N.eqb a (fst (fst u)) && N.eqb c (snd (fst u)) then snd u else 0.
Definition hits (us : list upd) (a c : N) : Z := zsum (fun u => hit u a c) us.

Lemma apply_rebuild sh : wf_shape sh -> forall us f,
  apply_ups (rebuild f sh) us = rebuild (fun a c => f a c + hits us a c) sh.
Proof.
  intros Hsh us. induction us as [|[[w b] d] us IH]; intros f.
  - simpl. apply rebuild_ext. intros. unfold hits. simpl. ring.
  - simpl. rewrite tbl_add_rebuild by exact Hsh. rewrite IH. apply rebuild_ext. intros a c.
    unfold hits, hit. simpl. destruct (N.eqb a w && N.eqb c b); ring.
Qed.

Lemma apply_ups_app t u1 u2 : apply_ups t (u1 ++ u2) = apply_ups (apply_ups t u1) u2.
Proof. unfold apply_ups. apply fold_left_app. Qed.

Lemma fold_ups {X} (g : X -> list upd) (F : table -> X -> table) :
  (forall t x, F t x = apply_ups t (g x)) ->
  forall l t, fold_left F l t = apply_ups t (flat_map g l).
Proof.
  intros H l. induction l as [|x l IH]; intros t; simpl; [reflexivity|].
  rewrite IH, H, apply_ups_app. reflexivity.
Qed.

Lemma hits_app u1 u2 a c : hits (u1 ++ u2) a c = hits u1 a c + hits u2 a c.
Proof. apply zsum_app. Qed.
Lemma hits_flat_map {X} (g : X -> list upd) l a c :
  hits (flat_map g l) a c = zsum (fun x => hits (g x) a c) l.
Proof. induction l; simpl; [reflexivity | rewrite hits_app, IHl; reflexivity]. Qed.

(* ------------------------------------------------------------------------------------------ *)
(** * The three accumulation loops are sequences of updates *)

(* updates generated for one (winning, beaten) pair *)
Definition pu_pw (k : Z) (w b : N) : list upd := [(w, b, k)].
Definition pu_cp (k : Z) (w b : N) : list upd := [(w, b, k); (b, w, - k)].
(* one indifference class; loop order: beaten outer (pairwise, copeland) / winning outer (has_condorcet) *)
Definition uc_bo (pu : N -> N -> list upd) (before cls : list N) : list upd :=
  flat_map (fun b => flat_map (fun w => pu w b) before) cls.
Definition uc_wo (pu : N -> N -> list upd) (before cls : list N) : list upd :=
  flat_map (fun w => flat_map (fun b => pu w b) cls) before.
Fixpoint ups_order (uc : list N -> list N -> list upd) (before : list N) (o : order) : list upd :=
  match o with
  | [] => []
  | cls :: r => uc before cls ++ ups_order uc (before ++ cls) r
  end.

Lemma fold_class_ups (step : table * list N -> list N -> table * list N) uc :
  (forall t before cls, step (t, before) cls = (apply_ups t (uc before cls), before ++ cls)) ->
  forall o t before,
    fold_left step o (t, before) = (apply_ups t (ups_order uc before o), before ++ concat o).
Proof.
  intros H o. induction o as [|cls o IH]; intros t before; simpl.
  - rewrite app_nil_r. reflexivity.
  - rewrite H, IH, apply_ups_app, app_assoc. reflexivity.
Qed.

Lemma pw_class_ups k t before cls :
  pw_class k (t, before) cls = (apply_ups t (uc_bo (pu_pw k) before cls), before ++ cls).
Proof.
  unfold pw_class, uc_bo. f_equal. apply fold_ups. intros t' b. apply fold_ups. reflexivity.
Qed.
Lemma cp_class_ups k t before cls :
  cp_class k (t, before) cls = (apply_ups t (uc_bo (pu_cp k) before cls), before ++ cls).
Proof.
  unfold cp_class, uc_bo. f_equal. apply fold_ups. intros t' b. apply fold_ups. reflexivity.
Qed.
Lemma cd_class_ups k t before cls :
  cd_class k (t, before) cls = (apply_ups t (uc_wo (pu_cp k) before cls), before ++ cls).
Proof.
  unfold cd_class, uc_wo. f_equal. apply fold_ups. intros t' b. apply fold_ups. reflexivity.
Qed.

Definition ups_pw (p : list (order * N)) : list upd :=
  flat_map (fun ok => ups_order (uc_bo (pu_pw (Z.of_N (snd ok)))) [] (fst ok)) p.
Definition ups_cp (p : list (order * N)) : list upd :=
  flat_map (fun ok => ups_order (uc_bo (pu_cp (Z.of_N (snd ok)))) [] (fst ok)) p.
Definition ups_cd (p : list (order * N)) : list upd :=
  flat_map (fun ok => ups_order (uc_wo (pu_cp (Z.of_N (snd ok)))) [] (fst ok)) p.

Lemma pairwise_table_ups i : pairwise_table i = apply_ups (init_table (alts i)) (ups_pw (mult i)).
Proof.
  unfold pairwise_table, ups_pw. apply fold_ups. intros t [o k]. unfold pw_order. simpl.
  rewrite (fold_class_ups _ _ (pw_class_ups (Z.of_N k))). reflexivity.
Qed.
Lemma copeland_table_ups i : copeland_table i = apply_ups (init_table (alts i)) (ups_cp (mult i)).
Proof.
  unfold copeland_table, ups_cp. apply fold_ups. intros t [o k]. unfold cp_order. simpl.
  rewrite (fold_class_ups _ _ (cp_class_ups (Z.of_N k))). reflexivity.
Qed.
Lemma condorcet_table_ups i : condorcet_table i = apply_ups (init_table (alts i)) (ups_cd (mult i)).
Proof.
  unfold condorcet_table, ups_cd. apply fold_ups. intros t [o k]. unfold cd_order. simpl.
  rewrite (fold_class_ups _ _ (cd_class_ups (Z.of_N k))). reflexivity.
Qed.

(* ------------------------------------------------------------------------------------------ *)
(** * Counting the updates that hit entry (a, c) *)

(* a pair-update generator with weights P (for [w][b]) and Q (for [b][w]) *)
Definition pu_weights (pu : N -> N -> list upd) (P Q : Z) : Prop :=
  forall w b a c, hits (pu w b) a c = P * ind a w * ind c b + Q * ind a b * ind c w.

Lemma pu_pw_weights k : pu_weights (pu_pw k) k 0.
Proof.
  intros w b a c. unfold pu_pw, hits, hit, ind. simpl.
  destruct (N.eqb a w), (N.eqb c b), (N.eqb a b), (N.eqb c w); simpl; ring.
Qed.
Lemma pu_cp_weights k : pu_weights (pu_cp k) k (- k).
Proof.
  intros w b a c. unfold pu_cp, hits, hit, ind. simpl.
  destruct (N.eqb a w), (N.eqb c b), (N.eqb a b), (N.eqb c w); simpl; ring.
Qed.

Lemma zsum_inner P Q a c b l :
  zsum (fun w => P * ind a w * ind c b + Q * ind a b * ind c w) l
  = P * cnt a l * ind c b + Q * ind a b * cnt c l.
Proof. unfold cnt. induction l as [|x l IH]; simpl; [ring | rewrite IH; ring]. Qed.
Lemma zsum_outer P Q A B a c l :
  zsum (fun b => P * A * ind c b + Q * ind a b * B) l = P * A * cnt c l + Q * cnt a l * B.
Proof. unfold cnt. induction l as [|x l IH]; simpl; [ring | rewrite IH; ring]. Qed.
Lemma zsum_inner' P Q a c w l :
  zsum (fun b => P * ind a w * ind c b + Q * ind a b * ind c w) l
  = P * ind a w * cnt c l + Q * cnt a l * ind c w.
Proof. unfold cnt. induction l as [|x l IH]; simpl; [ring | rewrite IH; ring]. Qed.
Lemma zsum_outer' P Q A B a c l :
  zsum (fun w => P * ind a w * A + Q * B * ind c w) l = P * cnt a l * A + Q * B * cnt c l.
Proof. unfold cnt. induction l as [|x l IH]; simpl; [ring | rewrite IH; ring]. Qed.

Lemma hits_uc_bo pu P Q before cls a c : pu_weights pu P Q ->
  hits (uc_bo pu before cls) a c = P * (cnt a before * cnt c cls) + Q * (cnt c before * cnt a cls).
Proof.
  intros H. unfold uc_bo. rewrite hits_flat_map.
  rewrite (zsum_ext _ (fun b => P * cnt a before * ind c b + Q * ind a b * cnt c before)).
  - rewrite zsum_outer. ring.
  - intros b _. rewrite hits_flat_map.
    rewrite (zsum_ext _ (fun w => P * ind a w * ind c b + Q * ind a b * ind c w)).
    + apply zsum_inner.
    + intros w _. apply H.
Qed.
Lemma hits_uc_wo pu P Q before cls a c : pu_weights pu P Q ->
  hits (uc_wo pu before cls) a c = P * (cnt a before * cnt c cls) + Q * (cnt c before * cnt a cls).
Proof.
  intros H. unfold uc_wo. rewrite hits_flat_map.
  rewrite (zsum_ext _ (fun w => P * ind a w * cnt c cls + Q * cnt a cls * ind c w)).
  - rewrite zsum_outer'. ring.
  - intros w _. rewrite hits_flat_map.
    rewrite (zsum_ext _ (fun b => P * ind a w * ind c b + Q * ind a b * ind c w)).
    + apply zsum_inner'.
    + intros b _. apply H.
Qed.

(* number of times the loops over one order visit the pair (winning = a, beaten = c) *)
Fixpoint cnt_order (before : list N) (o : order) (a c : N) : Z :=
  match o with
  | [] => 0
  | cls :: r => cnt a before * cnt c cls + cnt_order (before ++ cls) r a c
  end.

Lemma hits_ups_order uc P Q :
  (forall before cls a c,
     hits (uc before cls) a c = P * (cnt a before * cnt c cls) + Q * (cnt c before * cnt a cls)) ->
  forall o before a c,
    hits (ups_order uc before o) a c = P * cnt_order before o a c + Q * cnt_order before o c a.
Proof.
  intros H o. induction o as [|cls o IH]; intros before a c; simpl.
  - unfold hits. simpl. ring.
  - rewrite hits_app, H, IH. ring.
Qed.

(* class_index and membership *)
Lemma class_index_mem o a :
  match class_index o a with
  | Some _ => mem a (concat o) = true
  | None => mem a (concat o) = false
  end.
Proof.
  induction o as [|cls o IH]; simpl; [reflexivity|].
  rewrite mem_app. destruct (mem a cls); simpl; [reflexivity|].
  destruct (class_index o a); simpl; exact IH.
Qed.
Lemma class_index_none o a : mem a (concat o) = false -> class_index o a = None.
Proof. intros H. pose proof (class_index_mem o a) as M. destruct (class_index o a); congruence. Qed.
Lemma class_index_some o a : mem a (concat o) = true -> exists j, class_index o a = Some j.
Proof. intros H. pose proof (class_index_mem o a) as M. destruct (class_index o a); [eauto | congruence]. Qed.

Lemma above_cons cls r a c :
  above (cls :: r) a c
  = if mem a cls then negb (mem c cls) && mem c (concat r)
    else if mem c cls then false else above r a c.
Proof.
  unfold above. simpl. pose proof (class_index_mem r c) as Mc.
  destruct (mem a cls), (mem c cls); simpl; try reflexivity.
  - destruct (class_index r c); simpl; rewrite Mc; reflexivity.
  - destruct (class_index r a); reflexivity.
  - destruct (class_index r a), (class_index r c); reflexivity.
Qed.
Lemma above_notin_l o a c : mem a (concat o) = false -> above o a c = false.
Proof. intros H. unfold above. rewrite (class_index_none _ _ H). reflexivity. Qed.
Lemma above_notin_r o a c : mem c (concat o) = false -> above o a c = false.
Proof. intros H. unfold above. rewrite (class_index_none _ _ H). destruct (class_index o a); reflexivity. Qed.

Lemma disjoint_mem (l1 l2 : list N) x :
  (forall y, In y l1 -> ~ In y l2) -> mem x l1 = true -> mem x l2 = false.
Proof. intros H H1. apply mem_false. apply H. apply mem_In. exact H1. Qed.

Lemma cnt_order_spec o : forall before a c, NoDup (before ++ concat o) ->
  cnt_order before o a c = b2z (mem a before && mem c (concat o)) + b2z (above o a c).
Proof.
  induction o as [|cls o IH]; intros before a c Hnd; simpl.
  - rewrite andb_false_r. reflexivity.
  - simpl in Hnd.
    assert (Hnd2 : NoDup ((before ++ cls) ++ concat o)) by (rewrite <- app_assoc; exact Hnd).
    rewrite (IH _ a c Hnd2). rewrite above_cons.
    apply NoDup_app_iff in Hnd. destruct Hnd as [Hb [Hco Hd1]].
    apply NoDup_app_iff in Hco. destruct Hco as [Hc [Ho Hd2]].
    rewrite (cnt_NoDup _ _ Hb), (cnt_NoDup _ _ Hc). rewrite !mem_app.
    assert (D1 : forall x, mem x before = true -> mem x cls = false /\ mem x (concat o) = false).
    { intros x Hx. pose proof (disjoint_mem _ _ x Hd1 Hx) as E. rewrite mem_app in E.
      apply orb_false_iff in E. exact E. }
    assert (D2 : forall x, mem x cls = true -> mem x (concat o) = false).
    { intros x Hx. exact (disjoint_mem _ _ x Hd2 Hx). }
    pose proof (above_notin_l o a c) as AL. pose proof (above_notin_r o a c) as AR.
    pose proof (D1 a) as D1a. pose proof (D2 a) as D2a. pose proof (D2 c) as D2c.
    destruct (mem a before), (mem a cls), (mem a (concat o)), (mem c cls), (mem c (concat o));
      simpl in *;
      try (destruct D1a as [? ?]; [reflexivity|]; discriminate);
      try (specialize (D2a eq_refl); discriminate);
      try (specialize (D2c eq_refl); discriminate);
      try (rewrite AL by reflexivity); try (rewrite AR by reflexivity); try reflexivity.
Qed.

Lemma cnt_order_above o a c : NoDup (concat o) -> cnt_order [] o a c = b2z (above o a c).
Proof. intros H. rewrite (cnt_order_spec o [] a c H). reflexivity. Qed.

(* ------------------------------------------------------------------------------------------ *)
(** * Profile level *)

Definition orders_nodup (p : list (order * N)) : Prop := Forall (fun ok => NoDup (concat (fst ok))) p.

Lemma pw_zsum p a b : pw p a b = zsum (fun ok => if above (fst ok) a b then Z.of_N (snd ok) else 0) p.
Proof. reflexivity. Qed.

Lemma hits_profile (uck : Z -> list N -> list N -> list upd) (Pk Qk : Z -> Z) p a c :
  (forall k before cls a c,
     hits (uck k before cls) a c = Pk k * (cnt a before * cnt c cls) + Qk k * (cnt c before * cnt a cls)) ->
  orders_nodup p ->
  hits (flat_map (fun ok => ups_order (uck (Z.of_N (snd ok))) [] (fst ok)) p) a c
  = zsum (fun ok => Pk (Z.of_N (snd ok)) * b2z (above (fst ok) a c)
                    + Qk (Z.of_N (snd ok)) * b2z (above (fst ok) c a)) p.
Proof.
  intros H Hp. rewrite hits_flat_map. apply zsum_ext. intros [o k] Hin. simpl.
  rewrite (hits_ups_order _ _ _ (H (Z.of_N k))).
  unfold orders_nodup in Hp. rewrite Forall_forall in Hp. specialize (Hp _ Hin). simpl in Hp.
  rewrite !cnt_order_above by exact Hp. reflexivity.
Qed.

Lemma hits_ups_pw p a c : orders_nodup p -> hits (ups_pw p) a c = pw p a c.
Proof.
  intros Hp. unfold ups_pw.
  rewrite (hits_profile (fun k => uc_bo (pu_pw k)) (fun k => k) (fun _ => 0)).
  - rewrite pw_zsum. apply zsum_ext. intros [o k] _. simpl. destruct (above o a c); simpl; ring.
  - intros k before cls a' c'. apply hits_uc_bo. apply pu_pw_weights.
  - exact Hp.
Qed.

Lemma zsum_margin p a c :
  zsum (fun ok : order * N => Z.of_N (snd ok) * b2z (above (fst ok) a c)
                   + - Z.of_N (snd ok) * b2z (above (fst ok) c a)) p = margin p a c.
Proof.
  unfold margin. rewrite !pw_zsum. induction p as [|[o k] p IH]; simpl; [reflexivity|].
  rewrite IH. destruct (above o a c), (above o c a); simpl; ring.
Qed.

Lemma hits_ups_cp p a c : orders_nodup p -> hits (ups_cp p) a c = margin p a c.
Proof.
  intros Hp. unfold ups_cp.
  rewrite (hits_profile (fun k => uc_bo (pu_cp k)) (fun k => k) (fun k => - k)).
  - apply zsum_margin.
  - intros k before cls a' c'. apply hits_uc_bo. apply pu_cp_weights.
  - exact Hp.
Qed.
Lemma hits_ups_cd p a c : orders_nodup p -> hits (ups_cd p) a c = margin p a c.
Proof.
  intros Hp. unfold ups_cd.
  rewrite (hits_profile (fun k => uc_wo (pu_cp k)) (fun k => k) (fun k => - k)).
  - apply zsum_margin.
  - intros k before cls a' c'. apply hits_uc_wo. apply pu_cp_weights.
  - exact Hp.
Qed.

(** the three tables in closed form *)
Theorem pairwise_table_closed i : NoDup (alts i) -> orders_nodup (mult i) ->
  pairwise_table i = rebuild (pw (mult i)) (shape_of (alts i)).
Proof.
  intros Ha Hp. rewrite pairwise_table_ups, init_table_rebuild.
  rewrite apply_rebuild by (apply wf_shape_of; exact Ha).
  apply rebuild_ext. intros a c. rewrite hits_ups_pw by exact Hp. ring.
Qed.
Theorem copeland_table_closed i : NoDup (alts i) -> orders_nodup (mult i) ->
  copeland_table i = rebuild (margin (mult i)) (shape_of (alts i)).
Proof.
  intros Ha Hp. rewrite copeland_table_ups, init_table_rebuild.
  rewrite apply_rebuild by (apply wf_shape_of; exact Ha).
  apply rebuild_ext. intros a c. rewrite hits_ups_cp by exact Hp. ring.
Qed.
Theorem condorcet_table_closed i : NoDup (alts i) -> orders_nodup (mult i) ->
  condorcet_table i = rebuild (margin (mult i)) (shape_of (alts i)).
Proof.
  intros Ha Hp. rewrite condorcet_table_ups, init_table_rebuild.
  rewrite apply_rebuild by (apply wf_shape_of; exact Ha).
  apply rebuild_ext. intros a c. rewrite hits_ups_cd by exact Hp. ring.
Qed.

(* ------------------------------------------------------------------------------------------ *)
(** * Reading entries of a table in closed form *)

Lemma mem_others b al a : mem b (others al a) = mem b al && negb (N.eqb b a).
Proof.
  unfold others. induction al as [|x al IH]; simpl; [reflexivity|].
  destruct (N.eqb_spec x a) as [E|E]; simpl.
  - rewrite IH. subst. destruct (N.eqb_spec b a); simpl; [rewrite andb_false_r; reflexivity | reflexivity].
  - rewrite IH. destruct (N.eqb_spec b x); simpl; [|reflexivity].
    subst. destruct (N.eqb_spec x a); [contradiction | reflexivity].
Qed.

Lemma rget_map (h : N -> Z) ks b :
  rget (map (fun c => (c, h c)) ks) b = if mem b ks then Some (h b) else None.
Proof.
  induction ks as [|x ks IH]; simpl; [reflexivity|].
  rewrite (N.eqb_sym b x). destruct (N.eqb_spec x b); simpl; [subst; reflexivity | exact IH].
Qed.

Lemma tget_row_rebuild f (g : N -> list N) l a :
  tget_row (rebuild f (map (fun x => (x, g x)) l)) a
  = if mem a l then Some (map (fun b => (b, f a b)) (g a)) else None.
Proof.
  induction l as [|x l IH]; simpl; [reflexivity|].
  rewrite (N.eqb_sym a x). destruct (N.eqb_spec x a); simpl; [subst; reflexivity | exact IH].
Qed.

Lemma tget_rebuild f al a b :
  tget (rebuild f (shape_of al)) a b
  = if mem a al && mem b al && negb (N.eqb b a) then Some (f a b) else None.
Proof.
  unfold tget, shape_of. rewrite tget_row_rebuild.
  destruct (mem a al); simpl; [|reflexivity].
  rewrite rget_map, mem_others. reflexivity.
Qed.

Lemma tget_rebuild_some f al a b : In a al -> In b al -> a <> b ->
  tget (rebuild f (shape_of al)) a b = Some (f a b).
Proof.
  intros Ha Hb Hab. rewrite tget_rebuild.
  apply mem_In in Ha. apply mem_In in Hb. rewrite Ha, Hb.
  destruct (N.eqb_spec b a); [subst; contradiction | reflexivity].
Qed.
Lemma tget_rebuild_dom f al a b : tget (rebuild f (shape_of al)) a b <> None ->
  In a al /\ In b al /\ a <> b.
Proof.
  rewrite tget_rebuild. intros H.
  destruct (mem a al) eqn:Ea; simpl in H; [|congruence].
  destruct (mem b al) eqn:Eb; simpl in H; [|congruence].
  destruct (N.eqb_spec b a); simpl in H; [congruence|].
  apply mem_In in Ea. apply mem_In in Eb. repeat split; try assumption. congruence.
Qed.

(* ------------------------------------------------------------------------------------------ *)
(** * pw counts voters of the expanded profile; regrouping *)

Lemma filter_repeat {X} (f : X -> bool) x n :
  filter f (repeat x n) = if f x then repeat x n else [].
Proof.
  induction n; simpl; [destruct (f x); reflexivity|].
  rewrite IHn. destruct (f x); reflexivity.
Qed.

Lemma pw_voters p a b :
  pw p a b = Z.of_nat (length (filter (fun o => above o a b) (expand p))).
Proof.
  unfold expand. induction p as [|[o k] p IH]; simpl; [reflexivity|].
  rewrite filter_app, app_length, Nat2Z.inj_add, <- IH, filter_repeat.
  destruct (above o a b); simpl; [rewrite repeat_length, N_nat_Z; reflexivity | reflexivity].
Qed.

Lemma filter_perm {X} (f : X -> bool) l1 l2 : Permutation l1 l2 -> Permutation (filter f l1) (filter f l2).
Proof.
  induction 1; simpl.
  - constructor.
  - destruct (f x); [constructor|]; assumption.
  - destruct (f x), (f y); try apply perm_swap; try apply Permutation_refl.
  - eapply Permutation_trans; eassumption.
Qed.

Lemma pw_regroup p p' a b : Permutation (expand p) (expand p') -> pw p a b = pw p' a b.
Proof.
  intros H. rewrite !pw_voters. f_equal. apply Permutation_length. apply filter_perm. exact H.
Qed.

(* ------------------------------------------------------------------------------------------ *)
(** * has_condorcet *)

Lemma wf_orders_nodup i : wf_inst i -> orders_nodup (mult i).
Proof.
  intros [_ [_ [_ H]]]. unfold orders_nodup. eapply Forall_impl; [|exact H].
  intros ok [[Hn _] _]. exact Hn.
Qed.
Lemma wf_alts_nodup i : wf_inst i -> NoDup (alts i).
Proof. intros [_ [H _]]. exact H. Qed.

Definition beats (weak : bool) (p : list (order * N)) (a b : N) : Prop :=
  if weak then 0 <= margin p a b else 0 < margin p a b.

Lemma in_others b al a : In b (others al a) <-> In b al /\ b <> a.
Proof.
  unfold others. rewrite filter_In. split; intros [H1 H2]; split; try exact H1.
  - intros E. subst. rewrite N.eqb_refl in H2. discriminate.
  - destruct (N.eqb_spec b a); [contradiction | reflexivity].
Qed.

Lemma condorcet_rebuild weak f al :
  existsb (fun ar => row_ok weak (snd ar)) (rebuild f (shape_of al)) = true
  <-> exists a, In a al /\ forall b, In b al -> b <> a ->
        if weak then 0 <= f a b else 0 < f a b.
Proof.
  unfold rebuild, shape_of. rewrite map_map, existsb_map. simpl. rewrite existsb_exists.
  split.
  - intros [a [Ha Hrow]]. exists a. split; [exact Ha|]. intros b Hb Hba.
    unfold row_ok in Hrow. rewrite forallb_map in Hrow. simpl in Hrow. rewrite forallb_forall in Hrow.
    specialize (Hrow b (proj2 (in_others b al a) (conj Hb Hba))).
    destruct weak; [apply Z.leb_le | apply Z.ltb_lt]; exact Hrow.
  - intros [a [Ha Hall]]. exists a. split; [exact Ha|].
    unfold row_ok. rewrite forallb_map. simpl. apply forallb_forall. intros b Hb.
    apply in_others in Hb. destruct Hb as [Hb Hba]. specialize (Hall b Hb Hba).
    destruct weak; [apply Z.leb_le | apply Z.ltb_lt]; exact Hall.
Qed.

Theorem condorcet_correct i weak : wf_inst i -> is_ordinal (data_type i) = true ->
  exists v, has_condorcet i weak = Ok v /\
   (v = true <-> exists a, In a (alts i) /\ forall b, In b (alts i) -> b <> a -> beats weak (mult i) a b).
Proof.
  intros Hwf Ht. unfold has_condorcet. rewrite Ht. eexists. split; [reflexivity|].
  rewrite (condorcet_table_closed i (wf_alts_nodup i Hwf) (wf_orders_nodup i Hwf)).
  rewrite condorcet_rebuild. unfold beats. reflexivity.
Qed.

(* ------------------------------------------------------------------------------------------ *)
(** * pairwise / copeland entry-level statements *)

Theorem pairwise_correct i : wf_inst i -> is_ordinal (data_type i) = true ->
  exists t, pairwise_scores i = Ok t /\
    (forall a b, In a (alts i) -> In b (alts i) -> a <> b -> tget t a b = Some (pw (mult i) a b)) /\
    (forall a b, tget t a b <> None -> In a (alts i) /\ In b (alts i) /\ a <> b).
Proof.
  intros Hwf Ht. unfold pairwise_scores. rewrite Ht. eexists. split; [reflexivity|].
  rewrite (pairwise_table_closed i (wf_alts_nodup i Hwf) (wf_orders_nodup i Hwf)). split.
  - intros a b. apply tget_rebuild_some.
  - intros a b. apply tget_rebuild_dom.
Qed.

Theorem copeland_correct i : wf_inst i -> is_ordinal (data_type i) = true ->
  exists t, copeland_scores i = Ok t /\
    (forall a b, In a (alts i) -> In b (alts i) -> a <> b ->
       tget t a b = Some (pw (mult i) a b - pw (mult i) b a)) /\
    (forall a b, tget t a b <> None -> In a (alts i) /\ In b (alts i) /\ a <> b).
Proof.
  intros Hwf Ht. unfold copeland_scores. rewrite Ht. eexists. split; [reflexivity|].
  rewrite (copeland_table_closed i (wf_alts_nodup i Hwf) (wf_orders_nodup i Hwf)). split.
  - intros a b. apply tget_rebuild_some.
  - intros a b. apply tget_rebuild_dom.
Qed.

(* ------------------------------------------------------------------------------------------ *)
(** * order_to_pwg *)

Lemma pwg_entries_rebuild f (g : N -> list N) l :
  pwg_entries (rebuild f (map (fun a => (a, g a)) l))
  = map (fun ab => (f (fst ab) (snd ab), fst ab, snd ab))
        (flat_map (fun a => map (fun b => (a, b)) (g a)) l).
Proof.
  unfold pwg_entries, rebuild. induction l as [|x l IH]; simpl; [reflexivity|].
  rewrite IH, map_app, !map_map. reflexivity.
Qed.

Lemma fold_sum {X} (h : X -> Z) l : forall s, fold_left (fun s x => s + h x) l s = s + zsum h l.
Proof. induction l as [|x l IH]; intros s; simpl; [ring | rewrite IH; ring]. Qed.
Lemma fold_count {X} (l : list X) : forall n, fold_left (fun n _ => (n + 1)%N) l n = (n + N.of_nat (length l))%N.
Proof. induction l as [|x l IH]; intros n; [simpl; lia|]. cbn [fold_left length]. rewrite IH. lia. Qed.
Lemma zsum_map {X Y} (f : Y -> Z) (g : X -> Y) l : zsum f (map g l) = zsum (fun x => f (g x)) l.
Proof. induction l; simpl; [reflexivity | rewrite IHl; reflexivity]. Qed.

Lemma others_notin al a : ~ In a al -> others al a = al.
Proof.
  unfold others. induction al as [|x al IH]; simpl; intros H; [reflexivity|].
  destruct (N.eqb_spec x a); [subst; exfalso; apply H; left; reflexivity|].
  simpl. f_equal. apply IH. intros Hin. apply H. right. exact Hin.
Qed.
Lemma length_others al a : NoDup al -> In a al -> S (length (others al a)) = length al.
Proof.
  induction 1 as [|x al Hn Hd IH]; intros Hin; [destruct Hin|].
  unfold others in *. simpl. destruct (N.eqb_spec x a) as [E|E]; simpl.
  - subst. f_equal. f_equal. apply (others_notin al a Hn).
  - f_equal. apply IH. destruct Hin; [contradiction | assumption].
Qed.

Lemma length_ordered_pairs al : NoDup al ->
  length (ordered_pairs al) = (length al * (length al - 1))%nat.
Proof.
  intros Hnd. unfold ordered_pairs.
  assert (G : forall l, incl l al ->
    length (flat_map (fun a => map (fun b => (a, b)) (others al a)) l) = (length l * (length al - 1))%nat).
  { induction l as [|x l IH]; intros Hincl; [reflexivity|].
    simpl. rewrite app_length, map_length, IH.
    - pose proof (length_others al x Hnd (Hincl x (or_introl eq_refl))). lia.
    - intros y Hy. apply Hincl. right. exact Hy. }
  apply G. apply incl_refl.
Qed.

Lemma in_ordered_pairs al a b : In (a, b) (ordered_pairs al) <-> In a al /\ In b al /\ a <> b.
Proof.
  unfold ordered_pairs. rewrite in_flat_map. split.
  - intros [x [Hx Hin]]. apply in_map_iff in Hin. destruct Hin as [y [E Hy]]. inversion E; subst.
    apply in_others in Hy. destruct Hy as [Hy Hne]. repeat split; try assumption. congruence.
  - intros [Ha [Hb Hne]]. exists a. split; [exact Ha|]. apply in_map_iff. exists b. split; [reflexivity|].
    apply in_others. split; [exact Hb | congruence].
Qed.

Lemma NoDup_map_pair (a : N) ks : NoDup ks -> NoDup (map (fun b : N => (a, b)) ks).
Proof.
  induction 1 as [|x ks Hn Hd IH]; simpl; constructor; [|exact IH].
  intros Hin. apply in_map_iff in Hin. destruct Hin as [y [E Hy]]. inversion E; subst. contradiction.
Qed.

Lemma NoDup_ordered_pairs al : NoDup al -> NoDup (ordered_pairs al).
Proof.
  intros Hnd. unfold ordered_pairs.
  assert (G : forall l, NoDup l -> NoDup (flat_map (fun a => map (fun b => (a, b)) (others al a)) l)).
  { induction 1 as [|x l Hn Hd IH]; simpl; [constructor|].
    apply NoDup_app_iff. split; [|split].
    - apply NoDup_map_pair. apply NoDup_others. exact Hnd.
    - exact IH.
    - intros [a b] H1 H2. apply in_map_iff in H1. destruct H1 as [y [E _]]. inversion E; subst.
      apply in_flat_map in H2. destruct H2 as [z [Hz Hin]]. apply in_map_iff in Hin.
      destruct Hin as [y' [E' _]]. inversion E'; subst. contradiction. }
  apply G. exact Hnd.
Qed.

Theorem pwg_correct i g : wf_inst i -> order_to_pwg i = Ok g ->
  pwg_lines g = map (fun ab => (pw (mult i) (fst ab) (snd ab), fst ab, snd ab)) (ordered_pairs (alts i))
  /\ pwg_num_unique g = N.of_nat (length (alts i) * (length (alts i) - 1))
  /\ pwg_sum g = zsum (fun ab => pw (mult i) (fst ab) (snd ab)) (ordered_pairs (alts i))
  /\ pwg_num_alternatives g = num_alternatives i
  /\ pwg_alt_lines g = alts_name i
  /\ pwg_num_voters g = num_voters i.
Proof.
  intros Hwf H. unfold order_to_pwg, pairwise_scores in H.
  destruct (is_ordinal (data_type i)); simpl in H; [|discriminate].
  inversion H; subst; clear H. cbn [pwg_lines pwg_num_unique pwg_sum pwg_num_alternatives pwg_alt_lines pwg_num_voters].
  rewrite (pairwise_table_closed i (wf_alts_nodup i Hwf) (wf_orders_nodup i Hwf)).
  unfold shape_of. rewrite pwg_entries_rebuild. fold (ordered_pairs (alts i)).
  repeat split.
  - rewrite fold_count, map_length, length_ordered_pairs by (apply wf_alts_nodup; exact Hwf). lia.
  - rewrite fold_sum, zsum_map. simpl. reflexivity.
Qed.

Theorem pwg_guard i : is_ordinal (data_type i) = false -> order_to_pwg i = Err Incompatible.
Proof. intros H. unfold order_to_pwg, pairwise_scores. rewrite H. reflexivity. Qed.
Theorem pwg_defined i : is_ordinal (data_type i) = true -> exists g, order_to_pwg i = Ok g.
Proof. intros H. unfold order_to_pwg, pairwise_scores. rewrite H. simpl. eauto. Qed.

(* ------------------------------------------------------------------------------------------ *)
(** * borda_scores *)

Definition getd (r : row) (c : N) : Z := match rget r c with Some v => v | None => 0 end.

Lemma rget_dd_add r a d c :
  rget (dd_add r a d) c = if N.eqb a c then Some (getd r c + d) else rget r c.
Proof.
  unfold getd. induction r as [|[x v] r IH]; simpl.
  - destruct (N.eqb a c); reflexivity.
  - destruct (N.eqb_spec x a) as [E|E]; simpl.
    + subst. destruct (N.eqb a c); reflexivity.
    + rewrite IH. destruct (N.eqb_spec x c) as [E2|E2]; [|reflexivity].
      subst. destruct (N.eqb_spec a c); [congruence | reflexivity].
Qed.

Definition bupd := (N * Z)%type.
Definition dd_apply (r : row) (us : list bupd) : row := fold_left (fun r u => dd_add r (fst u) (snd u)) us r.
Definition bhits (us : list bupd) (c : N) : Z := zsum (fun u => if N.eqb (fst u) c then snd u else 0) us.

Lemma bhits_notin us c : mem c (map fst us) = false -> bhits us c = 0.
Proof.
  intros H. apply zsum_zero. intros [a d] Hin. simpl.
  destruct (N.eqb_spec a c); [|reflexivity]. subst. exfalso.
  apply mem_false in H. apply H. apply in_map_iff. exists (c, d). split; [reflexivity | exact Hin].
Qed.

Lemma rget_dd_apply us : forall r c,
  rget (dd_apply r us) c = if mem c (map fst us) then Some (getd r c + bhits us c) else rget r c.
Proof.
  induction us as [|[a d] us IH]; intros r c; [reflexivity|].
  change (dd_apply r ((a, d) :: us)) with (dd_apply (dd_add r a d) us). rewrite IH.
  change (bhits ((a, d) :: us) c) with ((if N.eqb a c then d else 0) + bhits us c).
  change (mem c (map fst ((a, d) :: us))) with (N.eqb c a || mem c (map fst us)).
  unfold getd at 1. rewrite !rget_dd_add. rewrite (N.eqb_sym c a).
  destruct (N.eqb a c); simpl; destruct (mem c (map fst us)) eqn:Em; try reflexivity.
  - f_equal. ring.
  - rewrite (bhits_notin _ _ Em). f_equal. ring.
Qed.

Lemma dd_apply_app r u1 u2 : dd_apply r (u1 ++ u2) = dd_apply (dd_apply r u1) u2.
Proof. unfold dd_apply. apply fold_left_app. Qed.
Lemma bhits_app u1 u2 c : bhits (u1 ++ u2) c = bhits u1 c + bhits u2 c.
Proof. apply zsum_app. Qed.

Lemma fold_dd_add v cls : forall r,
  fold_left (fun r alt => dd_add r alt v) cls r = dd_apply r (map (fun a => (a, v)) cls).
Proof. induction cls as [|x cls IH]; intros r; [reflexivity|]. simpl. rewrite IH. reflexivity. Qed.

Fixpoint bups (k i : Z) (o : order) : list bupd :=
  match o with
  | [] => []
  | cls :: r => let i' := i - Z.of_nat (length cls) in
                map (fun a => (a, i' * k)) cls ++ bups k i' r
  end.

Lemma fold_bd_class k o : forall r i, fst (fold_left (bd_class k) o (r, i)) = dd_apply r (bups k i o).
Proof.
  induction o as [|cls o IH]; intros r i; [reflexivity|].
  cbn [fold_left bups]. unfold bd_class at 2. rewrite IH, fold_dd_add, dd_apply_app. reflexivity.
Qed.

Definition bups_profile (m : Z) (p : list (order * N)) : list bupd :=
  flat_map (fun ok => bups (Z.of_N (snd ok)) m (fst ok)) p.

Lemma borda_table_ups i : borda_table i = dd_apply [] (bups_profile (Z.of_N (num_alternatives i)) (mult i)).
Proof.
  unfold borda_table, bups_profile. generalize (@nil (N * Z)).
  induction (mult i) as [|[o k] p IH]; intros r; [reflexivity|].
  simpl. rewrite IH, dd_apply_app. unfold bd_order. simpl. rewrite fold_bd_class. reflexivity.
Qed.

Lemma keys_bups k o : forall i, map fst (bups k i o) = concat o.
Proof.
  induction o as [|cls o IH]; intros i; [reflexivity|].
  simpl. rewrite map_app, map_map, IH. simpl. rewrite map_id. reflexivity.
Qed.

Lemma mem_flat_map {X} (g : X -> list N) l c : mem c (flat_map g l) = existsb (fun x => mem c (g x)) l.
Proof. induction l; simpl; [reflexivity | rewrite mem_app, IHl; reflexivity]. Qed.

Lemma keys_bups_profile m p c : mem c (map fst (bups_profile m p)) = ranked p c.
Proof.
  unfold bups_profile, ranked. induction p as [|[o k] p IH]; [reflexivity|].
  cbn [flat_map existsb fst snd]. rewrite map_app, mem_app, keys_bups. f_equal. exact IH.
Qed.

Lemma bhits_const v cls c : bhits (map (fun a => (a, v)) cls) c = v * cnt c cls.
Proof.
  unfold bhits, cnt. rewrite zsum_map. simpl. induction cls as [|x cls IH]; simpl; [ring|].
  rewrite IH. unfold ind. rewrite (N.eqb_sym c x). destruct (N.eqb x c); ring.
Qed.

Lemma bhits_bups k o : forall i c, NoDup (concat o) -> bhits (bups k i o) c = borda_pts i o c * k.
Proof.
  induction o as [|cls o IH]; intros i c Hnd.
  - unfold bhits, borda_pts. simpl. ring.
  - simpl in Hnd. apply NoDup_app_iff in Hnd. destruct Hnd as [Hc [Ho Hd]].
    cbn [bups]. cbv zeta. rewrite bhits_app, bhits_const, (IH _ c Ho), (cnt_NoDup _ _ Hc).
    unfold borda_pts. cbn [class_index]. destruct (mem c cls) eqn:Em.
    + rewrite (class_index_none o c (disjoint_mem _ _ c Hd Em)).
      rewrite firstn_cons, firstn_O, concat_cons, concat_nil, app_nil_r. simpl b2z. ring.
    + destruct (class_index o c) as [j|]; cbn [option_map b2z]; [|ring].
      rewrite (firstn_cons (S j)), concat_cons, app_length, Nat2Z.inj_add. ring.
Qed.

Lemma bhits_profile m p c : orders_nodup p -> bhits (bups_profile m p) c = borda_total m p c.
Proof.
  unfold bups_profile, borda_total. induction 1 as [|[o k] p Ho Hp IH]; [reflexivity|].
  simpl. rewrite bhits_app, IH, (bhits_bups _ _ _ _ Ho). reflexivity.
Qed.

Theorem borda_correct i : wf_inst i -> is_complete_type (data_type i) = true ->
  exists r, borda_scores i = Ok r /\
    forall a, rget r a = if ranked (mult i) a
                         then Some (borda_total (Z.of_N (num_alternatives i)) (mult i) a)
                         else None.
Proof.
  intros Hwf Ht. unfold borda_scores. rewrite Ht. eexists. split; [reflexivity|].
  intros a. rewrite borda_table_ups, rget_dd_apply, keys_bups_profile.
  rewrite (bhits_profile _ _ _ (wf_orders_nodup i Hwf)). unfold getd. simpl.
  destruct (ranked (mult i) a); reflexivity.
Qed.

(* the documented convention: on a complete order, with m = number of alternatives, the class of a gets
   the number of alternatives ranked strictly below it *)
Lemma borda_pts_complete (al : list N) o a j :
  Permutation (concat o) al -> class_index o a = Some j ->
  borda_pts (Z.of_nat (length al)) o a = Z.of_nat (length (concat (skipn (S j) o))).
Proof.
  intros Hp Hj. unfold borda_pts. rewrite Hj.
  rewrite <- (Permutation_length Hp). rewrite <- (firstn_skipn (S j) o) at 1.
  rewrite concat_app, app_length. lia.
Qed.

(* ------------------------------------------------------------------------------------------ *)
(** * Guards, literal copeland clause, regrouping *)

Theorem guards i : is_ordinal (data_type i) = false ->
  pairwise_scores i = Err Incompatible /\ copeland_scores i = Err Incompatible /\
  (forall w, has_condorcet i w = Err Incompatible) /\ order_to_pwg i = Err Incompatible.
Proof.
  intros H. unfold pairwise_scores, copeland_scores, has_condorcet, order_to_pwg, pairwise_scores.
  rewrite H. repeat split.
Qed.
Theorem borda_guard i : is_complete_type (data_type i) = false -> borda_scores i = Err Incompatible.
Proof. intros H. unfold borda_scores. rewrite H. reflexivity. Qed.

Theorem copeland_is_difference i tp tc a b x y : wf_inst i ->
  pairwise_scores i = Ok tp -> copeland_scores i = Ok tc ->
  tget tp a b = Some x -> tget tp b a = Some y -> tget tc a b = Some (x - y).
Proof.
  intros Hwf Hp Hc Hx Hy.
  assert (Ht : is_ordinal (data_type i) = true).
  { unfold pairwise_scores in Hp. destruct (is_ordinal (data_type i)); [reflexivity | discriminate]. }
  destruct (pairwise_correct i Hwf Ht) as [tp' [E1 [P1 P2]]].
  destruct (copeland_correct i Hwf Ht) as [tc' [E2 [C1 _]]].
  rewrite Hp in E1. inversion E1; subst tp'. rewrite Hc in E2. inversion E2; subst tc'.
  assert (D : In a (alts i) /\ In b (alts i) /\ a <> b) by (apply P2; congruence).
  destruct D as [Ha [Hb Hab]].
  rewrite (P1 a b Ha Hb Hab) in Hx. rewrite (P1 b a Hb Ha (not_eq_sym Hab)) in Hy.
  inversion Hx; inversion Hy; subst. apply C1; assumption.
Qed.

Lemma margin_regroup p p' a b : Permutation (expand p) (expand p') -> margin p a b = margin p' a b.
Proof. intros H. unfold margin. rewrite (pw_regroup p p' a b H), (pw_regroup p p' b a H). reflexivity. Qed.

Theorem tables_regroup i i' : wf_inst i -> wf_inst i' -> alts i = alts i' ->
  Permutation (expand (mult i)) (expand (mult i')) ->
  pairwise_table i = pairwise_table i' /\ copeland_table i = copeland_table i' /\
  condorcet_table i = condorcet_table i'.
Proof.
  intros H H' Ea Hp.
  rewrite (pairwise_table_closed i (wf_alts_nodup i H) (wf_orders_nodup i H)).
  rewrite (pairwise_table_closed i' (wf_alts_nodup i' H') (wf_orders_nodup i' H')).
  rewrite (copeland_table_closed i (wf_alts_nodup i H) (wf_orders_nodup i H)).
  rewrite (copeland_table_closed i' (wf_alts_nodup i' H') (wf_orders_nodup i' H')).
  rewrite (condorcet_table_closed i (wf_alts_nodup i H) (wf_orders_nodup i H)).
  rewrite (condorcet_table_closed i' (wf_alts_nodup i' H') (wf_orders_nodup i' H')).
  rewrite <- Ea. repeat split; apply rebuild_ext; intros a b.
  - apply pw_regroup; exact Hp.
  - apply margin_regroup; exact Hp.
  - apply margin_regroup; exact Hp.
Qed.

Lemma zsum_repeat {X} (f : X -> Z) x n : zsum f (repeat x n) = Z.of_nat n * f x.
Proof. induction n; [reflexivity|]. cbn [repeat zsum fold_right]. fold (zsum f (repeat x n)). rewrite IHn. lia. Qed.

Lemma borda_total_voters m p a : borda_total m p a = zsum (fun o => borda_pts m o a) (expand p).
Proof.
  unfold borda_total, expand. induction p as [|[o k] p IH]; [reflexivity|].
  cbn [fold_right flat_map fst snd]. rewrite zsum_app, zsum_repeat, IH, N_nat_Z. ring.
Qed.
Lemma borda_total_regroup m p p' a : Permutation (expand p) (expand p') -> borda_total m p a = borda_total m p' a.
Proof. intros H. rewrite !borda_total_voters. apply zsum_perm. exact H. Qed.
