(* Proofs/PartitionAlgo.v — the mirror of k_alternative_partition_brut_force (Model/PartitionAlgo.v).

   (completeness / minimality: Proofs/PartitionComplete.v)
   MAIN RESULTS (every size, every order parameter set_order that permutes its argument)
     bf_sound          bf_algo ... = Some res -> partition_check alts votes res = true /\ length res <= k /\
                       length res <= ceil(m/2)         (votes: at least one, each a permutation of the alternatives)
     L_sets_ok         get_L_sets yields pairwise disjoint duplicate-free sets inside alts that cover alts
   Proof of bf_sound: every list of incomplete axes the DFS ever holds consists of axes satisfying ELPDP's invariant
   Good (duplicate-free, inside alts, every vote single-peaked on it), the axes are pairwise disjoint, and every
   alternative is placed or belongs to an L-set still to come; place() keeps Good when the piece is fresh
   (place_good: case_3_cases / case_2_cases + sp_insert1 / sp_insert2 of Proofs/ELPDP.v), the pieces of an extension are
   fresh, distinct and contain all new alternatives (spc_spec), extend keeps disjointness (extend_spec). *)
From Coq Require Import List Arith NArith Bool Lia Permutation.
From PrefVerif Require Import Lib.Val Lib.Contig Lib.SetPartitions Model.SP Model.ELPDP Model.Partition
                              Model.PartitionAlgo Proofs.SP Proofs.ELPDP Proofs.Partition Proofs.ELPComplete Proofs.ELPLevels.
Import ListNotations.

Definition E (l : list paxis) : list N := flat_map pa_elems l.

Lemma E_app l1 l2 : E (l1 ++ l2) = E l1 ++ E l2.
Proof. unfold E. apply flat_map_app. Qed.

Lemma pa_eqb_eq A B : pa_eqb A B = true <-> A = B.
Proof.
  unfold pa_eqb. destruct A as [a1 a2], B as [b1 b2]. cbn [fst snd].
  destruct (list_eq_dec N.eq_dec a1 b1), (list_eq_dec N.eq_dec a2 b2); simpl; split; try discriminate; try congruence.
Qed.

(* ---------------------------------------------------------------------------------------------- *)
(* 1. generic facts on flat_map / NoDup                                                            *)

Lemma NoDup_flat_map_filter {T U} (f : T -> list U) (g : T -> bool) l :
  NoDup (flat_map f l) -> NoDup (flat_map f (filter g l)).
Proof.
  induction l as [|x l IH]; simpl; [auto|]. intros H. apply NoDup_app_iff in H. destruct H as (H1 & H2 & H3).
  destruct (g x); simpl; [|auto]. apply NoDup_app_iff. repeat split; auto.
  intros a Ha Hb. apply (H3 a Ha). apply in_flat_map in Hb. destruct Hb as (y & Hy & Hay).
  apply in_flat_map. exists y. split; [|assumption]. apply filter_In in Hy. tauto.
Qed.

Lemma NoDup_flat_map_uniq {T U} (f : T -> list U) l b c a :
  NoDup (flat_map f l) -> In b l -> In c l -> In a (f b) -> In a (f c) -> b = c.
Proof.
  induction l as [|x l IH]; simpl; [intros _ []|]. intros H Hb Hc Hab Hac.
  apply NoDup_app_iff in H. destruct H as (H1 & H2 & H3).
  destruct Hb as [->|Hb], Hc as [->|Hc]; auto.
  - exfalso. apply (H3 a Hab). apply in_flat_map. eauto.
  - exfalso. apply (H3 a Hac). apply in_flat_map. eauto.
Qed.

(* ---------------------------------------------------------------------------------------------- *)
(* 2. place keeps the invariant Good when the piece is fresh                                       *)

Section Sound.
Variables (alts : list N) (votes : list (list N)).
Hypothesis Halts : NoDup alts.
Hypothesis Hvotes : forall v, In v votes -> NoDup v /\ incl alts v.

Notation GoodA := (Good alts votes).

Definition piece_ok (p : list N) : Prop :=
  match p with [_] => True | [x; y] => x <> y | _ => False end.

Lemma place_good A p A' ok :
  GoodA A -> piece_ok p -> incl p alts -> (forall a, In a p -> ~ In a (pa_elems A)) ->
  place_t A p votes = (A', ok) ->
  A' = A \/ (GoodA A' /\ Permutation (p ++ pa_elems A) (pa_elems A')).
Proof.
  intros (Hnd & Hincl & Hsp) Hp Hpa Hfresh Hpl. destruct A as [M1 M2]. unfold pa_elems in *. cbn [fst snd] in *.
  assert (HinclV : forall v, In v votes -> incl (rev M1 ++ M2) v).
  { intros v Hv a Ha. apply (proj2 (Hvotes v Hv)). now apply Hincl. }
  unfold place_t, place in Hpl. destruct p as [|x [|y [|z r]]]; try contradiction.
  - (* one alternative *)
    assert (Hx : In x alts) by (apply Hpa; now left).
    assert (Hxf : ~ In x (rev M1 ++ M2)) by (apply Hfresh; now left).
    apply case_3_cases in Hpl. cbn [fst snd] in Hpl. destruct Hpl as [[-> ->]|[HA' Hall]]; [now left|right].
    assert (Eq : pa_elems A' = rev M1 ++ x :: M2).
    { destruct HA' as [-> | ->]; [apply pa_elems_right|apply pa_elems_left]. }
    split.
    + unfold Good. rewrite Eq. split; [|split].
      * eapply Permutation_NoDup; [apply Permutation_middle|]. now constructor.
      * intros a Ha. apply in_app_or in Ha. destruct Ha as [Ha|[<-|Ha]]; [apply Hincl; apply in_or_app; now left|assumption|].
        apply Hincl. apply in_or_app. now right.
      * intros v Hv. destruct (Hall v Hv) as (K1 & K2 & K3).
        apply sp_insert1; auto; [apply (proj2 (Hvotes v Hv)); assumption|now constructor].
    + unfold pa_elems in Eq. rewrite Eq. simpl. apply Permutation_middle.
  - (* two alternatives *)
    cbn [piece_ok] in Hp.
    assert (Hx : In x alts) by (apply Hpa; now left).
    assert (Hy : In y alts) by (apply Hpa; right; now left).
    assert (Hxf : ~ In x (rev M1 ++ M2)) by (apply Hfresh; now left).
    assert (Hyf : ~ In y (rev M1 ++ M2)) by (apply Hfresh; right; now left).
    apply case_2_cases in Hpl. cbn [fst snd] in Hpl.
    destruct Hpl as [[-> ->]|(-> & u & w & Huw & -> & Hall)]; [now left|right].
    assert (Hu : In u alts /\ In w alts /\ u <> w /\ ~ In u (rev M1 ++ M2) /\ ~ In w (rev M1 ++ M2)).
    { destruct Huw as [[-> ->]|[-> ->]]; repeat split; auto. }
    destruct Hu as (Hua & Hwa & Hne & Hu & Hw).
    split.
    + unfold Good. rewrite pa_elems_both. split; [|split].
      * eapply Permutation_NoDup; [apply perm_two_middle|]. constructor; [|now constructor].
        intros [Eq|H]; [congruence|contradiction].
      * intros a Ha. apply in_app_or in Ha. destruct Ha as [Ha|[<-|[<-|Ha]]]; auto;
          apply Hincl; apply in_or_app; auto.
      * intros v Hv. destruct (Hall v Hv) as ((K1 & K2 & K3) & K4 & K5 & K6).
        apply sp_insert2; auto; try (apply (proj2 (Hvotes v Hv)); assumption).
        constructor; [|now constructor]. intros [Eq|H]; [congruence|contradiction].
    + assert (Eq : pa_elems (u :: M1, w :: M2) = rev M1 ++ u :: w :: M2) by apply pa_elems_both.
      unfold pa_elems in Eq. cbn [fst snd] in Eq |- *. rewrite Eq.
      destruct Huw as [[-> ->]|[-> ->]]; simpl.
      * apply perm_two_middle.
      * eapply perm_trans; [apply perm_swap|]. apply perm_two_middle.
Qed.

(* ---------------------------------------------------------------------------------------------- *)
(* 3. the extensions                                                                               *)

Lemma removeN_incl p l : incl (removeN p l) l.
Proof. destruct p as [y|]; simpl; [|apply incl_refl]. intros a Ha. apply filter_In in Ha. tauto. Qed.

Lemma removeN_In p l a : In a (removeN p l) <-> In a l /\ p <> Some a.
Proof.
  destruct p as [y|]; simpl.
  - rewrite filter_In, negb_true_iff, N.eqb_neq. split; intros [H1 H2]; split; auto; congruence.
  - split; [intros H; split; [assumption|discriminate]|tauto].
Qed.

Lemma removeN_NoDup p l : NoDup l -> NoDup (removeN p l).
Proof. destruct p; simpl; [apply NoDup_filter|auto]. Qed.

Lemma removeN_length p l : length (removeN p l) <= length l.
Proof. destruct p; simpl; [apply filter_length_le|lia]. Qed.

Lemma spc_spec : forall fuel items later lim size ext,
  length items <= fuel -> NoDup (items ++ later) -> In ext (spc fuel items later lim size) ->
  Forall piece_ok ext /\ NoDup (concat ext) /\ incl (concat ext) (items ++ later) /\ incl items (concat ext).
Proof.
  induction fuel as [|f IH]; intros items later lim size ext Hlen Hnd Hin.
  - destruct items as [|h r]; [|simpl in Hlen; lia]. destruct Hin as [<-|[]]. simpl.
    repeat split; [constructor|constructor|intros a []|intros a []].
  - destruct items as [|head rest].
    { destruct Hin as [<-|[]]. simpl. repeat split; [constructor|constructor|intros a []|intros a []]. }
    cbn [spc] in Hin. destruct (size + (length (head :: rest) + 1) / 2 <=? lim); [|contradiction].
    apply in_flat_map in Hin. destruct Hin as (pairing & Hpair & Hin).
    apply in_map_iff in Hin. destruct Hin as (ext' & <- & Hext').
    inversion Hnd as [|? ? Hhead Hnd']; subst.
    assert (Hnd'' : NoDup (removeN pairing rest ++ removeN pairing later)).
    { apply NoDup_app_iff in Hnd'. destruct Hnd' as (N1 & N2 & N3). apply NoDup_app_iff.
      repeat split; [now apply removeN_NoDup|now apply removeN_NoDup|].
      intros a Ha Hb. apply (N3 a); [now apply removeN_incl in Ha|now apply removeN_incl in Hb]. }
    assert (Hlen' : length (removeN pairing rest) <= f).
    { pose proof (removeN_length pairing rest). simpl in Hlen. lia. }
    destruct (IH _ _ _ _ _ Hlen' Hnd'' Hext') as (I1 & I2 & I3 & I4).
    assert (Hsub : forall a, In a (concat ext') -> In a (rest ++ later) /\ pairing <> Some a).
    { intros a Ha. apply I3 in Ha. apply in_app_or in Ha. destruct Ha as [Ha|Ha]; apply removeN_In in Ha;
        (split; [apply in_or_app|]; tauto). }
    assert (Hpin : forall y, pairing = Some y -> In y (rest ++ later)).
    { intros y ->. apply in_app_or in Hpair. apply in_or_app. destruct Hpair as [H|[H|H]].
      - apply in_map_iff in H. destruct H as (z & Ez & Hz). injection Ez as ->. now left.
      - discriminate H.
      - apply in_map_iff in H. destruct H as (z & Ez & Hz). injection Ez as ->. now right. }
    destruct pairing as [y|]; cbn [concat app].
    + specialize (Hpin y eq_refl).
      assert (Hhy : head <> y) by (intros ->; contradiction).
      repeat split.
      * constructor; [exact Hhy|assumption].
      * simpl. constructor; [|constructor; [|assumption]].
        -- intros [Eq|H]; [congruence|]. apply Hsub in H. tauto.
        -- intros H. apply Hsub in H. destruct H as [_ H]. congruence.
      * intros a [<-|[<-|Ha]]; [now left|right; assumption|right; now apply Hsub].
      * intros a [<-|Ha]; [now left|]. destruct (N.eq_dec a y) as [->|Hay]; [right; now left|].
        right. right. apply I4. apply removeN_In. split; [assumption|congruence].
    + repeat split.
      * constructor; [exact I|assumption].
      * simpl. constructor; [|assumption]. intros H. apply Hsub in H. tauto.
      * intros a [<-|Ha]; [now left|right; now apply Hsub].
      * intros a [<-|Ha]; [now left|]. right. apply I4. apply removeN_In. split; [assumption|discriminate].
Qed.

(* ---------------------------------------------------------------------------------------------- *)
(* 4. extend                                                                                       *)

(* a list of incomplete axes: all Good, pairwise disjoint *)
Definition AxesOK (l : list paxis) : Prop := Forall GoodA l /\ NoDup (E l).

Lemma AxesOK_incl l : AxesOK l -> incl (E l) alts.
Proof.
  intros [H _] a Ha. apply in_flat_map in Ha. destruct Ha as (A & HA & Ha).
  rewrite Forall_forall in H. destruct (H A HA) as (_ & Hi & _). now apply Hi.
Qed.

(* replacing one axis of unused by its extension *)
Lemma replace_ok unused used axis new_axis p :
  AxesOK (unused ++ used) -> In axis unused -> GoodA new_axis ->
  Permutation (p ++ pa_elems axis) (pa_elems new_axis) ->
  (forall a, In a p -> ~ In a (E (unused ++ used))) ->
  AxesOK (filter (fun a => negb (pa_eqb a axis)) unused ++ used ++ [new_axis]) /\
  (forall a, In a (E (filter (fun a => negb (pa_eqb a axis)) unused ++ used ++ [new_axis])) <->
             In a (E (unused ++ used)) \/ In a p).
Proof.
  intros [HG HN] Hax HGn Hperm Hfresh.
  set (fu := filter (fun a => negb (pa_eqb a axis)) unused).
  rewrite E_app in HN. apply NoDup_app_iff in HN. destruct HN as (N1 & N2 & N3).
  apply Forall_app in HG. destruct HG as [HG1 HG2].
  assert (Hfu : forall a, In a (E fu) -> In a (E unused) /\ ~ In a (pa_elems axis)).
  { intros a Ha. apply in_flat_map in Ha. destruct Ha as (b & Hb & Hab). apply filter_In in Hb.
    destruct Hb as [Hb Hne]. split; [apply in_flat_map; eauto|]. intros Haa.
    assert (b = axis) by (eapply (NoDup_flat_map_uniq pa_elems unused b axis a); eauto).
    subst b. rewrite pa_eqb_refl in Hne. discriminate. }
  assert (Hnew : forall a, In a (pa_elems new_axis) <-> In a p \/ In a (pa_elems axis)).
  { intros a. split.
    - intros Ha. apply in_app_or. eapply Permutation_in; [apply Permutation_sym; exact Hperm|exact Ha].
    - intros Ha. eapply Permutation_in; [exact Hperm|]. apply in_or_app. exact Ha. }
  assert (Haxin : forall a, In a (pa_elems axis) -> In a (E unused)).
  { intros a Ha. apply in_flat_map. eauto. }
  split; [split|].
  - apply Forall_app. split; [|apply Forall_app; split; [assumption|constructor; [assumption|constructor]]].
    apply Forall_forall. intros b Hb. apply filter_In in Hb. rewrite Forall_forall in HG1. apply HG1. tauto.
  - rewrite !E_app. unfold E at 3. simpl. rewrite app_nil_r.
    apply NoDup_app_iff. split; [now apply NoDup_flat_map_filter|]. split.
    + apply NoDup_app_iff. split; [assumption|]. split; [apply HGn|].
      intros a Ha Hb. apply Hnew in Hb. destruct Hb as [Hb|Hb].
      * apply (Hfresh a Hb). rewrite E_app. apply in_or_app. now right.
      * apply (N3 a); [now apply Haxin|assumption].
    + intros a Ha Hb. destruct (Hfu a Ha) as [Hau Hna]. apply in_app_or in Hb. destruct Hb as [Hb|Hb].
      * apply (N3 a Hau Hb).
      * apply Hnew in Hb. destruct Hb as [Hb|Hb]; [|contradiction].
        apply (Hfresh a Hb). rewrite E_app. apply in_or_app. now left.
  - intros a. rewrite !E_app. unfold E at 3. simpl. rewrite app_nil_r, !in_app_iff, Hnew. split.
    + intros [Ha|[Ha|[Ha|Ha]]]; auto. left. left. now apply Hfu.
    + intros [[Ha|Ha]|Ha]; auto.
      destruct (in_dec N.eq_dec a (pa_elems axis)) as [Hi|Hn]; [auto|].
      left. apply in_flat_map in Ha. destruct Ha as (b & Hb & Hab). apply in_flat_map. exists b. split; [|assumption].
      apply filter_In. split; [assumption|]. apply negb_true_iff. destruct (pa_eqb b axis) eqn:Eb; [|reflexivity].
      apply pa_eqb_eq in Eb. subst b. contradiction.
Qed.

Lemma addnew_ok unused used new_axis p :
  AxesOK (unused ++ used) -> GoodA new_axis -> Permutation p (pa_elems new_axis) ->
  (forall a, In a p -> ~ In a (E (unused ++ used))) ->
  AxesOK (unused ++ used ++ [new_axis]) /\
  (forall a, In a (E (unused ++ used ++ [new_axis])) <-> In a (E (unused ++ used)) \/ In a p).
Proof.
  intros [HG HN] HGn Hperm Hfresh.
  assert (Hnew : forall a, In a (pa_elems new_axis) <-> In a p).
  { intros a. split; apply Permutation_in; [now apply Permutation_sym|assumption]. }
  rewrite app_assoc. split; [split|].
  - apply Forall_app. split; [assumption|constructor; [assumption|constructor]].
  - rewrite E_app. unfold E at 2. simpl. rewrite app_nil_r. apply NoDup_app_iff. split; [assumption|].
    split; [apply HGn|]. intros a Ha Hb. apply Hnew in Hb. now apply (Hfresh a Hb).
  - intros a. rewrite E_app. unfold E at 2. simpl. rewrite app_nil_r, in_app_iff, Hnew. reflexivity.
Qed.

(* the state of the queue after the pieces `done` *)
Definition QOK (axes : list paxis) (k : nat) (done : list N) (q : qstate) : Prop :=
  AxesOK (fst q ++ snd q) /\
  (forall a, In a (E (fst q ++ snd q)) <-> In a (E axes) \/ In a done) /\
  length (fst q ++ snd q) <= Nat.max (length axes) k.

Lemma ext_piece_ok axes k done p queue :
  piece_ok p -> incl p alts -> (forall a, In a p -> ~ In a (E axes) /\ ~ In a done) ->
  Forall (QOK axes k done) queue -> Forall (QOK axes k (done ++ p)) (ext_piece votes k p queue).
Proof.
  intros Hp Hpa Hfresh HQ. apply Forall_forall. intros q' Hq'. unfold ext_piece in Hq'.
  apply in_flat_map in Hq'. destruct Hq' as ([unused used] & Hq & Hq').
  rewrite Forall_forall in HQ. destruct (HQ _ Hq) as (HOK & Hel & Hlen). cbn [fst snd] in *.
  assert (Hfr : forall a, In a p -> ~ In a (E (unused ++ used))).
  { intros a Ha Hin. apply Hel in Hin. destruct (Hfresh a Ha). tauto. }
  assert (Hel' : forall l, (forall a, In a (E l) <-> In a (E (unused ++ used)) \/ In a p) ->
                           forall a, In a (E l) <-> In a (E axes) \/ In a (done ++ p)).
  { intros l Hl a. rewrite Hl, Hel, in_app_iff. tauto. }
  apply in_app_or in Hq'. destruct Hq' as [Hq'|Hq'].
  - apply in_flat_map in Hq'. destruct Hq' as (axis & Hax & Hq').
    destruct (place_t axis p votes) as [A' ok] eqn:Epl. cbn [fst] in Hq'.
    destruct (negb (pa_eqb A' axis)) eqn:Ene; [|contradiction]. destruct Hq' as [<-|[]].
    assert (HGax : GoodA axis).
    { destruct HOK as [HG _]. rewrite Forall_forall in HG. apply HG. apply in_or_app. now left. }
    destruct (place_good axis p A' ok HGax Hp Hpa) as [->|[HG' Hperm]]; [| |rewrite pa_eqb_refl in Ene; discriminate|].
    + intros a Ha Hin. apply (Hfr a Ha). rewrite E_app. apply in_or_app. left. apply in_flat_map. eauto.
    + exact Epl.
    + destruct (replace_ok unused used axis A' p HOK Hax HG' Hperm Hfr) as [R1 R2].
      unfold QOK. cbn [fst snd]. split; [exact R1|]. split; [now apply Hel'|].
      rewrite !app_length in *. simpl.
      assert (length (filter (fun a => negb (pa_eqb a axis)) unused) < length unused).
      { clear -Hax. induction unused as [|b r IH]; [contradiction|]. simpl. destruct Hax as [->|Hax].
        - rewrite pa_eqb_refl. simpl. pose proof (filter_length_le (fun a => negb (pa_eqb a axis)) r). lia.
        - specialize (IH Hax). destruct (negb (pa_eqb b axis)); simpl; lia. }
      lia.
  - destruct (length unused + length used <? k) eqn:Ek; [|contradiction]. apply Nat.ltb_lt in Ek.
    destruct (place_t pa_empty p votes) as [A' ok] eqn:Epl. cbn [fst] in Hq'.
    destruct (negb (pa_eqb A' pa_empty)) eqn:Ene; [|contradiction]. destruct Hq' as [<-|[]].
    destruct (place_good pa_empty p A' ok (Good_empty alts votes) Hp Hpa) as [->|[HG' Hperm]];
      [intros a _ [] |exact Epl|rewrite pa_eqb_refl in Ene; discriminate|].
    assert (Hperm' : Permutation p (pa_elems A')).
    { change (pa_elems pa_empty) with (@nil N) in Hperm. now rewrite app_nil_r in Hperm. }
    destruct (addnew_ok unused used A' p HOK HG' Hperm' Hfr) as [R1 R2].
    unfold QOK. cbn [fst snd]. split; [exact R1|]. split; [now apply Hel'|].
    rewrite !app_length in *. simpl. lia.
Qed.

Lemma extend_spec axes ext k ax :
  AxesOK axes -> Forall piece_ok ext -> NoDup (concat ext) -> incl (concat ext) alts ->
  (forall a, In a (concat ext) -> ~ In a (E axes)) ->
  In ax (extend axes ext votes k) ->
  AxesOK ax /\ (forall a, In a (E ax) <-> In a (E axes) \/ In a (concat ext)) /\
  length ax <= Nat.max (length axes) k.
Proof.
  intros HOK Hp Hnd Hincl Hfresh Hin. unfold extend in Hin. apply in_map_iff in Hin.
  destruct Hin as (q & <- & Hq).
  assert (H : forall e done queue,
             Forall piece_ok e -> NoDup (done ++ concat e) -> incl (concat e) alts ->
             (forall a, In a (concat e) -> ~ In a (E axes)) ->
             Forall (QOK axes k done) queue ->
             Forall (QOK axes k (done ++ concat e))
                    (fold_left (fun queue alt => ext_piece votes k alt queue) e queue)).
  { clear Hp Hnd Hincl Hfresh Hq. induction e as [|p e IH]; intros done queue Hp Hnd Hincl Hfresh HQ.
    - simpl. now rewrite app_nil_r.
    - cbn [fold_left concat]. rewrite app_assoc. inversion Hp; subst.
      simpl in Hnd. rewrite app_assoc in Hnd. apply IH; auto.
      + intros a Ha. apply Hincl. simpl. apply in_or_app. now right.
      + intros a Ha. apply Hfresh. simpl. apply in_or_app. now right.
      + apply ext_piece_ok; auto.
        * intros a Ha. apply Hincl. simpl. apply in_or_app. now left.
        * intros a Ha. split; [apply Hfresh; simpl; apply in_or_app; now left|].
          intros Hd. apply NoDup_app_iff in Hnd. destruct Hnd as (Hnd & _ & _).
          apply NoDup_app_iff in Hnd. destruct Hnd as (_ & _ & Hdis). apply (Hdis a Hd Ha). }
  assert (HQ0 : Forall (QOK axes k []) [(axes, [])]).
  { constructor; [|constructor]. unfold QOK. cbn [fst snd]. rewrite app_nil_r.
    split; [assumption|]. split; [intros a; simpl; tauto|lia]. }
  specialize (H ext [] [(axes, [])] Hp Hnd Hincl Hfresh HQ0).
  simpl in H. rewrite Forall_forall in H. exact (H q Hq).
Qed.

(* ---------------------------------------------------------------------------------------------- *)
(* 5. dfs                                                                                          *)

Section Dfs.
Variable set_order : list N -> list N.
Hypothesis Hord : forall L, Permutation L (set_order L).

Lemma flat_map_order_perm Ls : Permutation (concat Ls) (flat_map set_order Ls).
Proof. induction Ls as [|L r IH]; simpl; [constructor|]. apply Permutation_app; [apply Hord|assumption]. Qed.

Lemma limit_of_le k sh : limit_of k sh <= k.
Proof. destruct sh; simpl; lia. Qed.

(* a complete partition as the DFS holds it *)
Definition PartOK (k : nat) (r : list paxis) : Prop :=
  AxesOK r /\ (forall a, In a alts -> In a (E r)) /\ length r <= k.

Lemma dfs_sound : forall Ls axes sh k r,
  NoDup (concat Ls) -> incl (concat Ls) alts -> AxesOK axes -> length axes <= k ->
  (forall a, In a alts -> In a (E axes) \/ In a (concat Ls)) ->
  (forall s, sh = Some s -> PartOK k s) ->
  dfs set_order Ls axes sh k votes = Some r -> PartOK k r.
Proof.
  induction Ls as [|L1 rest IH]; intros axes sh k r Hnd Hincl HOK Hlen Hcov Hsh Hr.
  - simpl in Hr. injection Hr as <-. split; [assumption|]. split; [|assumption].
    intros a Ha. destruct (Hcov a Ha) as [H|[]]. exact H.
  - cbn [dfs] in Hr.
    set (g := fun a => negb (memN a (flat_map pa_elems axes))) in *.
    set (new := filter g (set_order L1)) in *.
    set (later := filter g (flat_map set_order rest)) in *.
    simpl in Hnd, Hincl. apply NoDup_app_iff in Hnd. destruct Hnd as (Hnd1 & Hnd2 & Hdis).
    assert (Hg : forall a, g a = true <-> ~ In a (E axes)).
    { intros a. unfold g. rewrite negb_true_iff, memN_false. reflexivity. }
    assert (Hnl : NoDup (new ++ later)).
    { unfold new, later. rewrite <- filter_app. apply NoDup_filter.
      eapply Permutation_NoDup; [apply Permutation_app; [apply Hord|apply flat_map_order_perm]|].
      apply NoDup_app_iff. auto. }
    assert (Hnl_in : forall a, In a (new ++ later) -> In a alts /\ ~ In a (E axes)).
    { intros a Ha. unfold new, later in Ha. rewrite <- filter_app in Ha. apply filter_In in Ha. destruct Ha as [Ha Hga].
      split; [|now apply Hg]. apply Hincl. eapply Permutation_in; [|exact Ha].
      apply Permutation_sym. apply Permutation_app; [apply Hord|apply flat_map_order_perm]. }
    revert Hr.
    match goal with |- fold_left ?f ?l ?s = Some r -> _ =>
      intros Hr; assert (HP : forall s', fold_left f l s = Some s' -> PartOK k s');
      [|now apply HP] end.
    apply (fold_left_inv _ (fun sh' => forall s', sh' = Some s' -> PartOK k s')); [|exact Hsh].
    intros ext Hext sh1 Hsh1. destruct (length ext <=? limit_of k sh1); [|exact Hsh1].
    destruct (spc_spec _ _ _ _ _ ext (le_n _) Hnl Hext) as (S1 & S2 & S3 & S4).
    apply (fold_left_inv _ (fun sh' => forall s', sh' = Some s' -> PartOK k s')); [|exact Hsh1].
    intros ax Hax sh2 Hsh2. destruct (shorter ax sh2); [|exact Hsh2].
    destruct (dfs set_order rest ax sh2 k votes) as [c|] eqn:Ec; [|exact Hsh2].
    destruct (shorter c sh2); [|exact Hsh2].
    intros s' Es. injection Es as <-.
    destruct (extend_spec axes ext (limit_of k sh1) ax HOK S1 S2) as (X1 & X2 & X3).
    + intros a Ha. apply S3 in Ha. now apply Hnl_in.
    + intros a Ha. apply S3 in Ha. now apply Hnl_in.
    + exact Hax.
    + apply (IH ax sh2 k c Hnd2); auto.
      * intros a Ha. apply Hincl. apply in_or_app. now right.
      * pose proof (limit_of_le k sh1). lia.
      * intros a Ha. destruct (Hcov a Ha) as [H|H]; [left; apply X2; now left|].
        apply in_app_or in H. destruct H as [H|H]; [|now right].
        left. apply X2. destruct (in_dec N.eq_dec a (E axes)) as [Hi|Hn]; [now left|right].
        apply S4. unfold new. apply filter_In. split; [eapply Permutation_in; [apply Hord|exact H]|now apply Hg].
Qed.
End Dfs.

End Sound.

(* ---------------------------------------------------------------------------------------------- *)
(* 6. get_L_sets: pairwise disjoint duplicate-free sets inside alts that cover alts                *)

Lemma dedupN_NoDup l : NoDup (dedupN l).
Proof.
  induction l as [|a r IH]; simpl; [constructor|]. constructor; [|now apply NoDup_filter].
  intros H. apply filter_In in H. destruct H as [_ H]. rewrite N.eqb_refl in H. discriminate.
Qed.

Lemma forallb_false_ex {T} (f : T -> bool) l : forallb f l = false -> exists x, In x l /\ f x = false.
Proof.
  induction l as [|x l IH]; simpl; [discriminate|]. destruct (f x) eqn:Ex; simpl.
  - intros H. destruct (IH H) as (y & Hy & Hf). exists y. auto.
  - intros _. exists x. auto.
Qed.

Section LSets.
Variables (alts : list N) (votes : list (list N)).
Hypothesis Hvne : votes <> [].
Hypothesis Hvotes : forall v, In v votes -> incl alts v.

Definition LInv (j : nat) (st : list (list N) * list N * list (list N)) : Prop :=
  match st with
  | (vc, prev, acc) =>
    NoDup (concat acc) /\ incl (concat acc) alts /\ incl prev (concat acc) /\ vc <> [] /\
    (forall w a, In w vc -> In a w -> In a (concat acc) -> In a prev) /\
    (forall a, In a alts -> In a (concat acc) \/ forall w, In w vc -> In a w) /\
    (j <= length (concat acc) \/ forall a, In a alts -> In a (concat acc))
  end.

Lemma L_step_inv j st i : LInv j st -> LInv (S j) (L_step alts st i).
Proof.
  destruct st as [[vc prev] acc]. unfold LInv, L_step.
  intros (I1 & I2 & I3 & I4 & I5 & I6 & I7).
  set (F := filter (fun a => negb (memN a prev) && memN a alts)).
  set (vc' := map F vc). set (lst := dedupN (flat_map last_opt vc')).
  assert (HF : forall w a, In a (F w) <-> In a w /\ ~ In a prev /\ In a alts).
  { intros w a. unfold F. rewrite filter_In, andb_true_iff, negb_true_iff, memN_false, memN_In. tauto. }
  assert (Hvc' : forall w' a, In w' vc' -> In a w' -> In a alts /\ ~ In a (concat acc)).
  { intros w' a Hw' Ha. apply in_map_iff in Hw'. destruct Hw' as (w & <- & Hw). apply HF in Ha.
    destruct Ha as (Ha & Hnp & Hal). split; [assumption|]. intros Hc. apply Hnp. eapply I5; eauto. }
  assert (Hlst : forall a, In a lst -> exists w', In w' vc' /\ In a w').
  { intros a Ha. apply dedupN_incl in Ha. apply in_flat_map in Ha. destruct Ha as (w' & Hw' & Ha).
    apply in_last_opt in Ha. eauto. }
  rewrite concat_app. simpl. rewrite app_nil_r.
  split; [|split; [|split; [|split; [|split; [|split]]]]].
  - apply NoDup_app_iff. split; [assumption|]. split; [apply dedupN_NoDup|].
    intros a Ha Hb. destruct (Hlst a Hb) as (w' & Hw' & Haw). destruct (Hvc' w' a Hw' Haw). contradiction.
  - intros a Ha. apply in_app_or in Ha. destruct Ha as [Ha|Ha]; [now apply I2|].
    destruct (Hlst a Ha) as (w' & Hw' & Haw). now destruct (Hvc' w' a Hw' Haw).
  - intros a Ha. apply in_or_app. now right.
  - unfold vc'. destruct vc; [congruence|discriminate].
  - intros w' a Hw' Ha Hc. apply in_app_or in Hc. destruct Hc as [Hc|Hc]; [|assumption].
    destruct (Hvc' w' a Hw' Ha). contradiction.
  - intros a Ha. destruct (in_dec N.eq_dec a (concat acc)) as [Hi|Hn]; [left; apply in_or_app; now left|].
    destruct (I6 a Ha) as [H|H]; [contradiction|].
    right. intros w' Hw'. apply in_map_iff in Hw'. destruct Hw' as (w & <- & Hw). apply HF.
    split; [now apply H|]. split; [|assumption]. intros Hp. apply Hn. now apply I3.
  - destruct I7 as [I7|I7]; [|right; intros a Ha; apply in_or_app; left; now apply I7].
    destruct (forallb (fun a => memN a (concat acc)) alts) eqn:C.
    + right. intros a Ha. apply in_or_app. left. rewrite forallb_forall in C. apply memN_In. now apply C.
    + left. apply forallb_false_ex in C. destruct C as (a0 & Ha0 & C). apply memN_false in C.
      assert (Hne : lst <> []).
      { destruct vc as [|w0 vcr] eqn:Evc; [congruence|].
        assert (Hin : In a0 (F w0)).
        { apply HF. destruct (I6 a0 Ha0) as [H|H]; [contradiction|]. split; [apply H; now left|].
          split; [|assumption]. intros Hp. apply C. now apply I3. }
        assert (Hl : In (last (F w0) 0%N) lst).
        { unfold lst. apply dedupN_complete. apply in_flat_map. exists (F w0). split; [unfold vc'; now left|].
          unfold last_opt. destruct (F w0); [contradiction|now left]. }
        intros E0. rewrite E0 in Hl. contradiction. }
      rewrite app_length. destruct lst; [congruence|]. simpl. lia.
Qed.

Lemma L_fold_inv l : forall j st, LInv j st -> LInv (j + length l) (fold_left (L_step alts) l st).
Proof.
  induction l as [|i l IH]; intros j st H; simpl; [now rewrite Nat.add_0_r|].
  rewrite <- Nat.add_succ_comm. apply IH. now apply L_step_inv.
Qed.

Theorem L_sets_ok : NoDup alts ->
  NoDup (concat (get_L_sets alts votes)) /\ incl (concat (get_L_sets alts votes)) alts /\
  forall a, In a alts -> In a (concat (get_L_sets alts votes)).
Proof.
  intros Halts. unfold get_L_sets.
  assert (H0 : LInv 0 (votes, [], [])).
  { simpl. split; [constructor|]. split; [intros a []|]. split; [intros a []|]. split; [exact Hvne|].
    split; [intros w a _ _ []|]. split; [intros a Ha; right; intros w Hw; now apply (Hvotes w Hw)|]. left. lia. }
  pose proof (L_fold_inv (seq 1 (length alts)) 0 _ H0) as H. rewrite seq_length in H. simpl in H.
  destruct (fold_left (L_step alts) (seq 1 (length alts)) (votes, [], [])) as [[vc prev] acc]. cbn [snd].
  destruct H as (I1 & I2 & _ & _ & _ & _ & I7). split; [assumption|]. split; [assumption|].
  destruct I7 as [I7|I7]; [|assumption].
  apply NoDup_length_incl; assumption.
Qed.
End LSets.

(* ---------------------------------------------------------------------------------------------- *)
(* 7. soundness of the mirror                                                                      *)

Theorem bf_sound set_order alts votes k res :
  wf_profile alts votes -> votes <> [] -> (forall L, Permutation L (set_order L)) ->
  bf_algo set_order alts votes k = Some res ->
  partition_check alts votes res = true /\ length res <= k /\ length res <= (length alts + 1) / 2.
Proof.
  intros [Hnd Hc] Hvne Hord Hres. rewrite Forall_forall in Hc.
  assert (Hvotes : forall v, In v votes -> NoDup v /\ incl alts v).
  { intros v Hv. split; [eapply Permutation_NoDup; [apply Hc|]; eauto|]. intros a Ha.
    eapply Permutation_in; [apply Hc|]; eauto. }
  unfold bf_algo in Hres.
  set (k' := if (length alts + 1) / 2 <? k then (length alts + 1) / 2 else k) in *.
  destruct (dfs set_order (get_L_sets alts votes) [] None k' votes) as [r|] eqn:Ed; [|discriminate].
  injection Hres as <-.
  destruct (L_sets_ok alts votes Hvne (fun v Hv => proj2 (Hvotes v Hv)) Hnd) as (L1 & L2 & L3).
  destruct (dfs_sound alts votes Hvotes set_order Hord _ [] None k' r L1 L2) as ((HG & HN) & Hcov & Hlen); auto.
  - split; constructor.
  - simpl. lia.
  - discriminate.
  - rewrite map_length. split; [|split].
    + unfold partition_check. apply andb_true_iff. split.
      * apply (valid_axis_correct alts _ Hnd). rewrite <- flat_map_concat_map.
        apply NoDup_Permutation; [assumption|exact HN|]. intros a. split; [apply Hcov|].
        apply (AxesOK_incl alts votes r). now split.
      * apply forallb_forall. intros axis Hax. apply in_map_iff in Hax. destruct Hax as (A & <- & HA).
        rewrite Forall_forall in HG. destruct (HG A HA) as (G1 & G2 & G3).
        unfold axis_ok, sp_check_axis, spw_check_axis, restrict_profile. apply andb_true_iff. split.
        -- apply valid_axis_correct; [assumption|apply Permutation_refl].
        -- unfold restrict_ranking. apply axis_test_restricted.
           ++ intros v Hv. destruct (Hvotes v Hv) as [N1 N2]. split; [assumption|]. split; [|now apply G3].
              intros a Ha. apply N2. now apply G2.
           ++ intros a Ha. now apply memN_In.
    + unfold k' in Hlen. destruct ((length alts + 1) / 2 <? k) eqn:Ek; [apply Nat.ltb_lt in Ek|]; lia.
    + unfold k' in Hlen. destruct ((length alts + 1) / 2 <? k) eqn:Ek; [|apply Nat.ltb_ge in Ek]; lia.
Qed.

(* the None half of the contract follows from soundness: no answer when no valid partition has at most k axes *)
Corollary bf_none_when_infeasible set_order alts votes k :
  wf_profile alts votes -> votes <> [] -> (forall L, Permutation L (set_order L)) ->
  k < min_partition alts votes -> bf_algo set_order alts votes k = None.
Proof.
  intros Hwf Hvne Hord Hk. destruct (bf_algo set_order alts votes k) as [res|] eqn:Er; [exfalso|reflexivity].
  destruct (bf_sound set_order alts votes k res Hwf Hvne Hord Er) as (Hc & Hlen & _).
  pose proof (check_valid_bound alts votes res Hwf Hc). lia.
Qed.

(* an answer is never better than the optimum, and is accepted by brute_force_ok as soon as it has min_partition axes *)
Corollary bf_some_bounds set_order alts votes k res :
  wf_profile alts votes -> votes <> [] -> (forall L, Permutation L (set_order L)) ->
  bf_algo set_order alts votes k = Some res ->
  min_partition alts votes <= length res <= k /\
  (length res = min_partition alts votes -> brute_force_ok alts votes k (Some res) = true).
Proof.
  intros Hwf Hvne Hord Er. destruct (bf_sound set_order alts votes k res Hwf Hvne Hord Er) as (Hc & Hlen & _).
  pose proof (check_valid_bound alts votes res Hwf Hc) as Hmin. split; [lia|]. intros El.
  unfold brute_force_ok, brute_force_ok_with. rewrite <- El.
  assert (Hle : (length res <=? k) = true) by now apply Nat.leb_le.
  rewrite Hle, Hc, Nat.eqb_refl. reflexivity.
Qed.

(* on an axis on which a vote
   is single-peaked, the alternative the vote ranks last is one of the two end points *)
Lemma sp_last_is_end v O x : NoDup O -> spv v O -> In x O ->
  (forall a, In a O -> a <> x -> rk v a < rk v x) ->
  (exists r, O = x :: r) \/ (exists r, O = r ++ [x]).
Proof.
  intros Hnd Hsp Hx Hlast. apply in_split in Hx. destruct Hx as (l1 & l2 & ->).
  destruct l1 as [|a l1]; [left; exists l2; reflexivity|]. destruct l2 as [|c l2]; [right; exists (a :: l1); reflexivity|]. exfalso.
  assert (Ha : a <> x).
  { intros E0. subst a. simpl in Hnd. apply NoDup_cons_iff in Hnd. destruct Hnd as [Hn _]. apply Hn.
    apply in_or_app. right. now left. }
  assert (Hc : c <> x).
  { intros E0. subst c. apply NoDup_app_r in Hnd. apply NoDup_cons_iff in Hnd. destruct Hnd as [Hn _]. apply Hn. now left. }
  apply (Hsp a x c).
  - exists [], l1, [], l2. reflexivity.
  - split; apply Hlast; auto.
    + now left.
    + apply in_or_app. right. right. now left.
Qed.

(* ============================================================================================== *)
(* 9. COMPLETENESS / MINIMALITY of the mirror (with place_complete of Proofs/ELPComplete.v)        *)

(* --- 9.1 membership in extend / spc through inductive characterisations ------------------------ *)

Section ExtRel.
Variable votes : list (list N).
Variable lim : nat.

Inductive ExtR : list paxis -> list paxis -> list (list N) -> list paxis -> Prop :=
| ExtR_nil u d : ExtR u d [] (u ++ d)
| ExtR_old u d p e res A A' :
    In A u -> fst (place_t A p votes) = A' -> pa_eqb A' A = false ->
    ExtR (filter (fun a => negb (pa_eqb a A)) u) (d ++ [A']) e res -> ExtR u d (p :: e) res
| ExtR_new u d p e res A' :
    length u + length d < lim -> fst (place_t pa_empty p votes) = A' -> pa_eqb A' pa_empty = false ->
    ExtR u (d ++ [A']) e res -> ExtR u d (p :: e) res.

Lemma ExtR_in_fold u d e res : ExtR u d e res -> forall queue, In (u, d) queue ->
  In res (map (fun q : qstate => fst q ++ snd q) (fold_left (fun queue alt => ext_piece votes lim alt queue) e queue)).
Proof.
  induction 1 as [u d|u d p e res A A' HA Hpl Hne _ IH|u d p e res A' Hlen Hpl Hne _ IH]; intros queue Hq.
  - simpl. apply in_map_iff. exists (u, d). auto.
  - cbn [fold_left]. apply IH. unfold ext_piece. apply in_flat_map. exists (u, d). split; [assumption|].
    apply in_or_app. left. apply in_flat_map. exists A. split; [assumption|]. rewrite Hpl, Hne. now left.
  - cbn [fold_left]. apply IH. unfold ext_piece. apply in_flat_map. exists (u, d). split; [assumption|].
    apply in_or_app. right. apply Nat.ltb_lt in Hlen. rewrite Hlen, Hpl, Hne. now left.
Qed.

Lemma extend_complete axes e res : ExtR axes [] e res -> In res (extend axes e votes lim).
Proof. intros H. unfold extend. apply (ExtR_in_fold _ _ _ _ H). now left. Qed.
End ExtRel.

Inductive Canon : list N -> list N -> list (list N) -> Prop :=
| Canon_nil later : Canon [] later []
| Canon_single h rest later e : Canon rest later e -> Canon (h :: rest) later ([h] :: e)
| Canon_pair h y rest later e : In y (rest ++ later) ->
    Canon (removeN (Some y) rest) (removeN (Some y) later) e -> Canon (h :: rest) later ([h; y] :: e).

Lemma removeN_length_ge y (l : list N) : NoDup l -> length l <= S (length (removeN (Some y) l)).
Proof.
  induction l as [|a l IH]; intros Hnd; simpl; [lia|]. inversion Hnd as [|? ? Ha Hl]; subst.
  destruct (N.eqb a y) eqn:Ey; simpl.
  - apply N.eqb_eq in Ey. subst a.
    assert (E : filter (fun i => negb (N.eqb i y)) l = l).
    { apply filter_all_true. intros x Hx. apply negb_true_iff, N.eqb_neq. intros ->. contradiction. }
    rewrite E. lia.
  - specialize (IH Hl). simpl in IH. lia.
Qed.

Lemma NoDup_removeN_app p (l1 l2 : list N) : NoDup (l1 ++ l2) -> NoDup (removeN p l1 ++ removeN p l2).
Proof.
  intros H. apply NoDup_app_iff in H. destruct H as (N1 & N2 & N3). apply NoDup_app_iff.
  repeat split; [now apply removeN_NoDup|now apply removeN_NoDup|].
  intros a Ha Hb. apply (N3 a); [now apply removeN_incl in Ha|now apply removeN_incl in Hb].
Qed.

Lemma Canon_len items later e : NoDup (items ++ later) -> Canon items later e -> length items <= 2 * length e.
Proof.
  intros Hnd H. induction H as [later|h rest later e _ IH|h y rest later e _ _ IH]; simpl; [lia| |].
  - inversion Hnd; subst. specialize (IH H2). lia.
  - inversion Hnd as [|? ? _ Hnd']; subst. specialize (IH (NoDup_removeN_app _ _ _ Hnd')).
    pose proof (removeN_length_ge y rest (NoDup_app_l _ _ Hnd')). lia.
Qed.

Lemma spc_complete : forall fuel items later lim size e,
  NoDup (items ++ later) -> Canon items later e -> length items <= fuel -> size + length e <= lim ->
  In e (spc fuel items later lim size).
Proof.
  induction fuel as [|f IH]; intros items later lim size e Hnd Hc Hlen Hlim.
  - destruct items; [|simpl in Hlen; lia]. inversion Hc; subst. now left.
  - pose proof (Canon_len _ _ _ Hnd Hc) as Hl2.
    inversion Hc as [later'|h rest later' e' Hc'|h y rest later' e' Hy Hc']; subst.
    + now left.
    + cbn [spc].
      assert (G : (size + (length (h :: rest) + 1) / 2 <=? lim) = true).
      { apply Nat.leb_le. assert ((length (h :: rest) + 1) / 2 < S (length ([h] :: e'))) by (apply Nat.div_lt_upper_bound; lia).
        lia. }
      rewrite G. apply in_flat_map. exists None. split; [apply in_or_app; right; now left|].
      apply in_map. inversion Hnd; subst. apply IH; auto; simpl in *; lia.
    + cbn [spc].
      assert (G : (size + (length (h :: rest) + 1) / 2 <=? lim) = true).
      { apply Nat.leb_le. assert ((length (h :: rest) + 1) / 2 < S (length ([h; y] :: e'))) by (apply Nat.div_lt_upper_bound; lia).
        lia. }
      rewrite G. apply in_flat_map. exists (Some y). split.
      * apply in_app_or in Hy. apply in_or_app. destruct Hy as [Hy|Hy]; [left; now apply in_map|].
        right. right. now apply in_map.
      * apply in_map. inversion Hnd as [|? ? _ Hnd']; subst. apply IH.
        -- now apply NoDup_removeN_app.
        -- assumption.
        -- pose proof (removeN_length (Some y) rest). simpl in Hlen. lia.
        -- simpl in Hlim. lia.
Qed.

(* a distinguished element of a fold that establishes G, all other steps preserving G *)
Lemma fold_left_hit {S T} (f : S -> T -> S) (G : S -> Prop) l x s0 :
  In x l -> (forall s, G (f s x)) -> (forall s y, G s -> G (f s y)) -> G (fold_left f l s0).
Proof.
  revert s0. induction l as [|y l IH]; intros s0 Hx Hhit Hpres; [contradiction|]. simpl.
  destruct Hx as [->|Hx]; [|now apply IH].
  apply fold_left_inv; [intros z _ s' Hs'; now apply Hpres|apply Hhit].
Qed.
