(* Ops/C03.v — protocol entry points for property C03 (single-peakedness of strict profiles).
   payload conventions: ranking = flat list of N (best first); profile = list of rankings; dtype as in Ops/C11. *)
From Coq Require Import List ZArith NArith String.
From PrefVerif Require Import Lib.Val Model.SP Model.ELO.
Import ListNotations.
Open Scope string_scope.

Definition d_dt (v : val) : ord_dt :=
  match dnat v with 0 => DTsoc | 1 => DTsoi | 2 => DTtoc | 3 => DTtoi | _ => DTother end.
Definition d_alts (v : val) : list N := dlist dN v.
Definition d_rankings (v : val) : list ranking := dlist (dlist dN) v.

(* (alts rankings) -> bool *)
Definition op_decide (v : val) : val :=
  ebool (sp_decide (d_alts (dnth 0 v)) (d_rankings (dnth 1 v))).
(* (alts rankings axis) -> bool *)
Definition op_check_axis (v : val) : val :=
  ebool (sp_check_axis (d_alts (dnth 0 v)) (d_rankings (dnth 1 v)) (d_alts (dnth 2 v))).
(* (dtype alts rankings) -> result bool *)
Definition op_run (v : val) : val :=
  eresult ebool (is_single_peaked_model (d_dt (dnth 0 v)) (d_alts (dnth 1 v)) (d_rankings (dnth 2 v))).

(* (alts rankings-in-storage-order) -> result (verdict axis): the mirror of is_single_peaked (Model/ELO.v) *)
Definition op_elo (v : val) : val :=
  eresult (epair ebool (elist eN)) (elo (d_alts (dnth 0 v)) (d_rankings (dnth 1 v))).

Definition ops : optable :=
  [ ("c03.decide", op_decide); ("c03.check_axis", op_check_axis); ("c03.run", op_run); ("c03.elo", op_elo) ].
