(* Model/Meta.v — mirror model of PrefLibInstance.parse_metadata / write_metadata and of the name pattern
   (preflibtools/instances/preflibinstance/instance.py), shared by the ordinal, categorical and matching
   file models (C01, C08, C09, C10, C16).  Executable definitions only. *)
From Coq Require Import List NArith Bool String.
From PrefVerif Require Import Lib.Val Lib.Dec Lib.PyStr.
Import ListNotations.

(* ---- Python dict as an association list in insertion order ---- *)
Fixpoint assoc_get {K V} (eqb : K -> K -> bool) (k : K) (d : list (K * V)) : option V :=
  match d with
  | [] => None
  | (k', v) :: r => if eqb k k' then Some v else assoc_get eqb k r
  end.

(* d[k] = v : overwrite in place when the key exists, append otherwise *)
Fixpoint assoc_set {K V} (eqb : K -> K -> bool) (k : K) (v : V) (d : list (K * V)) : list (K * V) :=
  match d with
  | [] => [(k, v)]
  | (k', v') :: r => if eqb k k' then (k, v) :: r else (k', v') :: assoc_set eqb k v r
  end.

Definition values {K V} (d : list (K * V)) : list V := map snd d.
Definition keys {K V} (d : list (K * V)) : list K := map fst d.
Definition tmem (x : text) (l : list text) : bool := existsb (teqb x) l.

(* ---- the header fields every instance class carries ---- *)
Record meta := mkMeta {
  file_name : text; title : text; description : text; data_type : text; modification_type : text;
  relates_to : text; related_files : text; publication_date : text; modification_date : text;
  num_alternatives : N; num_voters : N;
  alt_names : list (N * text);          (* alternatives_name, insertion order *)
  reserved : list text                  (* reserved_names (autocorrect only) *)
}.

Definition meta0 (dt : text) : meta :=
  mkMeta [] [] [] dt [] [] [] [] [] 0 0 [] [].

Definition set_file_name (m : meta) (v : text) := mkMeta v (title m) (description m) (data_type m) (modification_type m) (relates_to m) (related_files m) (publication_date m) (modification_date m) (num_alternatives m) (num_voters m) (alt_names m) (reserved m).
Definition set_title (m : meta) (v : text) := mkMeta (file_name m) v (description m) (data_type m) (modification_type m) (relates_to m) (related_files m) (publication_date m) (modification_date m) (num_alternatives m) (num_voters m) (alt_names m) (reserved m).
Definition set_description (m : meta) (v : text) := mkMeta (file_name m) (title m) v (data_type m) (modification_type m) (relates_to m) (related_files m) (publication_date m) (modification_date m) (num_alternatives m) (num_voters m) (alt_names m) (reserved m).
Definition set_data_type (m : meta) (v : text) := mkMeta (file_name m) (title m) (description m) v (modification_type m) (relates_to m) (related_files m) (publication_date m) (modification_date m) (num_alternatives m) (num_voters m) (alt_names m) (reserved m).
Definition set_modification_type (m : meta) (v : text) := mkMeta (file_name m) (title m) (description m) (data_type m) v (relates_to m) (related_files m) (publication_date m) (modification_date m) (num_alternatives m) (num_voters m) (alt_names m) (reserved m).
Definition set_relates_to (m : meta) (v : text) := mkMeta (file_name m) (title m) (description m) (data_type m) (modification_type m) v (related_files m) (publication_date m) (modification_date m) (num_alternatives m) (num_voters m) (alt_names m) (reserved m).
Definition set_related_files (m : meta) (v : text) := mkMeta (file_name m) (title m) (description m) (data_type m) (modification_type m) (relates_to m) v (publication_date m) (modification_date m) (num_alternatives m) (num_voters m) (alt_names m) (reserved m).
Definition set_publication_date (m : meta) (v : text) := mkMeta (file_name m) (title m) (description m) (data_type m) (modification_type m) (relates_to m) (related_files m) v (modification_date m) (num_alternatives m) (num_voters m) (alt_names m) (reserved m).
Definition set_modification_date (m : meta) (v : text) := mkMeta (file_name m) (title m) (description m) (data_type m) (modification_type m) (relates_to m) (related_files m) (publication_date m) v (num_alternatives m) (num_voters m) (alt_names m) (reserved m).
Definition set_num_alternatives (m : meta) (v : N) := mkMeta (file_name m) (title m) (description m) (data_type m) (modification_type m) (relates_to m) (related_files m) (publication_date m) (modification_date m) v (num_voters m) (alt_names m) (reserved m).
Definition set_num_voters (m : meta) (v : N) := mkMeta (file_name m) (title m) (description m) (data_type m) (modification_type m) (relates_to m) (related_files m) (publication_date m) (modification_date m) (num_alternatives m) v (alt_names m) (reserved m).
Definition set_alt_names (m : meta) (v : list (N * text)) := mkMeta (file_name m) (title m) (description m) (data_type m) (modification_type m) (relates_to m) (related_files m) (publication_date m) (modification_date m) (num_alternatives m) (num_voters m) v (reserved m).
Definition set_reserved (m : meta) (v : list text) := mkMeta (file_name m) (title m) (description m) (data_type m) (modification_type m) (relates_to m) (related_files m) (publication_date m) (modification_date m) (num_alternatives m) (num_voters m) (alt_names m) v.

(* int(s.strip()) on a header number / id: ASCII digits only; anything else is a ValueError *)
Definition py_int (s : text) : result N :=
  match read_N (strip s) with Some n => Ok n | None => Err ValueErr end.

(* ---- re.match of the name pattern [prefix, one or more digits, colon, optional space, rest of line]:
   Some (number, rest) ---- *)
Fixpoint span_digits (s : text) : text * text :=
  match s with
  | c :: r => if is_digit c then let '(d, t) := span_digits r in (c :: d, t) else ([], s)
  | [] => ([], [])
  end.
(* the final group stops at the first newline character *)
Fixpoint upto_nl (s : text) : text :=
  match s with
  | [] => []
  | c :: r => if N.eqb c 10 then [] else c :: upto_nl r
  end.
Definition match_name (prefix : text) (line : text) : option (N * text) :=
  if startswith prefix line then
    let '(d, t) := span_digits (drop (List.length prefix) line) in
    match d, t with
    | _ :: _, 58%N :: t' =>                         (* colon *)
      let t'' := match t' with 32%N :: u => u | _ => t' end in   (* optional space *)
      match read_N d with
      | Some n => Some (n, upto_nl t'')
      | None => None
      end
    | _, _ => None
    end
  else None.

Definition alt_name_prefix : text := lit "# ALTERNATIVE NAME ".
Definition cat_name_prefix : text := lit "# CATEGORY NAME ".

(* tmp = 1; while name + __ + str(tmp) in used: tmp += 1   (explicit fuel; never exhausted with
   fuel = S (length used), proved in Proofs) *)
Definition suffixed (name : text) (k : N) : text := name ++ lit "__" ++ show_N k.
Fixpoint find_free (fuel : nat) (name : text) (used : list text) (k : N) : result text :=
  match fuel with
  | O => Err OutOfFuel
  | S f => if tmem (suffixed name k) used then find_free f name used (N.succ k)
           else Ok (suffixed name k)
  end.

(* the autocorrect branch shared by alternative and category names *)
Definition corrected_name (autocorrect : bool) (name : text) (vals : list text) (resv : list text)
  : result text :=
  if autocorrect && tmem name vals
  then find_free (S (List.length vals + List.length resv)) name (vals ++ resv) 1
  else Ok name.

(* names reserved by parse_lines / CategoricalInstance.parse when autocorrect is on *)
Definition reserved_of (prefix : text) (lines : list text) : list text :=
  flat_map (fun l => match match_name prefix (strip l) with Some (_, nm) => [nm] | None => [] end) lines.

(* ---- parse_metadata(line, autocorrect): the elif chain in source order; line is already stripped ---- *)
Definition parse_metadata (autocorrect : bool) (m : meta) (line : text) : result meta :=
  if startswith (lit "# FILE NAME") line then Ok (set_file_name m (strip (drop 12 line)))
  else if startswith (lit "# TITLE") line then Ok (set_title m (strip (drop 8 line)))
  else if startswith (lit "# DESCRIPTION") line then Ok (set_description m (strip (drop 14 line)))
  else if startswith (lit "# DATA TYPE") line then Ok (set_data_type m (strip (drop 12 line)))
  else if startswith (lit "# MODIFICATION TYPE") line then Ok (set_modification_type m (strip (drop 20 line)))
  else if startswith (lit "# RELATES TO") line then Ok (set_relates_to m (strip (drop 13 line)))
  else if startswith (lit "# RELATED FILES") line then Ok (set_related_files m (strip (drop 16 line)))
  else if startswith (lit "# PUBLICATION DATE") line then Ok (set_publication_date m (strip (drop 19 line)))
  else if startswith (lit "# MODIFICATION DATE") line then Ok (set_modification_date m (strip (drop 20 line)))
  else if startswith (lit "# NUMBER ALTERNATIVES") line then rmap (set_num_alternatives m) (py_int (drop 22 line))
  else if startswith (lit "# NUMBER VOTERS") line then rmap (set_num_voters m) (py_int (drop 16 line))
  else if startswith (lit "# ALTERNATIVE NAME") line then
    match match_name alt_name_prefix line with
    | Some (alt, nm) =>
      rmap (fun nm' => set_alt_names m (assoc_set N.eqb alt nm' (alt_names m)))
           (corrected_name autocorrect nm (values (alt_names m)) (reserved m))
    | None => Ok m
    end
  else Ok m.

(* ---- write_metadata: the nine header lines, each terminated by a newline ---- *)
Definition nl : text := [10%N].
Definition hline (key : string) (v : text) : text := lit key ++ v ++ nl.
Arguments hline _%string_scope _.
Definition write_metadata (m : meta) : text :=
  hline "# FILE NAME: " (file_name m) ++ hline "# TITLE: " (title m) ++
  hline "# DESCRIPTION: " (description m) ++ hline "# DATA TYPE: " (data_type m) ++
  hline "# MODIFICATION TYPE: " (modification_type m) ++ hline "# RELATES TO: " (relates_to m) ++
  hline "# RELATED FILES: " (related_files m) ++ hline "# PUBLICATION DATE: " (publication_date m) ++
  hline "# MODIFICATION DATE: " (modification_date m).

Definition write_alt_names (d : list (N * text)) : text :=
  flat_map (fun '(a, nm) => lit "# ALTERNATIVE NAME " ++ show_N a ++ lit ": " ++ nm ++ nl) d.
