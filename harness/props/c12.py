"""C12 — nearly-single-peaked optimisers return true optima with certificates.

  approx_SP_voter_deletion_ILP(instance)        -> (objective, status, axis, deleted voters   as index strings)
  approx_SP_alternative_deletion_ILP(instance)  -> (objective, status, axis, deleted alternatives as index strings
                                                    into list(instance.alternatives_name))
  k_alternative_deletion(instance)              -> (axis over the remaining alternatives, removed alternatives)   soc only

One case type, op "c12.opt", payload [dt, alts, profile, flags, mode, core, planted_vot, planted_alt]
  dt     0 soc / 2 toc                      flags  1 voter ILP | 2 alternative ILP | 4 dynamic programme (soc only)
  mode   1 "small": objective values are compared with the verified reference (c12.min_vot / c12.min_alt;
                    theorems min_vot_del_correct / min_alt_del_correct)
         0 "large": the reference is not run on the whole input; lower bound = reference optimum of the profile
                    restricted to the alternatives `core` (theorem opt_restrict_mono), upper bound = size of a planted
                    certificate accepted by the verified checker (theorem cert_valid_bound)
  planted_vot = [] | [axis, V]   planted_alt = [] | [axis, D]    certificates known to the generator (upper bounds)
In every mode each returned (axis, deletion set) goes through the verified checkers c12.cert_vot / c12.cert_alt with
k = the reported objective (theorems cert_vot_correct / cert_alt_correct).

Second case type, op "c12.enc", payload [kind, dt, alts, profile], kind 0 is_single_peaked_ILP, 1 voter deletion,
2 alternative deletion: the ILP that the function hands to python-mip is captured WITHOUT solving (mip.Model is wrapped
in the namespace of singlepeakedness.py: the wrapper records the model object and its optimize() raises a private
exception) and its variables (name, integrality, bounds), the MULTISET of its constraints (terms, sense, right-hand
side, exact rationals multiplied by 2) and its objective are compared with the mirrored model of Model/ILPEnc.v
(op c12.ilp_constraints), about which ilp_*_sound / ilp_*_complete / ilp_*_optimum are proved.  The order of the
constraints and of the terms, and the constraint names, are not compared."""
import itertools
import random

from .common import case, guarded, ordinal_instance, weak_orders, rand_weak_order, rand_perm

ID = "C12"
COVER_FILES = ['properties/subdomains/ordinal/singlepeaked/k_alternative_deletion.py']
RULE = ("every set of 1-3 distinct strict orders over 3 alternatives (dynamic programme on all, ILPs on a budgeted "
        "subset in quick), sets of 1-3 weak orders over 3 alternatives; random soc/toc profiles with m <= 5 (thorough 6) "
        "alternatives and n <= 5 distinct orders: planted single-peaked + 0-3 spoiler votes, planted + 0-3 spoiler "
        "alternatives, tied tops, uniformly random; plus strict profiles m <= 6 for the dynamic programme alone; "
        "objective = verified reference optimum (min_vot_del / min_alt_del), len(deleted) = objective, certificate "
        "through the verified checker (cert_vot / cert_alt), ILP = DP on strict profiles; larger instances (ILPs: "
        "7 <= m <= 10, n <= 8; DP: m <= 12): certificates + lower bound from the best of 3 embedded 5-alternative "
        "cores (opt_restrict_mono) + upper bound from the planted certificate (cert_valid_bound). ILP budget: 150 "
        "calls quick (220 with the histories), 2600 thorough. non-trivial = reference optimum (voters or alternatives) >= 1 "
        "(large instances: some reported optimum >= 1). Encoding cases (c12.enc, no solver call): for each of the three "
        "ILP functions the variables/bounds, the multiset of constraints and the objective of the python-mip model = "
        "the mirrored model of Model/ILPEnc.v, on every profile of 1-2 weak orders over m <= 2 (thorough: m <= 3) "
        "alternatives and random soc/toc profiles m <= 5, n <= 4; non-trivial = m >= 3 and a non-empty constraint list. "
        "Every k_alternative_deletion call (m <= 12) is also compared with the mirrored dynamic programme c12.elp: "
        "same number of removed alternatives (identical certificates are counted in the distribution). Volume for the "
        "dynamic programme (no ILP, no brute force): 2400 (thorough 12000) strict profiles with 7-10 alternatives "
        "(ids from 0, sparse, large), 2-6 votes, impartial culture / perturbed single-peaked: certificate + size = "
        "mirror; plus 300 (1500) profiles with 7 alternatives against the verified reference min_alt_del; plus 200 (1000) "
        "profiles with 11-15 alternatives. On EVERY strict profile (2-15 alternatives) the number of alternatives "
        "removed by k_alternative_deletion and the objective of the alternative-deletion ILP are compared with the "
        "exact optimum computed by the fast verified reference c12.fast_min_alt (fast_min_alt_correct: = min_alt_del). "
        "Histories (c12.hist): the three functions called several times in several orders on ONE instance object "
        "(answers judged against the original profile, common.snapshot after every call, returned lists poisoned, "
        "helpers of the dynamic programme must leave their list arguments unchanged), preceded by another instance "
        "with the same or overlapping ids in the same worker call, with instance.orders / multiplicity / "
        "alternatives_name in decoupled storage orders, numpy.int64 ids, and recompute_cardinality_param / "
        "flatten_strict / full_profile before and between the calls. Index cases: 11-14 alternatives / >= 11 orders "
        "with the element to delete at index >= 10")
EXHAUSTIVE = {"quick": "k_alternative_deletion on every set of 1-3 distinct strict orders over 3 alternatives; ILP "
                       "encodings (3 functions) on every profile of 1-2 distinct weak orders over m <= 2 alternatives and "
                       "every single weak order over 3",
              "thorough": "k_alternative_deletion and both ILPs on every set of 1-3 distinct strict orders over 3 "
                          "alternatives; both ILPs on every set of 1-2 distinct weak orders over 3 alternatives that "
                          "contains a tie; ILP encodings (3 functions) on every profile of 1-2 distinct weak orders "
                          "over m <= 3 alternatives"}
TRUSTED = ["the solver: python-mip 2.0 / CBC returns an optimal feasible assignment of the model it is given (within "
           "max_gap 0.05, which cannot hide a unit below 20 alternatives) and int(v.x) recovers the integer values; the "
           "constraint builders, variable declarations and objectives of is_single_peaked_ILP, "
           "approx_SP_voter_deletion_ILP and approx_SP_alternative_deletion_ILP are MIRRORED (Model/ILPEnc.v), proved sound "
           "and complete for every size (Proofs/ILPEnc.v) and compared with the model python-mip receives (c12.enc)",
           "k_alternative_deletion / longest_single_peaked_axis (dynamic programme) is MIRRORED (Model/ELPDP.v) and proved "
           "sound AND optimal for every size (elp_sound: its output is accepted by cert_alt; elp_optimal: it removes "
           "exactly min_alt_del alternatives; approx_valid for the C18 loop), for every iteration order of the CPython "
           "sets involved; the implementation is compared with the mirror (same number of removed alternatives) and "
           "with the exact verified optimum fast_min_alt at every size (2-15 alternatives); (axis, removed) itself may "
           "differ from the mirror's (set iteration order): counted, not judged",
           "the three ILP functions are additionally compared end-to-end (objective = reference, certificates)"]
ASSUMPTIONS = ["orders are complete over the instance's alternatives with non-empty classes; instance.orders holds "
               "distinct orders; the objective is unweighted (one unit per distinct order / per alternative); fewer than "
               "20 alternatives (quantifier of C12)"]
TIMEOUT_S = 60.0
# the ILP functions call CBC with model.threads = -1; an answer that is not reproduced when the same case is run again
# alone is marked kind = "not-reproducible" by the check driver (see known finding KF-C12-cbc-nondeterminism)
RERUN_FAILURES = True
CHUNK = 2

DT = {0: "soc", 2: "toc"}
THEOREMS_FOR_OP = {"c12.opt": "min_vot_del_correct / min_alt_del_correct / cert_vot_correct / cert_alt_correct / "
                              "cert_valid_bound / opt_restrict_mono",
                   "c12.enc": "ilp_sp_sound / ilp_sp_complete / ilp_votdel_optimum / ilp_altdel_optimum (the mirrored "
                              "model of Model/ILPEnc.v is the model python-mip receives)"}
KIND = {0: "is_single_peaked_ILP", 1: "approx_SP_voter_deletion_ILP", 2: "approx_SP_alternative_deletion_ILP"}
F_VOT, F_ALT, F_DP = 1, 2, 4


# ------------------------------------------------------------------------------------------------ generators
def planted_strict(rng, axis):
    """a strict order single-peaked w.r.t. axis"""
    m = len(axis)
    l = r = rng.randrange(m)
    out = [axis[l]]
    while l > 0 or r < m - 1:
        if l == 0 or (r < m - 1 and rng.random() < 0.5):
            r += 1
            out.append(axis[r])
        else:
            l -= 1
            out.append(axis[l])
    return [[a] for a in out]


def planted_weak(rng, axis, p_big=0.35, top_tie=False):
    """a weak order single-plateaued w.r.t. axis: nested intervals grown from a random plateau"""
    m = len(axis)
    l = rng.randrange(m)
    r = l if (rng.random() > p_big and not top_tie) else rng.randrange(l, m)
    if top_tie and m >= 2 and l == r:
        if r < m - 1:
            r += 1
        else:
            l -= 1
    order = [list(axis[l:r + 1])]
    rng.shuffle(order[0])
    while l > 0 or r < m - 1:
        dl = dr = 0
        while dl == 0 and dr == 0:
            dl = 0 if l == 0 else (rng.randint(0, min(l, 2)) if rng.random() > p_big else rng.randint(0, l))
            dr = 0 if r == m - 1 else (rng.randint(0, min(m - 1 - r, 2)) if rng.random() > p_big else rng.randint(0, m - 1 - r))
        cls = list(axis[l - dl:l]) + list(axis[r + 1:r + 1 + dr])
        rng.shuffle(cls)
        order.append(cls)
        l, r = l - dl, r + dr
    return order


def canon_classes(o):
    return tuple(frozenset(c) for c in o)


def distinct_semantic(orders):
    out, seen = [], set()
    for o in orders:
        k = canon_classes(o)
        if k not in seen:
            seen.add(k)
            out.append(o)
    return out


def is_strict(profile):
    return all(len(c) == 1 for o in profile for c in o)


def insert_alt(rng, order, a, weak):
    """insert alternative a somewhere in the order (own class, or - weak orders - into an existing class)"""
    o = [list(c) for c in order]
    if weak and o and rng.random() < 0.4:
        o[rng.randrange(len(o))].append(a)
    else:
        o.insert(rng.randint(0, len(o)), [a])
    return o


def make_profile(rng, alts, n, weak, family):
    """-> (profile of distinct orders, planted_vot, planted_alt)"""
    m = len(alts)
    axis = rand_perm(rng, alts)

    def planted(ax):
        if not weak:
            return planted_strict(rng, ax)
        return planted_weak(rng, ax, top_tie=(rng.random() < 0.5))

    def noise():
        if not weak:
            return [[a] for a in rand_perm(rng, alts)]
        if rng.random() < 0.5 and m >= 2:       # tied top
            a = rand_perm(rng, alts)
            k = rng.randint(2, m)
            return [a[:k]] + [[x] for x in a[k:]]
        return rand_weak_order(rng, alts, p_tie=rng.choice([0.15, 0.3]))

    if family == "vot-planted":
        s = rng.choice([0, 1, 1, 1, 2, 2, 2, 3])
        s = min(s, n)
        good = [planted(axis) for _ in range(n - s)]
        bad = [noise() for _ in range(s)]
        tagged = [(o, 0) for o in good] + [(o, 1) for o in bad]
        rng.shuffle(tagged)
        seen, prof, V = set(), [], []
        for o, b in tagged:
            k = canon_classes(o)
            if k in seen:
                continue
            seen.add(k)
            if b:
                V.append(len(prof))
            prof.append(o)
        return prof, [axis, V], []
    if family == "alt-planted":
        s = min(rng.choice([0, 1, 1, 2, 2, 3]), max(0, m - 2))
        D = rng.sample(alts, s)
        ax0 = [a for a in axis if a not in D]
        prof = []
        for _ in range(n):
            o = planted(ax0)
            for a in D:
                o = insert_alt(rng, o, a, weak)
            prof.append(o)
        return distinct_semantic(prof), [], [axis, sorted(D)]
    if family == "toptie":
        prof = []
        for _ in range(n):
            a = rand_perm(rng, alts)
            k = rng.randint(2, m) if m >= 2 else 1
            prof.append([a[:k]] + [[x] for x in a[k:]])
        return distinct_semantic(prof), [], []
    prof = [noise() for _ in range(n)]
    return distinct_semantic(prof), [], []


def perturbed_sp(rng, alts, n):
    """n strict votes single-peaked on a random axis, then a few random perturbations (adjacent swaps, one alternative
    moved somewhere else)"""
    axis = rand_perm(rng, alts)
    votes = []
    for _ in range(n):
        v = [c[0] for c in planted_strict(rng, axis)]
        for _ in range(rng.choice([0, 0, 1, 1, 2, 3])):
            if rng.random() < 0.5 and len(v) >= 2:
                i = rng.randrange(len(v) - 1)
                v[i], v[i + 1] = v[i + 1], v[i]
            else:
                a = v.pop(rng.randrange(len(v)))
                v.insert(rng.randint(0, len(v)), a)
        votes.append([[a] for a in v])
    return distinct_semantic(votes)


def impartial_culture(rng, alts, n):
    return distinct_semantic([[[a] for a in rand_perm(rng, alts)] for _ in range(n)])


def rand_ids(rng, m):
    """alternative identifiers: contiguous from 0, contiguous from 1, sparse, large; listed in arbitrary order"""
    k = rng.randrange(4)
    if k == 0:
        ids = list(range(0, m))
    elif k == 1:
        ids = list(range(1, m + 1))
    elif k == 2:
        ids = rng.sample(range(0, 40), m)
    else:
        ids = rng.sample(range(0, 10 ** 6), m)
    return rand_perm(rng, ids)


def mk(alts, profile, flags, mode, core=(), pv=(), pa=(), **tags):
    dt = 0 if is_strict(profile) else 2
    if dt != 0:
        flags &= ~F_DP
    return case("c12.opt", [dt, list(alts), profile, flags, mode, list(core), list(pv), list(pa)],
                m=len(alts), n=len(profile), **tags)


def pick_core(rng, alts, profile, size, count=3):
    """`count` sets of `size` alternatives (the lower bound used is the best one)"""
    alts = list(alts)
    if len(alts) <= size:
        return [alts]
    return [sorted(rng.sample(alts, size)) for _ in range(count)]


def generate(tier, seed):
    rng = random.Random(1000003 * seed + 12)
    thorough = tier != "quick"
    out = []
    budget = [235 if not thorough else 2700]

    def ilp_flags(want=F_VOT | F_ALT):
        n = bin(want & 3).count("1")
        if budget[0] >= n:
            budget[0] -= n
            return want & 3
        return 0

    # ---- exhaustive-ish: m = 3, n <= 3
    alts3 = [1, 2, 3]
    strict3 = [[[a] for a in p] for p in itertools.permutations(alts3)]
    socs = [list(c) for k in (1, 2, 3) for c in itertools.combinations(strict3, k)]
    ilp_idx = set(range(len(socs))) if thorough else set(rng.sample(range(len(socs)), 8))
    for i, prof in enumerate(socs):
        fl = F_DP | (ilp_flags() if i in ilp_idx else 0)
        out.append(mk(alts3, prof, fl, 1, exh=1, family="exh-soc3"))
    wos3 = [o for o in weak_orders(alts3)]
    tocs = [list(c) for k in (1, 2) for c in itertools.combinations(wos3, k)]
    tocs = [p for p in tocs if not is_strict(p)]
    if thorough:
        tocs3 = [list(c) for c in itertools.combinations(wos3, 3) if not is_strict(list(c))]
        tocs = tocs + rng.sample(tocs3, 150)
    else:
        tocs3 = [list(c) for c in itertools.combinations(wos3, 3) if not is_strict(list(c))]
        tocs = rng.sample(tocs, 4) + rng.sample(tocs3, 12)
    for prof in tocs:
        fl = ilp_flags()
        if fl:
            out.append(mk(alts3, prof, fl, 1, exh=1 if thorough else 0, family="exh-toc3"))

    # ---- random small: reference comparison.  m <= 5 (6), n <= 5
    fams = ["vot-planted", "alt-planted", "vot-planted", "toptie", "alt-planted", "random"]
    mmax = 6 if thorough else 5
    n_ilp = 36 if not thorough else 640
    for i in range(n_ilp):
        m = rng.randint(3, mmax)
        alts = sorted(rng.sample(range(1, rng.choice([8, 40, 10 ** 6])), m))
        if rng.random() < 0.3:
            alts = rand_perm(rng, alts)
        weak = (i % 2 == 1)
        fam = fams[i % len(fams)]
        if fam == "toptie" and not weak:
            fam = "random"
        prof, pv, pa = make_profile(rng, alts, rng.randint(3, 5), weak, fam)
        fl = ilp_flags() | F_DP
        if fl & 3 or is_strict(prof):
            out.append(mk(alts, prof, fl, 1, pv=pv, pa=pa, family=fam))
    # dynamic programme only (cheap): many strict profiles, m <= 6
    for i in range(250 if not thorough else 3000):
        m = rng.randint(2, 6)
        alts = rand_perm(rng, rng.sample(range(1, rng.choice([8, 40])), m))
        fam = ["vot-planted", "alt-planted", "random"][i % 3]
        prof, pv, pa = make_profile(rng, alts, rng.randint(2, 5), False, fam)
        out.append(mk(alts, prof, F_DP, 1, pv=pv, pa=pa, family=fam))

    # ---- larger instances: certificates, core lower bound, planted upper bound.  m <= 10, n <= 8
    n_large = 7 if not thorough else 100
    for i in range(n_large):
        m = rng.randint(7, 10)
        alts = sorted(rng.sample(range(1, 60), m))
        weak = (i % 2 == 1)
        fam = ["vot-planted", "alt-planted"][i % 2]
        prof, pv, pa = make_profile(rng, alts, rng.randint(4, 8), weak, fam)
        fl = ilp_flags() | F_DP
        core = pick_core(rng, alts, prof, 5)
        if fl & 3 or is_strict(prof):
            out.append(mk(alts, prof, fl, 0, core=core, pv=pv, pa=pa, family=fam, large=1))
    for i in range(60 if not thorough else 600):
        m = rng.randint(7, 12)
        alts = rand_perm(rng, rng.sample(range(1, 60), m))
        fam = ["vot-planted", "alt-planted", "alt-planted"][i % 3]
        prof, pv, pa = make_profile(rng, alts, rng.randint(3, 8), False, fam)
        out.append(mk(alts, prof, F_DP, 0, core=pick_core(rng, alts, prof, 5), pv=pv, pa=pa, family=fam, large=1))
    # ---- volume for the dynamic programme (no ILP, no brute-force reference): k_alternative_deletion against the mirrored
    #      dynamic programme c12.elp (same number of removed alternatives) + certificate, 7 <= m <= 10, 2 <= n <= 6
    for i in range(2400 if not thorough else 12000):
        m = rng.choice([7, 7, 8, 8, 9, 10])
        alts = rand_ids(rng, m)
        n = rng.randint(2, 6)
        fam = ["ic", "perturbed-sp"][i % 2]
        prof = impartial_culture(rng, alts, n) if fam == "ic" else perturbed_sp(rng, alts, n)
        out.append(mk(alts, prof, F_DP, 0, family="volume-" + fam, volume=1))
    # ---- larger: 11-15 alternatives (the property stops below 20), 3-6 votes; exact optimum by c12.fast_min_alt
    for i in range(200 if not thorough else 1000):
        m = rng.randint(11, 15)
        alts = rand_ids(rng, m)
        n = rng.randint(3, 6)
        fam = ["ic", "perturbed-sp"][i % 2]
        prof = impartial_culture(rng, alts, n) if fam == "ic" else perturbed_sp(rng, alts, n)
        out.append(mk(alts, prof, F_DP, 0, family="volume-" + fam, volume=1))
    # ---- reference comparison at m = 7 (strict profiles, dynamic programme only)
    for i in range(300 if not thorough else 1500):
        alts = rand_ids(rng, 7)
        n = rng.randint(2, 6)
        fam = ["ic", "perturbed-sp"][i % 2]
        prof = impartial_culture(rng, alts, n) if fam == "ic" else perturbed_sp(rng, alts, n)
        out.append(mk(alts, prof, F_DP, 1, family="ref7-" + fam))
    # ---- indices >= 10: 11-14 alternatives with the alternatives that have to be deleted LAST in alternatives_name
    #      (index 10, 11, .. : "delAlt_10" vs "delAlt_0"), and >= 11 distinct orders with the spoiler orders last
    #      ("delVoter_10"); certificates through cert_alt / cert_vot, upper bound from the planted certificate
    def sp_lib(alts_, votes_):
        """generation only: is the strict profile single-peaked (library recogniser of C03; the judge stays the model)"""
        from preflibtools.properties.subdomains.ordinal.singlepeaked.singlepeakedness import is_single_peaked
        return bool(is_single_peaked(ordinal_instance([([[a] for a in v], 1) for v in votes_], data_type="soc", alts=list(alts_)))[0])

    def idx10_alt(m, s, weak):
        """single-peaked on the first m - s alternatives; the s spoilers are the LAST ones of alternatives_name and each
        of them has to go (no other single deletion repairs the profile when s = 1)"""
        for _ in range(30):
            ids = rand_ids(rng, m)
            good, bad = ids[:m - s], ids[m - s:]
            axis = rand_perm(rng, good)
            votes = []
            for _ in range(rng.randint(4, 5)):
                v = [c[0] for c in planted_strict(rng, axis)]
                for b in bad:
                    v.insert(rng.randint(0, len(v)), b)
                votes.append(v)
            if len(set(map(tuple, votes))) < len(votes):
                continue
            if s == 1 and any(sp_lib([a for a in ids if a != x], [[a for a in v if a != x] for v in votes]) for x in good):
                continue
            if sp_lib(ids, votes):
                continue
            prof = [[[a] for a in v] for v in votes]
            if weak:
                prof = [([sorted(o[0] + o[1])] + o[2:]) if i % 2 == 0 else o for i, o in enumerate(prof)]
            return ids, prof, [axis + bad, sorted(bad)]
        return None

    def idx10_vot(nbad):
        for _ in range(30):
            m = rng.randint(5, 6)
            ids = rand_ids(rng, m)
            axis = rand_perm(rng, ids)
            good = []
            while len(good) < rng.randint(10, 12):
                v = planted_strict(rng, axis)
                if v not in good:
                    good.append(v)
            bad = []
            while len(bad) < nbad:
                v = [[a] for a in rand_perm(rng, ids)]
                if v not in good and v not in bad and not sp_lib(ids, [[c[0] for c in o] for o in good[:0] + [v]] +
                                                                 [[c[0] for c in o] for o in good]):
                    bad.append(v)
            return ids, good + bad, [axis, list(range(len(good), len(good) + nbad))]
        return None

    for i in range(6 if not thorough else 60):
        m = rng.randint(11, 13 if not thorough else 14)
        r = idx10_alt(m, [1, 1, 2][i % 3], weak=(i % 2 == 1))
        if r and budget[0] >= 1:
            budget[0] -= 1
            ids, prof, pa = r
            out.append(mk(ids, prof, F_ALT | F_DP, 0, pa=pa, family="idx10-alt", large=1))
    for i in range(5 if not thorough else 40):
        r = idx10_vot(1 + i % 2)
        if r and budget[0] >= 1:
            budget[0] -= 1
            ids, prof, pv = r
            out.append(mk(ids, prof, F_VOT, 0, pv=pv, family="idx10-vot", large=1))
    # ---- histories on one instance object (round-5 lessons); see the c12.hist section
    def hist(alts, prof, script, variant, pre, **tags):
        dt = 0 if is_strict(prof) else 2
        script = [b for b in script if dt == 0 or b != F_DP]
        if script:
            out.append(case("c12.hist", [dt, list(alts), prof, script, variant, pre], m=len(alts), n=len(prof), **tags))

    def earlier(alts):
        """another profile asked first in the same worker call: either another size with overlapping ids, or the SAME
        ids (same order) with a different content; ending early: already single-peaked or a single vote"""
        if rng.random() < 0.5:
            ids = list(alts)
        else:
            m0 = rng.choice([max(2, len(alts) - 2), len(alts) + 1])
            ids = list(alts)[:m0] + [x for x in range(60, 70)][:max(0, m0 - len(alts))]
            ids = rand_perm(rng, ids)
        if rng.random() < 0.5:
            p0 = [planted_strict(rng, rand_perm(rng, ids))]
        else:
            ax = rand_perm(rng, ids)
            p0 = distinct_semantic([planted_strict(rng, ax) for _ in range(3)])
        return ids, p0

    dp_scripts = [[F_DP, F_DP], [F_DP, F_DP, F_DP]]
    for i in range(120 if not thorough else 1200):
        m = rng.randint(3, 6)
        alts = rand_ids(rng, m)
        prof = impartial_culture(rng, alts, rng.randint(2, 4)) if i % 2 else perturbed_sp(rng, alts, rng.randint(2, 4))
        pre = []
        if i % 3 == 0:
            ids, p0 = earlier(alts)
            pre = [0, ids, p0, [F_DP]]
        hist(alts, prof, dp_scripts[i % 2], rng.choice([0, 1, 2, 3, 4, 8, 16, 31, 27]), pre, family="hist-dp")
    ilp_scripts = [[F_VOT, F_ALT, F_DP, F_ALT, F_VOT], [F_DP, F_VOT, F_VOT, F_ALT, F_ALT, F_DP], [F_ALT, F_VOT, F_ALT],
                   [F_VOT, F_DP, F_VOT], [F_ALT, F_DP, F_ALT, F_DP]]
    for i in range(14 if not thorough else 120):
        m = rng.randint(3, 5)
        alts = rand_ids(rng, m)
        weak = (i % 3 == 2)
        fam = ["vot-planted", "alt-planted", "random", "toptie"][i % 4]
        if fam == "toptie" and not weak:
            fam = "random"
        prof, _, _ = make_profile(rng, alts, rng.randint(2, 4), weak, fam)
        script = ilp_scripts[i % len(ilp_scripts)]
        n_ilp = sum(1 for b in script if b != F_DP)
        pre = []
        if i % 2 == 0:
            ids, p0 = earlier(alts)
            pre = [0, ids, p0, [F_ALT, F_VOT]]
            n_ilp += 2
        if budget[0] < n_ilp:
            break
        budget[0] -= n_ilp
        hist(alts, prof, script, [31, 0, 7, 24, 5, 18, 9][i % 7], pre, family="hist-ilp")
    # ---- encoding correspondence (no solver call): exhaustive tiny + random m <= 5, n <= 4, soc and toc
    def enc(alts, prof, **tags):
        dt = 0 if is_strict(prof) else 2
        for kind in (0, 1, 2):
            out.append(case("c12.enc", [kind, dt, list(alts), prof], m=len(alts), n=len(prof), **tags))

    for m in (1, 2, 3):
        a = list(range(1, m + 1))
        wos = list(weak_orders(a))
        singles = [[o] for o in wos]
        pairs = [list(c) for c in itertools.combinations(wos, 2)]
        if not thorough and m == 3:
            pairs = rng.sample(pairs, 12)
        for prof in singles + pairs:
            enc(a, prof, exh=1 if (thorough or m < 3) else 0, family="enc-exh")
    for i in range(40 if not thorough else 400):
        m = rng.choice([2, 3, 3, 4, 4, 5, 5])
        alts = rand_perm(rng, rng.sample(range(1, rng.choice([8, 40, 10 ** 6])), m))
        weak = (i % 2 == 1)
        fam = ["vot-planted", "alt-planted", "random", "toptie"][i % 4]
        if fam == "toptie" and not weak:
            fam = "random"
        prof, _, _ = make_profile(rng, alts, rng.randint(1, 4), weak, fam)
        enc(alts, prof, family="enc-" + fam)
    # spread the heavy cases over the worker / oracle partitions (deterministic)
    random.Random(7 * seed + 1).shuffle(out)
    return out


# ------------------------------------------------------------------------------------------------ implementation side
def _instance(dt, alts, profile):
    return ordinal_instance([(o, 1) for o in profile], data_type=DT[dt], alts=list(alts))


def _objective(x):
    """float objective -> [rounded value, 1 if within 1e-6 of an integer]"""
    from fractions import Fraction
    q = Fraction(x)                       # exact value of the double
    r = round(q)
    return [int(r), int(abs(q - r) < Fraction(1, 10 ** 6))]


def _ilp(fn, *a):
    """python-mip models are freed by the cyclic GC; if that happens while cffi is inside a later solver call,
    Model.__del__ re-enters cffi's non-reentrant lock and the process deadlocks (observed by the C15 agent).  Collect
    before the call, keep the collector off during it.  (environment, not /repo)"""
    import gc
    gc.collect()
    gc.disable()
    try:
        return guarded(fn, *a)
    finally:
        gc.enable()
        gc.collect()


def _opt_impl(c):
    from preflibtools.properties.subdomains.ordinal.singlepeaked import singlepeakedness as SPM
    from preflibtools.properties.subdomains.ordinal.singlepeaked.k_alternative_deletion import k_alternative_deletion
    dt, alts, profile, flags = c["payload"][:4]
    res = {}
    if flags & F_VOT:
        r = _ilp(SPM.approx_SP_voter_deletion_ILP, _instance(dt, alts, profile))
        if r[0] == 0:
            obj, status, axis, deleted = r[1]
            if axis is None or deleted is None or obj is None:
                res["vot"] = [0, None, str(status), None, None]
            else:
                res["vot"] = [0, _objective(obj), str(status), [int(a) for a in axis], [int(v) for v in deleted]]
        else:
            res["vot"] = r
    if flags & F_ALT:
        inst = _instance(dt, alts, profile)
        names = list(inst.alternatives_name)
        r = _ilp(SPM.approx_SP_alternative_deletion_ILP, inst)
        if r[0] == 0:
            obj, status, axis, deleted = r[1]
            if axis is None or deleted is None or obj is None:
                res["alt"] = [0, None, str(status), None, None]
            else:
                res["alt"] = [0, _objective(obj), str(status), [int(a) for a in axis],
                              [int(names[int(i)]) for i in deleted]]
        else:
            res["alt"] = r
    if flags & F_DP:
        r = guarded(k_alternative_deletion, _instance(dt, alts, profile))
        if r[0] == 0:
            axis, removed = r[1]
            res["dp"] = [0, [int(a) for a in axis], [int(a) for a in removed]]
        else:
            res["dp"] = r
    return res


# ------------------------------------------------------------------------------------------------ model side
def _plan(c, r):
    """the list of (label, op, payload) oracle requests for this case"""
    dt, alts, profile, flags, mode, core, pv, pa = c["payload"]
    plan = []
    if mode == 1:
        plan.append(("ref_vot", "c12.min_vot", [alts, profile]))
        plan.append(("ref_alt", "c12.min_alt", [alts, profile]))
    else:
        for i, S in enumerate(core):
            plan.append(("core_vot%d" % i, "c12.core_vot", [S, alts, profile]))
            plan.append(("core_alt%d" % i, "c12.core_alt", [S, alts, profile]))
    if pv:
        plan.append(("pl_vot", "c12.cert_vot", [alts, profile, len(pv[1]), pv[0], pv[1]]))
    if pa:
        plan.append(("pl_alt", "c12.cert_alt", [alts, profile, len(pa[1]), pa[0], pa[1]]))
    if isinstance(r, dict):
        v = r.get("vot")
        if v and v[0] == 0 and v[1] is not None:
            plan.append(("cert_vot", "c12.cert_vot", [alts, profile, v[1][0], v[3], v[4]]))
        a = r.get("alt")
        if a and a[0] == 0 and a[1] is not None:
            plan.append(("cert_alt", "c12.cert_alt", [alts, profile, a[1][0], a[3], a[4]]))
        d = r.get("dp")
        if d and d[0] == 0:
            plan.append(("cert_dp", "c12.cert_alt", [alts, profile, len(d[2]), d[1], d[2]]))
    if flags & F_DP:
        # the mirrored dynamic programme (Model/ELPDP.v) on the same strict profile, at every size
        plan.append(("elp", "c12.elp", [alts, [[c[0] for c in o] for o in profile]]))
    if dt == 0 and flags & (F_DP | F_ALT):
        # exact alternative-deletion optimum of a strict profile at every size (fast_min_alt_correct)
        plan.append(("fast_alt", "c12.fast_min_alt", [alts, [[c[0] for c in o] for o in profile]]))
    return plan


def _opt_oracle_requests(c, r):
    return [(op, pl) for _, op, pl in _plan(c, r)]


def _model(c, r, mres):
    return {lab: m for (lab, _, _), m in zip(_plan(c, r), mres)}


def _cores(M, core):
    """best lower bound over the cores (opt_restrict_mono holds for each of them)"""
    M["core_vot"] = max([M["core_vot%d" % i] for i in range(len(core))] + [0])
    M["core_alt"] = max([M["core_alt%d" % i] for i in range(len(core))] + [0])


def _mm(thm, msg):
    return {"kind": "mismatch", "theorem": thm, "reason": msg}


def _opt_judge(c, r, mres):
    dt, alts, profile, flags, mode, core, pv, pa = c["payload"]
    M = _model(c, r, mres)
    if len(M) != len(mres):
        return {"kind": "broken-correspondence", "reason": "request plan and answers differ in length"}
    _cores(M, core)
    # bounds the model gives for the two optima
    lo_v, hi_v = (M["ref_vot"], M["ref_vot"]) if mode == 1 else (M["core_vot"], None)
    lo_a, hi_a = (M["ref_alt"], M["ref_alt"]) if mode == 1 else (M["core_alt"], None)
    exact_a = "fast_alt" in M
    if exact_a:
        if mode == 1 and M["fast_alt"] != M["ref_alt"]:
            return {"kind": "broken-correspondence", "reason": "model: fast_min_alt %r differs from min_alt_del %r "
                                                               "(fast_min_alt_correct)" % (M["fast_alt"], M["ref_alt"])}
        if M["fast_alt"] < lo_a:
            return {"kind": "broken-correspondence", "reason": "model: fast_min_alt below the core lower bound (opt_restrict_mono)"}
        lo_a = hi_a = M["fast_alt"]
    if pv:
        if M["pl_vot"] != 1:
            return {"kind": "broken-correspondence", "reason": "planted voter certificate rejected by the model"}
        if hi_v is not None and hi_v > len(pv[1]):
            return {"kind": "broken-correspondence", "reason": "reference min_vot above a valid certificate (cert_valid_bound)"}
        hi_v = len(pv[1]) if hi_v is None else hi_v
    if pa:
        if M["pl_alt"] != 1:
            return {"kind": "broken-correspondence", "reason": "planted alternative certificate rejected by the model"}
        if hi_a is not None and hi_a > len(pa[1]):
            return {"kind": "broken-correspondence", "reason": "reference min_alt above a valid certificate (cert_valid_bound)"}
        hi_a = len(pa[1]) if hi_a is None else hi_a

    def check_ilp(key, fn, lo, hi, what, certlab, thm_min, thm_cert):
        v = r.get(key)
        if v is None:
            return "%s: no result" % fn
        if v[0] != 0:
            return {"kind": "exception", "reason": "%s raised (code %r)" % (fn, v[1:])}
        if v[1] is None:
            return _mm(thm_min, "%s found no solution (status %s) although deleting every %s is feasible" % (fn, v[2], what))
        (k, integral), status, axis, deleted = v[1], v[2], v[3], v[4]
        if status not in ("OPTIMAL", "FEASIBLE"):
            return _mm(thm_min, "%s status %s" % (fn, status))
        if not integral:
            return _mm(thm_min, "%s objective value is not an integer" % fn)
        if len(deleted) != k:
            return _mm(thm_cert, "%s: objective %d but %d deleted %ss %r" % (fn, k, len(deleted), what, deleted))
        if (mode == 1 or (what == "alternative" and exact_a)) and k < lo:
            return _mm(thm_min, "%s reports optimum %d (deleted %r), but no set of %d %ss suffices: the verified "
                                "reference optimum is %d" % (fn, k, deleted, k, what, lo))
        if M.get(certlab) != 1:
            return _mm(thm_cert, "%s: certificate (axis %r, deleted %r, k=%d) rejected by the verified checker"
                       % (fn, axis, deleted, k))
        if k < lo:
            # cannot happen with an accepted certificate unless the model is inconsistent
            return {"kind": "broken-correspondence", "reason": "%s: accepted certificate of size %d below the model's lower bound %d" % (fn, k, lo)}
        if hi is not None and k > hi:
            return _mm(thm_min, "%s reports %d, but %d %ss suffice (%s)" % (
                fn, k, hi, what, "verified reference optimum" if (mode == 1 or (what == "alternative" and exact_a))
                else "planted certificate accepted by the verified checker"))
        return None

    if flags & F_VOT:
        j = check_ilp("vot", "approx_SP_voter_deletion_ILP", lo_v, hi_v, "voter", "cert_vot",
                      "min_vot_del_correct", "cert_vot_correct")
        if j:
            return j
    if flags & F_ALT:
        j = check_ilp("alt", "approx_SP_alternative_deletion_ILP", lo_a, hi_a, "alternative", "cert_alt",
                      "min_alt_del_correct", "cert_alt_correct")
        if j:
            return j
    if flags & F_DP:
        d = r.get("dp")
        if d is None:
            return "k_alternative_deletion: no result"
        if d[0] != 0:
            return {"kind": "exception", "reason": "k_alternative_deletion raised (code %r)" % (d[1:],)}
        axis, removed = d[1], d[2]
        if (mode == 1 or exact_a) and len(removed) < lo_a:
            return _mm("min_alt_del_correct", "k_alternative_deletion removes %d alternatives %r, but no set of that size "
                       "suffices: the verified reference optimum is %d" % (len(removed), removed, lo_a))
        if M.get("cert_dp") != 1:
            return _mm("cert_alt_correct", "k_alternative_deletion: (axis %r, removed %r) rejected by the verified checker"
                       % (axis, removed))
        if len(removed) < lo_a:
            return {"kind": "broken-correspondence", "reason": "k_alternative_deletion: accepted certificate below the model's lower bound"}
        if hi_a is not None and len(removed) > hi_a:
            return _mm("min_alt_del_correct", "k_alternative_deletion removes %d alternatives, but %d suffice (%s)" % (
                len(removed), hi_a, "verified reference optimum" if (mode == 1 or exact_a) else "planted certificate"))
        m_axis, m_removed = M["elp"]
        if len(m_removed) != len(removed):
            return _mm("elp_sound / min_alt_del_correct", "k_alternative_deletion removes %d alternatives %r, the mirrored "
                       "dynamic programme (Model/ELPDP.v) removes %d %r" % (len(removed), removed, len(m_removed), m_removed))
        if (flags & F_ALT) and r["alt"][1][0] != len(removed):
            return _mm("min_alt_del_correct", "alternative-deletion ILP (%d) and dynamic programme (%d) disagree on a strict profile"
                       % (r["alt"][1][0], len(removed)))
    return None


def _opt_nontrivial(c, r, mres):
    M = _model(c, r, mres)
    if c["payload"][4] == 1:
        return M["ref_vot"] >= 1 or M["ref_alt"] >= 1
    vals = []
    if isinstance(r, dict):
        for k in ("vot", "alt"):
            if r.get(k) and r[k][0] == 0 and r[k][1]:
                vals.append(r[k][1][0])
        if r.get("dp") and r["dp"][0] == 0:
            vals.append(len(r["dp"][2]))
    return any(v >= 1 for v in vals)


def _bucket(k):
    return "0" if k == 0 else ("1" if k == 1 else ">=2")


def _opt_stats(c, r, mres):
    dt, alts, profile, flags, mode = c["payload"][:5]
    M = _model(c, r, mres)
    _cores(M, c["payload"][5])
    lab = ["%s %s m=%d" % ("small" if mode == 1 else "large", DT[dt], len(alts)),
           "family %s" % c.get("tags", {}).get("family", "?"), "n=%d" % len(profile)]
    if mode == 1:
        lab.append("reference min_vot %s" % _bucket(M["ref_vot"]))
        lab.append("reference min_alt %s" % _bucket(M["ref_alt"]))
    else:
        lab.append("core lower bound vot %s" % _bucket(M["core_vot"]))
        lab.append("core lower bound alt %s" % _bucket(M["core_alt"]))
    if isinstance(r, dict):
        if r.get("vot") and r["vot"][0] == 0 and r["vot"][1]:
            lab += ["call voter ILP", "voter ILP %s opt %s" % (DT[dt], _bucket(r["vot"][1][0]))]
        if r.get("alt") and r["alt"][0] == 0 and r["alt"][1]:
            lab += ["call alternative ILP", "alternative ILP %s opt %s" % (DT[dt], _bucket(r["alt"][1][0]))]
        if r.get("dp") and r["dp"][0] == 0:
            lab += ["call k_alternative_deletion", "k_alternative_deletion opt %s" % _bucket(len(r["dp"][2]))]
            if "elp" in M:
                same = (M["elp"][0] == r["dp"][1] and M["elp"][1] == r["dp"][2])
                lab.append("mirror ELP: (axis, removed) %s" % ("identical" if same else "same size, different certificate"))
                lab.append("mirror ELP m=%d" % len(alts))
            if "fast_alt" in M:
                lab.append("exact optimum (fast_min_alt) compared, m=%d" % len(alts))
                lab.append("exact optimum %s" % _bucket(M["fast_alt"]))
    if any(len(o[0]) >= 2 for o in profile):
        lab.append("has tied top")
    return lab


def _opt_describe(c):
    dt, alts, profile, flags, mode, core, pv, pa = c["payload"]
    return {"op": c["op"], "data_type": DT[dt], "alternatives": alts, "orders": profile,
            "functions": [n for b, n in ((1, "approx_SP_voter_deletion_ILP"), (2, "approx_SP_alternative_deletion_ILP"),
                                         (4, "k_alternative_deletion")) if flags & b],
            "mode": "reference" if mode == 1 else "certificates + bounds", "core": core,
            "planted_voter_certificate": pv, "planted_alternative_certificate": pa}


def _opt_shrink(c):
    dt, alts, profile, flags, mode, core, pv, pa = c["payload"]

    def rebuild(na, np_):
        if not np_ or not na:
            return None
        nd = 0 if is_strict(np_) else 2
        fl = flags if nd == 0 else flags & ~F_DP
        if fl == 0:
            return None
        small = len(na) <= 7 and len(np_) <= 6
        return dict(c, payload=[nd, na, np_, fl, 1 if small else 0, [] if small else [[a for a in S if a in na] for S in core], [], []])

    if len(profile) > 1:
        for i in range(len(profile)):
            x = rebuild(alts, profile[:i] + profile[i + 1:])
            if x:
                yield x
    if len(alts) > 2:
        for a in alts:
            na = [x for x in alts if x != a]
            np_ = []
            for o in profile:
                o2 = [[x for x in cl if x != a] for cl in o]
                o2 = [cl for cl in o2 if cl]
                if o2 and canon_classes(o2) not in [canon_classes(q) for q in np_]:
                    np_.append(o2)
            x = rebuild(na, np_)
            if x:
                yield x
    # one function at a time
    for b in (F_VOT, F_ALT, F_DP):
        if flags & b and flags != b:
            yield dict(c, payload=[dt, alts, profile, b, mode, core, pv, pa])


# ================================================================================================ c12.enc
class _StopBeforeSolve(Exception):
    pass


def _capture(fn, inst):
    """run fn(inst) with mip.Model wrapped in the namespace of singlepeakedness.py; return the model object the function
    built, stopped at its first optimize() call"""
    import mip
    from preflibtools.properties.subdomains.ordinal.singlepeaked import singlepeakedness as SPM
    got = []

    class CapModel(mip.Model):
        def __init__(self, *a, **kw):
            super().__init__(*a, **kw)
            got.append(self)

        def optimize(self, *a, **kw):
            raise _StopBeforeSolve()

    import gc
    old = SPM.Model
    SPM.Model = CapModel
    gc.collect()
    gc.disable()                      # see _ilp
    try:
        try:
            fn(inst)
        except _StopBeforeSolve:
            pass
    finally:
        SPM.Model = old
        gc.enable()
    if len(got) != 1:
        raise RuntimeError("expected exactly one mip.Model, got %d" % len(got))
    return got[0]


def _varkey(name):
    parts = name.split("_")
    head, idx = parts[0], [int(x) for x in parts[1:]]
    code = {"leftof": 0, "pos": 1, "delVoter": 2, "delAlt": 3}[head]
    if len(idx) != (2 if code == 0 else 1):
        raise ValueError("variable name " + name)
    return [code] + idx


def _int2(x, what):
    """2*x as an int (x a float read from python-mip); anything else is reported"""
    from fractions import Fraction
    q = 2 * Fraction(x)
    if q.denominator != 1:
        raise ValueError("%s = %r is not a multiple of 1/2" % (what, x))
    return int(q)


def _canon_terms(pairs):
    acc = {}
    for key, w in pairs:
        k = tuple(key)
        acc[k] = acc.get(k, 0) + w
    return sorted([list(k), w] for k, w in acc.items() if w != 0)


def _canon_impl_model(m):
    from fractions import Fraction
    vs = []
    for v in m.vars:
        if v.var_type not in ("B", "I"):
            raise ValueError("variable %s is not integral (type %s)" % (v.name, v.var_type))
        lb, ub = Fraction(v.lb), Fraction(v.ub)
        if lb.denominator != 1 or ub.denominator != 1:
            raise ValueError("bounds of %s" % v.name)
        vs.append([_varkey(v.name), int(lb), int(ub)])
    cs = []
    sense = {"<": 0, ">": 1, "=": 2}
    for c in m.constrs:
        e = c.expr
        terms = _canon_terms((_varkey(k.name), _int2(w, "coefficient")) for k, w in e.expr.items())
        cs.append([terms, sense[e.sense], -_int2(e.const, "constant")])
    o = m.objective
    from fractions import Fraction as F
    obj = _canon_terms((_varkey(k.name), int(F(w)) if F(w).denominator == 1 else F(w)) for k, w in o.expr.items())
    return {"vars": sorted(vs), "cstrs": sorted(cs), "obj": obj, "obj_const": float(o.const), "sense": str(m.sense)}


def _enc_impl(c):
    from preflibtools.properties.subdomains.ordinal.singlepeaked import singlepeakedness as SPM
    kind, dt, alts, profile = c["payload"]
    fn = {0: SPM.is_single_peaked_ILP, 1: SPM.approx_SP_voter_deletion_ILP, 2: SPM.approx_SP_alternative_deletion_ILP}[kind]
    m = _capture(fn, _instance(dt, alts, profile))
    return _canon_impl_model(m)


def _canon_model_answer(ans):
    vds, cstrs, obj = ans
    vs = sorted([list(v), lb, ub] for v, lb, ub in vds)
    cs = sorted([_canon_terms((v, w) for w, v in terms), rel, rhs] for terms, rel, rhs in cstrs)
    return {"vars": vs, "cstrs": cs, "obj": _canon_terms((v, w) for w, v in obj)}


def _multiset_diff(a, b):
    """elements of a not matched in b (multiset difference), a and b sorted lists"""
    from collections import Counter
    ca = Counter(repr(x) for x in a)
    cb = Counter(repr(x) for x in b)
    return list((ca - cb).elements())


def _enc_judge(c, r, mres):
    """A difference means that the encoding theorems (about the mirrored model) no longer speak about the model the code
    builds: kind broken-correspondence (DESIGN 4: concrete failures found by the c12.opt campaign of the same run are
    reported first; otherwise `no-failing-input-found`)."""
    kind = c["payload"][0]
    fn = KIND[kind]
    M = _canon_model_answer(mres[0])
    thm = {0: "ilp_sp_sound / ilp_sp_complete", 1: "ilp_votdel_sound / ilp_votdel_complete / ilp_votdel_optimum",
           2: "ilp_altdel_sound / ilp_altdel_complete / ilp_altdel_optimum"}[kind]

    def bc(msg):
        return {"kind": "broken-correspondence", "theorem": thm,
                "reason": "the ILP built by %s differs from the mirrored model of Model/ILPEnc.v (%s no longer apply "
                          "to the code): %s" % (fn, thm, msg)}
    if r["sense"] != "MIN":
        return bc("optimisation sense %s" % r["sense"])
    if r["vars"] != M["vars"]:
        return bc("variables / bounds: only in the implementation %s, only in the mirror %s"
                  % (_multiset_diff(r["vars"], M["vars"])[:4], _multiset_diff(M["vars"], r["vars"])[:4]))
    if r["cstrs"] != M["cstrs"]:
        return bc("constraint multisets (coefficients x2; var codes 0 leftof, 1 pos, 2 delVoter, 3 delAlt): only in "
                  "the implementation %s, only in the mirror %s"
                  % (_multiset_diff(r["cstrs"], M["cstrs"])[:4], _multiset_diff(M["cstrs"], r["cstrs"])[:4]))
    if r["obj"] != M["obj"] or r["obj_const"] != 0.0:
        return bc("objective %r (+%r), mirror %r" % (r["obj"], r["obj_const"], M["obj"]))
    return None


def _enc_stats(c, r, mres):
    kind, dt, alts, profile = c["payload"]
    n = len(r["cstrs"]) if isinstance(r, dict) and "cstrs" in r else -1
    b = "0-49" if n < 50 else ("50-199" if n < 200 else ("200-999" if n < 1000 else ">=1000"))
    return ["enc %s" % KIND[kind], "enc %s m=%d" % (DT[dt], len(alts)), "enc constraints %s" % b]


def _enc_describe(c):
    kind, dt, alts, profile = c["payload"]
    return {"op": c["op"], "function": KIND[kind], "data_type": DT[dt], "alternatives": alts, "orders": profile,
            "compared": "variables, constraint multiset, objective of the python-mip model (not solved)"}


def _enc_shrink(c):
    kind, dt, alts, profile = c["payload"]
    if len(profile) > 1:
        for i in range(len(profile)):
            np_ = profile[:i] + profile[i + 1:]
            yield dict(c, payload=[kind, 0 if is_strict(np_) else 2, alts, np_])
    if len(alts) > 1:
        for a in alts:
            na = [x for x in alts if x != a]
            np_ = []
            for o in profile:
                o2 = [[x for x in cl if x != a] for cl in o]
                o2 = [cl for cl in o2 if cl]
                if o2 and canon_classes(o2) not in [canon_classes(q) for q in np_]:
                    np_.append(o2)
            if np_:
                yield dict(c, payload=[kind, 0 if is_strict(np_) else 2, na, np_])



# ================================================================================================ c12.hist
# Histories on ONE instance object (round-5 lessons: purity, aliasing of results, object lifetime, storage order,
# foreign number types, maintenance API).  payload [dt, alts, profile, script, variant, pre]
#   script   list of function bits (1 voter ILP, 2 alternative ILP, 4 dynamic programme) called in that order on the SAME
#            instance; every answer is judged against the model of the ORIGINAL profile (reference optimum + certificate)
#   variant  bit 1: instance.orders reversed w.r.t. the key order of instance.multiplicity
#            bit 2: multiplicity dict rebuilt in another key order      (alternatives_name is in the order of `alts`,
#            bit 4: alternatives are numpy.int64                          which the generator does not sort)
#            bit 8: recompute_cardinality_param(), flatten_strict(), full_profile() before the first call
#            bit 16: the same maintenance calls between the calls, their results poisoned in place
#   pre      [] or [dt0, alts0, profile0, script0]: another instance (other size, overlapping ids, usually already
#            single-peaked or a single vote) is built and asked FIRST in the same worker call (mutable defaults,
#            module-level tables); its answers are judged as well.
# After every call: common.snapshot / snap_diff of the instance, the returned axis / deleted list are copied and then
# POISONED in place (junk appended, reversed, cleared).  For strict profiles the helper functions of the dynamic
# programme are also called with lists of votes, which must be unchanged for the caller.
FN_KEY = {F_VOT: "vot", F_ALT: "alt", F_DP: "dp"}


def _build_variant(dt, alts, profile, variant):
    import numpy as np
    conv = (lambda a: np.int64(a)) if variant & 4 else (lambda a: a)
    prof = [[[conv(a) for a in cl] for cl in o] for o in profile]
    inst = ordinal_instance([(o, 1) for o in prof], data_type=DT[dt], alts=[conv(a) for a in alts])
    if variant & 1:
        inst.orders.reverse()
    if variant & 2 and len(inst.multiplicity) > 1:
        items = list(inst.multiplicity.items())
        items = items[1:] + items[:1]
        inst.multiplicity.clear()
        inst.multiplicity.update(items)
    return inst


def _poison(obj):
    """damage a returned list in place"""
    try:
        if isinstance(obj, list):
            obj.append(987654321)
            obj.reverse()
            if len(obj) > 2:
                del obj[1]
    except Exception:
        pass


def _maintenance(inst, dt, problems, where):
    from .common import snapshot, snap_diff
    before = snapshot(inst)
    inst.recompute_cardinality_param()
    views = []
    if dt == 0:
        views.append(inst.flatten_strict())
    views.append(inst.full_profile())
    d = snap_diff(before, snapshot(inst))
    if d:
        problems.append("maintenance calls %s changed the instance: %s" % (where, d))
    for v in views:
        _poison(v)
    d = snap_diff(before, snapshot(inst))
    if d:
        problems.append("a list returned by flatten_strict()/full_profile() %s aliases the instance: %s" % (where, d))


def _call_one(bit, inst, dt, problems, tag, profile=None):
    """one call on inst: [answer in the format of _opt_impl, or None] ; snapshot comparison ; poisoning.
    Deleted voters are positions in instance.orders: they are mapped back to positions in `profile` (the variants
    reorder instance.orders)."""
    from .common import snapshot, snap_diff
    from preflibtools.properties.subdomains.ordinal.singlepeaked import singlepeakedness as SPM
    from preflibtools.properties.subdomains.ordinal.singlepeaked.k_alternative_deletion import k_alternative_deletion
    before = snapshot(inst)
    names = list(inst.alternatives_name)
    if bit == F_VOT:
        r = _ilp(SPM.approx_SP_voter_deletion_ILP, inst)
    elif bit == F_ALT:
        r = _ilp(SPM.approx_SP_alternative_deletion_ILP, inst)
    else:
        r = guarded(k_alternative_deletion, inst)
    d = snap_diff(before, snapshot(inst))
    if d:
        problems.append("%s %s modified the instance it was asked about: %s" % (FN_KEY[bit], tag, d))
    if r[0] != 0:
        return r
    if bit == F_DP:
        axis, removed = r[1]
        ans = [0, [int(a) for a in axis], [int(a) for a in removed]]
        _poison(axis)
        _poison(removed)
    else:
        obj, status, axis, deleted = r[1]
        if axis is None or deleted is None or obj is None:
            return [0, None, str(status), None, None]
        if bit == F_VOT:
            keys = [tuple(tuple(int(a) for a in cl) for cl in o) for o in profile]
            pos = [keys.index(tuple(tuple(int(a) for a in cl) for cl in o)) for o in inst.orders]
            dl = [pos[int(v)] for v in deleted]
        else:
            dl = [int(names[int(i)]) for i in deleted]
        ans = [0, _objective(obj), str(status), [int(a) for a in axis], dl]
        _poison(axis)
        _poison(deleted)
    d = snap_diff(before, snapshot(inst))
    if d:
        problems.append("a list returned by %s %s aliases the instance: poisoning it changed %s" % (FN_KEY[bit], tag, d))
    return ans


def _helpers_keep_arguments(inst, alts, profile, problems):
    """the helpers of the dynamic programme take lists of votes / alternatives: they must not modify them"""
    import copy
    import importlib
    K = importlib.import_module("preflibtools.properties.subdomains.ordinal.singlepeaked.k_alternative_deletion")
    votes = [[c[0] for c in o] for o in profile]
    a_l, v_l = list(alts), [list(v) for v in votes]
    a_0, v_0 = copy.deepcopy(a_l), copy.deepcopy(v_l)

    def chk(what):
        if a_l != a_0 or v_l != v_0:
            problems.append("%s modified the list of alternatives / votes of its caller" % what)

    L = K.get_L_sets(a_l, v_l)
    chk("get_L_sets")
    L0 = copy.deepcopy(L)
    m = len(a_l)
    X = K.eligible_alternatives(1, m, frozenset(), L, v_l)
    chk("eligible_alternatives")
    if L != L0:
        problems.append("eligible_alternatives modified the L sets")
    x = next(iter(L[1])) if L.get(1) else a_l[0]
    K.last_check(v_l, [], [x, x])
    chk("last_check")
    ax = [None]
    K.place(ax, frozenset([x]), v_l)
    chk("place")
    if ax != [None]:
        problems.append("place modified the axis of its caller")
    res = K.longest_single_peaked_axis(inst, a_l)
    chk("longest_single_peaked_axis")
    _poison(res[0])
    _poison(res[1])
    chk("poisoning the result of longest_single_peaked_axis")


def _hist_impl(c):
    dt, alts, profile, script, variant, pre = c["payload"]
    problems, answers = [], []
    if pre:
        dt0, alts0, prof0, script0 = pre
        inst0 = _build_variant(dt0, alts0, prof0, 0)
        for bit in script0:
            answers.append([0, bit, _call_one(bit, inst0, dt0, problems, "(earlier instance)", prof0)])
    inst = _build_variant(dt, alts, profile, variant)
    if variant & 8:
        _maintenance(inst, dt, problems, "before the first call")
    if dt == 0 and F_DP in script:
        _helpers_keep_arguments(inst, alts, profile, problems)
    for i, bit in enumerate(script):
        answers.append([1, bit, _call_one(bit, inst, dt, problems, "(call %d of the history)" % (i + 1), profile)])
        if variant & 16:
            _maintenance(inst, dt, problems, "after call %d" % (i + 1))
    return {"answers": answers, "problems": problems}


def _hist_subcases(c, r):
    dt, alts, profile, script, variant, pre = c["payload"]
    out = []
    for which, bit, ans in r["answers"]:
        d, a, p = (pre[0], pre[1], pre[2]) if which == 0 else (dt, alts, profile)
        sub = case("c12.opt", [d, a, p, bit, 1, [], [], []])
        out.append((sub, {FN_KEY[bit]: ans}))
    return out


def _hist_oracle_requests(c, r):
    if not isinstance(r, dict) or "answers" not in r:
        return []
    reqs = []
    for sub, rr in _hist_subcases(c, r):
        reqs.extend(_opt_oracle_requests(sub, rr))
    return reqs


def _hist_judge(c, r, mres):
    if r["problems"]:
        return {"kind": "mismatch", "theorem": "purity (the functions are functions of the profile)",
                "reason": "; ".join(r["problems"][:3])}
    pos = 0
    for i, (sub, rr) in enumerate(_hist_subcases(c, r)):
        n = len(_opt_oracle_requests(sub, rr))
        j = _opt_judge(sub, rr, mres[pos:pos + n])
        pos += n
        if j:
            j = j if isinstance(j, dict) else {"kind": "mismatch", "reason": str(j)}
            j["reason"] = "answer %d of the history (%s on the %s): %s" % (
                i + 1, list(rr)[0], "earlier instance" if r["answers"][i][0] == 0 else "instance under test", j.get("reason"))
            return j
    return None


def _hist_stats(c, r, mres):
    dt, alts, profile, script, variant, pre = c["payload"]
    lab = ["history %s m=%d" % (DT[dt], len(alts)), "history calls %d" % len(script)]
    lab += ["history variant bit %d" % b for b in (1, 2, 4, 8, 16) if variant & b]
    if pre:
        lab.append("history with an earlier instance")
    lab += ["history call %s" % FN_KEY[b] for b in script]
    return lab


def _hist_describe(c):
    dt, alts, profile, script, variant, pre = c["payload"]
    return {"op": c["op"], "data_type": DT[dt], "alternatives": alts, "orders": profile,
            "calls on one instance": [FN_KEY[b] for b in script], "variant bits": variant, "earlier instance": pre}


def _hist_shrink(c):
    dt, alts, profile, script, variant, pre = c["payload"]
    if pre:
        yield dict(c, payload=[dt, alts, profile, script, variant, []])
    for b in (1, 2, 4, 8, 16):
        if variant & b:
            yield dict(c, payload=[dt, alts, profile, script, variant & ~b, pre])
    if len(script) > 1:
        for i in range(len(script)):
            yield dict(c, payload=[dt, alts, profile, script[:i] + script[i + 1:], variant, pre])
    if len(profile) > 1:
        for i in range(len(profile)):
            np_ = profile[:i] + profile[i + 1:]
            nd = 0 if is_strict(np_) else 2
            sc = [b for b in script if nd == 0 or b != F_DP]
            if sc:
                yield dict(c, payload=[nd, alts, np_, sc, variant, pre])


# ================================================================================================ dispatch
def impl(c):
    if c["op"] == "c12.hist":
        return _hist_impl(c)
    return _enc_impl(c) if c["op"] == "c12.enc" else _opt_impl(c)


def oracle_requests(c, r):
    if c["op"] == "c12.enc":
        kind, dt, alts, profile = c["payload"]
        return [("c12.ilp_constraints", [kind, alts, profile])]
    if c["op"] == "c12.hist":
        return _hist_oracle_requests(c, r)
    return _opt_oracle_requests(c, r)


def judge(c, r, mres):
    if c["op"] == "c12.hist":
        return _hist_judge(c, r, mres)
    return _enc_judge(c, r, mres) if c["op"] == "c12.enc" else _opt_judge(c, r, mres)


def nontrivial(c, r, mres):
    if c["op"] == "c12.enc":
        return len(c["payload"][2]) >= 3 and isinstance(r, dict) and len(r.get("cstrs", [])) > 0
    if c["op"] == "c12.hist":
        return len(c["payload"][3]) >= 2
    return _opt_nontrivial(c, r, mres)


def stats(c, r, mres):
    if c["op"] == "c12.hist":
        return _hist_stats(c, r, mres)
    return _enc_stats(c, r, mres) if c["op"] == "c12.enc" else _opt_stats(c, r, mres)


def describe(c):
    if c["op"] == "c12.hist":
        return _hist_describe(c)
    return _enc_describe(c) if c["op"] == "c12.enc" else _opt_describe(c)


def shrink(c):
    if c["op"] == "c12.hist":
        return _hist_shrink(c)
    return _enc_shrink(c) if c["op"] == "c12.enc" else _opt_shrink(c)
