(* Ops/C04.v — protocol entry points for property C04 (single-crossing). *)
From Coq Require Import List NArith String.
From PrefVerif Require Import Lib.Val Model.SC Model.SCAlgo.
Import ListNotations.
Open Scope string_scope.

Definition d_order (v : val) : list N := dlist dN v.
Definition d_orders (v : val) : list (list N) := dlist d_order v.

(* c04.decide (alts orders) -> bool : brute-force reference (n <= 7) *)
Definition op_decide (v : val) : val :=
  ebool (sc_decide (d_order (dnth 0 v)) (d_orders (dnth 1 v))).
(* c04.cdecide (alts orders) -> bool : polynomial reference (nested conflict sets) *)
Definition op_cdecide (v : val) : val :=
  ebool (sc_conflict_decide (d_order (dnth 0 v)) (d_orders (dnth 1 v))).
(* c04.check (alts orders sequence) -> bool : verified witness checker *)
Definition op_check (v : val) : val :=
  ebool (sc_witness_check (d_order (dnth 0 v)) (d_orders (dnth 1 v)) (d_orders (dnth 2 v))).
(* c04.seqcheck (alts sequence) -> bool *)
Definition op_seqcheck (v : val) : val :=
  ebool (sc_seq_check (d_order (dnth 0 v)) (d_orders (dnth 1 v))).
(* c04.core (alts orders S mask) -> bool : true = refuted by the embedded core (hence not SC) *)
Definition op_core (v : val) : val :=
  ebool (sc_core_refutes (d_order (dnth 0 v)) (d_orders (dnth 1 v)) (d_order (dnth 2 v))
                         (dlist dbool (dnth 3 v))).

(* c04.ordered (sequence) -> bool : mirror of _is_ordered_profile_single_crossing (Kendall-tau additivity) *)
Definition op_ordered (v : val) : val := ebool (ordered_check (d_orders (dnth 0 v))).

(* c04.algo (alts orders) -> (0 (seq)) | (0 ()) | (1 5) : mirror of is_single_crossing
   (True, seq) / (False, None) / IndexError *)
Definition op_algo (v : val) : val :=
  eresult (eoption (elist (elist eN))) (sc_algo (d_order (dnth 0 v)) (d_orders (dnth 1 v))).

(* c04.csalgo (orders) -> bool : literal mirror of is_single_crossing_conflict_sets *)
Definition op_csalgo (v : val) : val := ebool (conflict_sets_algo (d_orders (dnth 0 v))).

Definition ops : optable :=
  [ ("c04.decide", op_decide); ("c04.cdecide", op_cdecide); ("c04.check", op_check);
    ("c04.seqcheck", op_seqcheck); ("c04.core", op_core); ("c04.ordered", op_ordered);
    ("c04.algo", op_algo); ("c04.csalgo", op_csalgo) ].
