(* Ops/C19.v — protocol entry points for property C19 (1-Euclidean). *)
From Coq Require Import List NArith ZArith QArith String.
From PrefVerif Require Import Lib.Val Model.Euclid Model.EuclidLP Model.EuclidAlgo.
Import ListNotations.
Open Scope string_scope.

Definition d_order (v : val) : list N := dlist dN v.
Definition d_orders (v : val) : list (list N) := dlist d_order v.
(* (num den), den > 0 (Z.to_pos maps anything else to 1) *)
Definition d_Q2 (n d : val) : Q := Qmake (dZ n) (Z.to_pos (dZ d)).
Definition d_Q (v : val) : Q := d_Q2 (dnth 0 v) (dnth 1 v).
(* (alt num den) *)
Definition d_apos (v : val) : N * Q := (dN (dnth 0 v), d_Q2 (dnth 1 v) (dnth 2 v)).

(* c19.check (alts profile ((num den) ...) ((alt num den) ...)) -> bool : verified witness checker *)
Definition op_check (v : val) : val :=
  ebool (eucl_check (d_order (dnth 0 v)) (d_orders (dnth 1 v)) (dlist d_Q (dnth 2 v)) (dlist d_apos (dnth 3 v))).
(* c19.refuted (alts profile) -> bool : true = not single-peaked or not single-crossing, hence not 1-Euclidean *)
Definition op_refuted (v : val) : val :=
  ebool (eucl_refuted (d_order (dnth 0 v)) (d_orders (dnth 1 v))).
Definition op_refuted_fast (v : val) : val :=
  ebool (eucl_refuted_fast (d_order (dnth 0 v)) (d_orders (dnth 1 v))).

(* c19.decide (alts profile) -> bool : exact reference decider (Fourier-Motzkin over Q; small profiles) *)
Definition op_decide (v : val) : val :=
  ebool (eucl_decide (d_order (dnth 0 v)) (d_orders (dnth 1 v))).

(* c19.algo (alts orders) -> result: the mirror of is_one_euclidean with the exact LP instance;
   (0 (voters alternatives)) with voters = ((num den) ...), alternatives = ((alt num den) ...); (0 ()) = False; (1 code) *)
Definition e_Q (q : Q) : val := VL [VI (Qnum q); VI (Zpos (Qden q))].
Definition e_apos (cq : N * Q) : val := VL [eN (fst cq); VI (Qnum (snd cq)); VI (Zpos (Qden (snd cq)))].
Definition op_algo (v : val) : val :=
  eresult (eoption (fun r : list Q * list (N * Q) => VL [elist e_Q (fst r); elist e_apos (snd r)]))
          (eucl_algo_exact (d_order (dnth 0 v)) (d_orders (dnth 1 v))).

Definition ops : optable :=
  [ ("c19.check", op_check); ("c19.refuted", op_refuted); ("c19.refuted_fast", op_refuted_fast);
    ("c19.decide", op_decide); ("c19.algo", op_algo) ].
