(* Properties/C15.v — results do not depend on alternative labels or on ballot storage order.
   Statements only; every proof is `exact <lemma>` (a lemma of the owner's proof file where the owner of the model
   had already proved the invariance, a lemma of Proofs/Relabel.v otherwise).

   Vocabulary (Model/Relabel.v).  f : N -> N is the renaming, `injective f` its only hypothesis.
     map_alts f alts, map_rankings f rs (flat strict rankings / approval ballots / axes), map_order f o and
     map_profile f p (orders as lists of indifference classes), map_mult f p (multiplicity.items()),
     map_edges f T (tree edges), map_keys f t (tables keyed by alternatives), map_table f t (dict of dicts),
     relabel_inst f i / relabel_pw_inst f i (the instance records of the scoring / pairwise mirror models).
   "Storage order" = Permutation of the ballot list (profile, instance.orders, instance.preferences, matrix rows) and
   of the alternative list (alternatives_name); "regrouping" = another multiplicity table with the same expanded
   multiset of voters (Permutation (expand p) (expand p')).

   Clauses of the property and where they are:
     (1) verdicts of the exact recognisers: single-peaked (strict sp_decide and the three (R)-models; weak spw_decide),
         the mirrored axis test and 0/1 matrix, single-crossing (sc_decide, sc_conflict_decide, and the MIRROR of
         is_single_crossing sc_algo_verdict), single-peaked on a tree (spt_decide and the MIRROR of Trick's algorithm
         for every admissible set-iteration choice), the eight approval domains, consecutive ones (rows and columns of the matrix), 1-Euclidean
         (specification, refutation test, checker);
     (2) optima: min_alt_del, min_vot_del, min_partition;
     (3) winner sets of all nine single-winner rules and the three score tables are mapped through f — proved as an
         EXACT equality of the mirror models' outputs (same lists, same iteration order) for EVERY instance, and restated
         as set equality; has_condorcet invariant; regrouping (owners' *_regroup theorems);
     (4) witnesses: a witness accepted on the original input is accepted, renamed, on the renamed input.

   Round 3 additions: eucl_decide (exact reference) under reordering / renaming as a boolean identity; the mirrors of
   is_one_euclidean (every sound + complete LP oracle, and the extracted exact one), of k_alternative_deletion (optimum,
   every admissible enumeration order) and of k_alternative_partition_brut_force (found / number of axes, every
   set-iteration order) under reordering and renaming; is_part under reordering of the ballots.

   NOT PROVED (stated nowhere below):
     - is_part's output LIST under reordering of the ballots is NOT invariant (is_part_list_order_refuted): the parts
       come in order of first occurrence and each part lists its members as the first ballot with that approval set
       does.  What is true and proved: same verdict, and the same partition as a set of sets (is_part_reorder).
     - tree checker: only the direction "accepted => accepted after renaming" (what witness transport needs).
     - invariance statements for the mirrors carry the owners' well-formedness hypotheses on BOTH presentations where
       a renaming is involved (wf_profile of the renamed profile follows from injectivity; it is kept as a hypothesis
       for sc_algo / elo / eucl_algo, derived inside the proof for the DP and brute-force mirrors). *)
From Coq Require Import List Arith NArith ZArith QArith Bool Permutation Lia.
From PrefVerif Require Import Lib.Val Model.Relabel.
From PrefVerif Require Model.SP Model.SC Model.Tree Model.Deletion Model.Partition Model.Euclid Model.C1P Model.Approval
  Model.Scoring Model.Bucklin Model.Pairwise Model.SCAlgo Model.TreeAlgo.
From PrefVerif Require Model.ELO Proofs.ELO Model.ELPDP Model.PartitionAlgo Model.EuclidLP Model.EuclidAlgo
  Proofs.EuclidAlgoComplete.
From PrefVerif Require Proofs.SP Proofs.SC Proofs.Tree Proofs.Deletion Proofs.Partition Proofs.Euclid Proofs.Approval
  Proofs.Scoring Proofs.ScoringCopeland Proofs.ScoringSAV Proofs.Bucklin Proofs.Pairwise Proofs.TreeAlgo Proofs.Relabel.
Import ListNotations.
Local Close Scope Q_scope.

Definition injective (f : N -> N) : Prop := forall x y, f x = f y -> x = y.

(* ================================================================================================================ *)
(* 1. single-peakedness (C03, C11)                                                                                  *)
Theorem sp_decide_relabel : forall f, injective f -> forall alts rs,
  SP.sp_decide (map_alts f alts) (map_rankings f rs) = SP.sp_decide alts rs.
Proof. exact Proofs.SP.sp_decide_relabel. Qed.
Print Assumptions sp_decide_relabel.

Theorem sp_decide_reorder : forall alts rs rs', Permutation rs rs' -> SP.sp_decide alts rs = SP.sp_decide alts rs'.
Proof. exact Proofs.SP.sp_decide_reorder. Qed.
Print Assumptions sp_decide_reorder.

Theorem sp_decide_alts_perm : forall alts alts' rs, Permutation alts alts' -> SP.sp_decide alts rs = SP.sp_decide alts' rs.
Proof. exact (fun alts alts' rs H => Proofs.SP.spw_decide_alts_perm alts alts' (map SP.strictify rs) H). Qed.
Print Assumptions sp_decide_alts_perm.

Theorem spw_decide_relabel : forall f, injective f -> forall alts p,
  SP.spw_decide (map_alts f alts) (map_profile f p) = SP.spw_decide alts p.
Proof. exact Proofs.SP.spw_decide_relabel. Qed.
Print Assumptions spw_decide_relabel.

Theorem spw_decide_reorder : forall alts p p', Permutation p p' -> SP.spw_decide alts p = SP.spw_decide alts p'.
Proof. exact Proofs.SP.spw_decide_reorder. Qed.
Print Assumptions spw_decide_reorder.

Theorem spw_decide_alts_perm : forall alts alts' p, Permutation alts alts' -> SP.spw_decide alts p = SP.spw_decide alts' p.
Proof. exact Proofs.SP.spw_decide_alts_perm. Qed.
Print Assumptions spw_decide_alts_perm.

(* merged / repeated ballots: only the SET of distinct orders matters *)
Theorem spw_decide_set_ext : forall alts p p', (forall o, In o p <-> In o p') -> SP.spw_decide alts p = SP.spw_decide alts p'.
Proof. exact Proofs.SP.spw_decide_set_ext. Qed.
Print Assumptions spw_decide_set_ext.

(* the three recognisers as (R)-models, the mirrored axis test, the mirrored 0/1 matrix *)
Theorem elo_model_relabel : forall f, injective f -> forall d alts rs,
  SP.is_single_peaked_model d (map_alts f alts) (map_rankings f rs) = SP.is_single_peaked_model d alts rs.
Proof. exact Proofs.Relabel.elo_model_relabel. Qed.
Print Assumptions elo_model_relabel.

Theorem pq_tree_model_relabel : forall f, injective f -> forall d alts p,
  SP.is_single_peaked_pq_tree_model d (map_alts f alts) (map_profile f p) = SP.is_single_peaked_pq_tree_model d alts p.
Proof. exact Proofs.Relabel.pq_tree_model_relabel. Qed.
Print Assumptions pq_tree_model_relabel.

Theorem ilp_model_relabel : forall f, injective f -> forall d alts p,
  SP.is_single_peaked_ILP_model d (map_alts f alts) (map_profile f p) = SP.is_single_peaked_ILP_model d alts p.
Proof. exact Proofs.Relabel.ilp_model_relabel. Qed.
Print Assumptions ilp_model_relabel.

Theorem sp_matrix_relabel : forall f, injective f -> forall alts p,
  SP.sp_matrix (map_alts f alts) (map_profile f p) = SP.sp_matrix alts p.
Proof. exact Proofs.Relabel.sp_matrix_relabel. Qed.
Print Assumptions sp_matrix_relabel.

Theorem axis_test_relabel : forall f, injective f -> forall d p axis,
  SP.is_single_peaked_axis_model d (map_profile f p) (map_alts f axis) = SP.is_single_peaked_axis_model d p axis.
Proof. exact Proofs.Relabel.axis_test_relabel. Qed.
Print Assumptions axis_test_relabel.

(* the MIRROR of is_single_peaked (Escoffier-Lang-Ozturk elimination, Model/ELO.v): which orders are stored first,
   the order of alternatives_name and the labels do not show in the verdict *)
Theorem elo_verdict_perm : forall alts alts' prefs prefs' b ax b' ax',
  Proofs.ELO.wf_strict_profile alts prefs -> Proofs.ELO.wf_strict_profile alts' prefs' ->
  Permutation alts alts' -> Permutation prefs prefs' ->
  ELO.elo alts prefs = Ok (b, ax) -> ELO.elo alts' prefs' = Ok (b', ax') -> b = b'.
Proof. exact Proofs.Relabel.elo_verdict_perm. Qed.
Print Assumptions elo_verdict_perm.

Theorem elo_verdict_relabel : forall f alts prefs b ax b' ax', injective f ->
  Proofs.ELO.wf_strict_profile alts prefs -> Proofs.ELO.wf_strict_profile (map_alts f alts) (map_rankings f prefs) ->
  ELO.elo alts prefs = Ok (b, ax) -> ELO.elo (map_alts f alts) (map_rankings f prefs) = Ok (b', ax') -> b = b'.
Proof. exact Proofs.Relabel.elo_verdict_relabel. Qed.
Print Assumptions elo_verdict_relabel.

(* witnesses *)
Theorem sp_check_axis_relabel : forall f, injective f -> forall alts rs axis,
  SP.sp_check_axis (map_alts f alts) (map_rankings f rs) (map_alts f axis) = SP.sp_check_axis alts rs axis.
Proof. exact Proofs.Relabel.sp_check_axis_relabel. Qed.
Print Assumptions sp_check_axis_relabel.

Theorem spw_check_axis_relabel : forall f, injective f -> forall alts p axis,
  SP.spw_check_axis (map_alts f alts) (map_profile f p) (map_alts f axis) = SP.spw_check_axis alts p axis.
Proof. exact Proofs.Relabel.spw_check_axis_relabel. Qed.
Print Assumptions spw_check_axis_relabel.

(* ================================================================================================================ *)
(* 2. single-crossing (C04)                                                                                         *)
Theorem sc_decide_relabel : forall f, injective f -> forall alts orders,
  SC.sc_decide (map_alts f alts) (map_rankings f orders) = SC.sc_decide alts orders.
Proof. exact Proofs.SC.sc_decide_relabel. Qed.
Print Assumptions sc_decide_relabel.

Theorem sc_decide_perm : forall alts alts' orders orders',
  Permutation alts alts' -> Permutation orders orders' -> SC.sc_decide alts orders = SC.sc_decide alts' orders'.
Proof. exact Proofs.SC.sc_decide_perm. Qed.
Print Assumptions sc_decide_perm.

Theorem sc_conflict_decide_relabel : forall f, injective f -> forall alts orders,
  SC.sc_conflict_decide (map_alts f alts) (map_rankings f orders) = SC.sc_conflict_decide alts orders.
Proof. exact Proofs.SC.sc_conflict_decide_relabel. Qed.
Print Assumptions sc_conflict_decide_relabel.

Theorem sc_conflict_decide_perm : forall alts alts' orders orders',
  Permutation alts alts' -> Permutation orders orders' ->
  SC.sc_conflict_decide alts orders = SC.sc_conflict_decide alts' orders'.
Proof. exact Proofs.SC.sc_conflict_decide_perm. Qed.
Print Assumptions sc_conflict_decide_perm.

Theorem sc_dedup : forall alts orders, SC.SC alts (SC.dedup orders) <-> SC.SC alts orders.
Proof. exact Proofs.SC.sc_dedup. Qed.
Print Assumptions sc_dedup.

(* the MIRROR of is_single_crossing (sort by Kendall-tau score relative to the first two stored orders, buckets):
   the anchoring on orders[0], orders[1] does not show in the verdict *)
Theorem sc_algo_verdict_perm : forall alts alts' orders orders',
  SC.wf_profile alts orders -> SC.wf_profile alts' orders' ->
  Permutation alts alts' -> Permutation orders orders' ->
  SCAlgo.sc_algo_verdict alts orders = SCAlgo.sc_algo_verdict alts' orders'.
Proof. exact Proofs.Relabel.sc_algo_verdict_perm. Qed.
Print Assumptions sc_algo_verdict_perm.

Theorem sc_algo_verdict_relabel : forall f alts orders, injective f ->
  SC.wf_profile alts orders -> SC.wf_profile (map_alts f alts) (map_rankings f orders) ->
  SCAlgo.sc_algo_verdict (map_alts f alts) (map_rankings f orders) = SCAlgo.sc_algo_verdict alts orders.
Proof. exact Proofs.Relabel.sc_algo_verdict_relabel. Qed.
Print Assumptions sc_algo_verdict_relabel.

Theorem sc_witness_check_relabel : forall f, injective f -> forall alts orders s,
  SC.sc_witness_check (map_alts f alts) (map_rankings f orders) (map_rankings f s) = SC.sc_witness_check alts orders s.
Proof. exact Proofs.Relabel.sc_witness_check_relabel. Qed.
Print Assumptions sc_witness_check_relabel.

(* ================================================================================================================ *)
(* 3. single-peaked on a tree (C13)                                                                                 *)
Theorem spt_decide_relabel : forall f alts p, injective f -> NoDup alts ->
  Tree.spt_decide (map_alts f alts) (map_rankings f p) = Tree.spt_decide alts p.
Proof. exact Proofs.Tree.spt_decide_relabel. Qed.
Print Assumptions spt_decide_relabel.

Theorem spt_decide_profile_perm : forall alts p p', Permutation p p' -> Tree.spt_decide alts p = Tree.spt_decide alts p'.
Proof. exact Proofs.Tree.spt_decide_profile_perm. Qed.
Print Assumptions spt_decide_profile_perm.

Theorem spt_decide_alts_perm : forall alts alts' p, NoDup alts -> Permutation alts alts' ->
  Tree.spt_decide alts p = Tree.spt_decide alts' p.
Proof. exact Proofs.Tree.spt_decide_alts_perm. Qed.
Print Assumptions spt_decide_alts_perm.

(* the MIRROR of Trick's algorithm: the iteration order of the Python sets (enumL, pickB: any admissible choice), the
   storage order of the ballots and of the alternatives do not change the verdict *)
Theorem trick_verdict_invariant : forall alts alts' p p' enumL pickB enumL' pickB' b E b' E',
  Proofs.TreeAlgo.profile_on alts p -> Proofs.TreeAlgo.profile_on alts' p' ->
  Proofs.TreeAlgo.admissible enumL pickB -> Proofs.TreeAlgo.admissible enumL' pickB' ->
  Permutation alts alts' -> Permutation p p' ->
  TreeAlgo.trick enumL pickB alts p = Ok (b, E) -> TreeAlgo.trick enumL' pickB' alts' p' = Ok (b', E') -> b = b'.
Proof. exact Proofs.Relabel.trick_verdict_invariant. Qed.
Print Assumptions trick_verdict_invariant.

Theorem spt_check_relabel : forall f, injective f -> forall alts p T,
  Tree.spt_checkf alts p T = true -> Tree.spt_checkf (map_alts f alts) (map_rankings f p) (map_edges f T) = true.
Proof. exact Proofs.Relabel.spt_checkf_relabel. Qed.
Print Assumptions spt_check_relabel.

Theorem spt_check_edges_perm : forall alts p T T', Permutation T T' -> Tree.spt_check alts p T = Tree.spt_check alts p T'.
Proof. exact Proofs.Tree.spt_check_perm. Qed.
Print Assumptions spt_check_edges_perm.

(* ================================================================================================================ *)
(* 4. deletion optima and certificates (C12), partition optimum and witness (C18)                                   *)
Theorem min_alt_del_relabel : forall f, injective f -> forall alts p,
  Deletion.min_alt_del (map_alts f alts) (map_profile f p) = Deletion.min_alt_del alts p.
Proof. exact Proofs.Deletion.min_alt_del_relabel. Qed.
Print Assumptions min_alt_del_relabel.

Theorem min_vot_del_relabel : forall f, injective f -> forall alts p,
  Deletion.min_vot_del (map_alts f alts) (map_profile f p) = Deletion.min_vot_del alts p.
Proof. exact Proofs.Deletion.min_vot_del_relabel. Qed.
Print Assumptions min_vot_del_relabel.

Theorem min_alt_del_reorder : forall alts p p', Permutation p p' -> Deletion.min_alt_del alts p = Deletion.min_alt_del alts p'.
Proof. exact Proofs.Deletion.min_alt_del_reorder. Qed.
Print Assumptions min_alt_del_reorder.

Theorem min_vot_del_reorder : forall alts p p', Permutation p p' -> Deletion.min_vot_del alts p = Deletion.min_vot_del alts p'.
Proof. exact Proofs.Deletion.min_vot_del_reorder. Qed.
Print Assumptions min_vot_del_reorder.

Theorem min_vot_del_alts_perm : forall alts alts' p, Permutation alts alts' ->
  Deletion.min_vot_del alts p = Deletion.min_vot_del alts' p.
Proof. exact Proofs.Deletion.min_vot_del_alts_perm. Qed.
Print Assumptions min_vot_del_alts_perm.

Theorem min_alt_del_alts_perm : forall alts alts' p, NoDup alts -> Forall (Proofs.SP.complete_on alts) p ->
  Permutation alts alts' -> Deletion.min_alt_del alts p = Deletion.min_alt_del alts' p.
Proof. exact Proofs.Deletion.min_alt_del_alts_perm. Qed.
Print Assumptions min_alt_del_alts_perm.

Theorem cert_alt_relabel : forall f, injective f -> forall alts p k axis D,
  Deletion.cert_alt (map_alts f alts) (map_profile f p) k (map_alts f axis) (map_alts f D) = Deletion.cert_alt alts p k axis D.
Proof. exact Proofs.Deletion.cert_alt_relabel. Qed.
Print Assumptions cert_alt_relabel.

Theorem cert_vot_relabel : forall f, injective f -> forall alts p k axis V,
  Deletion.cert_vot (map_alts f alts) (map_profile f p) k (map_alts f axis) V = Deletion.cert_vot alts p k axis V.
Proof. exact Proofs.Deletion.cert_vot_relabel. Qed.
Print Assumptions cert_vot_relabel.

Theorem min_partition_relabel : forall f, injective f -> forall alts profile,
  Partition.min_partition (map_alts f alts) (map_rankings f profile) = Partition.min_partition alts profile.
Proof. exact Proofs.Partition.min_partition_relabel. Qed.
Print Assumptions min_partition_relabel.

Theorem min_partition_profile_perm : forall alts profile profile', Permutation profile profile' ->
  Partition.min_partition alts profile = Partition.min_partition alts profile'.
Proof. exact Proofs.Partition.min_partition_profile_perm. Qed.
Print Assumptions min_partition_profile_perm.

Theorem partition_check_relabel : forall f, injective f -> forall alts profile axes,
  Partition.partition_check (map_alts f alts) (map_rankings f profile) (map_rankings f axes)
  = Partition.partition_check alts profile axes.
Proof. exact Proofs.Partition.partition_check_relabel. Qed.
Print Assumptions partition_check_relabel.

Theorem partition_check_profile_perm : forall alts profile profile' axes, Permutation profile profile' ->
  Partition.partition_check alts profile axes = Partition.partition_check alts profile' axes.
Proof. exact Proofs.Partition.partition_check_profile_perm. Qed.
Print Assumptions partition_check_profile_perm.

(* the MIRROR of k_alternative_deletion (Erdelyi-Lackner-Pfandler dynamic programme, Model/ELPDP.v): the number of removed
   alternatives is the same for every admissible enumeration order (pair_first / ext_order stand for the iteration order
   of Python sets), every storage order of ballots and alternatives, every injective renaming *)
Theorem elp_optimum_perm : forall pair_first pair_first' ext_order ext_order',
  (forall l X, In X (ext_order l) <-> In X l) -> (forall l X, In X (ext_order' l) <-> In X l) ->
  forall alts alts' votes votes', NoDup alts -> votes <> [] -> (forall v, In v votes -> Permutation alts v) ->
  Permutation alts alts' -> Permutation votes votes' ->
  length (snd (ELPDP.k_alternative_deletion pair_first ext_order alts votes))
  = length (snd (ELPDP.k_alternative_deletion pair_first' ext_order' alts' votes')).
Proof. exact Proofs.Relabel.elp_optimum_perm. Qed.
Print Assumptions elp_optimum_perm.

Theorem elp_optimum_relabel : forall pair_first pair_first' ext_order ext_order',
  (forall l X, In X (ext_order l) <-> In X l) -> (forall l X, In X (ext_order' l) <-> In X l) ->
  forall f alts votes, injective f -> NoDup alts -> votes <> [] -> (forall v, In v votes -> Permutation alts v) ->
  length (snd (ELPDP.k_alternative_deletion pair_first' ext_order' (map_alts f alts) (map_rankings f votes)))
  = length (snd (ELPDP.k_alternative_deletion pair_first ext_order alts votes)).
Proof. exact Proofs.Relabel.elp_optimum_relabel. Qed.
Print Assumptions elp_optimum_relabel.

(* the MIRROR of k_alternative_partition_brut_force (Model/PartitionAlgo.v): for every bound k, "a partition is returned"
   and its number of axes are the same for every set-iteration order, storage order and injective renaming *)
Theorem bf_algo_size_perm : forall set_order set_order',
  (forall L, Permutation L (set_order L)) -> (forall L, Permutation L (set_order' L)) ->
  forall alts alts' votes votes' k,
  Proofs.Partition.wf_profile alts votes -> votes <> [] -> Permutation alts alts' -> Permutation votes votes' ->
  option_map (@length (list N)) (PartitionAlgo.bf_algo set_order alts votes k)
  = option_map (@length (list N)) (PartitionAlgo.bf_algo set_order' alts' votes' k).
Proof. exact Proofs.Relabel.bf_algo_size_perm. Qed.
Print Assumptions bf_algo_size_perm.

Theorem bf_algo_size_relabel : forall set_order set_order',
  (forall L, Permutation L (set_order L)) -> (forall L, Permutation L (set_order' L)) ->
  forall f alts votes k, injective f -> Proofs.Partition.wf_profile alts votes -> votes <> [] ->
  option_map (@length (list N)) (PartitionAlgo.bf_algo set_order' (map_alts f alts) (map_rankings f votes) k)
  = option_map (@length (list N)) (PartitionAlgo.bf_algo set_order alts votes k).
Proof. exact Proofs.Relabel.bf_algo_size_relabel. Qed.
Print Assumptions bf_algo_size_relabel.

(* ================================================================================================================ *)
(* 5. 1-Euclidean (C19)                                                                                             *)
Theorem Euclidean_perm : forall profile profile', Permutation profile profile' ->
  Proofs.Euclid.Euclidean profile -> Proofs.Euclid.Euclidean profile'.
Proof. exact Proofs.Euclid.Euclidean_perm. Qed.
Print Assumptions Euclidean_perm.

Theorem Euclidean_relabel_iff : forall (f g : N -> N) profile, (forall a, g (f a) = a) ->
  (Proofs.Euclid.Euclidean (map_rankings f profile) <-> Proofs.Euclid.Euclidean profile).
Proof. exact Proofs.Euclid.Euclidean_relabel_iff. Qed.
Print Assumptions Euclidean_relabel_iff.

Theorem eucl_check_relabel : forall f, injective f -> forall alts profile vpos apos,
  Euclid.eucl_check (map_alts f alts) (map_rankings f profile) vpos (map_keys f apos) = Euclid.eucl_check alts profile vpos apos.
Proof. exact Proofs.Relabel.eucl_check_relabel. Qed.
Print Assumptions eucl_check_relabel.

Theorem eucl_refuted_relabel : forall f, injective f -> forall alts profile,
  Euclid.eucl_refuted (map_alts f alts) (map_rankings f profile) = Euclid.eucl_refuted alts profile.
Proof. exact Proofs.Relabel.eucl_refuted_relabel. Qed.
Print Assumptions eucl_refuted_relabel.

(* the exact reference decider (Fourier-Motzkin over all single-peaked axes): a boolean identity *)
Theorem eucl_decide_perm : forall alts alts' p p', NoDup alts -> Proofs.Euclid.ranked_on alts p ->
  Permutation alts alts' -> Permutation p p' -> EuclidLP.eucl_decide alts p = EuclidLP.eucl_decide alts' p'.
Proof. exact Proofs.Relabel.eucl_decide_perm. Qed.
Print Assumptions eucl_decide_perm.

Theorem eucl_decide_relabel : forall f alts p, injective f -> NoDup alts -> Proofs.Euclid.ranked_on alts p ->
  EuclidLP.eucl_decide (map_alts f alts) (map_rankings f p) = EuclidLP.eucl_decide alts p.
Proof. exact Proofs.Relabel.eucl_decide_relabel. Qed.
Print Assumptions eucl_decide_relabel.

Theorem Euclidean_relabel_inj : forall f profile, injective f ->
  (Proofs.Euclid.Euclidean (map_rankings f profile) <-> Proofs.Euclid.Euclidean profile).
Proof. exact Proofs.Relabel.Euclidean_relabel_inj. Qed.
Print Assumptions Euclidean_relabel_inj.

(* the MIRROR of is_one_euclidean (Model/EuclidAlgo.v), LP as a parameter: for every LP oracle that is sound (returned
   points satisfy the mirrored constraints) and complete (None only on infeasible systems) - the exact-LP hypothesis of
   eucl_algo_sound / eucl_algo_complete - the verdict is the same on every storage order, every order of
   alternatives_name and every injective renaming, and for any two such oracles *)
Theorem eucl_algo_verdict_perm : forall lp lp' alts alts' orders orders',
  Proofs.EuclidAlgoComplete.lp_sound_spec lp -> Proofs.EuclidAlgoComplete.lp_complete lp ->
  Proofs.EuclidAlgoComplete.lp_sound_spec lp' -> Proofs.EuclidAlgoComplete.lp_complete lp' ->
  SC.wf_profile alts orders -> SC.wf_profile alts' orders' -> orders <> [] -> alts <> [] ->
  Permutation alts alts' -> Permutation orders orders' ->
  EuclidAlgo.eucl_algo_verdict lp alts orders = EuclidAlgo.eucl_algo_verdict lp' alts' orders'.
Proof. exact Proofs.Relabel.eucl_algo_verdict_perm. Qed.
Print Assumptions eucl_algo_verdict_perm.

Theorem eucl_algo_verdict_relabel : forall f lp lp' alts orders, injective f ->
  Proofs.EuclidAlgoComplete.lp_sound_spec lp -> Proofs.EuclidAlgoComplete.lp_complete lp ->
  Proofs.EuclidAlgoComplete.lp_sound_spec lp' -> Proofs.EuclidAlgoComplete.lp_complete lp' ->
  SC.wf_profile alts orders -> SC.wf_profile (map_alts f alts) (map_rankings f orders) -> orders <> [] -> alts <> [] ->
  EuclidAlgo.eucl_algo_verdict lp' (map_alts f alts) (map_rankings f orders) = EuclidAlgo.eucl_algo_verdict lp alts orders.
Proof. exact Proofs.Relabel.eucl_algo_verdict_relabel. Qed.
Print Assumptions eucl_algo_verdict_relabel.

(* the extracted mirror (exact Fourier-Motzkin LP oracle): no hypothesis on the LP *)
Theorem eucl_algo_exact_verdict_perm : forall alts alts' orders orders',
  SC.wf_profile alts orders -> SC.wf_profile alts' orders' -> orders <> [] -> alts <> [] ->
  Permutation alts alts' -> Permutation orders orders' ->
  EuclidAlgo.eucl_algo_verdict EuclidAlgo.lp_checked alts orders = EuclidAlgo.eucl_algo_verdict EuclidAlgo.lp_checked alts' orders'.
Proof. exact Proofs.Relabel.eucl_algo_exact_verdict_perm. Qed.
Print Assumptions eucl_algo_exact_verdict_perm.

(* ================================================================================================================ *)
(* 6. approval domains (C05)                                                                                        *)
Section ApprovalStatements.
Import PrefVerif.Model.C1P PrefVerif.Model.Approval.

Theorem approval_deciders_relabel : forall f, injective f -> forall alts ballots,
  ci_decide (map_alts f alts) (map_rankings f ballots) = ci_decide alts ballots /\
  cei_decide (map_alts f alts) (map_rankings f ballots) = cei_decide alts ballots /\
  vi_decide (map_alts f alts) (map_rankings f ballots) = vi_decide alts ballots /\
  vei_decide (map_alts f alts) (map_rankings f ballots) = vei_decide alts ballots /\
  wsc_decide (map_alts f alts) (map_rankings f ballots) = wsc_decide alts ballots /\
  de_decide (map_alts f alts) (map_rankings f ballots) = de_decide alts ballots /\
  part_decide (map_rankings f ballots) = part_decide ballots /\
  part2_decide (map_alts f alts) (map_rankings f ballots) = part2_decide alts ballots.
Proof.
  intros f Hf alts ballots.
  exact (conj (Proofs.Relabel.ci_decide_relabel f Hf alts ballots)
        (conj (Proofs.Relabel.cei_decide_relabel f Hf alts ballots)
        (conj (Proofs.Relabel.vi_decide_relabel f Hf alts ballots)
        (conj (Proofs.Relabel.vei_decide_relabel f Hf alts ballots)
        (conj (Proofs.Relabel.wsc_decide_relabel f Hf alts ballots)
        (conj (Proofs.Relabel.de_decide_relabel f Hf alts ballots)
        (conj (Proofs.Relabel.part_decide_relabel f Hf ballots)
              (Proofs.Relabel.part2_decide_relabel f Hf alts ballots)))))))).
Qed.
Print Assumptions approval_deciders_relabel.

Theorem approval_deciders_reorder : forall alts ballots ballots', Permutation ballots ballots' ->
  ci_decide alts ballots = ci_decide alts ballots' /\
  cei_decide alts ballots = cei_decide alts ballots' /\
  vi_decide alts ballots = vi_decide alts ballots' /\
  vei_decide alts ballots = vei_decide alts ballots' /\
  wsc_decide alts ballots = wsc_decide alts ballots' /\
  part_decide ballots = part_decide ballots' /\
  part2_decide alts ballots = part2_decide alts ballots'.
Proof.
  intros alts ballots ballots' H.
  exact (conj (Proofs.Relabel.ci_decide_reorder alts ballots ballots' H)
        (conj (Proofs.Relabel.cei_decide_reorder alts ballots ballots' H)
        (conj (Proofs.Relabel.vi_decide_reorder alts ballots ballots' H)
        (conj (Proofs.Relabel.vei_decide_reorder alts ballots ballots' H)
        (conj (Proofs.Relabel.wsc_decide_reorder alts ballots ballots' H)
        (conj (Proofs.Relabel.part_decide_reorder ballots ballots' H)
              (Proofs.Relabel.part2_decide_reorder alts ballots ballots' H))))))).
Qed.
Print Assumptions approval_deciders_reorder.

Theorem de_decide_reorder : forall alts ballots ballots', Forall (fun b => incl b alts) ballots ->
  Permutation ballots ballots' -> de_decide alts ballots = de_decide alts ballots'.
Proof. exact Proofs.Relabel.de_decide_reorder. Qed.
Print Assumptions de_decide_reorder.

(* alternatives_name in another order (= the columns of the candidate-side matrices in another order) *)
Theorem approval_deciders_alts_perm : forall alts alts' ballots, Permutation alts alts' ->
  ci_decide alts ballots = ci_decide alts' ballots /\
  cei_decide alts ballots = cei_decide alts' ballots /\
  vi_decide alts ballots = vi_decide alts' ballots /\
  vei_decide alts ballots = vei_decide alts' ballots /\
  wsc_decide alts ballots = wsc_decide alts' ballots.
Proof.
  intros alts alts' ballots H.
  exact (conj (Proofs.Relabel.ci_decide_alts_perm alts alts' ballots H)
        (conj (Proofs.Relabel.cei_decide_alts_perm alts alts' ballots H)
        (conj (Proofs.Relabel.vi_decide_alts_perm alts alts' ballots H)
        (conj (Proofs.Relabel.vei_decide_alts_perm alts alts' ballots H)
              (Proofs.Relabel.wsc_decide_alts_perm alts alts' ballots H))))).
Qed.
Print Assumptions approval_deciders_alts_perm.

Theorem c1p_decide_rows_perm : forall rows rows' nc, Permutation rows rows' -> c1p_decide rows nc = c1p_decide rows' nc.
Proof. exact Proofs.Relabel.c1p_decide_rows_perm. Qed.
Print Assumptions c1p_decide_rows_perm.

(* the columns of the matrix in another order: q lists, for each new column, the old column it shows *)
Theorem c1p_decide_cols_perm : forall rows nc q, Permutation (seq 0 nc) q -> Forall (fun r => length r = nc) rows ->
  c1p_decide (map (permute_row q) rows) nc = c1p_decide rows nc.
Proof. exact Proofs.Relabel.c1p_decide_cols_perm. Qed.
Print Assumptions c1p_decide_cols_perm.

(* the mirrored partition recognisers return the renamed partition *)
Theorem is_part_relabel : forall f, injective f -> forall ballots,
  is_part (map_rankings f ballots) = option_map (map_rankings f) (is_part ballots).
Proof. exact Proofs.Relabel.is_part_relabel. Qed.
Print Assumptions is_part_relabel.

(* ballots stored in another order: same verdict and the same partition as a SET OF SETS ... *)
Theorem is_part_reorder : forall ballots ballots', Permutation ballots ballots' ->
  match is_part ballots, is_part ballots' with
  | Some parts, Some parts' =>
      (forall s, In s parts -> exists s', In s' parts' /\ Proofs.Approval.SetEq s s') /\
      (forall s', In s' parts' -> exists s, In s parts /\ Proofs.Approval.SetEq s' s)
  | None, None => True
  | _, _ => False
  end.
Proof. exact Proofs.Relabel.is_part_reorder. Qed.
Print Assumptions is_part_reorder.

(* ... but NOT the same list: parts come in order of first occurrence, members as in the first ballot with that set *)
Theorem is_part_list_order_refuted : exists ballots ballots', Permutation ballots ballots' /\
  is_part ballots <> is_part ballots'.
Proof.
  exact (ex_intro _ [[1; 2]; [3]; [2; 1]]%N (ex_intro _ [[3]; [2; 1]; [1; 2]]%N
           (conj (Permutation_cons_append [[3]; [2; 1]]%N [1; 2]%N)
                 (fun E : is_part [[1; 2]; [3]; [2; 1]]%N = is_part [[3]; [2; 1]; [1; 2]]%N =>
                    match E in (_ = y) return (match y with Some [[3]; [2; 1]]%N => False | _ => True end) with
                    | eq_refl => I end)))).
Qed.
Print Assumptions is_part_list_order_refuted.

Theorem is_2_part_relabel : forall f, injective f -> forall alts ballots,
  is_2_part (map_alts f alts) (map_rankings f ballots) = option_map (map_rankings f) (is_2_part alts ballots).
Proof. exact Proofs.Relabel.is_2_part_relabel. Qed.
Print Assumptions is_2_part_relabel.

(* witnesses: candidate orders are renamed, ballot orders (indices) stay, positions keep their values *)
Theorem approval_checks_relabel : forall f, injective f -> forall alts ballots,
  (forall order, ci_check (map_alts f alts) (map_rankings f ballots) (map_alts f order) = ci_check alts ballots order) /\
  (forall order, cei_check (map_alts f alts) (map_rankings f ballots) (map_alts f order) = cei_check alts ballots order) /\
  (forall border, vi_check (map_alts f alts) (map_rankings f ballots) border = vi_check alts ballots border) /\
  (forall border, vei_check (map_alts f alts) (map_rankings f ballots) border = vei_check alts ballots border) /\
  (forall border, wsc_check (map_alts f alts) (map_rankings f ballots) border = wsc_check alts ballots border) /\
  (forall vpr ap, de_check (map_alts f alts) (map_rankings f ballots) vpr (map_keys f ap) = de_check alts ballots vpr ap) /\
  (forall parts, part_check (map_rankings f ballots) (map_rankings f parts) = part_check ballots parts) /\
  (forall parts, part2_check (map_alts f alts) (map_rankings f ballots) (map_rankings f parts) = part2_check alts ballots parts).
Proof.
  intros f Hf alts ballots.
  exact (conj (Proofs.Relabel.ci_check_relabel f Hf alts ballots)
        (conj (Proofs.Relabel.cei_check_relabel f Hf alts ballots)
        (conj (Proofs.Relabel.vi_check_relabel f Hf alts ballots)
        (conj (Proofs.Relabel.vei_check_relabel f Hf alts ballots)
        (conj (Proofs.Relabel.wsc_check_relabel f Hf alts ballots)
        (conj (Proofs.Relabel.de_check_relabel f Hf alts ballots)
        (conj (Proofs.Relabel.part_check_relabel f Hf ballots)
              (Proofs.Relabel.part2_check_relabel f Hf alts ballots)))))))).
Qed.
Print Assumptions approval_checks_relabel.
End ApprovalStatements.

(* ================================================================================================================ *)
(* 7. single-winner rules (C06, C14): exact equivariance of the mirror models, for every instance                   *)
Section RuleStatements.
Import PrefVerif.Model.Scoring PrefVerif.Model.Bucklin.

Theorem plurality_winner_relabel : forall f, injective f -> forall i,
  plurality_winner (relabel_inst f i) = rmap (map f) (plurality_winner i).
Proof. exact Proofs.Relabel.plurality_winner_relabel. Qed.
Print Assumptions plurality_winner_relabel.
Theorem veto_winner_relabel : forall f, injective f -> forall i,
  veto_winner (relabel_inst f i) = rmap (map f) (veto_winner i).
Proof. exact Proofs.Relabel.veto_winner_relabel. Qed.
Print Assumptions veto_winner_relabel.
Theorem k_approval_winner_relabel : forall f, injective f -> forall i k,
  k_approval_winner (relabel_inst f i) k = rmap (map f) (k_approval_winner i k).
Proof. exact Proofs.Relabel.k_approval_winner_relabel. Qed.
Print Assumptions k_approval_winner_relabel.
Theorem borda_winner_relabel : forall f, injective f -> forall i,
  borda_winner (relabel_inst f i) = rmap (map f) (borda_winner i).
Proof. exact Proofs.Relabel.borda_winner_relabel. Qed.
Print Assumptions borda_winner_relabel.
Theorem copeland_winner_relabel : forall f, injective f -> forall i,
  copeland_winner (relabel_inst f i) = rmap (map f) (copeland_winner i).
Proof. exact Proofs.Relabel.copeland_winner_relabel. Qed.
Print Assumptions copeland_winner_relabel.
Theorem approval_winner_relabel : forall f, injective f -> forall i,
  approval_winner (relabel_inst f i) = rmap (map f) (approval_winner i).
Proof. exact Proofs.Relabel.approval_winner_relabel. Qed.
Print Assumptions approval_winner_relabel.
Theorem sav_winner_relabel : forall f, injective f -> forall i,
  sav_winner (relabel_inst f i) = rmap (map f) (sav_winner i).
Proof. exact Proofs.Relabel.sav_winner_relabel. Qed.
Print Assumptions sav_winner_relabel.
Theorem fallback_winner_relabel : forall f, injective f -> forall i,
  fallback_winner (relabel_inst f i) = rmap (map f) (fallback_winner i).
Proof. exact Proofs.Relabel.fallback_winner_relabel. Qed.
Print Assumptions fallback_winner_relabel.
Theorem bucklin_winner_relabel : forall f, injective f -> forall i,
  bucklin_winner (relabel_inst f i) = rmap (map f) (bucklin_winner i).
Proof. exact Proofs.Relabel.bucklin_winner_relabel. Qed.
Print Assumptions bucklin_winner_relabel.

(* ... restated as SETS (mutual inclusion), for any rule whose model output is mapped exactly: errors are the same
   errors, and a is a winner of the original instance iff f a is a winner of the renamed one, and every winner of the
   renamed instance is the image of a winner *)
Theorem winner_sets_relabel : forall (f : N -> N) (r r' : result (list N)), injective f -> r' = rmap (map f) r ->
  (forall e, r = Err e -> r' = Err e) /\
  (forall w, r = Ok w -> exists w', r' = Ok w' /\ (forall a, In a w <-> In (f a) w') /\
                                    (forall b, In b w' -> exists a, b = f a /\ In a w)).
Proof. exact Proofs.Relabel.winners_as_sets. Qed.
Print Assumptions winner_sets_relabel.

(* regrouping / reordering of the multiplicity table: the owners' theorems (winner sets equal as sets) *)
Theorem plurality_regroup : forall i i',
  Proofs.Scoring.wf_inst i -> Proofs.Scoring.wf_inst i' ->
  dt_in (dt i) [Soc; Toc; Soi; Toi] = true -> dt_in (dt i') [Soc; Toc; Soi; Toi] = true ->
  (forall x, In x (alts i) <-> In x (alts i')) -> Permutation (expand (prof i)) (expand (prof i')) ->
  exists w w', plurality_winner i = Ok w /\ plurality_winner i' = Ok w' /\ forall a, In a w <-> In a w'.
Proof. exact Proofs.Scoring.plurality_regroup. Qed.
Print Assumptions plurality_regroup.
Theorem veto_regroup : forall i i',
  Proofs.Scoring.wf_inst i -> Proofs.Scoring.wf_inst i' -> dt_in (dt i) [Soc; Toc] = true -> dt_in (dt i') [Soc; Toc] = true ->
  (forall x, In x (alts i) <-> In x (alts i')) -> Permutation (expand (prof i)) (expand (prof i')) ->
  exists w w', veto_winner i = Ok w /\ veto_winner i' = Ok w' /\ forall a, In a w <-> In a w'.
Proof. exact Proofs.Scoring.veto_regroup. Qed.
Print Assumptions veto_regroup.
Theorem borda_regroup : forall i i',
  Proofs.Scoring.wf_inst i -> Proofs.Scoring.wf_inst i' -> Proofs.Scoring.wf_complete i -> Proofs.Scoring.wf_complete i' ->
  dt_in (dt i) [Soc; Toc] = true -> dt_in (dt i') [Soc; Toc] = true ->
  alts i = alts i' -> Permutation (expand (prof i)) (expand (prof i')) ->
  exists w w', borda_winner i = Ok w /\ borda_winner i' = Ok w' /\ forall a, In a w <-> In a w'.
Proof. exact Proofs.Scoring.borda_regroup. Qed.
Print Assumptions borda_regroup.
Theorem copeland_regroup : forall i i',
  Proofs.Scoring.wf_inst i -> Proofs.Scoring.wf_inst i' -> dt_in (dt i) [Soc] = true -> dt_in (dt i') [Soc] = true ->
  alts i = alts i' -> Permutation (expand (prof i)) (expand (prof i')) ->
  exists w w', copeland_winner i = Ok w /\ copeland_winner i' = Ok w' /\ forall a, In a w <-> In a w'.
Proof. exact Proofs.ScoringCopeland.copeland_regroup. Qed.
Print Assumptions copeland_regroup.
Theorem sav_regroup : forall i i',
  Proofs.Scoring.wf_inst i -> Proofs.Scoring.wf_inst i' -> is_approval i = Ok true -> is_approval i' = Ok true ->
  (forall x, In x (alts i) <-> In x (alts i')) -> Permutation (expand (prof i)) (expand (prof i')) ->
  exists w w', sav_winner i = Ok w /\ sav_winner i' = Ok w' /\ forall a, In a w <-> In a w'.
Proof. exact Proofs.ScoringSAV.sav_regroup. Qed.
Print Assumptions sav_regroup.
Theorem fallback_regroup : forall i i', Proofs.Scoring.wf_inst i -> Proofs.Scoring.wf_inst i' ->
  Proofs.Bucklin.wf_strict i -> Proofs.Bucklin.wf_strict i' ->
  dt_in (dt i) [Soc; Soi] = true -> dt_in (dt i') [Soc; Soi] = true ->
  alts i = alts i' -> Permutation (expand (prof i)) (expand (prof i')) ->
  exists w w', fallback_winner i = Ok w /\ fallback_winner i' = Ok w' /\ forall a, In a w <-> In a w'.
Proof. exact Proofs.Bucklin.fallback_regroup. Qed.
Print Assumptions fallback_regroup.
Theorem bucklin_regroup : forall i i', Proofs.Scoring.wf_inst i -> Proofs.Scoring.wf_inst i' ->
  Proofs.Bucklin.wf_strict i -> Proofs.Bucklin.wf_strict i' ->
  dt_in (dt i) [Soc] = true -> dt_in (dt i') [Soc] = true ->
  alts i = alts i' -> Permutation (expand (prof i)) (expand (prof i')) ->
  exists w w', bucklin_winner i = Ok w /\ bucklin_winner i' = Ok w' /\ forall a, In a w <-> In a w'.
Proof. exact Proofs.Bucklin.bucklin_regroup. Qed.
Print Assumptions bucklin_regroup.
Theorem k_approval_regroup : forall i i' k,
  Proofs.Scoring.wf_inst i -> Proofs.Scoring.wf_inst i' ->
  Proofs.Scoring.all_orders Proofs.Scoring.strictb i = true -> Proofs.Scoring.all_orders Proofs.Scoring.strictb i' = true -> 1 <= k ->
  dt_in (dt i) [Soc; Soi] = true -> dt_in (dt i') [Soc; Soi] = true ->
  (forall x, In x (alts i) <-> In x (alts i')) -> Permutation (expand (prof i)) (expand (prof i')) ->
  exists w w', k_approval_winner i k = Ok w /\ k_approval_winner i' k = Ok w' /\ forall a, In a w <-> In a w'.
Proof. exact Proofs.Scoring.k_approval_regroup. Qed.
Print Assumptions k_approval_regroup.
Theorem approval_regroup : forall i i',
  Proofs.Scoring.wf_inst i -> Proofs.Scoring.wf_inst i' -> is_approval i = Ok true -> is_approval i' = Ok true ->
  dt_in (dt i) [Soc; Toc; Soi; Toi] = true -> dt_in (dt i') [Soc; Toc; Soi; Toi] = true ->
  (forall x, In x (alts i) <-> In x (alts i')) -> Permutation (expand (prof i)) (expand (prof i')) ->
  exists w w', approval_winner i = Ok w /\ approval_winner i' = Ok w' /\ forall a, In a w <-> In a w'.
Proof. exact Proofs.Scoring.approval_regroup. Qed.
Print Assumptions approval_regroup.
End RuleStatements.

(* ================================================================================================================ *)
(* 8. score tables and has_condorcet (C07)                                                                          *)
Section TableStatements.
Import PrefVerif.Model.Pairwise.

Theorem pairwise_scores_relabel : forall f, injective f -> forall i,
  pairwise_scores (relabel_pw_inst f i) = rmap (map_table f) (pairwise_scores i).
Proof. exact Proofs.Relabel.pairwise_scores_relabel. Qed.
Print Assumptions pairwise_scores_relabel.

Theorem copeland_scores_relabel : forall f, injective f -> forall i,
  copeland_scores (relabel_pw_inst f i) = rmap (map_table f) (copeland_scores i).
Proof. exact Proofs.Relabel.copeland_scores_pw_relabel. Qed.
Print Assumptions copeland_scores_relabel.

Theorem borda_scores_relabel : forall f, injective f -> forall i,
  borda_scores (relabel_pw_inst f i) = rmap (map_keys f) (borda_scores i).
Proof. exact Proofs.Relabel.borda_scores_pw_relabel. Qed.
Print Assumptions borda_scores_relabel.

(* table (f a) (f b) = table a b *)
Theorem table_entry_relabel : forall f, injective f -> forall t a b, tget (map_table f t) (f a) (f b) = tget t a b.
Proof. exact Proofs.Relabel.tget_relabel. Qed.
Print Assumptions table_entry_relabel.

Theorem row_entry_relabel : forall f, injective f -> forall r a, rget (map_keys f r) (f a) = rget r a.
Proof. exact Proofs.Relabel.rget_relabel. Qed.
Print Assumptions row_entry_relabel.

Theorem has_condorcet_relabel : forall f, injective f -> forall i weak,
  has_condorcet (relabel_pw_inst f i) weak = has_condorcet i weak.
Proof. exact Proofs.Relabel.has_condorcet_relabel. Qed.
Print Assumptions has_condorcet_relabel.

Theorem tables_regrouping : forall i i', wf_inst i -> wf_inst i' -> alts i = alts i' ->
  Permutation (expand (mult i)) (expand (mult i')) ->
  pairwise_table i = pairwise_table i' /\ copeland_table i = copeland_table i' /\ condorcet_table i = condorcet_table i'.
Proof. exact Proofs.Pairwise.tables_regroup. Qed.
Print Assumptions tables_regrouping.

Theorem has_condorcet_regroup : forall i i' w, wf_inst i -> wf_inst i' -> alts i = alts i' ->
  data_type i = data_type i' -> Permutation (expand (mult i)) (expand (mult i')) ->
  has_condorcet i w = has_condorcet i' w.
Proof. exact Proofs.Relabel.has_condorcet_regroup. Qed.
Print Assumptions has_condorcet_regroup.

Theorem borda_regrouping : forall m p p' a, Permutation (expand p) (expand p') -> borda_total m p a = borda_total m p' a.
Proof. exact Proofs.Pairwise.borda_total_regroup. Qed.
Print Assumptions borda_regrouping.
End TableStatements.

(* ================================================================================================================ *)
(* 9. non-vacuity: a concrete non-trivial injective renaming to non-contiguous labels, both sides computed          *)
Definition ex_f (x : N) : N := (1000 * x + 7)%N.

Example ex_f_injective : injective ex_f.
Proof. unfold injective, ex_f. intros x y H. lia. Qed.

Open Scope N_scope.
(* 8 voters over 4 alternatives, stored in 3 distinct orders; single-peaked on 1-2-3-4, single-crossing *)
Definition ex_alts : list N := [3; 1; 4; 2].
Definition ex_rankings : list (list N) := [[2; 3; 1; 4]; [2; 1; 3; 4]; [3; 4; 2; 1]].
Definition ex_inst : Scoring.inst :=
  {| Scoring.dt := Scoring.Soc; Scoring.alts := ex_alts; Scoring.n_alt := 4; Scoring.n_vot := 8;
     Scoring.prof := [([[2]; [3]; [1]; [4]], 3); ([[2]; [1]; [3]; [4]], 1); ([[3]; [4]; [2]; [1]], 4)] |}.

Example ex_relabelled_input :
  map_alts ex_f ex_alts = [3007; 1007; 4007; 2007] /\
  map_rankings ex_f ex_rankings = [[2007; 3007; 1007; 4007]; [2007; 1007; 3007; 4007]; [3007; 4007; 2007; 1007]].
Proof. split; vm_compute; reflexivity. Qed.

Example ex_verdicts :
  SP.sp_decide ex_alts ex_rankings = true /\ SP.sp_decide (map_alts ex_f ex_alts) (map_rankings ex_f ex_rankings) = true /\
  SC.sc_decide ex_alts ex_rankings = true /\ SC.sc_decide (map_alts ex_f ex_alts) (map_rankings ex_f ex_rankings) = true /\
  Tree.spt_decide ex_alts ex_rankings = true /\ Tree.spt_decide (map_alts ex_f ex_alts) (map_rankings ex_f ex_rankings) = true /\
  SP.sp_decide ex_alts ([1; 4; 2; 3] :: ex_rankings) = false /\
  SP.sp_decide (map_alts ex_f ex_alts) (map_rankings ex_f ([1; 4; 2; 3] :: ex_rankings)) = false /\
  SP.sp_decide ex_alts (rev ex_rankings) = true.
Proof. repeat split; vm_compute; reflexivity. Qed.

Example ex_winners :
  Scoring.plurality_winner ex_inst = Ok [2; 3] /\
  Scoring.plurality_winner (relabel_inst ex_f ex_inst) = Ok [2007; 3007] /\
  Scoring.borda_winner ex_inst = Ok [3] /\ Scoring.borda_winner (relabel_inst ex_f ex_inst) = Ok [3007] /\
  Scoring.veto_winner ex_inst = Ok [3; 2] /\ Scoring.veto_winner (relabel_inst ex_f ex_inst) = Ok [3007; 2007] /\
  Bucklin.bucklin_winner ex_inst = Ok [3] /\ Bucklin.bucklin_winner (relabel_inst ex_f ex_inst) = Ok [3007] /\
  Scoring.copeland_winner ex_inst = Ok [3] /\ Scoring.copeland_winner (relabel_inst ex_f ex_inst) = Ok [3007].
Proof. repeat split; vm_compute; reflexivity. Qed.

Definition ex_pw_inst : Pairwise.inst :=
  Pairwise.mkInst [(3, [99]); (1, [97]); (4, [100]); (2, [98])] 4 8
                  [([[2]; [3]; [1]; [4]], 3); ([[2]; [1]; [3]; [4]], 1); ([[3]; [4]; [2]; [1]], 4)] Pairwise.SOC.

Example ex_tables :
  (exists t t', Pairwise.pairwise_scores ex_pw_inst = Ok t /\ Pairwise.pairwise_scores (relabel_pw_inst ex_f ex_pw_inst) = Ok t' /\
     Pairwise.tget t 2 3 = Some 4%Z /\ Pairwise.tget t' 2007 3007 = Some 4%Z /\
     Pairwise.tget t 4 1 = Some 4%Z /\ Pairwise.tget t' 4007 1007 = Some 4%Z) /\
  Pairwise.has_condorcet ex_pw_inst false = Ok false /\
  Pairwise.has_condorcet (relabel_pw_inst ex_f ex_pw_inst) false = Ok false /\
  Pairwise.has_condorcet ex_pw_inst true = Ok true /\
  Pairwise.has_condorcet (relabel_pw_inst ex_f ex_pw_inst) true = Ok true.
Proof.
  split; [|repeat split; vm_compute; reflexivity].
  eexists; eexists. split; [vm_compute; reflexivity|]. split; [vm_compute; reflexivity|].
  repeat split; vm_compute; reflexivity.
Qed.

(* an approval profile: candidate interval on 5-7-9, not a partition; renamed and re-stored *)
Example ex_approval :
  Approval.ci_decide [7; 5; 9] [[5; 7]; [7; 9]; [9]] = true /\
  Approval.ci_decide (map_alts ex_f [7; 5; 9]) (map_rankings ex_f [[5; 7]; [7; 9]; [9]]) = true /\
  Approval.part_decide [[5; 7]; [7; 9]; [9]] = false /\
  Approval.part_decide (map_rankings ex_f [[9]; [5; 7]; [7; 9]]) = false /\
  Approval.vi_decide [7; 5; 9] [[5; 7]; [9]; [7; 9]] = true /\
  Approval.vi_decide [9; 7; 5] [[9]; [7; 9]; [5; 7]] = true.
Proof. repeat split; vm_compute; reflexivity. Qed.

(* a matrix without the consecutive-ones property (a 3-cycle) and one with it, columns permuted by q = [2;0;3;1] *)
Example ex_c1p :
  Permutation (seq 0 4) [2; 0; 3; 1]%nat /\
  C1P.c1p_decide [[true; true; false; false]; [false; true; true; false]; [true; false; true; false]] 4 = false /\
  C1P.c1p_decide (map (C1P.permute_row [2; 0; 3; 1]%nat)
                      [[true; true; false; false]; [false; true; true; false]; [true; false; true; false]]) 4 = false /\
  C1P.c1p_decide [[true; false; true; false]; [false; false; true; true]] 4 = true /\
  C1P.c1p_decide (map (C1P.permute_row [2; 0; 3; 1]%nat) [[true; false; true; false]; [false; false; true; true]]) 4 = true.
Proof.
  split; [apply (Proofs.C1P.perm_of_seq_correct 4 [2; 0; 3; 1]%nat); vm_compute; reflexivity|].
  repeat split; vm_compute; reflexivity.
Qed.
