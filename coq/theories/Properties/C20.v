(* Properties/C20.v — placeholder until Proofs/Distances.v exists *)
From Coq Require Import List Arith.
From PrefVerif Require Import Lib.Val Model.Distances.
Theorem kt_len_mismatch : forall o1 o2, length o1 <> length o2 -> kendall_tau o1 o2 = Err ValueErr.
Proof.
  intros o1 o2 H. unfold kendall_tau.
  destruct (Nat.eqb_spec (length o1) (length o2)); [contradiction|reflexivity].
Qed.
Print Assumptions kt_len_mismatch.
