"""C07 — pairwise_scores, copeland_scores, has_condorcet, borda_scores (properties/pairwisecomparisons.py) and
order_to_pwg (instances/convert.py) against the extracted mirror model Model/Pairwise.v."""
import itertools
import random

from core import proto
from . import common
from .common import case, guarded, rand_weak_order

ID = "C07"
COVER_FILES = ['properties/pairwisecomparisons.py', 'instances/convert.py']
RULE = ("exhaustive: every profile over alternatives {1..m}, m <= 3, made of 1 or 2 distinct ballots (ordered pairs of "
        "ballots: dict insertion order matters to the code) where a ballot is any weak order of any non-empty subset of "
        "the alternatives (so alternatives may be tied or unranked), multiplicities in {1,2}; data type = the type "
        "inferred from the ballots. random: m <= 7 (thorough <= 9), arbitrary ids in shuffled insertion order, all four "
        "ordinal types, planted patterns (two alternatives tied in every ballot, an alternative nobody ranks, two "
        "alternatives never ranked together, Condorcet winner / weak winner / cycle, knife-edge margins of +1/0/-1 on "
        "counts around 2^53 / 2^63 / 2^64 / 10^30), the id 0 in ~20% of the instances (as planted winner, tied "
        "alternative, never-ranked alternative) and exhaustively over ids {0,1,2}, multiplicities beyond 2^53 and "
        "2^64 in ~20%, and "
        "the type guards on non-ordinal data_type values; every fifth random instance is written as PrefLib text and "
        "read by OrdinalInstance.parse_str, the others are built by direct field assignment. Observables: the three tables as sorted (a,b,value) lists, "
        "has_condorcet for both flags, borda scores per alternative (missing = 0), order_to_pwg re-read into "
        "(num_alternatives, sorted alternative lines, count line, sorted pair lines). "
        "Every instance is evaluated twice: with a fresh instance object per function (c07.all) and as a history of 12 "
        "calls on ONE instance object (c07.history: each function twice, each of them first in some history, 40% of "
        "the random ones in a shuffled order) where every call is judged against the model of the ORIGINAL profile and "
        "the instance (multiplicity, orders, num_voters, num_unique_orders, num_alternatives, alternatives_name, "
        "data_type) must equal a copy taken before the first call; planted: a ballot together with its exact reverse "
        "(strict and weak, equal and different multiplicities), profiles closed under reversal. "
        "Storage variants on the fresh-object cases and the histories (every function, order_to_pwg included): "
        "instance.orders reversed / sorted / shuffled in place, the multiplicity dict rebuilt in reverse or shuffled key "
        "order or its first key popped and re-inserted, alternatives_name not in ascending id order. c07.seq: a larger "
        "instance A, then a smaller instance B with overlapping ids, then A again inside one call; the objects "
        "returned for A are read again after the calls on B, the objects returned for B are emptied before B is asked "
        "again. "
        "non-trivial = >= 2 alternatives, >= 2 distinct ballots, some multiplicity > 1")
EXHAUSTIVE = {"quick": "all profiles with 1-2 distinct (possibly tied, possibly incomplete) ballots over m<=3 alternatives, multiplicities<=2",
              "thorough": "same with multiplicities<=3 for m<=3, plus all 1-2 ballot profiles of complete weak orders over m=4"}
TRUSTED = ["modelled: preflibtools/properties/pairwisecomparisons.py (all four functions), requires_preference_type, "
           "instances/convert.py order_to_pwg; str() of ints and str.join in order_to_pwg are read back by the "
           "harness (split on newline / comma, int()) rather than modelled character by character"]
ASSUMPTIONS = ["instance.orders lists the keys of instance.multiplicity in the same order (borda_scores iterates the former "
               "and looks the multiplicity up in the latter)",
               "num_alternatives = len(alternatives_name) and num_voters = sum of multiplicities in generated instances "
               "(the model keeps them as independent header fields like the code does)",
               "every ballot mentions each alternative at most once and only keys of alternatives_name "
               "(otherwise the code raises KeyError or double counts; outside the quantifier)",
               "alternative names contain no comma or newline (harness re-reads the pwg text by splitting)"]
TIMEOUT_S = 20.0
CHUNK = 60

DT = ["soc", "soi", "toc", "toi", "cat", "wmd", "xyz"]


# ------------------------------------------------------------------ payloads
def infer_dt(alts, prof):
    strict = all(len(c) == 1 for o, _ in prof for c in o)
    complete = all(sum(len(c) for c in o) == len(alts) for o, _ in prof)
    return {(True, True): 0, (True, False): 1, (False, True): 2, (False, False): 3}[(strict, complete)]


def payload(alts, prof, dt=None, names=None):
    """alts: ids in insertion order; prof: list of (order, mult) with distinct orders."""
    if dt is None:
        dt = infer_dt(alts, prof)
    if names is None:
        names = {a: "Alternative %d" % a for a in alts}
    return [[[a, proto.text(names[a])] for a in alts], len(alts), sum(k for _, k in prof),
            [[o, k] for o, k in prof], dt]


def all_ballots(alts):
    """all weak orders of all non-empty subsets of alts"""
    def ordered_partitions(xs):
        if not xs:
            yield []
            return
        for k in range(1, len(xs) + 1):
            for first in itertools.combinations(xs, k):
                rest = [a for a in xs if a not in first]
                for tail in ordered_partitions(rest):
                    yield [list(first)] + tail
    for r in range(1, len(alts) + 1):
        for sub in itertools.combinations(alts, r):
            for o in ordered_partitions(list(sub)):
                yield o


# histories on ONE instance object: every function of the family twice, each of them first in some history
HISTORIES = [
    [1, 0, 4, 5, 2, 3, 1, 0, 4, 5, 2, 3],      # copeland_scores first
    [2, 3, 1, 0, 4, 5, 5, 4, 0, 1, 3, 2],      # has_condorcet first
    [4, 5, 0, 1, 2, 3, 4, 5, 0, 1, 2, 3],      # borda_scores first
    [5, 0, 4, 2, 1, 3, 1, 5, 4, 0, 3, 2],      # order_to_pwg first
    [0, 1, 0, 4, 5, 2, 3, 1, 4, 5, 3, 2],      # pairwise_scores first
]


def generate(tier, seed):
    rng = random.Random(1000003 * seed + 7)
    out = []
    count = [0]

    def add(pl, seq=None, **tags):
        """the instance with a fresh object per function (c07.all) and as a history on one object (c07.history), each
        with some storage variant (instance.orders / multiplicity keys decoupled)"""
        k = count[0]
        count[0] += 1
        if tags.get("exh") and len(pl[0]) == 3 and k % 3:
            # alternatives_name not in ascending id order (registered in discovery order)
            an = pl[0]
            pl = [[an[2], an[0], an[1]] if k % 3 == 1 else [an[1], an[2], an[0]]] + list(pl[1:])
        nb = len(pl[3])
        st1 = STORES[k % len(STORES)] if nb >= 2 else ""
        st2 = STORES[(k + 3) % len(STORES)] if nb >= 2 else ""
        if tags.get("guard"):
            st1 = st2 = ""
        out.append(case("c07.all", pl, store=st1, **tags))
        if seq is None:
            seq = HISTORIES[k % len(HISTORIES)]
        out.append(case("c07.history", [pl, seq], store=st2, **tags))

    def smaller(pl, drop):
        """the instance restricted to the alternatives not in drop (overlapping ids, different content)"""
        an, na, nv, mult, dt = pl
        new = []
        for o, k in mult:
            o2 = [cl2 for cl2 in ([x for x in cl if x not in drop] for cl in o) if cl2]
            if not o2:
                continue
            for e in new:
                if e[0] == o2:
                    e[1] += k
                    break
            else:
                new.append([o2, k])
        an2 = [e for e in an if e[0] not in drop]
        if len(an2) < 2 or not new:
            return None
        prof = [(o, k) for o, k in new]
        return [an2, len(an2), sum(k for _, k in prof), [[o, k] for o, k in prof],
                infer_dt([a for a, _ in an2], prof) if dt < 4 else dt]

    def add_seq(pl, **tags):
        """A (larger) first, then B (A without one or two alternatives) in the same worker call, then A again"""
        ids = [a for a, _ in pl[0]]
        if len(ids) < 3:
            return
        k = count[0]
        drop = [ids[k % len(ids)]] + ([ids[(k + 2) % len(ids)]] if len(ids) > 3 and k % 2 else [])
        pb = smaller(pl, set(drop))
        if pb is not None:
            tags = dict(tags)
            tags.pop("parse", None)
            out.append(case("c07.seq", [pl, pb], store=STORES[k % len(STORES)] if len(pl[3]) >= 2 else "", **tags))

    # ---- exhaustive
    kmax = 2 if tier == "quick" else 3
    for m in (2, 3):
        alts = list(range(1, m + 1))
        bal = list(all_ballots(alts))
        for o in bal:
            for k in range(1, kmax + 1):
                add(payload(alts, [(o, k)]), m=m, exh=1)
        for o1, o2 in itertools.permutations(bal, 2):
            for k1 in range(1, kmax + 1):
                for k2 in range(1, kmax + 1):
                    add(payload(alts, [(o1, k1), (o2, k2)]), m=m, exh=1)
            if m == 3:
                add_seq(payload(alts, [(o1, 1), (o2, 2)]), m=m, exh=1)
    # the same range over the ids {0,1,2} (0 is falsy in Python), multiplicity 1
    alts = [0, 1, 2]
    bal = list(all_ballots(alts))
    for o in bal:
        add(payload(alts, [(o, 1)]), m=3, exh=1, zero="exh")
    for o1, o2 in itertools.permutations(bal, 2):
        add(payload(alts, [(o1, 1), (o2, 1)]), m=3, exh=1, zero="exh")
    if tier != "quick":
        alts = [1, 2, 3, 4]
        bal = [o for o in all_ballots(alts) if sum(len(c) for c in o) == 4]
        for o in bal:
            add(payload(alts, [(o, 2)]), m=4, exh=1)
        for o1, o2 in itertools.permutations(bal, 2):
            add(payload(alts, [(o1, 1), (o2, 2)]), m=4, exh=1)
    # ---- random
    nrand = 1500 if tier == "quick" else 20000
    mmax = 7 if tier == "quick" else 9
    for idx in range(nrand):
        c = random_case(rng, idx, mmax)
        seq = None
        if rng.random() < 0.4:
            seq = [0, 1, 2, 3, 4, 5] * 2
            rng.shuffle(seq)
        add(c["payload"], seq, **c["tags"])
        if idx % 3 == 0 and not c["tags"].get("guard"):
            add_seq(c["payload"], **c["tags"])
    return out


def _name(rng, a):
    r = rng.random()
    if r < 0.6:
        return "Alternative %d" % a
    pool = "abcdefghijklmnopqrstuvwxyzABCXYZ 0123456789_-."
    s = "".join(rng.choice(pool) for _ in range(rng.randint(1, 8))).strip()
    return s or "x"


def random_case(rng, idx, mmax):
    m = rng.randint(2, mmax)
    style = rng.choice(["small", "mid", "large", "huge"])
    if style == "small":
        alts = list(range(1, m + 1))
    elif style == "mid":
        alts = rng.sample(range(0, 40), m)
    elif style == "large":
        alts = rng.sample(range(1, 10 ** 6), m)
    else:
        alts = [10 ** 12 + x for x in rng.sample(range(1000), m)]
    rng.shuffle(alts)
    # the id 0 (falsy in Python) in ~20% of the instances, in a chosen role: alts[0] is the planted winner / the
    # first of the tied pair, alts[1] the second of the tied pair, alts[-1] the alternative nobody ranks
    kind = rng.choice(["soc", "soi", "toc", "toi", "toi", "toc"])
    pattern = rng.choice(["none", "tied_pair", "unranked", "apart", "winner", "weak_winner", "cycle", "cycle", "none",
                          "knife", "knife", "reversed", "reversed", "palindrome"])
    zero = ""
    if rng.random() < 0.2 or 0 in alts:
        if 0 not in alts:
            alts[rng.randrange(m)] = 0
        zero = {"winner": "x", "weak_winner": "x", "knife": "x", "tied_pair": rng.choice("xy"),
                "apart": rng.choice("xy"), "unranked": "last"}.get(pattern, "any")
        if zero != "any":
            alts.remove(0)
            alts.insert({"x": 0, "y": 1, "last": len(alts)}[zero], 0)
    complete = kind in ("soc", "toc")
    p_tie = 0.0 if kind in ("soc", "soi") else rng.choice([0.2, 0.5, 0.8])
    nb = rng.randint(1, 6)
    if pattern == "cycle":
        nb = max(3, len(alts) - (1 if rng.random() < 0.3 else 0))
    base, rot = None, 0
    big = rng.random() < 0.2
    if pattern == "knife":
        nb = 2
    x, y = alts[0], alts[1]
    pool = list(alts)
    if pattern == "unranked" and m > 2:
        pool = [a for a in alts if a != alts[-1]]
        complete = False
    orders = []
    for _ in range(nb):
        if pattern == "apart":
            drop = rng.choice([x, y])
            o = rand_weak_order(rng, [a for a in pool if a != drop], p_tie, complete=False if not complete else True)
        elif pattern == "tied_pair" and p_tie > 0:
            o = rand_weak_order(rng, [a for a in pool if a != y], p_tie, complete=complete)
            o = [c + [y] if x in c else c for c in o]
        elif pattern in ("winner", "weak_winner"):
            o = rand_weak_order(rng, [a for a in pool if a != x], p_tie, complete=complete)
            if pattern == "winner" or p_tie == 0 or rng.random() < 0.5:
                o = [[x]] + o
            else:
                o = [o[0] + [x]] + o[1:]
        elif pattern == "knife":
            # x on top of the first ballot and at the bottom of the second: every margin of x is mult1 - mult2
            kp = pool if complete or len(pool) < 3 else pool[:-1]
            rest = rand_weak_order(rng, [a for a in kp if a != x], p_tie, complete=True)
            o = [[x]] + rest if not orders else rest + [[x]]
        elif pattern == "cycle" and m >= 3:
            # rotations of one ranking of the pool: with equal multiplicities nobody is even a weak winner
            if not orders:
                base = list(pool)
                rng.shuffle(base)
                rot = 0
            rot += 1
            seq = base[rot % len(base):] + base[:rot % len(base)]
            if not complete and rng.random() < 0.3:
                seq = seq[: rng.randint(2, len(seq))]
            o = [[seq[0]]]
            for a in seq[1:]:
                if p_tie > 0 and rng.random() < 0.15:
                    o[-1].append(a)
                else:
                    o.append([a])
        else:
            o = rand_weak_order(rng, pool, p_tie, complete=complete)
        if o and o not in orders:
            orders.append(o)
    rev_of = lambda o: o[::-1]
    if pattern == "reversed":
        # a ballot together with its exact reverse (classes kept, their order reversed), possibly a second such pair
        for o in [b for b in orders if len(b) >= 2][: rng.choice([1, 1, 2])]:
            if rev_of(o) not in orders:
                orders.insert(rng.randint(orders.index(o) + 1, len(orders)), rev_of(o))
    elif pattern == "palindrome":
        # profile closed under reversal
        for o in list(orders):
            if len(o) >= 2 and rev_of(o) not in orders:
                orders.insert(rng.randint(0, len(orders)), rev_of(o))
    if pattern == "cycle" and rng.random() < 0.7:
        mult = [rng.choice([1, 1, 2, 3, 10 ** 12])] * len(orders)
    elif pattern == "knife" and len(orders) == 2:
        # margins of +1 / 0 / -1 on top of a count that a float64 / int64 cannot hold exactly
        b = rng.choice([2 ** 53, 2 ** 53 + 2 * rng.randint(1, 1000), 2 ** 63 - 1, 2 ** 63, 2 ** 64, 10 ** 30 + 6, 3])
        d = rng.choice([1, 1, 0, -1])
        mult = [b + max(d, 0), b + max(-d, 0)]
    elif big:
        pool_m = [2 ** 53 - 1, 2 ** 53 + 1, 2 ** 53 + 2 * rng.randint(1, 10 ** 6) + 1, 2 ** 63 - 1, 2 ** 63 + 1,
                  2 ** 64 + 1, 10 ** 30 + 7, 1, 2]
        mult = [rng.choice(pool_m) for _ in orders]
    else:
        mult = [rng.randint(1, 4) for _ in orders]
    if pattern in ("reversed", "palindrome"):
        # equal multiplicities (an "only the surplus counts" shortcut would leave 0 voters) or different ones
        eq = rng.random() < (0.4 if pattern == "reversed" else 0.7)
        for a_i, o in enumerate(orders):
            if rev_of(o) in orders and orders.index(rev_of(o)) > a_i:
                b_i = orders.index(rev_of(o))
                if eq:
                    mult[b_i] = mult[a_i]
                elif mult[b_i] == mult[a_i]:
                    mult[b_i] = mult[a_i] + rng.choice([1, 2, 5])
    prof = list(zip(orders, mult))
    dt = infer_dt(alts, prof)
    r = rng.random()
    guard = 0
    if r < 0.08:
        dt = rng.choice([4, 5, 6])       # non-ordinal label: every function must refuse
        guard = 1
    names = {a: _name(rng, a) for a in alts}
    parse = 1 if (not guard and idx % 5 == 0) else 0      # every fifth instance goes through the real parser
    return case("c07.all", payload(alts, prof, dt, names), m=m, pattern=pattern, guard=guard, parse=parse, zero=zero)


# ------------------------------------------------------------------ implementation side
def build(pl):
    from preflibtools.instances import OrdinalInstance
    an, na, nv, mult, dt = pl
    inst = OrdinalInstance()
    for a, nm in an:
        inst.alternatives_name[a] = proto.untext(nm)
    inst.num_alternatives = na
    inst.num_voters = nv
    for o, k in mult:
        t = tuple(tuple(c) for c in o)
        inst.orders.append(t)
        inst.multiplicity[t] = k
    inst.num_unique_orders = len(inst.orders)
    inst.data_type = DT[dt] if dt < len(DT) else "xyz"
    return inst


def build_via_parser(pl):
    """the same instance through the public API: PrefLib text -> OrdinalInstance.parse_str"""
    from preflibtools.instances import OrdinalInstance
    an, na, nv, mult, dt = pl
    lines = ["# FILE NAME: x." + DT[dt], "# TITLE: t", "# DATA TYPE: " + DT[dt],
             "# NUMBER ALTERNATIVES: %d" % na, "# NUMBER VOTERS: %d" % nv, "# NUMBER UNIQUE ORDERS: %d" % len(mult)]
    for a, nm in an:
        lines.append("# ALTERNATIVE NAME %d: %s" % (a, proto.untext(nm)))
    for o, k in mult:
        lines.append("%d: %s" % (k, ",".join(str(c[0]) if len(c) == 1 else "{" + ",".join(map(str, c)) + "}" for c in o)))
    inst = OrdinalInstance()
    inst.parse_str("\n".join(lines) + "\n", DT[dt])
    return inst


STORES = ["", "orders_reversed", "mult_rebuilt_reversed", "orders_sorted", "mult_pop_reinsert", "orders_shuffled",
          "mult_rebuilt_shuffled"]


def decouple(inst, store):
    """same instance, other storage order: instance.orders and the keys of instance.multiplicity no longer run in
    parallel (what .sort()/.reverse(), a rebuilt dict or a popped and re-inserted key leave behind)"""
    if not store:
        return inst
    rs = random.Random(len(inst.orders) * 7919 + len(store))
    if store == "orders_reversed":
        inst.orders.reverse()
    elif store == "orders_sorted":
        inst.orders.sort()
    elif store == "orders_shuffled":
        rs.shuffle(inst.orders)
    elif store in ("mult_rebuilt_reversed", "mult_rebuilt_shuffled"):
        items = list(inst.multiplicity.items())
        if store.endswith("reversed"):
            items.reverse()
        else:
            rs.shuffle(items)
        inst.multiplicity.clear()
        inst.multiplicity.update(items)
    elif store == "mult_pop_reinsert" and inst.multiplicity:
        k = next(iter(inst.multiplicity))
        inst.multiplicity[k] = inst.multiplicity.pop(k)
    return inst


def make(pl, tags):
    return decouple((build_via_parser if tags.get("parse") else build)(pl), tags.get("store", ""))


def _num(v, what):
    """exact integer value of a table entry: ints as they are; a float only if it is integral (converted exactly, so
    a float that lost low-order bits compares unequal to the model's integer); anything else is not a count"""
    if isinstance(v, bool):
        raise TypeError("%s is a bool: %r" % (what, v))
    if isinstance(v, int) or hasattr(v, "__index__"):
        return int(v)
    if isinstance(v, float) and v == v and v not in (float("inf"), float("-inf")) and v.is_integer():
        return int(v)
    raise TypeError("non-integer %s %r" % (what, v))


def _table(d):
    out = []
    for a, row in d.items():
        for b, v in row.items():
            out.append([int(a), int(b), _num(v, "table entry")])
    return sorted(out)


def _borda(d):
    return sorted([int(a), _num(v, "Borda score")] for a, v in d.items())


def _parse_pwg(s, m):
    """re-read the emitted text: [num_alternatives, sorted [alt, name], [num_voters, sum, num_unique], sorted [score,a,b]]"""
    if not isinstance(s, str):
        return {"bad": "order_to_pwg returned %r" % (type(s).__name__,)}
    lines = s.split("\n")
    while lines and lines[-1] == "":
        lines.pop()
    try:
        na = int(lines[0])
        altl = []
        for ln in lines[1:1 + m]:
            a, nm = ln.split(",", 1)
            altl.append([int(a), proto.text(nm)])
        cnt = [int(x) for x in lines[1 + m].split(",")]
        pairs = []
        for ln in lines[2 + m:]:
            sc, a, b = ln.split(",")
            pairs.append([int(sc), int(a), int(b)])
    except Exception as e:  # unreadable text is reported as such, never hidden
        return {"bad": "cannot re-read order_to_pwg output (%s): %r" % (e, s[:200])}
    return [na, sorted(altl), cnt, sorted(pairs)]


def _wrap(r, f):
    if r[0] == 0:
        return [0, f(r[1])]
    return r


def _snapshot(inst):
    return common.snapshot(inst)


def _snap_diff(before, after):
    return common.snap_diff(before, after)


def _history(pl, seq, tags):
    """all calls of seq on ONE instance object; the instance is compared with a copy taken before after every call"""
    from preflibtools.properties import pairwisecomparisons as P
    from preflibtools.instances.convert import order_to_pwg
    m = len(pl[0])
    bl = lambda v: 1 if v is True else (0 if v is False else {"bad": repr(v)})
    fns = [(lambda i: guarded(P.pairwise_scores, i), _table),
           (lambda i: guarded(P.copeland_scores, i), _table),
           (lambda i: guarded(P.has_condorcet, i), bl),
           (lambda i: guarded(P.has_condorcet, i, weak_condorcet=True), bl),
           (lambda i: guarded(P.borda_scores, i), _borda),
           (lambda i: guarded(order_to_pwg, i), lambda s: _parse_pwg(s, m))]
    inst = make(pl, tags)
    before = _snapshot(inst)
    results, mutated = [], None
    for pos, code in enumerate(seq):
        call, canon = fns[code]
        results.append(_wrap(call(inst), canon))
        if mutated is None:
            d = _snap_diff(before, _snapshot(inst))
            if d:
                mutated = [pos, code, proto.text(d[:300])]
    return {"results": results, "mutated": mutated}


def _sequence(pa, pb, tags):
    """two different instances with overlapping ids inside ONE call: the larger A first, then the smaller B, then A
    again; results kept from the first round are re-read after the later calls; the objects returned for B are
    emptied in place before B is asked again (a result must not be shared with later calls or with the module)"""
    from preflibtools.properties import pairwisecomparisons as P
    from preflibtools.instances.convert import order_to_pwg
    bl = lambda v: 1 if v is True else (0 if v is False else {"bad": repr(v)})

    def ask(inst, m):
        raw = [guarded(P.pairwise_scores, inst), guarded(P.copeland_scores, inst), guarded(P.has_condorcet, inst),
               guarded(P.has_condorcet, inst, weak_condorcet=True), guarded(P.borda_scores, inst),
               guarded(order_to_pwg, inst)]
        return raw

    def canon(raw, m):
        cs = [_table, _table, bl, bl, _borda, lambda s: _parse_pwg(s, m)]
        return [_wrap(list(r), f) for r, f in zip(raw, cs)]

    a, b = make(pa, tags), make(pb, tags)
    ma, mb = len(pa[0]), len(pb[0])
    raw_a = ask(a, ma)
    first_a = canon(raw_a, ma)
    raw_b = ask(b, mb)
    first_b = canon(raw_b, mb)
    kept_a = canon(raw_a, ma)                  # the objects returned for A, read again after the calls on B
    for r in raw_b:                            # poison what was returned for B
        if r[0] == 0 and isinstance(r[1], dict):
            for row in list(r[1].values()):
                if isinstance(row, dict):
                    row.clear()
            r[1].clear()
    second_b = canon(ask(b, mb), mb)
    second_a = canon(ask(a, ma), ma)
    kept_a2 = canon(raw_a, ma)
    return {"first_a": first_a, "first_b": first_b, "kept_a": kept_a, "second_b": second_b, "second_a": second_a,
            "kept_a2": kept_a2}


def impl(c):
    from preflibtools.properties import pairwisecomparisons as P
    from preflibtools.instances.convert import order_to_pwg
    op, pl = c["op"], c["payload"]
    if op == "c07.history":
        return _history(pl[0], pl[1], c["tags"])
    if op == "c07.seq":
        return _sequence(pl[0], pl[1], c["tags"])
    if op == "c07.condorcet":
        inst = build(pl[0])
        return _wrap(guarded(P.has_condorcet, inst, weak_condorcet=bool(pl[1])), lambda v: 1 if v is True else (0 if v is False else {"bad": repr(v)}))
    m = len(pl[0])
    res = {}
    salt = common.salt_of(pl)

    def mk(q):
        inst = make(q, c["tags"])
        if salt % 3 == 0:   # call / in-place edit / call: the same object held a decoy profile of the same shape first
            inst, _ = common.prime_stale(inst, [P.pairwise_scores, P.copeland_scores, P.has_condorcet,
                                                lambda i: P.has_condorcet(i, weak_condorcet=True), P.borda_scores,
                                                order_to_pwg], salt // 3)
        return inst
    res["pairwise"] = _wrap(guarded(P.pairwise_scores, mk(pl)), _table)
    res["copeland"] = _wrap(guarded(P.copeland_scores, mk(pl)), _table)
    bl = lambda v: 1 if v is True else (0 if v is False else {"bad": repr(v)})
    res["condorcet"] = _wrap(guarded(P.has_condorcet, mk(pl)), bl)
    res["condorcet_weak"] = _wrap(guarded(P.has_condorcet, mk(pl), weak_condorcet=True), bl)
    res["borda"] = _wrap(guarded(P.borda_scores, mk(pl)), _borda)
    res["pwg"] = _wrap(guarded(order_to_pwg, mk(pl)), lambda s: _parse_pwg(s, m))
    if op == "c07.all":
        return res
    return res[op.split(".")[1]]


# ------------------------------------------------------------------ judge
KEYS = ["pairwise", "copeland", "condorcet", "condorcet_weak", "borda", "pwg"]
THEOREM = {"pairwise": "pairwise_spec", "copeland": "copeland_spec", "condorcet": "condorcet_spec",
           "condorcet_weak": "condorcet_spec", "borda": "borda_spec", "pwg": "pwg_spec"}


def _mtable(t):
    return sorted([a, b, v] for a, row in t for b, v in row)


def _cmp(key, alts, r, m):
    """r: implementation observable, m: model answer for the same function; None if in relation"""
    if m[0] != 0:
        if r[0] == 0:
            return "%s: implementation returned a value where the model refuses (%r)" % (key, m)
        return None if r[:2] == m[:2] else "%s: impl raised %r, model refuses with %r" % (key, r, m)
    if r[0] != 0:
        return "%s: impl raised %r, model returns a value" % (key, r)
    rv, mv = r[1], m[1]
    if isinstance(rv, dict):
        return "%s: %s" % (key, rv.get("bad"))
    if key in ("pairwise", "copeland"):
        mt = _mtable(mv)
        if rv != mt:
            diff = [e for e in rv if e not in mt][:3] + [e for e in mt if e not in rv][:3]
            return "%s table differs (a,b,value), e.g. %r; impl has %d entries, model %d" % (key, diff, len(rv), len(mt))
        return None
    if key in ("condorcet", "condorcet_weak"):
        return None if rv == mv else "has_condorcet(%s): impl %r, model %r" % ("weak" if key.endswith("weak") else "strict", rv, mv)
    if key == "borda":
        rd, md = {a: v for a, v in rv}, {a: v for a, v in mv}
        extra = [a for a in rd if a not in alts]
        if extra:
            return "borda: scores for unknown alternatives %r" % extra
        for a in alts:
            if rd.get(a, 0) != md.get(a, 0):
                return "borda[%d]: impl %r, model %r" % (a, rd.get(a, 0), md.get(a, 0))
        return None
    if key == "pwg":
        na, altl, cnt, pairs = rv
        mna, maltl, mcnt, mpairs = mv
        mine = [mna, sorted(maltl), mcnt, sorted(mpairs)]
        if [na, altl, cnt, pairs] != mine:
            for nm, x, y in (("num_alternatives", na, mna), ("alternative lines", altl, sorted(maltl)),
                             ("count line (num_voters,sum,num_unique)", cnt, mcnt), ("pair lines", pairs, sorted(mpairs))):
                if x != y:
                    return "order_to_pwg %s: impl %r, model %r" % (nm, x if len(str(x)) < 300 else str(x)[:300], y if len(str(y)) < 300 else str(y)[:300])
        return None
    return "unknown key"


def oracle_requests(c, r):
    if c["op"] == "c07.history":          # the model of the ORIGINAL profile judges every call of the history
        return [("c07.all", c["payload"][0])]
    if c["op"] == "c07.seq":
        return [("c07.all", c["payload"][0]), ("c07.all", c["payload"][1])]
    return [(c["op"], c["payload"])]


def judge(c, r, mres):
    m = mres[0]
    op = c["op"]
    if op == "c07.seq":
        pa, pb = c["payload"]
        for stage, pl, mm, what in (("first_a", pa, mres[0], "first instance (A)"),
                                    ("first_b", pb, mres[1], "second instance (B) asked after A"),
                                    ("kept_a", pa, mres[0], "results returned for A, read again after the calls on B"),
                                    ("second_b", pb, mres[1], "B asked again after the objects returned for B were emptied"),
                                    ("second_a", pa, mres[0], "A asked again after B"),
                                    ("kept_a2", pa, mres[0], "results returned for A by the first round, read at the end")):
            alts = [a for a, _ in pl[0]]
            for k, res, mk in zip(KEYS, r[stage], mm):
                why = _cmp(k, alts, res, mk)
                if why:
                    return {"kind": "mismatch", "theorem": THEOREM[k], "reason": "%s: %s" % (what, why)}
        return None
    if op == "c07.history":
        pl, seq = c["payload"]
        alts = [a for a, _ in pl[0]]
        for pos, (code, res) in enumerate(zip(seq, r["results"])):
            why = _cmp(KEYS[code], alts, res, m[code])
            if why:
                return {"kind": "mismatch", "theorem": THEOREM[KEYS[code]],
                        "reason": "call %d of the history %s on one instance object: %s"
                                  % (pos + 1, [KEYS[x] for x in seq], why)}
        if r["mutated"]:
            pos, code, d = r["mutated"]
            return {"kind": "mismatch", "theorem": "tables_regrouping (the functions read the profile, they do not own it)",
                    "reason": "the instance was modified by call %d (%s): %s" % (pos + 1, KEYS[code], proto.untext(d))}
        return None
    if op == "c07.all":
        alts = [a for a, _ in c["payload"][0]]
        for k, mk in zip(KEYS, m):
            why = _cmp(k, alts, r[k], mk)
            if why:
                return {"kind": "mismatch", "reason": why, "theorem": THEOREM[k]}
        return None
    key = op.split(".")[1]
    pl = c["payload"][0] if key == "condorcet" else c["payload"]
    if key == "condorcet" and c["payload"][1]:
        key2 = "condorcet_weak"
    else:
        key2 = key
    why = _cmp(key2, [a for a, _ in pl[0]], r, m)
    if why:
        return {"kind": "mismatch", "reason": why, "theorem": THEOREM[key2]}
    return None


def _inst_pl(c):
    return c["payload"][0] if c["op"] in ("c07.condorcet", "c07.history", "c07.seq") else c["payload"]


def nontrivial(c, r, m):
    pl = _inst_pl(c)
    return len(pl[0]) >= 2 and len(pl[3]) >= 2 and any(k > 1 for _, k in pl[3]) and pl[4] < 4


def stats(c, r, m):
    pl = _inst_pl(c)
    an, na, nv, mult, dt = pl
    alts = [a for a, _ in an]
    out = ["m=%d" % len(an) if len(an) <= 7 else "m>7", "type=%s" % DT[min(dt, 6)], "ballots=%d" % len(mult)]
    if c["tags"].get("parse"):
        out.append("instance built by OrdinalInstance.parse_str")
    if 0 in alts:
        out.append("id 0 present")
        z, pat = c["tags"].get("zero"), c["tags"].get("pattern")
        if z == "x" and pat in ("winner", "weak_winner", "knife"):
            out.append("id 0 is the planted (weak / knife-edge) Condorcet winner")
        if z in ("x", "y") and pat == "tied_pair" and dt in (2, 3):
            out.append("id 0 is one of the two alternatives tied in every ballot")
        if z in ("x", "y") and pat == "apart":
            out.append("id 0 is one of the two alternatives never ranked together")
        if not any(0 in cl for o, _ in mult for cl in o):
            out.append("id 0 ranked by nobody")
    mx = max([k for _, k in mult] or [0])
    if mx > 2 ** 53:
        out.append("multiplicity > 2**53" if mx < 2 ** 63 else "multiplicity >= 2**63")
    if c["tags"].get("pattern") == "knife" and len(mult) == 2 and mult[0][1] > 2 ** 53:
        out.append("knife-edge margin %+d beyond 2**53" % (mult[0][1] - mult[1][1]))
    if c["tags"].get("store") and len(mult) >= 2:
        out.append("storage decoupled: " + c["tags"]["store"])
        if len({k for _, k in mult}) > 1:
            out.append("storage decoupled and multiplicities differ")
    if alts != sorted(alts):
        out.append("alternatives_name not in ascending id order")
    if c["op"] == "c07.seq":
        out.append("two instances with overlapping ids in one call (A, B, A again; kept results re-read; B's results emptied)")
    if c["op"] == "c07.history":
        out.append("history on one instance object, first call %s" % KEYS[c["payload"][1][0]])
    elif c["op"] == "c07.all":
        out.append("fresh instance object per function")
    ol = [o for o, _ in mult]
    pairs = [(i, ol.index(o[::-1])) for i, o in enumerate(ol) if len(o) >= 2 and o[::-1] in ol]
    if pairs:
        out.append("profile has a ballot and its exact reverse (%s)" % ("weak" if dt in (2, 3) else "strict"))
        if any(mult[i][1] == mult[j][1] for i, j in pairs):
            out.append("reversed pair with equal multiplicities")
        if any(mult[i][1] != mult[j][1] for i, j in pairs):
            out.append("reversed pair with different multiplicities")
        if all(len(o) < 2 or (o[::-1] in ol and mult[i][1] == mult[ol.index(o[::-1])][1]) for i, o in enumerate(ol)):
            out.append("palindromic profile (closed under reversal, equal multiplicities)")
    ranked = {a for o, _ in mult for cl in o for a in cl}
    if len(ranked) < len(alts):
        out.append("has an alternative nobody ranks")
    # a pair no voter compares strictly
    strictly = set()
    for o, _ in mult:
        for i, ci in enumerate(o):
            for cj in o[i + 1:]:
                for a in ci:
                    for b in cj:
                        strictly.add((a, b))
                        strictly.add((b, a))
    if any((a, b) not in strictly for a in alts for b in alts if a != b):
        out.append("has a pair no voter compares strictly")
    if c["op"] == "c07.all" and isinstance(m[0], list) and len(m[0]) == 6:
        mm = m[0]
        if mm[2][0] == 0:
            out.append("condorcet strict=%d weak=%d" % (mm[2][1], mm[3][1]))
        else:
            out.append("refused (type guard)")
        out.append("borda " + ("value" if mm[4][0] == 0 else "refused"))
    return out


def describe(c):
    pl = _inst_pl(c)
    an, na, nv, mult, dt = pl
    d = {"op": c["op"], "alternatives_name": {a: proto.untext(nm) for a, nm in an}, "num_alternatives": na,
         "num_voters": nv, "multiplicity (in insertion order)": [[o, k] for o, k in mult], "data_type": DT[min(dt, 6)]}
    if c["op"] == "c07.condorcet":
        d["weak_condorcet"] = bool(c["payload"][1])
    if c["op"] == "c07.history":
        d["calls on one instance object, in this order"] = [KEYS[x] for x in c["payload"][1]]
    if c["op"] == "c07.seq":
        an2, na2, nv2, mult2, dt2 = c["payload"][1]
        d["second instance (B), asked after the first one in the same process"] = {
            "alternatives_name": {a: proto.untext(nm) for a, nm in an2}, "multiplicity": [[o, k] for o, k in mult2],
            "data_type": DT[min(dt2, 6)]}
    if c["tags"].get("store"):
        d["storage"] = c["tags"]["store"] + " (instance.orders and the keys of instance.multiplicity decoupled after building)"
    return d


def _rebuild(c, an, mult, dt):
    pl = [an, len(an), sum(k for _, k in mult), mult, dt]
    if c["op"] in ("c07.condorcet", "c07.history", "c07.seq"):
        return dict(c, payload=[pl, c["payload"][1]])
    return dict(c, payload=pl)


def shrink(c):
    an, na, nv, mult, dt = _inst_pl(c)
    if c["op"] == "c07.history":
        seq = c["payload"][1]
        for i in range(len(seq)):
            if len(seq) > 1:
                yield dict(c, payload=[c["payload"][0], seq[:i] + seq[i + 1:]])
    for i in range(len(mult)):
        if len(mult) > 1:
            yield _rebuild(c, an, mult[:i] + mult[i + 1:], dt)
    for i in range(len(mult)):
        if mult[i][1] > 1:
            yield _rebuild(c, an, mult[:i] + [[mult[i][0], 1]] + mult[i + 1:], dt)
    if len(an) > 2:
        for a, _ in an:
            new = []
            for o, k in mult:
                o2 = [[x for x in cl if x != a] for cl in o]
                o2 = [cl for cl in o2 if cl]
                if not o2:
                    continue
                for e in new:
                    if e[0] == o2:
                        e[1] += k
                        break
                else:
                    new.append([o2, k])
            if new:
                yield _rebuild(c, [e for e in an if e[0] != a], new, dt)
    for i, (o, k) in enumerate(mult):
        if len(o) > 1 and o[:-1] not in [x[0] for x in mult]:
            yield _rebuild(c, an, mult[:i] + [[o[:-1], k]] + mult[i + 1:], dt)
    if any(proto.untext(nm) != "Alternative %d" % a for a, nm in an):
        yield _rebuild(c, [[a, proto.text("Alternative %d" % a)] for a, _ in an], mult, dt)
