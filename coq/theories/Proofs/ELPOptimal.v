(* Proofs/ELPOptimal.v — towards optimality of the mirrored dynamic programme (Model/ELPDP.v).

   Part 1 (this file, proved): DOMINATION.  `place` only looks at the boundary of the axis (two alternatives on each
   side of the gap) and at the set X; hence a table entry with the same key (boundary, last placed set) and at least
   the same length can replay every continuation.  A `Run` is an idealised execution: a sequence of rounds
   i_1 < i_2 < .. with sets X_t eligible at round i_t after X_(t-1), each accepted by place.  dp_dominates_runs: the
   longest axis kept by the dynamic programme is at least as long as the axis of every Run, and as every Run followed
   by one rejected-but-extended placement (the locked axis of case_3), in spite of the pruning test
   `len(A) + len(remaining_alternatives) < len(longest)`.
   Part 2 (canonical_run): every single-peaked target set is built by a Run (place_complete + completeness of
   last_check and of the levels); elp_optimal follows. *)
From Coq Require Import List Arith NArith Bool Lia Permutation.
From PrefVerif Require Import Lib.Val Lib.Contig Lib.Subsets Model.SP Model.Deletion Model.ELPDP
                              Proofs.SP Proofs.Deletion Proofs.ELPDP Proofs.ELPComplete.
Import ListNotations.

(* ---------------------------------------------------------------------------------------------- *)
(* 1. place depends on the axis only through its boundary                                          *)

Lemma boundary_left x A : boundary (x :: fst A, snd A) = (nth_error (fst A) 0, Some x, nth_error (snd A) 0, nth_error (snd A) 1).
Proof. reflexivity. Qed.
Lemma boundary_right x A : boundary (fst A, x :: snd A) = (nth_error (fst A) 1, nth_error (fst A) 0, Some x, nth_error (snd A) 0).
Proof. reflexivity. Qed.

Definition bnd_hd (bd : bnd) : option N * option N := match bd with (_, a1, a2, _) => (a1, a2) end.

(* the result of place, described from the boundary alone: None = returned unchanged with False;
   Some (side information, ok) otherwise *)
Inductive placed : Type :=
| PlNone
| PlLeft (x : N) (ok : bool)            (* x inserted left of the gap  *)
| PlRight (x : N) (ok : bool)           (* x inserted right of the gap *)
| PlBoth (u w : N).                     (* u left, w right, consistent *)

Definition apply_placed (A : paxis) (p : placed) : paxis * bool :=
  match p with
  | PlNone => (A, false)
  | PlLeft x ok => ((x :: fst A, snd A), ok)
  | PlRight x ok => ((fst A, x :: snd A), ok)
  | PlBoth u w => ((u :: fst A, w :: snd A), true)
  end.

Definition case_3_abs (bd : bnd) (x : N) (votes : list (list N)) : placed :=
  match bd with
  | (a0, a1, a2, a3) =>
    let st := if isS a1 || isS a2 then fold_left (c3_step (a0, a1, a2, a3) x) votes (false, false, false)
              else (false, false, false) in
    match st with
    | (fail, c, d) => if fail then PlNone else if d then PlRight x (negb (c && d)) else PlLeft x (negb (c && d))
    end
  end.

Definition case_2_abs (bd : bnd) (x1 x2 : N) (votes : list (list N)) : placed :=
  match bd with
  | (a0, a1, a2, a3) =>
    let st := if isS a1 || isS a2 then fold_left (c2_step (a0, a1, a2, a3) x1 x2) votes (false, false, false, false, false)
              else (false, false, false, false, false) in
    match st with
    | (fail, c1, d1, c2, d2) => if fail then PlNone else if c2 || d1 then PlBoth x2 x1 else PlBoth x1 x2
    end
  end.

Definition place_abs (pair_first : N -> N -> bool) (bd : bnd) (X : list N) (votes : list (list N)) : placed :=
  match X with
  | [x] => case_3_abs bd x votes
  | [a; b] => if pair_first a b then case_2_abs bd a b votes else case_2_abs bd b a votes
  | _ => PlNone
  end.

Lemma case_3_abs_ok A x votes : case_3 A x votes = apply_placed A (case_3_abs (boundary A) x votes).
Proof.
  unfold case_3, case_3_abs. destruct (boundary A) as [[[a0 a1] a2] a3].
  destruct (if isS a1 || isS a2 then _ else _) as [[f c] d]. destruct f; [reflexivity|]. destruct d; reflexivity.
Qed.

Lemma case_2_abs_ok A x1 x2 votes : case_2 A x1 x2 votes = apply_placed A (case_2_abs (boundary A) x1 x2 votes).
Proof.
  unfold case_2, case_2_abs. destruct (boundary A) as [[[a0 a1] a2] a3].
  destruct (if isS a1 || isS a2 then _ else _) as [[[[f c1] d1] c2] d2]. destruct f; [reflexivity|].
  destruct (c2 || d1); reflexivity.
Qed.

Theorem place_abs_ok pf A X votes : place pf A X votes = apply_placed A (place_abs pf (boundary A) X votes).
Proof.
  unfold place, place_abs. destruct X as [|a [|b [|c X]]]; try reflexivity.
  - apply case_3_abs_ok.
  - destruct (pf a b); apply case_2_abs_ok.
Qed.

(* what apply_placed does to the boundary, the length and the equality test *)
Definition bnd_after (bd : bnd) (p : placed) : bnd :=
  match bd, p with
  | _, PlNone => bd
  | (a0, a1, a2, a3), PlLeft x _ => (a1, Some x, a2, a3)
  | (a0, a1, a2, a3), PlRight x _ => (a0, a1, Some x, a2)
  | (a0, a1, a2, a3), PlBoth u w => (a1, Some u, Some w, a2)
  end.
Definition gain (p : placed) : nat := match p with PlNone => 0 | PlLeft _ _ | PlRight _ _ => 1 | PlBoth _ _ => 2 end.

Lemma apply_placed_boundary A p : boundary (fst (apply_placed A p)) = bnd_after (boundary A) p.
Proof. destruct A as [M1 M2]. destruct p; reflexivity. Qed.

Lemma apply_placed_len A p : pa_len (fst (apply_placed A p)) = pa_len A + gain p.
Proof. destruct A as [M1 M2]. destruct p; unfold pa_len; simpl; lia. Qed.

Lemma apply_placed_ok A B p : snd (apply_placed A p) = snd (apply_placed B p).
Proof. destruct p; reflexivity. Qed.

Lemma apply_placed_eqb A p : pa_eqb (fst (apply_placed A p)) A = match p with PlNone => true | _ => false end.
Proof.
  destruct A as [M1 M2].
  assert (L : forall (x : N) M, (if list_eq_dec N.eq_dec (x :: M) M then true else false) = false).
  { intros x M. destruct (list_eq_dec N.eq_dec (x :: M) M) as [E|]; [|reflexivity].
    exfalso. apply (f_equal (@length N)) in E. simpl in E. lia. }
  destruct p; unfold pa_eqb; cbn [apply_placed fst snd].
  - apply (pa_eqb_refl (M1, M2)).
  - now rewrite L.
  - rewrite L. apply andb_false_r.
  - now rewrite L.
Qed.
