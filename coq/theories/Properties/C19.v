(* Properties/C19.v — 1-Euclidean recognition is exact and its embedding realises the votes.
   PARTIAL with respect to the implementation (bounded comparison), complete with respect to the specification.

   Property text: "is_one_euclidean answers True exactly when voters and alternatives can be placed on the real
   line so that every voter ranks the alternatives by strictly increasing distance from their own position.
   Whenever it answers True, the positions it returns for all voters and all alternatives realise every voter's
   ranking."  (for every profile of strict complete orders over alternatives 1..m, any number of distinct orders
   including one, stored in any order)

   What is proved here, for all sizes (model: Model/Euclid.v, proofs: Proofs/Euclid.v):
     * the specification  Euclidean / realises / vote_realised  over exact rationals (every IEEE double returned
       by the implementation is a dyadic rational; a rational embedding exists iff a real one exists because the
       constraints are strict linear inequalities with rational coefficients — that remark is NOT formalised);
     * eucl_check_correct : the witness checker accepts exactly the maps that realise every voter's ranking
       (clause 2 of the property: every True answer of the implementation is run through this checker);
     * planted_sound      : a map accepted by the checker proves the profile 1-Euclidean (positive oracle);
     * eucl_implies_sp    : a realised profile is single-peaked on the alternatives sorted by position, and
                            alternatives sit at pairwise distinct points;
     * eucl_implies_sc    : it is single-crossing along the voters sorted by position;
     * C19_refute_sound   : not single-peaked or not single-crossing (sibling deciders sp_decide / sc_decide,
                            proved exact in Proofs/SP.v, Proofs/SC.v)  ==>  no embedding exists, so the only
                            correct answer is False (negative oracle);
     * Euclidean_perm, Euclidean_relabel_iff : the specification does not depend on the storage order of the
                            ballots nor on a bijective renaming of the alternatives;
     * eucl_decide_correct : the reference decider eucl_decide — for every axis on which the profile is
                            single-peaked, Fourier-Motzkin elimination (fuel-free, recursion on the number of
                            variables; fm_feasible_correct: sound AND complete over Q) of the strict linear system
                            "alternatives in axis order, every voter on the right side of every midpoint"
                            (eucl_system_correct) — is an EXACT decision procedure for the specification, for all
                            sizes: eucl_decide alts p = true <-> p is 1-Euclidean. Clause 1 of the property
                            ("answers True exactly when ...") therefore has a proved reference verdict.
                            It is doubly exponential in the number of alternatives; the correspondence runs it for
                            m <= 6 alternatives and n <= 12 distinct orders (below 1 s per profile; m = 7 can take
                            minutes).
     * eucl_algo_sound    : the MIRROR of is_one_euclidean (Model/EuclidAlgo.v: single-crossing precheck through the proved
                            mirror sc_algo, v_1 / v_n from the returned sequence, single-order shortcut, colouring
                            loop with its failure exit, axis from the counts, LP as a parameter, runs F_1 G_1 F_2 ...
                            of v_1, placement with the bands 8*i*delta) is SOUND for every LP oracle whose answers
                            satisfy the mirrored constraints: if it answers (True, y) then eucl_check accepts y.
                            The proof is the band argument: every voter is within delta of F_1, in [6,8)*delta
                            of G_1, in (8i, 8i+1]*delta of F_{i+1}, in [8i+6, 8i+8)*delta of G_{i+1}; grey
                            alternatives are ranked alike by all voters; later coloured alternatives lie outside
                            the span of the voters and F_1, so pushing them outwards keeps every voter's order.
       eucl_algo_exact_sound : the same for the extracted instance (exact Fourier-Motzkin point, re-checked), no hypothesis.
       eucl_algo_no_error : the mirror raises nothing on well-formed non-empty profiles.
       eucl_algo_order_independent : the mirror does not depend on the order in which the SETS C_set / C_set_plus are
                            iterated (the colouring loop ends in the colouring determined by the roles and fails
                            iff a non-red alternative has both roles; the axis counts are pairwise different, so
                            the stable sort has no ties): permuting `alts` changes neither the verdict nor the
                            voters' positions, and the alternatives' positions only up to == on Q.
       eucl_algo_complete : COMPLETENESS (Elkind-Faliszewski): on a 1-Euclidean profile the precheck passes, the
                            colouring never takes its failure exit (a non-red alternative with both roles would lie
                            strictly between v_1 and v_n and hence be red) and the LP on the constructed axis is
                            feasible (green < red < blue, ties by v_1 / reversed v_n, IS the left-to-right order of
                            the coloured alternatives in every embedding with v_1 left of v_n; rescaling meets the
                            margins) — so for every LP oracle that answers None only on infeasible systems the
                            mirror answers True.
       eucl_algo_verdict_exact : for every sound and complete LP oracle, eucl_algo_verdict = eucl_decide.
       eucl_algo_exact_verdict : the EXTRACTED mirror (LP oracle = Fourier-Motzkin with back-substitution, fm_solve_sound /
                            fm_solve_complete, rescaled to the margins, lp_checked_complete) decides 1-Euclideanness
                            exactly: eucl_algo_verdict lp_checked = eucl_decide, no hypothesis on the oracle.
   What is NOT proved: that the implementation equals the mirror (it is tied to the theorems by the correspondence:
   its verdict is compared with eucl_decide and with the extracted mirror on every generated profile with m <= 6,
   n <= 12; its True answers are run through eucl_check at every size; beyond those sizes verdicts are checked on
   planted embeddings only), and that CBC behaves like a sound and complete LP oracle (floats; trusted). Status of
   /repo: four defects found by this check were repaired (5a8bee2, 3211aad, 4ca33bd, 74e9e2c; corpus/C19); no open
   finding. *)
From Coq Require Import List NArith ZArith QArith Qabs Bool Permutation Sorted.
From PrefVerif Require Import Lib.Val Lib.Contig Model.SP Model.SC Model.SCAlgo Model.Euclid Model.EuclidLP Model.EuclidAlgo
                              Proofs.SP Proofs.SC Proofs.Euclid Proofs.EuclidLP Proofs.EuclidAlgo
                              Proofs.EuclidAlgoOrder Proofs.EuclidAlgoComplete Proofs.EuclidLPSolve.
Import ListNotations.
Open Scope Q_scope.

(* ---- clause 2: the returned positions realise every voter's ranking  <->  the checker accepts them ------- *)
Theorem eucl_check_correct : forall (alts : list N) (profile : list (list N)) (vpos : list Q) (apos : list (N * Q)),
  eucl_check alts profile vpos apos = true <->
  (* every alternative of the instance has a position *)
  (forall a, In a alts -> exists q, apos_lookup apos a = Some q) /\
  (* every ranked alternative has a position *)
  (forall r a, In r profile -> In a r -> exists q, apos_lookup apos a = Some q) /\
  (* one voter position per ranking, and voter i ranks by STRICTLY increasing distance:
     whoever is listed earlier in ranking i is strictly closer to voter i *)
  Forall2 (fun v r => forall i j a b, (i < j)%nat -> nth_error r i = Some a -> nth_error r j = Some b ->
                        Qabs (v - posf apos a) < Qabs (v - posf apos b)) vpos profile.
Proof. exact Proofs.Euclid.eucl_check_correct. Qed.
Print Assumptions eucl_check_correct.

(* ---- the positive oracle: an accepted map (the generator's own, or the implementation's) proves the profile
        1-Euclidean ------------------------------------------------------------------------------------------ *)
Theorem planted_sound : forall alts profile vpos apos,
  eucl_check alts profile vpos apos = true ->
  exists (x : N -> Q) (vs : list Q),
    Forall2 (fun v r => forall i j a b, (i < j)%nat -> nth_error r i = Some a -> nth_error r j = Some b ->
                          Qabs (v - x a) < Qabs (v - x b)) vs profile.
Proof. exact Proofs.Euclid.planted_sound. Qed.
Print Assumptions planted_sound.

(* ---- necessary condition 1 ------------------------------------------------------------------------------- *)
Theorem eucl_implies_sp : forall alts profile (x : N -> Q) (vpos : list Q),
  NoDup alts -> Forall (fun r => Permutation alts r) profile -> profile <> [] ->
  realises x vpos profile ->
  (forall a b, In a alts -> In b alts -> a <> b -> ~ x a == x b) /\
  exists axis, Permutation alts axis /\
               StronglySorted (fun a b => x a < x b) axis /\          (* the alternatives sorted by position *)
               (forall r, In r profile -> forall k, contiguous (firstn k r) axis).   (* = SP_axis profile axis *)
Proof. exact Proofs.Euclid.eucl_implies_sp. Qed.
Print Assumptions eucl_implies_sp.

Theorem Euclidean_SP : forall alts profile,
  NoDup alts -> Forall (fun r => Permutation alts r) profile -> Euclidean profile -> SP alts profile.
Proof. exact Proofs.Euclid.Euclidean_SP. Qed.
Print Assumptions Euclidean_SP.

(* ---- necessary condition 2 ------------------------------------------------------------------------------- *)
Theorem eucl_implies_sc : forall alts profile (x : N -> Q) (vpos : list Q),
  NoDup alts -> Forall (fun r => Permutation alts r) profile -> realises x vpos profile ->
  exists ps : list (Q * list N),
    Permutation (combine vpos profile) ps /\
    StronglySorted (fun p q => fst p <= fst q) ps /\                  (* the voters sorted by position *)
    Permutation profile (map snd ps) /\
    (forall a b, In a alts -> In b alts -> a <> b -> (switches a b (map snd ps) <= 1)%nat).
Proof. exact Proofs.Euclid.eucl_implies_sc. Qed.
Print Assumptions eucl_implies_sc.

Theorem Euclidean_SC : forall alts profile,
  NoDup alts -> Forall (fun r => Permutation alts r) profile -> Euclidean profile -> SC alts profile.
Proof. exact Proofs.Euclid.Euclidean_SC. Qed.
Print Assumptions Euclidean_SC.

(* ---- the negative oracle --------------------------------------------------------------------------------- *)
Theorem C19_refute_sound : forall alts profile,
  NoDup alts -> Forall (fun r => Permutation alts r) profile ->
  sp_decide alts profile = false \/ sc_decide alts profile = false ->
  ~ exists (x : N -> Q) (vpos : list Q), realises x vpos profile.
Proof. exact Proofs.Euclid.C19_refute_sound. Qed.
Print Assumptions C19_refute_sound.

(* the two protocol operations c19.refuted / c19.refuted_fast *)
Theorem eucl_refuted_sound : forall alts profile,
  NoDup alts -> Forall (fun r => Permutation alts r) profile ->
  eucl_refuted alts profile = true -> ~ Euclidean profile.
Proof. exact Proofs.Euclid.eucl_refuted_sound. Qed.
Print Assumptions eucl_refuted_sound.

Theorem eucl_refuted_fast_eq : forall alts profile, eucl_refuted_fast alts profile = eucl_refuted alts profile.
Proof. exact Proofs.Euclid.eucl_refuted_fast_eq. Qed.
Print Assumptions eucl_refuted_fast_eq.

(* the two oracles cannot contradict each other *)
Theorem refuted_no_witness : forall alts profile vpos apos,
  NoDup alts -> Forall (fun r => Permutation alts r) profile ->
  eucl_refuted alts profile = true -> eucl_check alts profile vpos apos = false.
Proof. exact Proofs.Euclid.refuted_no_witness. Qed.
Print Assumptions refuted_no_witness.

(* ---- "stored in any order" -------------------------------------------------------------------------------- *)
Theorem Euclidean_perm : forall profile profile',
  Permutation profile profile' -> Euclidean profile -> Euclidean profile'.
Proof. exact Proofs.Euclid.Euclidean_perm. Qed.
Print Assumptions Euclidean_perm.

(* ---- relabeling (C15): a bijective renaming of the alternatives does not change the verdict ----------------- *)
Theorem Euclidean_relabel_iff : forall (f g : N -> N) profile,
  (forall a, g (f a) = a) -> (Euclidean (map (map f) profile) <-> Euclidean profile).
Proof. exact Proofs.Euclid.Euclidean_relabel_iff. Qed.
Print Assumptions Euclidean_relabel_iff.

(* ---- clause 1: an exact reference for "answers True exactly when ..." ------------------------------------- *)
(* Fourier-Motzkin elimination decides strict homogeneous linear systems over Q (constraint c: eval c env < 0) *)
Theorem fm_feasible_correct : forall (n : nat) (sys : list (list Q)),
  fm_feasible n sys = true <-> exists env : list Q, length env = n /\ Forall (fun c => eval c env < 0) sys.
Proof. exact Proofs.EuclidLP.fm_feasible_correct. Qed.
Print Assumptions fm_feasible_correct.

(* the system built for an axis is feasible iff there is an embedding with the alternatives in axis order *)
Theorem eucl_system_correct : forall axis profile,
  NoDup axis -> Forall (fun r => Permutation axis r) profile ->
  (eucl_axis_feasible axis profile = true <->
   exists (x : N -> Q) (vpos : list Q), StronglySorted (fun a b => x a < x b) axis /\ realises x vpos profile).
Proof. exact Proofs.EuclidLP.eucl_system_correct. Qed.
Print Assumptions eucl_system_correct.

(* the reference decider (protocol operation c19.decide) is exact, for all sizes *)
Theorem eucl_decide_correct : forall alts profile,
  NoDup alts -> Forall (fun r => Permutation alts r) profile ->
  (eucl_decide alts profile = true <->
   exists (x : N -> Q) (vpos : list Q),
     Forall2 (fun v r => forall i j a b, (i < j)%nat -> nth_error r i = Some a -> nth_error r j = Some b ->
                           Qabs (v - x a) < Qabs (v - x b)) vpos profile).
Proof. exact Proofs.EuclidLP.eucl_decide_correct. Qed.
Print Assumptions eucl_decide_correct.

(* ---- the mirror of is_one_euclidean -------------------------------------------------------------------------- *)
Theorem eucl_algo_sound :
  forall lp_solve : list (list N) -> list N -> option (list Q * list (N * Q)),
  (* the LP oracle: a returned point satisfies the constraints of _one_euclidean_solve_lp (times 2) *)
  (forall prefs axis vs xs, lp_solve prefs axis = Some (vs, xs) ->
     Forall (fun ab => posf xs (fst ab) + 1 <= posf xs (snd ab)) (ordered_pairs axis) /\
     Forall2 (fun p r => Forall (fun ab => if before r (fst ab) (snd ab)
                                           then 2 * p + 2 <= posf xs (fst ab) + posf xs (snd ab)
                                           else posf xs (fst ab) + posf xs (snd ab) + 2 <= 2 * p)
                                (ordered_pairs axis)) vs prefs) ->
  forall alts orders vs xs,
  NoDup alts /\ NoDup orders /\ Forall (fun o => Permutation alts o) orders ->
  eucl_algo lp_solve alts orders = Ok (Some (vs, xs)) -> eucl_check alts orders vs xs = true.
Proof. exact Proofs.EuclidAlgo.eucl_algo_sound. Qed.
Print Assumptions eucl_algo_sound.

Theorem eucl_algo_exact_sound : forall alts orders vs xs,
  NoDup alts /\ NoDup orders /\ Forall (fun o => Permutation alts o) orders ->
  eucl_algo_exact alts orders = Ok (Some (vs, xs)) ->
  eucl_check alts orders vs xs = true /\ Euclidean orders /\ eucl_decide alts orders = true.
Proof.
  intros alts orders vs xs Hwf H. split; [exact (Proofs.EuclidAlgo.eucl_algo_exact_sound alts orders vs xs Hwf H)|].
  exact (Proofs.EuclidAlgo.eucl_algo_exact_euclidean alts orders vs xs Hwf H).
Qed.
Print Assumptions eucl_algo_exact_sound.

Theorem eucl_algo_no_error : forall lp alts orders,
  NoDup alts /\ NoDup orders /\ Forall (fun o => Permutation alts o) orders -> orders <> [] -> alts <> [] ->
  forall e, eucl_algo lp alts orders <> Err e.
Proof. exact Proofs.EuclidAlgo.eucl_algo_no_error. Qed.
Print Assumptions eucl_algo_no_error.

(* ---- the order in which Python iterates its sets of alternatives is irrelevant ------------------------------- *)
Theorem eucl_algo_order_independent : forall lp alts alts' orders,
  NoDup alts /\ NoDup orders /\ Forall (fun o => Permutation alts o) orders -> Permutation alts alts' ->
  match eucl_algo lp alts orders, eucl_algo lp alts' orders with
  | Ok (Some y), Ok (Some y') =>
      fst y = fst y' /\ Forall2 (fun a b => fst a = fst b /\ snd a == snd b) (snd y) (snd y')
  | Ok None, Ok None => True
  | Err e, Err e' => e = e'
  | _, _ => False
  end.
Proof. exact Proofs.EuclidAlgoOrder.eucl_algo_order_independent. Qed.
Print Assumptions eucl_algo_order_independent.

(* ---- completeness of the mirrored algorithm ------------------------------------------------------------------- *)
Theorem eucl_algo_complete : forall lp alts orders,
  (* the LP oracle answers None only on infeasible systems *)
  (forall prefs axis, NoDup axis -> Forall (fun r => Permutation axis r) prefs ->
     (exists vs xs, lp_sat prefs axis vs xs) -> lp prefs axis <> None) ->
  NoDup alts /\ NoDup orders /\ Forall (fun o => Permutation alts o) orders -> orders <> [] -> alts <> [] ->
  Euclidean orders -> exists y, eucl_algo lp alts orders = Ok (Some y).
Proof. exact Proofs.EuclidAlgoComplete.eucl_algo_complete. Qed.
Print Assumptions eucl_algo_complete.

Theorem eucl_algo_verdict_exact : forall lp alts orders,
  (forall prefs axis vs xs, lp prefs axis = Some (vs, xs) -> lp_sat prefs axis vs xs) ->
  (forall prefs axis, NoDup axis -> Forall (fun r => Permutation axis r) prefs ->
     (exists vs xs, lp_sat prefs axis vs xs) -> lp prefs axis <> None) ->
  NoDup alts /\ NoDup orders /\ Forall (fun o => Permutation alts o) orders -> orders <> [] -> alts <> [] ->
  eucl_algo_verdict lp alts orders = eucl_decide alts orders.
Proof. exact Proofs.EuclidAlgoComplete.eucl_algo_verdict_exact. Qed.
Print Assumptions eucl_algo_verdict_exact.

(* the extracted mirror (c19.algo) is exact: its LP oracle is proved sound and complete on the systems the mirror builds *)
Theorem eucl_algo_exact_verdict : forall alts orders,
  NoDup alts /\ NoDup orders /\ Forall (fun o => Permutation alts o) orders -> orders <> [] -> alts <> [] ->
  eucl_algo_verdict lp_checked alts orders = eucl_decide alts orders.
Proof. exact Proofs.EuclidLPSolve.eucl_algo_exact_verdict. Qed.
Print Assumptions eucl_algo_exact_verdict.

(* the first step of the completeness proof, kept for reference: the precheck passes *)
Theorem eucl_algo_complete_partial : forall alts orders,
  NoDup alts /\ NoDup orders /\ Forall (fun o => Permutation alts o) orders -> Euclidean orders ->
  exists sc_order, sc_algo alts orders = Ok (Some sc_order).
Proof. exact Proofs.EuclidAlgo.eucl_algo_complete_partial. Qed.
Print Assumptions eucl_algo_complete_partial.

(* ---- non-vacuity ------------------------------------------------------------------------------------------ *)
(* a 1-Euclidean profile with its embedding: alternatives 1,2,3 at 0,4,10; voters at 1, 3, 8 *)
Example euclidean_example :
  eucl_check [1;2;3]%N [[1;2;3]; [2;1;3]; [3;2;1]]%N [1#1; 3#1; 8#1] [(1%N, 0#1); (2%N, 4#1); (3%N, 10#1)] = true
  /\ Euclidean [[1;2;3]; [2;1;3]; [3;2;1]]%N
  /\ eucl_refuted [1;2;3]%N [[1;2;3]; [2;1;3]; [3;2;1]]%N = false.
Proof.
  split; [vm_compute; reflexivity|]. split; [|vm_compute; reflexivity].
  apply (Proofs.Euclid.planted_sound [1;2;3]%N _ [1#1; 3#1; 8#1] [(1%N, 0#1); (2%N, 4#1); (3%N, 10#1)]).
  vm_compute; reflexivity.
Qed.

(* the same voters with a tie (voter at 2 is equidistant from 0 and 4) are rejected: distances must be strict;
   so is a map that omits an alternative *)
Example check_rejects :
  eucl_check [1;2;3]%N [[1;2;3]]%N [2#1] [(1%N, 0#1); (2%N, 4#1); (3%N, 10#1)] = false /\
  eucl_check [1;2;3]%N [[1;2;3]]%N [1#1] [(1%N, 0#1); (2%N, 4#1)] = false /\
  eucl_check [1;2;3]%N [[1;2;3]; [2;1;3]]%N [1#1] [(1%N, 0#1); (2%N, 4#1); (3%N, 10#1)] = false.
Proof. repeat split; vm_compute; reflexivity. Qed.

(* a profile refuted by the corollary (three cyclic shifts: neither single-peaked nor single-crossing) *)
Example refuted_example :
  let alts := [1;2;3]%N in let p := [[1;2;3]; [2;3;1]; [3;1;2]]%N in
  NoDup alts /\ Forall (fun r => Permutation alts r) p /\ eucl_refuted alts p = true /\ ~ Euclidean p.
Proof.
  cbn zeta.
  assert (Hnd : NoDup [1;2;3]%N) by (repeat constructor; cbn; intuition congruence).
  assert (Hrk : Forall (fun r => Permutation [1;2;3]%N r) [[1;2;3]; [2;3;1]; [3;1;2]]%N).
  { repeat constructor.
    - apply Permutation_sym. change [2;3;1]%N with ([2;3] ++ [1])%N%list. apply Permutation_sym, Permutation_cons_app. reflexivity.
    - apply (Permutation_cons_app [3%N] [2%N] 1%N). apply perm_swap. }
  split; [assumption|]. split; [assumption|]. split; [vm_compute; reflexivity|].
  apply (Proofs.Euclid.eucl_refuted_sound _ _ Hnd Hrk). vm_compute; reflexivity.
Qed.

(* both necessary conditions matter: a single-crossing profile that is not single-peaked, and a single-peaked
   profile that is not single-crossing, are both refuted *)
Example refuted_by_sp_only :
  sp_decide [1;2;3;4]%N [[1;3;2;4]; [4;3;2;1]; [3;1;2;4]]%N = false /\
  sc_decide [1;2;3;4]%N [[1;3;2;4]; [4;3;2;1]; [3;1;2;4]]%N = true.
Proof. split; vm_compute; reflexivity. Qed.
Example refuted_by_sc_only :
  sp_decide [1;2;3;4]%N [[2;1;3;4]; [2;3;1;4]; [3;2;1;4]; [3;2;4;1]; [2;3;4;1]]%N = true /\
  sc_decide [1;2;3;4]%N [[2;1;3;4]; [2;3;1;4]; [3;2;1;4]; [3;2;4;1]; [2;3;4;1]]%N = false.
Proof. split; vm_compute; reflexivity. Qed.

(* the reference decider on the examples above, and on a profile that is single-peaked (axis 1..6) AND
   single-crossing but NOT 1-Euclidean: the necessary conditions are not sufficient, the LP is needed *)
Example decide_examples :
  eucl_decide [1;2;3]%N [[1;2;3]; [2;1;3]; [3;2;1]]%N = true /\
  eucl_decide [1;2;3]%N [[1;2;3]; [2;3;1]; [3;1;2]]%N = false /\
  (let alts := [1;2;3;4;5;6]%N in let p := [[3;2;4;5;6;1]; [5;4;3;2;6;1]; [3;2;1;4;5;6]]%N in
   eucl_refuted alts p = false /\ eucl_decide alts p = false).
Proof. repeat split; vm_compute; reflexivity. Qed.

(* the extracted mirror on the inputs of the repaired defects: a single order; first and last stored ballots not
   the ends of the single-crossing order; a grey alternative (2) ranked above coloured ones (3, 4) *)
Example algo_examples :
  (exists y, eucl_algo_exact [1;2;3]%N [[2;1;3]]%N = Ok (Some y) /\ eucl_check [1;2;3]%N [[2;1;3]]%N (fst y) (snd y) = true) /\
  (exists y, eucl_algo_exact [1;2;3]%N [[3;1;2]; [2;1;3]; [1;3;2]]%N = Ok (Some y)
             /\ eucl_check [1;2;3]%N [[3;1;2]; [2;1;3]; [1;3;2]]%N (fst y) (snd y) = true) /\
  (exists y, eucl_algo_exact [1;2;3;4]%N [[1;2;3;4]; [1;2;4;3]]%N = Ok (Some y)
             /\ eucl_check [1;2;3;4]%N [[1;2;3;4]; [1;2;4;3]]%N (fst y) (snd y) = true) /\
  eucl_algo_exact [1;2;3;4]%N [[1;3;2;4]; [4;3;2;1]; [3;1;2;4]]%N = Ok None.
Proof.
  split; [|split; [|split]].
  - eexists. split; [vm_compute; reflexivity|vm_compute; reflexivity].
  - eexists. split; [vm_compute; reflexivity|vm_compute; reflexivity].
  - eexists. split; [vm_compute; reflexivity|vm_compute; reflexivity].
  - vm_compute; reflexivity.
Qed.
