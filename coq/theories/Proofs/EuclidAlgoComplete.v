(* Proofs/EuclidAlgoComplete.v — COMPLETENESS of the mirror of is_one_euclidean (the Elkind-Faliszewski argument):
   on a 1-Euclidean profile the single-crossing precheck passes, the colouring loop never takes its failure exit,
   and the LP on the constructed axis is feasible (the axis is the left-to-right order of the coloured
   alternatives in any realising embedding that puts v_1 left of v_n).  Hence, for an LP oracle that answers None
   only on infeasible systems, the mirror answers True on every 1-Euclidean profile. *)
From Coq Require Import List Arith NArith ZArith QArith Qabs Qfield Bool Lia Lqa Permutation Sorted.
From PrefVerif Require Import Lib.Val Lib.Perms Lib.Contig Model.SP Model.SC Model.SCAlgo Model.Euclid Model.EuclidLP
                              Model.EuclidAlgo Proofs.SP Proofs.SC Proofs.SCAlgo Proofs.Euclid Proofs.EuclidLP
                              Proofs.EuclidAlgo Proofs.EuclidAlgoOrder.
Import ListNotations.
Open Scope Q_scope.

(* ============================================================================================== *)
(* 1. geometry on the line: two voters p1 < pn                                                     *)
(* ============================================================================================== *)
(* a is strictly closer than b to p1, b strictly closer than a to pn, p1 < pn: then a is left of b and the
   midpoint separates the two voters *)
Lemma swap_geometry p1 pn xa xb : p1 < pn -> qdist p1 xa < qdist p1 xb -> qdist pn xb < qdist pn xa ->
  xa < xb /\ 2 * p1 < xa + xb /\ xa + xb < 2 * pn.
Proof.
  intros Hlt H1 Hn.
  destruct (qdist_cases p1 xa) as [[? E1]|[? E1]], (qdist_cases p1 xb) as [[? E2]|[? E2]],
           (qdist_cases pn xa) as [[? E3]|[? E3]], (qdist_cases pn xb) as [[? E4]|[? E4]]; repeat split; lra.
Qed.

Section Geo.
Variable x : N -> Q.
Variables p1 pn : Q.
Variables cminus cplus : N.
Variable alts : list N.
Hypothesis Hlt : p1 < pn.
Hypothesis Hdist : forall a b, In a alts -> In b alts -> a <> b -> ~ x a == x b.
Hypothesis Hcm : In cminus alts.
Hypothesis Hcp : In cplus alts.
(* cminus / cplus are the tops of the voters at p1 / pn *)
Hypothesis Htop1 : forall d, In d alts -> d <> cminus -> qdist p1 (x cminus) < qdist p1 (x d).
Hypothesis Htopn : forall d, In d alts -> d <> cplus -> qdist pn (x cplus) < qdist pn (x d).

(* the membership test of C_M, on positions *)
Definition red0 (c : N) : Prop :=
  (qdist p1 (x c) < qdist p1 (x cplus) /\ qdist pn (x c) < qdist pn (x cminus)) \/ c = cminus \/ c = cplus.

Lemma apart a b : In a alts -> In b alts -> a <> b -> x a < x b \/ x b < x a.
Proof.
  intros Ha Hb Hne. destruct (Q_dec (x a) (x b)) as [[H|H]|H]; [now left|now right|]. exfalso. now apply (Hdist a b).
Qed.

(* an alternative between the two extreme voters is red *)
Lemma inside_red c : In c alts -> p1 <= x c -> x c <= pn -> red0 c.
Proof.
  intros Hc Hl Hr. unfold red0.
  destruct (N.eq_dec c cminus) as [->|Hm]; [right; now left|]. destruct (N.eq_dec c cplus) as [->|Hp]; [right; now right|].
  left. pose proof (Htop1 c Hc Hm) as T1. pose proof (Htopn c Hc Hp) as Tn. split.
  - destruct (apart c cplus Hc Hcp Hp) as [H|H].
    + destruct (qdist_cases p1 (x c)) as [[? E1]|[? E1]], (qdist_cases p1 (x cplus)) as [[? E2]|[? E2]]; lra.
    + exfalso. destruct (qdist_cases pn (x c)) as [[? E1]|[? E1]], (qdist_cases pn (x cplus)) as [[? E2]|[? E2]]; lra.
  - destruct (apart c cminus Hc Hcm Hm) as [H|H].
    + exfalso. destruct (qdist_cases p1 (x c)) as [[? E1]|[? E1]], (qdist_cases p1 (x cminus)) as [[? E2]|[? E2]]; lra.
    + destruct (qdist_cases pn (x c)) as [[? E1]|[? E1]], (qdist_cases pn (x cminus)) as [[? E2]|[? E2]]; lra.
Qed.

(* left role: c closer to p1 than b, b closer to pn than c *)
Definition lrole_pos (c : N) : Prop := exists b, In b alts /\ qdist p1 (x c) < qdist p1 (x b) /\ qdist pn (x b) < qdist pn (x c).
Definition rrole_pos (c : N) : Prop := exists a, In a alts /\ qdist p1 (x a) < qdist p1 (x c) /\ qdist pn (x c) < qdist pn (x a).

Lemma both_roles_red c : In c alts -> lrole_pos c -> rrole_pos c -> red0 c.
Proof.
  intros Hc (b & Hb & L1 & L2) (a & Ha & R1 & R2).
  destruct (swap_geometry p1 pn (x c) (x b) Hlt L1 L2) as (G1 & G2 & G3).
  destruct (swap_geometry p1 pn (x a) (x c) Hlt R1 R2) as (G4 & G5 & G6).
  apply inside_red; [assumption|lra|lra].
Qed.

Lemma green_left c : In c alts -> lrole_pos c -> ~ red0 c -> x c < p1.
Proof.
  intros Hc (b & Hb & L1 & L2) Hnr. destruct (swap_geometry p1 pn (x c) (x b) Hlt L1 L2) as (G1 & G2 & G3).
  destruct (Qlt_le_dec (x c) p1) as [H|H]; [assumption|]. exfalso. apply Hnr. apply inside_red; [assumption|assumption|lra].
Qed.

Lemma blue_right c : In c alts -> rrole_pos c -> ~ red0 c -> pn < x c.
Proof.
  intros Hc (a & Ha & R1 & R2) Hnr. destruct (swap_geometry p1 pn (x a) (x c) Hlt R1 R2) as (G1 & G2 & G3).
  destruct (Qlt_le_dec pn (x c)) as [H|H]; [assumption|]. exfalso. apply Hnr. apply inside_red; [assumption|lra|assumption].
Qed.

(* a non-red alternative left of p1 is left of every red one; symmetrically on the right *)
Lemma left_of_red c r : In c alts -> In r alts -> x c < p1 -> ~ red0 c -> red0 r -> x c < x r.
Proof.
  intros Hc Hr Hl Hnc Hred.
  assert (Hne : c <> r) by (intros ->; contradiction).
  destruct (apart c r Hc Hr Hne) as [H|H]; [assumption|]. exfalso.
  assert (C1 : qdist p1 (x c) < qdist p1 (x r)).
  { destruct (qdist_cases p1 (x c)) as [[? E1]|[? E1]], (qdist_cases p1 (x r)) as [[? E2]|[? E2]]; lra. }
  assert (Cn : qdist pn (x c) < qdist pn (x r)).
  { destruct (qdist_cases pn (x c)) as [[? E1]|[? E1]], (qdist_cases pn (x r)) as [[? E2]|[? E2]]; lra. }
  destruct Hred as [(R1 & Rn)|[Er|Er]]; [|subst r|subst r].
  - apply Hnc. left. split; lra.
  - assert (c <> cminus) by congruence. pose proof (Htop1 c Hc H0). lra.
  - assert (c <> cplus) by congruence. pose proof (Htopn c Hc H0). lra.
Qed.

Lemma right_of_red c r : In c alts -> In r alts -> pn < x c -> ~ red0 c -> red0 r -> x r < x c.
Proof.
  intros Hc Hr Hl Hnc Hred.
  assert (Hne : c <> r) by (intros ->; contradiction).
  destruct (apart c r Hc Hr Hne) as [H|H]; [|assumption]. exfalso.
  assert (C1 : qdist p1 (x c) < qdist p1 (x r)).
  { destruct (qdist_cases p1 (x c)) as [[? E1]|[? E1]], (qdist_cases p1 (x r)) as [[? E2]|[? E2]]; lra. }
  assert (Cn : qdist pn (x c) < qdist pn (x r)).
  { destruct (qdist_cases pn (x c)) as [[? E1]|[? E1]], (qdist_cases pn (x r)) as [[? E2]|[? E2]]; lra. }
  destruct Hred as [(R1 & Rn)|[Er|Er]]; [|subst r|subst r].
  - apply Hnc. left. split; lra.
  - assert (c <> cminus) by congruence. pose proof (Htop1 c Hc H0). lra.
  - assert (c <> cplus) by congruence. pose proof (Htopn c Hc H0). lra.
Qed.

(* two red alternatives: the one the voter at p1 prefers is the left one *)
Lemma red_red a b : In a alts -> In b alts -> red0 a -> red0 b -> qdist p1 (x a) < qdist p1 (x b) -> x a < x b.
Proof.
  intros Ha Hb Ra Rb Hab.
  assert (Hne : a <> b) by (intros ->; lra).
  destruct (apart a b Ha Hb Hne) as [H|H]; [assumption|]. exfalso.
  (* x b < x a and p1 prefers a: p1 is right of the midpoint, hence so is pn: pn prefers a too *)
  assert (M1 : x b + x a < 2 * p1) by (apply (closer_right_iff p1 (x b) (x a) H); exact Hab).
  assert (Cn : qdist pn (x a) < qdist pn (x b)) by (apply (closer_right_iff pn (x b) (x a) H); lra).
  destruct Rb as [(B1 & Bn)|[Eb|Eb]]; [|subst b|subst b].
  - destruct (N.eq_dec a cminus) as [->|Ham]; [lra|].
    assert (Hbm : b <> cminus) by (intros ->; pose proof (Htop1 a Ha Ham); lra).
    pose proof (Htop1 b Hb Hbm) as T.
    destruct (swap_geometry p1 pn (x cminus) (x b) Hlt T Bn) as (G1 & G2 & G3). lra.
  - pose proof (Htop1 a Ha Hne). lra.
  - pose proof (Htopn a Ha Hne). lra.
Qed.
End Geo.
