(* Proofs/EuclidLP.v — Fourier-Motzkin elimination is a sound and complete feasibility test for strict
   homogeneous linear systems over Q (fm_feasible_correct); the system of a profile on an axis is feasible iff
   the profile has an embedding whose alternatives appear in axis order (eucl_system_correct); hence
   eucl_decide is an exact decision procedure for 1-Euclidean profiles (eucl_decide_correct). *)
From Coq Require Import List Arith NArith ZArith QArith Qabs Qfield Bool Lia Lqa Permutation Sorted.
From PrefVerif Require Import Lib.Perms Lib.Contig Model.SP Model.SC Model.Euclid Model.EuclidLP
                              Proofs.SP Proofs.SC Proofs.Euclid.
Import ListNotations.
Open Scope Q_scope.

(* ============================================================================================== *)
(* 1. linear forms                                                                                 *)
(* ============================================================================================== *)
Lemma eval_nil_r c : eval c [] = 0.
Proof. destruct c; reflexivity. Qed.

Lemma eval_cons c e0 es : eval c (e0 :: es) == hdq c * e0 + eval (tlq c) es.
Proof. destruct c as [|c0 cs]; cbn; [ring|reflexivity]. Qed.

Lemma eval_scale k c es : eval (scale k c) es == k * eval c es.
Proof.
  revert es. induction c as [|x c IH]; intros [|e es]; cbn [scale map eval]; try ring.
  fold (scale k c). rewrite Qred_correct, IH. ring.
Qed.

Lemma eval_ladd c d es : eval (ladd c d) es == eval c es + eval d es.
Proof.
  revert d es. induction c as [|x c IH]; intros [|y d] [|e es]; cbn [ladd eval]; try ring.
  rewrite Qred_correct, IH. ring.
Qed.

Lemma eval_unit i k env : eval (unit i k) env == k * nth i env 0.
Proof.
  unfold unit. revert env. induction i as [|i IH]; intros [|e es]; cbn [repeat app eval nth]; try ring.
  rewrite IH. ring.
Qed.

Lemma Qeq_bool_true x y : Qeq_bool x y = true -> x == y.
Proof. apply Qeq_bool_iff. Qed.

Lemma lin_eqb_eval c d es : lin_eqb c d = true -> eval c es == eval d es.
Proof.
  revert d es. induction c as [|x c IH]; intros [|y d] es H; cbn in H; try discriminate; [reflexivity|].
  apply andb_true_iff in H. destruct H as (Hxy & H). apply Qeq_bool_true in Hxy.
  destruct es as [|e es]; cbn; [reflexivity|]. rewrite Hxy, (IH d es H). reflexivity.
Qed.

Lemma all_zero_eval c es : all_zero c = true -> eval c es == 0.
Proof.
  revert es. induction c as [|x c IH]; intros [|e es] H; cbn in *; try reflexivity.
  apply andb_true_iff in H. destruct H as (Hx & H). apply Qeq_bool_true in Hx. rewrite Hx, (IH es H). ring.
Qed.

(* ============================================================================================== *)
(* 2. satisfaction, simplification                                                                 *)
(* ============================================================================================== *)
Definition sat (env : list Q) (sys : list lin) : Prop := Forall (fun c => eval c env < 0) sys.

Lemma sat_app env s1 s2 : sat env (s1 ++ s2) <-> sat env s1 /\ sat env s2.
Proof. apply Forall_app. Qed.

Lemma Qabs_pos_nz x : ~ x == 0 -> 0 < Qabs x.
Proof.
  intros H. destruct (Q_dec x 0) as [[Hlt|Hgt]|Heq]; [| |contradiction].
  - rewrite Qabs_neg; lra.
  - rewrite Qabs_pos; lra.
Qed.

Lemma first_nz_pos c : 0 < first_nz c.
Proof.
  induction c as [|x c IH]; cbn; [reflexivity|].
  destruct (Qeq_bool x 0) eqn:E; [assumption|].
  apply Qeq_bool_neq in E. now apply Qabs_pos_nz.
Qed.

Lemma Qmult_pos_neg k a : 0 < k -> (k * a < 0 <-> a < 0).
Proof.
  intros Hk. split; intros H.
  - destruct (Qlt_le_dec a 0) as [Hl|Hl]; [assumption|]. exfalso.
    assert (0 <= k * a) by (apply Qmult_le_0_compat; lra). lra.
  - rewrite <- (Qmult_0_r k). apply Qmult_lt_l; assumption.
Qed.

Lemma sat_normalise env c : eval (normalise c) env < 0 <-> eval c env < 0.
Proof.
  unfold normalise. rewrite eval_scale. apply Qmult_pos_neg. apply Qinv_lt_0_compat. apply first_nz_pos.
Qed.

Lemma dedup_lin_sat env l : sat env (dedup_lin l) <-> sat env l.
Proof.
  unfold sat. induction l as [|c t IH]; cbn [dedup_lin]; [reflexivity|].
  destruct (existsb (lin_eqb c) t) eqn:E.
  - rewrite IH. split; intros H.
    + constructor; [|assumption]. apply existsb_exists in E. destruct E as (d & Hd & E).
      rewrite (lin_eqb_eval c d env E). rewrite Forall_forall in H. now apply H.
    + now inversion H.
  - split; intros H; inversion H; subst; constructor; try assumption; now apply IH.
Qed.

Lemma simplify_sat env sys : sat env (simplify sys) <-> sat env sys.
Proof.
  unfold simplify. rewrite dedup_lin_sat. unfold sat. rewrite Forall_map.
  split; apply Forall_impl; intros c; apply sat_normalise.
Qed.

(* ============================================================================================== *)
(* 3. one elimination step                                                                         *)
(* ============================================================================================== *)
Lemma is_zero_iff c : is_zero c = true <-> hdq c == 0.
Proof. apply Qeq_bool_iff. Qed.
Lemma is_pos_iff c : is_pos c = true <-> 0 < hdq c.
Proof. apply Qltb_lt. Qed.
Lemma is_neg_iff c : is_neg c = true <-> hdq c < 0.
Proof. apply Qltb_lt. Qed.

Lemma sign_cases c : is_zero c = true \/ is_pos c = true \/ is_neg c = true.
Proof.
  destruct (Q_dec (hdq c) 0) as [[H|H]|H].
  - right. right. now apply is_neg_iff.
  - right. left. now apply is_pos_iff.
  - left. now apply is_zero_iff.
Qed.

Lemma combine_sound p0 q0 P Q e0 :
  0 < p0 -> q0 < 0 -> p0 * e0 + P < 0 -> q0 * e0 + Q < 0 -> - q0 * P + p0 * Q < 0.
Proof. intros. nra. Qed.

Lemma fm_step_sound e0 es sys : sat (e0 :: es) sys -> sat es (fm_step sys).
Proof.
  unfold sat. intros H. rewrite Forall_forall in H. unfold fm_step. apply Forall_app. split.
  - rewrite Forall_map, Forall_forall. intros c Hc. apply filter_In in Hc. destruct Hc as (Hc & Hz).
    apply is_zero_iff in Hz. specialize (H c Hc). rewrite eval_cons, Hz in H. lra.
  - rewrite Forall_forall. intros x Hx. apply in_flat_map in Hx. destruct Hx as (p & Hp & Hx).
    apply in_map_iff in Hx. destruct Hx as (q & <- & Hq).
    apply filter_In in Hp, Hq. destruct Hp as (Hp & Hpp), Hq as (Hq & Hqn).
    apply is_pos_iff in Hpp. apply is_neg_iff in Hqn.
    pose proof (H p Hp) as H1. pose proof (H q Hq) as H2. rewrite eval_cons in H1, H2.
    unfold combine_pn. rewrite eval_ladd, !eval_scale.
    eapply combine_sound; eassumption.
Qed.

Lemma list_max_exists (l0 : Q) (L : list Q) : exists mx, In mx (l0 :: L) /\ forall l, In l (l0 :: L) -> l <= mx.
Proof.
  revert l0. induction L as [|x L IH]; intros l0.
  - exists l0. split; [now left|]. intros l [<-|[]]. lra.
  - destruct (IH x) as (mx & Hin & Hmx). destruct (Qlt_le_dec mx l0) as [Hlt|Hle].
    + exists l0. split; [now left|]. intros l [<-|Hl]; [lra|]. specialize (Hmx l Hl). lra.
    + exists mx. split; [now right|]. intros l [<-|Hl]; [assumption|now apply Hmx].
Qed.

Lemma list_min_exists (u0 : Q) (U : list Q) : exists mn, In mn (u0 :: U) /\ forall u, In u (u0 :: U) -> mn <= u.
Proof.
  revert u0. induction U as [|x U IH]; intros u0.
  - exists u0. split; [now left|]. intros u [<-|[]]. lra.
  - destruct (IH x) as (mn & Hin & Hmn). destruct (Qlt_le_dec u0 mn) as [Hlt|Hle].
    + exists u0. split; [now left|]. intros u [<-|Hu]; [lra|]. specialize (Hmn u Hu). lra.
    + exists mn. split; [now right|]. intros u [<-|Hu]; [assumption|now apply Hmn].
Qed.

Lemma between_lists (L U : list Q) :
  (forall l u, In l L -> In u U -> l < u) ->
  exists e, (forall l, In l L -> l < e) /\ (forall u, In u U -> e < u).
Proof.
  intros H. destruct L as [|l0 L], U as [|u0 U].
  - exists 0. split; intros ? [].
  - destruct (list_min_exists u0 U) as (mn & _ & Hmn). exists (mn - 1). split; [intros ? []|].
    intros u Hu. specialize (Hmn u Hu). lra.
  - destruct (list_max_exists l0 L) as (mx & _ & Hmx). exists (mx + 1). split; [|intros ? []].
    intros l Hl. specialize (Hmx l Hl). lra.
  - destruct (list_max_exists l0 L) as (mx & Hmxi & Hmx). destruct (list_min_exists u0 U) as (mn & Hmni & Hmn).
    pose proof (H mx mn Hmxi Hmni) as Hlt. exists ((mx + mn) * (1 # 2)). split.
    + intros l Hl. specialize (Hmx l Hl). lra.
    + intros u Hu. specialize (Hmn u Hu). lra.
Qed.

Lemma upper_ok p0 P e0 : 0 < p0 -> e0 < - P / p0 -> p0 * e0 + P < 0.
Proof.
  intros Hp H. apply (Qmult_lt_r _ _ p0 Hp) in H.
  assert (E : - P / p0 * p0 == - P) by (field; lra). rewrite E in H. lra.
Qed.

Lemma lower_ok q0 Q e0 : q0 < 0 -> Q / (- q0) < e0 -> q0 * e0 + Q < 0.
Proof.
  intros Hq H. assert (Hq' : 0 < - q0) by lra. apply (Qmult_lt_r _ _ (- q0) Hq') in H.
  assert (E : Q / - q0 * - q0 == Q) by (field; lra). rewrite E in H. lra.
Qed.

Lemma lu_ok p0 q0 P Q : 0 < p0 -> q0 < 0 -> - q0 * P + p0 * Q < 0 -> Q / (- q0) < - P / p0.
Proof.
  intros Hp Hq H. apply Qlt_shift_div_r; [lra|].
  assert (E : - P / p0 * - q0 == (- P * - q0) / p0) by (field; lra). rewrite E.
  apply Qlt_shift_div_l; [assumption|]. lra.
Qed.

Lemma fm_step_complete es sys : sat es (fm_step sys) -> exists e0, sat (e0 :: es) sys.
Proof.
  unfold fm_step. intros H. apply sat_app in H. destruct H as (Hz & Hc).
  unfold sat in Hz, Hc. rewrite Forall_map, Forall_forall in Hz. rewrite Forall_forall in Hc.
  set (lowers := map (fun q => eval (tlq q) es / (- hdq q)) (filter is_neg sys)).
  set (uppers := map (fun p => - eval (tlq p) es / hdq p) (filter is_pos sys)).
  destruct (between_lists lowers uppers) as (e0 & Hlo & Hup).
  { intros l u Hl Hu. apply in_map_iff in Hl, Hu. destruct Hl as (q & <- & Hq), Hu as (p & <- & Hp).
    assert (Hpq : eval (combine_pn p q) es < 0).
    { apply Hc. apply in_flat_map. exists p. split; [assumption|]. apply in_map. assumption. }
    apply filter_In in Hp, Hq. destruct Hp as (_ & Hpp), Hq as (_ & Hqn).
    apply is_pos_iff in Hpp. apply is_neg_iff in Hqn.
    unfold combine_pn in Hpq. rewrite eval_ladd, !eval_scale in Hpq. now apply lu_ok. }
  exists e0. unfold sat. rewrite Forall_forall. intros c Hin. rewrite eval_cons.
  destruct (sign_cases c) as [Hs|[Hs|Hs]].
  - assert (H0 : eval (tlq c) es < 0) by (apply Hz; apply filter_In; now split).
    apply is_zero_iff in Hs. rewrite Hs. lra.
  - assert (Hu : e0 < - eval (tlq c) es / hdq c).
    { apply Hup. unfold uppers. apply in_map_iff. exists c. split; [reflexivity|]. apply filter_In. now split. }
    apply is_pos_iff in Hs. now apply upper_ok.
  - assert (Hl : eval (tlq c) es / (- hdq c) < e0).
    { apply Hlo. unfold lowers. apply in_map_iff. exists c. split; [reflexivity|]. apply filter_In. now split. }
    apply is_neg_iff in Hs. now apply lower_ok.
Qed.

(* ============================================================================================== *)
(* 4. Fourier-Motzkin decides feasibility                                                          *)
(* ============================================================================================== *)
Theorem fm_feasible_correct n sys :
  fm_feasible n sys = true <-> exists env, length env = n /\ sat env sys.
Proof.
  revert sys. induction n as [|n IH]; intros sys; cbn [fm_feasible];
    destruct (existsb all_zero sys) eqn:Ez.
  - split; [discriminate|]. intros (env & _ & Hs). exfalso.
    apply existsb_exists in Ez. destruct Ez as (c & Hc & Hz). unfold sat in Hs. rewrite Forall_forall in Hs.
    specialize (Hs c Hc). rewrite (all_zero_eval c env Hz) in Hs. lra.
  - destruct sys as [|c t].
    + split; [|reflexivity]. intros _. exists []. split; [reflexivity|constructor].
    + split; [discriminate|]. intros (env & Hlen & Hs). destruct env; [|discriminate].
      inversion Hs as [|? ? Hc _]; subst. rewrite eval_nil_r in Hc. lra.
  - split; [discriminate|]. intros (env & _ & Hs). exfalso.
    apply existsb_exists in Ez. destruct Ez as (c & Hc & Hz). unfold sat in Hs. rewrite Forall_forall in Hs.
    specialize (Hs c Hc). rewrite (all_zero_eval c env Hz) in Hs. lra.
  - rewrite IH. split.
    + intros (es & Hlen & Hs). apply (proj1 (simplify_sat _ _)) in Hs. destruct (fm_step_complete es sys Hs) as (e0 & He).
      exists (e0 :: es). split; [cbn; now rewrite Hlen|assumption].
    + intros (env & Hlen & Hs). destruct env as [|e0 es]; [discriminate|]. exists es.
      split; [now injection Hlen|]. apply simplify_sat. eapply fm_step_sound; eassumption.
Qed.
