(* Lib/SetPartitions.v — verified enumeration of the set partitions of a list.

     set_partitions l   all ways to split l into non-empty blocks: the head is put in front of one block of a
                        partition of the tail, or becomes a new block [x] in front            (Bell(|l|) items)

   SOUNDNESS      set_partitions_sound     In p (set_partitions l) -> Forall (fun b => b <> []) p /\ Permutation (concat p) l
                  (for a duplicate-free l this says: blocks non-empty, pairwise disjoint, covering l;
                   NoDup_concat_iff spells "NoDup (concat p)" out as "every block NoDup and blocks pairwise disjoint")
   COMPLETENESS   set_partitions_complete  Forall (fun b => b <> []) q -> Permutation (concat q) l ->
                                           exists p, In p (set_partitions l) /\ peq p q
                  where  peq p q  :=  exists q', Permutation q q' /\ Forall2 (@Permutation A) p q'
                  i.e. the same blocks as sets, in some order (same number of blocks, each block of p a
                  permutation of a block of q, bijectively):  peq_length, peq_block, peq_block_r.            *)
From Coq Require Import List Arith Lia Permutation.
Import ListNotations.

Section SetPartitions.
Variable A : Type.

(* x added in front of exactly one block *)
Fixpoint insert_block (x : A) (p : list (list A)) : list (list (list A)) :=
  match p with
  | [] => []
  | b :: bs => ((x :: b) :: bs) :: map (cons b) (insert_block x bs)
  end.

Fixpoint set_partitions (l : list A) : list (list (list A)) :=
  match l with
  | [] => [[]]
  | x :: xs => flat_map (fun p => ([x] :: p) :: insert_block x p) (set_partitions xs)
  end.

(* the same family of blocks, up to the order of the blocks and the order inside each block *)
Definition peq (p q : list (list A)) : Prop :=
  exists q', Permutation q q' /\ Forall2 (@Permutation A) p q'.

(* ------------------------------------------------------------------------------------------ *)
Lemma insert_block_spec x p q :
  In q (insert_block x p) <-> exists p1 b p2, p = p1 ++ b :: p2 /\ q = p1 ++ (x :: b) :: p2.
Proof.
  revert q; induction p as [|c cs IH]; intros q; simpl.
  - split; [intros []|]. intros (p1 & b & p2 & H & _). destruct p1; discriminate.
  - split.
    + intros [<-|H].
      * exists [], c, cs. auto.
      * apply in_map_iff in H. destruct H as (q' & <- & H). apply IH in H.
        destruct H as (p1 & b & p2 & -> & ->). exists (c :: p1), b, p2. auto.
    + intros (p1 & b & p2 & H & ->). destruct p1 as [|d p1]; simpl in *.
      * injection H as -> ->. now left.
      * injection H as -> ->. right. apply in_map_iff. eexists; split; [reflexivity|].
        apply IH. eauto.
Qed.

Lemma set_partitions_cons x xs q :
  In q (set_partitions (x :: xs)) <->
  exists p, In p (set_partitions xs) /\ (q = [x] :: p \/ In q (insert_block x p)).
Proof.
  simpl. rewrite in_flat_map. split.
  - intros (p & Hp & [<-|H]); exists p; auto.
  - intros (p & Hp & [->|H]); exists p; split; auto; [now left|now right].
Qed.

Theorem set_partitions_sound l p :
  In p (set_partitions l) -> Forall (fun b => b <> []) p /\ Permutation (concat p) l.
Proof.
  revert p; induction l as [|x xs IH]; intros p H.
  - destruct H as [<-|[]]. split; constructor.
  - apply set_partitions_cons in H. destruct H as (p0 & Hp0 & H).
    destruct (IH _ Hp0) as [Hne Hperm]. destruct H as [->|H].
    + split; [constructor; [discriminate|assumption]|]. simpl. now constructor.
    + apply insert_block_spec in H. destruct H as (p1 & b & p2 & -> & ->). split.
      * apply Forall_app in Hne. destruct Hne as [H1 H2]. apply Forall_app. split; [assumption|].
        inversion H2; subst. constructor; [discriminate|assumption].
      * rewrite concat_app in *. simpl in *. apply Permutation_sym.
        apply Permutation_cons_app. now apply Permutation_sym.
Qed.

(* ------------------------------------------------------------------------------------------ *)
Lemma Forall2_app_inv_r_perm (p : list (list A)) r1 b r2 :
  Forall2 (@Permutation A) p (r1 ++ b :: r2) ->
  exists s1 c s2, p = s1 ++ c :: s2 /\ Forall2 (@Permutation A) s1 r1 /\ Permutation c b /\
                  Forall2 (@Permutation A) s2 r2.
Proof.
  intros H. apply Forall2_app_inv_r in H. destruct H as (s1 & s' & H1 & H2 & ->).
  inversion H2 as [|c b' s2 r2' Hc Hs2]; subst. exists s1, c, s2. auto.
Qed.

Lemma Forall2_len {X Y} (R : X -> Y -> Prop) l l' : Forall2 R l l' -> length l = length l'.
Proof. induction 1; simpl; congruence. Qed.

Lemma peq_length p q : peq p q -> length p = length q.
Proof.
  intros (q' & Hp & H). rewrite (Forall2_len _ _ _ H). symmetry. now apply Permutation_length.
Qed.

Lemma peq_block p q : peq p q -> forall c, In c p -> exists b, In b q /\ Permutation c b.
Proof.
  intros (q' & Hp & H) c Hc. apply in_split in Hc. destruct Hc as (s1 & s2 & ->).
  apply Forall2_app_inv_l in H. destruct H as (r1 & r' & _ & H2 & ->).
  inversion H2 as [|c' b s2' r2 Hcb _]; subst. exists b. split; [|assumption].
  eapply Permutation_in; [apply Permutation_sym; exact Hp|]. apply in_elt.
Qed.

Lemma peq_block_r p q : peq p q -> forall b, In b q -> exists c, In c p /\ Permutation c b.
Proof.
  intros (q' & Hp & H) b Hb. assert (Hb' : In b q') by (eapply Permutation_in; eauto).
  apply in_split in Hb'. destruct Hb' as (r1 & r2 & ->).
  apply Forall2_app_inv_r_perm in H. destruct H as (s1 & c & s2 & -> & _ & Hc & _).
  exists c. split; [apply in_elt|assumption].
Qed.

Lemma peq_concat p q : peq p q -> Permutation (concat p) (concat q).
Proof.
  intros (q' & Hp & H). apply perm_trans with (concat q').
  - clear Hp. induction H; simpl; [constructor|]. now apply Permutation_app.
  - apply Permutation_sym. clear H. induction Hp; simpl.
    + constructor.
    + now apply Permutation_app_head.
    + rewrite !app_assoc. apply Permutation_app_tail. apply Permutation_app_comm.
    + eapply perm_trans; eauto.
Qed.

Lemma peq_refl p : peq p p.
Proof.
  exists p. split; [apply Permutation_refl|]. induction p; constructor; auto.
Qed.

Lemma in_concat_split (q : list (list A)) x :
  In x (concat q) -> exists q1 b1 b2 q2, q = q1 ++ (b1 ++ x :: b2) :: q2.
Proof.
  intros H. apply in_concat in H. destruct H as (b & Hb & Hx).
  apply in_split in Hb. destruct Hb as (q1 & q2 & ->).
  apply in_split in Hx. destruct Hx as (b1 & b2 & ->). eauto.
Qed.

Theorem set_partitions_complete l q :
  Forall (fun b => b <> []) q -> Permutation (concat q) l ->
  exists p, In p (set_partitions l) /\ peq p q.
Proof.
  revert q; induction l as [|x xs IH]; intros q Hne Hperm.
  - apply Permutation_sym, Permutation_nil in Hperm.
    destruct q as [|b q].
    + exists []. split; [now left|apply peq_refl].
    + inversion Hne; subst. destruct b; [congruence|discriminate].
  - assert (Hx : In x (concat q)).
    { eapply Permutation_in; [apply Permutation_sym; exact Hperm|now left]. }
    apply in_concat_split in Hx. destruct Hx as (q1 & b1 & b2 & q2 & ->).
    apply Forall_app in Hne. destruct Hne as [Hne1 Hne2]. inversion Hne2 as [|? ? _ Hne2']; subst.
    assert (Hperm' : Permutation (concat q1 ++ (b1 ++ b2) ++ concat q2) xs).
    { rewrite concat_app in Hperm. simpl in Hperm.
      apply Permutation_cons_inv with (a := x). eapply perm_trans; [|exact Hperm].
      replace (concat q1 ++ (b1 ++ x :: b2) ++ concat q2) with ((concat q1 ++ b1) ++ x :: (b2 ++ concat q2))
        by (rewrite <- !app_assoc; reflexivity).
      apply Permutation_cons_app. rewrite <- !app_assoc. apply Permutation_refl. }
    destruct (b1 ++ b2) as [|y b'] eqn:Eb.
    + (* x was alone in its block *)
      apply app_eq_nil in Eb. destruct Eb as [-> ->]. simpl in *.
      destruct (IH (q1 ++ q2)) as (p0 & Hp0 & q0' & Hq0 & HF).
      * apply Forall_app. auto.
      * now rewrite concat_app.
      * exists ([x] :: p0). split.
        -- apply set_partitions_cons. exists p0. auto.
        -- exists ([x] :: q0'). split; [|constructor; [apply Permutation_refl|assumption]].
           apply Permutation_sym. apply Permutation_cons_app. now apply Permutation_sym.
    + (* x joins the block y :: b' *)
      destruct (IH (q1 ++ (y :: b') :: q2)) as (p0 & Hp0 & q0' & Hq0 & HF).
      * apply Forall_app. split; [assumption|]. constructor; [discriminate|assumption].
      * rewrite concat_app. simpl in *. exact Hperm'.
      * assert (Hin : In (y :: b') q0') by (eapply Permutation_in; [exact Hq0|apply in_elt]).
        apply in_split in Hin. destruct Hin as (r1 & r2 & ->).
        apply Forall2_app_inv_r_perm in HF. destruct HF as (s1 & c & s2 & -> & HF1 & Hc & HF2).
        exists (s1 ++ (x :: c) :: s2). split.
        -- apply set_partitions_cons. exists (s1 ++ c :: s2). split; [assumption|]. right.
           apply insert_block_spec. eauto.
        -- exists (r1 ++ (b1 ++ x :: b2) :: r2). split.
           ++ apply Permutation_elt. apply Permutation_app_inv in Hq0. exact Hq0.
           ++ apply Forall2_app; [assumption|]. constructor; [|assumption].
              apply Permutation_cons_app. rewrite Eb. exact Hc.
Qed.

(* ------------------------------------------------------------------------------------------ *)
(* NoDup (concat p)  =  every block duplicate-free and the blocks pairwise disjoint                *)
Definition disjoint (b c : list A) : Prop := forall x, In x b -> In x c -> False.

Lemma NoDup_app_iff (l1 l2 : list A) : NoDup (l1 ++ l2) <-> NoDup l1 /\ NoDup l2 /\ disjoint l1 l2.
Proof.
  induction l1 as [|a l1 IH]; simpl.
  - split; [intros H; repeat split; [constructor|assumption|intros x []]|tauto].
  - split.
    + intros H. inversion H as [|? ? Hn Hnd]; subst. apply IH in Hnd. destruct Hnd as (H1 & H2 & H3).
      repeat split; [constructor; [rewrite in_app_iff in Hn; tauto|assumption]|assumption|].
      intros x [<-|Hx] Hx2; [apply Hn, in_or_app; now right|eapply H3; eauto].
    + intros (H1 & H2 & H3). inversion H1 as [|? ? Hn Hnd]; subst. constructor.
      * rewrite in_app_iff. intros [H|H]; [contradiction|]. apply (H3 a); [now left|assumption].
      * apply IH. repeat split; auto. intros x Hx. apply H3. now right.
Qed.

Theorem NoDup_concat_iff (p : list (list A)) :
  NoDup (concat p) <-> Forall (@NoDup A) p /\ ForallOrdPairs disjoint p.
Proof.
  induction p as [|b p IH]; simpl.
  - split; [intros _; split; constructor|intros _; constructor].
  - rewrite NoDup_app_iff, IH. split.
    + intros (Hb & [HF HP] & Hd). split; [now constructor|]. constructor; [|assumption].
      apply Forall_forall. intros c Hc x Hx Hx'. apply (Hd x Hx). apply in_concat. eauto.
    + intros [HF HP]. inversion HF; subst. inversion HP as [|? ? Hbc HP']; subst.
      repeat split; auto. intros x Hx Hx'. apply in_concat in Hx'. destruct Hx' as (c & Hc & Hxc).
      rewrite Forall_forall in Hbc. apply (Hbc c Hc x Hx Hxc).
Qed.

End SetPartitions.

Arguments insert_block {A} x p.
Arguments set_partitions {A} l.
Arguments peq {A} p q.
Arguments disjoint {A} b c.

(* relabelling commutes with the enumeration *)
Lemma insert_block_map {A B} (f : A -> B) x p :
  insert_block (f x) (map (map f) p) = map (map (map f)) (insert_block x p).
Proof.
  induction p as [|b bs IH]; [reflexivity|]. simpl. f_equal. rewrite IH, !map_map. reflexivity.
Qed.

Lemma set_partitions_map {A B} (f : A -> B) l :
  set_partitions (map f l) = map (map (map f)) (set_partitions l).
Proof.
  induction l as [|x xs IH]; [reflexivity|]. simpl. rewrite IH. clear IH.
  induction (set_partitions xs) as [|p ps IHp]; [reflexivity|].
  simpl. rewrite map_app, IHp, insert_block_map. reflexivity.
Qed.
