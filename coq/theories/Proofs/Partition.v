(* Proofs/Partition.v — specifications and lemmas for Model/Partition.v (C18; reused by C15).

   SPECIFICATIONS (Prop)
     wf_profile alts profile     NoDup alts /\ every ranking of the profile is a permutation of alts
                                 (strict complete orders over the alternatives; alts may be empty unless stated)
     axis_sp profile axis        SP_axis (restrict_profile axis profile) axis : for every vote r and every k, the k best
                                 alternatives of r restricted to the axis' alternatives are contiguous on the axis
                                 (the declarative single-peakedness of Proofs/SP.v, not the boolean scan)
     valid_partition alts profile axes
                                 Permutation alts (concat axes) /\ Forall (axis_sp profile) axes
                                 (valid_partition_spelled: the first conjunct = every axis duplicate-free, axes pairwise
                                  disjoint, and an alternative belongs to alts iff it belongs to some axis)
   MAIN RESULTS
     partition_check_correct, partition_check_spelled, check_valid_bound, valid_min_le, min_attained,
     min_partition_correct, min_size_no_empty_axis, brute_force_ok_correct, two_alts_sp, min_partition_bounds,
     min_partition_profile_perm, partition_check_profile_perm, min_partition_alts_perm, min_partition_relabel,
     partition_check_relabel *)
From Coq Require Import List Arith NArith Bool Lia Permutation.
From PrefVerif Require Import Lib.Val Lib.Perms Lib.Contig Lib.SetPartitions Model.SP Model.Partition Proofs.SP.
Import ListNotations.

Definition wf_profile (alts : list N) (profile : list ranking) : Prop :=
  NoDup alts /\ Forall (fun r => Permutation alts r) profile.

Definition axis_sp (profile : list ranking) (axis : list N) : Prop :=
  SP_axis (restrict_profile axis profile) axis.

Definition valid_partition (alts : list N) (profile : list ranking) (axes : list (list N)) : Prop :=
  Permutation alts (concat axes) /\ Forall (axis_sp profile) axes.

(* the specification with every definition unfolded *)
Lemma valid_partition_meaning alts profile axes :
  valid_partition alts profile axes <->
  Permutation alts (concat axes) /\
  forall axis, In axis axes -> forall r, In r profile -> forall k,
    contiguous (firstn k (filter (fun a => memN a axis) r)) axis.
Proof.
  unfold valid_partition, axis_sp, SP_axis, restrict_profile. rewrite Forall_forall. split; intros [Hp H]; (split; [assumption|]).
  - intros axis Hax r Hr k. apply (H axis Hax (restrict_ranking axis r)). now apply in_map.
  - intros axis Hax r' Hr' k. apply in_map_iff in Hr'. destruct Hr' as (r & <- & Hr). now apply H.
Qed.

(* ---------------------------------------------------------------------------------------------- *)
(* 1. restriction                                                                                  *)

Lemma restrict_ranking_ext S S' r : (forall a, In a S <-> In a S') -> restrict_ranking S r = restrict_ranking S' r.
Proof.
  intros H. unfold restrict_ranking. apply filter_ext. intros a.
  apply eq_true_iff_eq. rewrite !memN_In. apply H.
Qed.

Lemma restrict_profile_ext S S' profile :
  (forall a, In a S <-> In a S') -> restrict_profile S profile = restrict_profile S' profile.
Proof. intros H. unfold restrict_profile. apply map_ext. intros r. now apply restrict_ranking_ext. Qed.

Lemma restrict_profile_perm S S' profile :
  Permutation S S' -> restrict_profile S profile = restrict_profile S' profile.
Proof.
  intros H. apply restrict_profile_ext. intros a. split; apply Permutation_in; auto. now apply Permutation_sym.
Qed.

Lemma restrict_perm alts r S :
  NoDup alts -> Permutation alts r -> NoDup S -> incl S alts -> Permutation S (restrict_ranking S r).
Proof.
  intros Hnd Hp HS Hincl. unfold restrict_ranking. apply NoDup_Permutation.
  - assumption.
  - apply NoDup_filter. eapply Permutation_NoDup; eauto.
  - intros a. rewrite filter_In, memN_In. split.
    + intros Ha. split; [|assumption]. eapply Permutation_in; [exact Hp|]. now apply Hincl.
    + tauto.
Qed.

Lemma restrict_profile_wf alts profile S :
  wf_profile alts profile -> NoDup S -> incl S alts ->
  Forall (fun r => Permutation S r) (restrict_profile S profile).
Proof.
  intros [Hnd Hc] HS Hincl. apply Forall_forall. intros r' Hr'. unfold restrict_profile in Hr'.
  apply in_map_iff in Hr'. destruct Hr' as (r & <- & Hr). rewrite Forall_forall in Hc.
  apply (restrict_perm alts); auto.
Qed.

(* ---------------------------------------------------------------------------------------------- *)
(* 2. the witness checker                                                                          *)

Lemma axis_ok_correct alts profile axis :
  wf_profile alts profile -> NoDup axis -> incl axis alts ->
  (axis_ok profile axis = true <-> axis_sp profile axis).
Proof.
  intros Hwf Hnd Hincl. unfold axis_ok, axis_sp.
  rewrite (sp_check_axis_correct axis (restrict_profile axis profile) axis Hnd
             (restrict_profile_wf alts profile axis Hwf Hnd Hincl)).
  split; [tauto|]. intros H. split; [|assumption]. split; [assumption|tauto].
Qed.

Lemma perm_concat_block (alts : list N) axes axis :
  NoDup alts -> Permutation alts (concat axes) -> In axis axes -> NoDup axis /\ incl axis alts.
Proof.
  intros Hnd Hp Hin. split.
  - assert (H : NoDup (concat axes)) by (eapply Permutation_NoDup; eauto).
    apply NoDup_concat_iff in H. destruct H as [H _]. rewrite Forall_forall in H. auto.
  - intros a Ha. eapply Permutation_in; [apply Permutation_sym; exact Hp|]. apply in_concat. eauto.
Qed.

Theorem partition_check_correct alts profile axes :
  wf_profile alts profile ->
  (partition_check alts profile axes = true <-> valid_partition alts profile axes).
Proof.
  intros Hwf. destruct Hwf as [Hnd Hc]. unfold partition_check, valid_partition.
  rewrite andb_true_iff, (valid_axis_correct alts (concat axes) Hnd), forallb_forall, Forall_forall.
  split; intros [Hp H]; (split; [assumption|]); intros axis Hin;
    destruct (perm_concat_block alts axes axis Hnd Hp Hin) as [Hna Hincl];
    apply (axis_ok_correct alts profile axis (conj Hnd Hc) Hna Hincl); auto.
Qed.

(* "pairwise disjoint, cover every alternative exactly once", spelled out *)
Lemma valid_partition_spelled (alts : list N) axes :
  NoDup alts ->
  (Permutation alts (concat axes) <->
   Forall (@NoDup N) axes /\ ForallOrdPairs disjoint axes /\
   (forall a, In a alts <-> exists axis, In axis axes /\ In a axis)).
Proof.
  intros Hnd. rewrite (perm_iff_exactly_once alts (concat axes) Hnd), NoDup_concat_iff. split.
  - intros [[H1 H2] H3]. repeat split; auto.
    + intros Ha. apply H3 in Ha. apply in_concat in Ha. exact Ha.
    + intros Ha. apply H3. apply in_concat. exact Ha.
  - intros (H1 & H2 & H3). repeat split; auto.
    + intros Ha. apply H3. apply in_concat in Ha. exact Ha.
    + intros Ha. apply in_concat. now apply H3.
Qed.

Theorem partition_check_spelled alts profile axes :
  wf_profile alts profile ->
  (partition_check alts profile axes = true <->
   (Forall (@NoDup N) axes /\ ForallOrdPairs disjoint axes /\
    (forall a, In a alts <-> exists axis, In axis axes /\ In a axis)) /\
   Forall (axis_sp profile) axes).
Proof.
  intros Hwf. rewrite (partition_check_correct alts profile axes Hwf). unfold valid_partition.
  destruct Hwf as [Hnd _]. now rewrite (valid_partition_spelled alts axes Hnd).
Qed.

(* ---------------------------------------------------------------------------------------------- *)
(* 3. blocks that admit an axis                                                                    *)

Lemma block_sp_correct alts profile b :
  wf_profile alts profile -> NoDup b -> incl b alts ->
  (block_sp profile b = true <-> exists axis, Permutation b axis /\ axis_sp profile axis).
Proof.
  intros Hwf Hnd Hincl. unfold block_sp.
  rewrite (sp_decide_correct b (restrict_profile b profile) Hnd (restrict_profile_wf alts profile b Hwf Hnd Hincl)).
  unfold SP, axis_sp. split; intros (axis & Hp & H); exists axis; (split; [assumption|]).
  - now rewrite <- (restrict_profile_perm b axis profile Hp).
  - now rewrite (restrict_profile_perm b axis profile Hp).
Qed.

Lemma block_sp_perm profile b c : Permutation c b -> block_sp profile c = block_sp profile b.
Proof.
  intros Hp. unfold block_sp. rewrite (restrict_profile_perm c b profile Hp).
  unfold sp_decide. now apply spw_decide_alts_perm.
Qed.

(* ---------------------------------------------------------------------------------------------- *)
(* 4. list_min                                                                                     *)

Lemma list_min_le_d d l : list_min d l <= d.
Proof. induction l as [|x l IH]; simpl; lia. Qed.

Lemma list_min_le d l x : In x l -> list_min d l <= x.
Proof. induction l as [|y l IH]; simpl; [intros []|]. intros [->|H]; [lia|]. specialize (IH H). lia. Qed.

Lemma list_min_in d l : list_min d l = d \/ In (list_min d l) l.
Proof.
  induction l as [|y l IH]; simpl; [now left|].
  destruct (Nat.min_spec y (list_min d l)) as [[_ E]|[_ E]]; rewrite E.
  - right. now left.
  - destruct IH as [IH|IH]; [now left|right; now right].
Qed.

(* ---------------------------------------------------------------------------------------------- *)
(* 5. the reference optimum                                                                        *)

Definition nonempty (b : list N) : bool := negb (is_nil b).

Lemma concat_filter_nonempty (axes : list (list N)) : concat (filter nonempty axes) = concat axes.
Proof. induction axes as [|[|a b] r IH]; simpl; [reflexivity|assumption|now rewrite IH]. Qed.

Lemma filter_length_le {T} (f : T -> bool) l : length (filter f l) <= length l.
Proof. induction l as [|x l IH]; simpl; [lia|]. destruct (f x); simpl; lia. Qed.

Lemma filter_length_eq {T} (f : T -> bool) l : length (filter f l) = length l -> Forall (fun x => f x = true) l.
Proof.
  induction l as [|x l IH]; simpl; [constructor|]. destruct (f x) eqn:E; simpl; intros H.
  - constructor; [assumption|]. apply IH. lia.
  - pose proof (filter_length_le f l). lia.
Qed.

Lemma valid_filter_nonempty alts profile axes :
  valid_partition alts profile axes -> valid_partition alts profile (filter nonempty axes).
Proof.
  intros [Hp H]. split; [now rewrite concat_filter_nonempty|].
  rewrite Forall_forall in *. intros b Hb. apply filter_In in Hb. now apply H.
Qed.

(* every valid partition is matched (same blocks as sets, empty axes dropped) by an enumerated candidate *)
Lemma valid_enumerated alts profile axes :
  wf_profile alts profile -> valid_partition alts profile axes ->
  exists p, In p (filter (all_blocks_sp profile) (set_partitions alts)) /\ length p <= length axes.
Proof.
  intros Hwf Hv. pose proof (filter_length_le nonempty axes) as Hlen.
  apply valid_filter_nonempty in Hv. destruct Hv as [Hp Hsp].
  destruct (set_partitions_complete N alts (filter nonempty axes)) as (p & Hin & Hpeq).
  - apply Forall_forall. intros b Hb. apply filter_In in Hb. destruct Hb as [_ Hb]. destruct b; [discriminate|discriminate].
  - now apply Permutation_sym.
  - exists p. split; [|rewrite (peq_length N _ _ Hpeq); exact Hlen].
    apply filter_In. split; [assumption|]. unfold all_blocks_sp. apply forallb_forall. intros c Hc.
    destruct (peq_block N _ _ Hpeq c Hc) as (b & Hb & Hcb).
    rewrite (block_sp_perm profile b c Hcb).
    destruct Hwf as [Hnd Hc']. destruct (perm_concat_block alts _ b Hnd Hp Hb) as [Hnb Hincl].
    apply (block_sp_correct alts profile b (conj Hnd Hc') Hnb Hincl). exists b. split; [apply Permutation_refl|].
    rewrite Forall_forall in Hsp. now apply Hsp.
Qed.

Theorem valid_min_le alts profile axes :
  wf_profile alts profile -> valid_partition alts profile axes -> min_partition alts profile <= length axes.
Proof.
  intros Hwf Hv. destruct (valid_enumerated alts profile axes Hwf Hv) as (p & Hin & Hlen).
  unfold min_partition. etransitivity; [|exact Hlen]. apply list_min_le. now apply in_map.
Qed.

Theorem check_valid_bound alts profile axes :
  wf_profile alts profile -> partition_check alts profile axes = true ->
  min_partition alts profile <= length axes.
Proof. intros Hwf H. apply valid_min_le; [assumption|]. now apply partition_check_correct. Qed.

(* axes with at most two alternatives *)
Lemma sp_scan_ok_short ps : length ps <= 2 -> sp_scan_ok ps = true.
Proof.
  destruct ps as [|a [|b [|c r]]]; simpl; intros H; try reflexivity; [|lia].
  destruct (a <? b); [reflexivity|]. rewrite andb_false_r. reflexivity.
Qed.

Lemma axis_ok_short profile axis : NoDup axis -> length axis <= 2 -> axis_ok profile axis = true.
Proof.
  intros Hnd Hlen. unfold axis_ok, sp_check_axis, spw_check_axis. apply andb_true_iff. split.
  - apply (valid_axis_correct axis axis Hnd). apply Permutation_refl.
  - unfold sp_axis_profile. apply forallb_forall. intros o _. unfold sp_axis_weak.
    apply sp_scan_ok_short. now rewrite map_length.
Qed.

Lemma axis_sp_short alts profile axis :
  wf_profile alts profile -> NoDup axis -> incl axis alts -> length axis <= 2 -> axis_sp profile axis.
Proof.
  intros Hwf Hnd Hincl Hlen. apply (axis_ok_correct alts profile axis Hwf Hnd Hincl).
  now apply axis_ok_short.
Qed.

(* any two alternatives are single-peaked together (the fact behind the cap ceil(m/2) of the code) *)
Theorem two_alts_sp alts profile a b :
  wf_profile alts profile -> In a alts -> In b alts -> a <> b -> block_sp profile [a; b] = true.
Proof.
  intros Hwf Ha Hb Hab.
  assert (Hnd : NoDup [a; b]).
  { constructor; [intros [H|[]]; congruence|]. constructor; [intros []|constructor]. }
  assert (Hincl : incl [a; b] alts) by (intros x [<-|[<-|[]]]; assumption).
  apply (block_sp_correct alts profile [a; b] Hwf Hnd Hincl). exists [a; b]. split; [apply Permutation_refl|].
  apply (axis_sp_short alts profile [a; b] Hwf Hnd Hincl). simpl. lia.
Qed.

Lemma Forall_exists_Forall2 {X Y} (R : X -> Y -> Prop) l :
  Forall (fun x => exists y, R x y) l -> exists l', Forall2 R l l'.
Proof.
  induction 1 as [|x l (y & Hy) _ (l' & IH)]; [exists []; constructor|].
  exists (y :: l'). now constructor.
Qed.

Lemma singletons_valid alts profile :
  wf_profile alts profile -> valid_partition alts profile (map (fun a => [a]) alts).
Proof.
  intros Hwf. split.
  - replace (concat (map (fun a => [a]) alts)) with alts; [apply Permutation_refl|].
    induction alts as [|a r IH]; simpl; [reflexivity|]. f_equal.
    clear -r. induction r as [|b r IH]; simpl; [reflexivity|now f_equal].
  - apply Forall_forall. intros b Hb. apply in_map_iff in Hb. destruct Hb as (a & <- & Ha).
    apply (axis_sp_short alts profile [a] Hwf).
    + constructor; [intros []|constructor].
    + intros x [<-|[]]. assumption.
    + simpl. lia.
Qed.

Theorem min_attained alts profile :
  wf_profile alts profile ->
  exists axes, valid_partition alts profile axes /\ Forall (fun b => b <> []) axes /\
               length axes = min_partition alts profile.
Proof.
  intros Hwf. unfold min_partition.
  destruct (list_min_in (length alts)
              (map (@length (list N)) (filter (all_blocks_sp profile) (set_partitions alts)))) as [E|Hin].
  - exists (map (fun a => [a]) alts). split; [now apply singletons_valid|]. split.
    + apply Forall_forall. intros b Hb. apply in_map_iff in Hb. destruct Hb as (a & <- & _). discriminate.
    + now rewrite map_length, E.
  - apply in_map_iff in Hin. destruct Hin as (p & Hlen & Hp). apply filter_In in Hp. destruct Hp as [Hp Hall].
    destruct (set_partitions_sound N alts p Hp) as [Hne Hperm].
    assert (Hperm' : Permutation alts (concat p)) by now apply Permutation_sym.
    destruct Hwf as [Hnd Hc].
    assert (HF : Forall (fun c => exists axis, Permutation c axis /\ axis_sp profile axis) p).
    { apply Forall_forall. intros c Hc'. destruct (perm_concat_block alts p c Hnd Hperm' Hc') as [Hnc Hincl].
      apply (block_sp_correct alts profile c (conj Hnd Hc) Hnc Hincl).
      unfold all_blocks_sp in Hall. rewrite forallb_forall in Hall. now apply Hall. }
    apply Forall_exists_Forall2 in HF. destruct HF as (axes & HF).
    exists axes. split; [split|split].
    + eapply perm_trans; [exact Hperm'|]. apply (peq_concat N). exists axes. split; [apply Permutation_refl|].
      clear -HF. induction HF as [|c a p axes [H _] _ IH]; constructor; assumption.
    + clear -HF. induction HF as [|c a p axes [_ H] _ IH]; constructor; assumption.
    + clear -HF Hne. induction HF as [|c a p axes [H _] _ IH]; [constructor|].
      inversion Hne; subst. constructor; [|auto]. intros ->. apply Permutation_sym, Permutation_nil in H. congruence.
    + rewrite <- Hlen. symmetry. exact (Forall2_len _ _ _ HF).
Qed.

Theorem min_partition_correct alts profile k :
  wf_profile alts profile ->
  (min_partition alts profile = k <->
   (exists axes, valid_partition alts profile axes /\ length axes = k) /\
   (forall axes, valid_partition alts profile axes -> k <= length axes)).
Proof.
  intros Hwf. split.
  - intros <-. split.
    + destruct (min_attained alts profile Hwf) as (axes & Hv & _ & Hlen). eauto.
    + intros axes Hv. now apply valid_min_le.
  - intros [(axes & Hv & Hlen) Hmin].
    destruct (min_attained alts profile Hwf) as (axes0 & Hv0 & _ & Hlen0).
    pose proof (valid_min_le alts profile axes Hwf Hv). specialize (Hmin axes0 Hv0). lia.
Qed.

(* a valid partition of minimum size has no empty axis *)
Theorem min_size_no_empty_axis alts profile axes :
  wf_profile alts profile -> valid_partition alts profile axes ->
  length axes = min_partition alts profile -> Forall (fun b => b <> []) axes.
Proof.
  intros Hwf Hv Hlen.
  pose proof (valid_min_le alts profile _ Hwf (valid_filter_nonempty alts profile axes Hv)) as H1.
  pose proof (filter_length_le nonempty axes) as H2.
  assert (H : length (filter nonempty axes) = length axes) by lia.
  apply filter_length_eq in H. rewrite Forall_forall in *. intros b Hb -> . specialize (H [] Hb). discriminate.
Qed.

(* the second sentence of the property *)
Theorem brute_force_ok_correct alts profile k res :
  wf_profile alts profile ->
  (brute_force_ok alts profile k res = true <->
   match res with
   | Some axes => valid_partition alts profile axes /\ length axes <= k /\
                  (forall axes', valid_partition alts profile axes' -> length axes <= length axes')
   | None => forall axes', valid_partition alts profile axes' -> k < length axes'
   end).
Proof.
  intros Hwf. unfold brute_force_ok, brute_force_ok_with.
  destruct (min_attained alts profile Hwf) as (axes0 & Hv0 & _ & Hlen0).
  destruct (min_partition alts profile <=? k) eqn:E; [apply Nat.leb_le in E|apply Nat.leb_gt in E];
    destruct res as [axes|].
  - rewrite andb_true_iff, (partition_check_correct alts profile axes Hwf), Nat.eqb_eq. split.
    + intros [Hv Hlen]. split; [assumption|]. split; [lia|]. intros axes' Hv'.
      rewrite Hlen. now apply valid_min_le.
    + intros (Hv & Hk & Hmin). split; [assumption|].
      pose proof (valid_min_le alts profile axes Hwf Hv). specialize (Hmin axes0 Hv0). lia.
  - split; [discriminate|]. intros H. specialize (H axes0 Hv0). lia.
  - split; [discriminate|]. intros (Hv & Hk & _). pose proof (valid_min_le alts profile axes Hwf Hv). lia.
  - split; [|reflexivity]. intros _ axes' Hv'. pose proof (valid_min_le alts profile axes' Hwf Hv'). lia.
Qed.

(* ---------------------------------------------------------------------------------------------- *)
(* 6. bounds                                                                                       *)

Lemma pair_ind (P : list N -> Prop) :
  P [] -> (forall a, P [a]) -> (forall a b r, P r -> P (a :: b :: r)) -> forall l, P l.
Proof. intros H0 H1 H2. fix IH 1. intros [|a [|b r]]; [exact H0|apply H1|apply H2; apply IH]. Qed.

Lemma concat_pair_up l : concat (pair_up l) = l.
Proof. induction l using pair_ind; simpl; [reflexivity|reflexivity|now f_equal; f_equal]. Qed.

Lemma length_pair_up l : length (pair_up l) = (length l + 1) / 2.
Proof.
  induction l as [| |a b r IH] using pair_ind; [reflexivity|reflexivity|].
  simpl pair_up. simpl length. rewrite IH.
  replace (S (S (length r)) + 1) with (length r + 1 + 1 * 2) by lia.
  rewrite Nat.div_add by lia. lia.
Qed.

Lemma pair_up_short l : Forall (fun b => length b <= 2) (pair_up l).
Proof. induction l using pair_ind; simpl; repeat constructor; auto. Qed.

Lemma pair_up_valid alts profile : wf_profile alts profile -> valid_partition alts profile (pair_up alts).
Proof.
  intros Hwf. assert (Hp : Permutation alts (concat (pair_up alts))) by (rewrite concat_pair_up; apply Permutation_refl).
  split; [assumption|]. apply Forall_forall. intros b Hb.
  destruct (perm_concat_block alts _ b (proj1 Hwf) Hp Hb) as [Hnb Hincl].
  apply (axis_sp_short alts profile b Hwf Hnb Hincl).
  pose proof (pair_up_short alts) as H. rewrite Forall_forall in H. now apply H.
Qed.

Theorem min_partition_bounds alts profile :
  wf_profile alts profile -> alts <> [] ->
  1 <= min_partition alts profile <= (length alts + 1) / 2.
Proof.
  intros Hwf Hne. split.
  - destruct (min_attained alts profile Hwf) as (axes & [Hp _] & _ & <-).
    destruct axes; [|simpl; lia]. simpl in Hp. apply Permutation_sym, Permutation_nil in Hp. contradiction.
  - rewrite <- length_pair_up. apply valid_min_le; [assumption|]. now apply pair_up_valid.
Qed.

(* ---------------------------------------------------------------------------------------------- *)
(* 7. invariance (reused by C15)                                                                   *)

Lemma block_sp_profile_perm profile profile' b :
  Permutation profile profile' -> block_sp profile b = block_sp profile' b.
Proof. intros Hp. unfold block_sp, restrict_profile. apply sp_decide_reorder. now apply Permutation_map. Qed.

Theorem min_partition_profile_perm alts profile profile' :
  Permutation profile profile' -> min_partition alts profile = min_partition alts profile'.
Proof.
  intros Hp. unfold min_partition. f_equal. f_equal. apply filter_ext. intros p.
  unfold all_blocks_sp. apply forallb_ext. intros b. now apply block_sp_profile_perm.
Qed.

Theorem partition_check_profile_perm alts profile profile' axes :
  Permutation profile profile' -> partition_check alts profile axes = partition_check alts profile' axes.
Proof.
  intros Hp. unfold partition_check. f_equal. apply forallb_ext. intros axis.
  unfold axis_ok, sp_check_axis, spw_check_axis. f_equal. unfold sp_axis_profile, restrict_profile.
  apply forallb_perm. apply Permutation_map. now apply Permutation_map.
Qed.

(* the order in which alternatives_name lists the alternatives does not matter *)
Theorem min_partition_alts_perm alts alts' profile :
  wf_profile alts profile -> Permutation alts alts' ->
  min_partition alts profile = min_partition alts' profile.
Proof.
  intros Hwf Hp.
  assert (Hwf' : wf_profile alts' profile).
  { destruct Hwf as [Hnd Hc]. split; [eapply Permutation_NoDup; eauto|].
    rewrite Forall_forall in *. intros r Hr. eapply perm_trans; [apply Permutation_sym; exact Hp|auto]. }
  assert (Hiff : forall axes, valid_partition alts profile axes <-> valid_partition alts' profile axes).
  { intros axes. unfold valid_partition. split; intros [H1 H2]; (split; [|assumption]).
    - eapply perm_trans; [apply Permutation_sym; exact Hp|exact H1].
    - eapply perm_trans; eauto. }
  apply (min_partition_correct alts profile _ Hwf). split.
  - destruct (min_attained alts' profile Hwf') as (axes & Hv & _ & Hlen). exists axes. split; [now apply Hiff|assumption].
  - intros axes Hv. apply valid_min_le; [assumption|]. now apply Hiff.
Qed.

Lemma filter_map_swap {X Y} (g : Y -> bool) (h : X -> Y) l : filter g (map h l) = map h (filter (fun x => g (h x)) l).
Proof. induction l as [|x l IH]; simpl; [reflexivity|]. destruct (g (h x)); simpl; now rewrite IH. Qed.

Section Relabel.
Variable f : N -> N.
Hypothesis f_inj : forall x y, f x = f y -> x = y.

Lemma restrict_ranking_map S r : restrict_ranking (map f S) (map f r) = map f (restrict_ranking S r).
Proof.
  unfold restrict_ranking. rewrite filter_map_swap. f_equal. apply filter_ext. intros a.
  now apply memN_map.
Qed.

Lemma restrict_profile_map S profile :
  restrict_profile (map f S) (map (map f) profile) = map (map f) (restrict_profile S profile).
Proof.
  unfold restrict_profile. rewrite !map_map. apply map_ext. intros r. apply restrict_ranking_map.
Qed.

Lemma block_sp_map profile b : block_sp (map (map f) profile) (map f b) = block_sp profile b.
Proof. unfold block_sp. rewrite restrict_profile_map. now apply sp_decide_relabel. Qed.

Theorem min_partition_relabel alts profile :
  min_partition (map f alts) (map (map f) profile) = min_partition alts profile.
Proof.
  unfold min_partition. rewrite map_length, set_partitions_map, filter_map_swap, map_map. f_equal.
  erewrite map_ext; [|intros p; apply map_length].
  f_equal. apply filter_ext. intros p. unfold all_blocks_sp. rewrite forallb_map.
  apply forallb_ext. intros b. apply block_sp_map.
Qed.

Lemma nodupN_map l : nodupN (map f l) = nodupN l.
Proof. induction l as [|a r IH]; simpl; [reflexivity|]. now rewrite (memN_map f f_inj), IH. Qed.

Lemma valid_axis_map alts axis : valid_axis (map f alts) (map f axis) = valid_axis alts axis.
Proof.
  unfold valid_axis. rewrite !map_length, nodupN_map, !forallb_map. f_equal; [f_equal|].
  - apply forallb_ext. intros a. now apply memN_map.
  - apply forallb_ext. intros a. now apply memN_map.
Qed.

Lemma axis_ok_map profile axis : axis_ok (map (map f) profile) (map f axis) = axis_ok profile axis.
Proof.
  unfold axis_ok, sp_check_axis, spw_check_axis. rewrite valid_axis_map, restrict_profile_map. f_equal.
  rewrite map_map. erewrite map_ext; [|intros r; apply (strictify_map f)].
  rewrite <- map_map. now apply sp_axis_profile_map.
Qed.

Theorem partition_check_relabel alts profile axes :
  partition_check (map f alts) (map (map f) profile) (map (map f) axes) = partition_check alts profile axes.
Proof.
  unfold partition_check. rewrite <- concat_map, valid_axis_map, forallb_map. f_equal.
  apply forallb_ext. intros axis. apply axis_ok_map.
Qed.
End Relabel.
