(* Proofs/PQTreeComplete.v — COMPLETENESS of the mirrored PQ-tree algorithm (Model/PQTree.v): if the family has an
   arrangement in which, for every element, the sets containing it are consecutive, the mirror returns an answer
   (so, by pq_reorder_total, Err ValueErr is returned only if no arrangement exists).
   Frontier semantics: Proofs/PQTree.v  Ord t o  ("o is one of the frontiers t represents").
   Step lemma (C): a frontier of t in which the sets containing v are consecutive is still a frontier of the tree
   returned by set_contiguous v t, and set_contiguous does not fail when t has such a frontier. *)
From Coq Require Import List Arith Bool Lia Permutation.
From PrefVerif Require Import Lib.Val Lib.Perms Model.C1P Model.PQTree Proofs.C1P Proofs.PQTree.
Import ListNotations.

Definition StepC : Prop :=
  forall f v t o, proper t = true -> length (ordering t) <= f -> Ord t o -> Interval (fun s => In v s) o ->
    exists t' st, set_contiguous f v t = Ok (t', st) /\ Ord t' o.

(* ------------------------------------------------------------------------------------------------ *)
(* the converse of Ref_flat_ret: _flatten loses no frontier *)
Lemma Forall2_map_same {X} (R : X -> X -> Prop) (g : X -> X) l : Forall (fun x => R x (g x)) l -> Forall2 R l (map g l).
Proof. induction 1; simpl; constructor; auto. Qed.

Lemma Ord_flat_ret_c t : forall o, Ord t o -> Ord (flat_ret t) o.
Proof.
  induction t as [s|k cs IH] using pq_ind'; intros o Ho; [exact Ho|].
  destruct cs as [|c [|c2 r]].
  - exact Ho.
  - inversion IH; subst. simpl. apply H1. now apply Ord_single in Ho.
  - change (Ord (Node k (map flat_ret (c :: c2 :: r))) o).
    revert o Ho. apply Ref_node. apply Forall2_map_same. exact IH.
Qed.

Lemma Ord_leaves_perm F o : Permutation F o -> Ord (Node KP (map Leaf F)) o.
Proof.
  intros HP. apply Ord_P. exists (map Leaf o). split; [now apply Permutation_map|].
  clear HP. induction o as [|s o IH]; simpl; [now apply OrdL_nil|].
  apply OrdL_cons. exists [s], o. repeat split; auto. constructor.
Qed.

(* ------------------------------------------------------------------------------------------------ *)
(* Stage A: the element loop and reorder_sets, relative to the step lemma *)
Section FromStep.
Hypothesis step : StepC.

Lemma pq_loop_complete fuel o : (forall v, Interval (fun s => In v s) o) ->
  forall elems t, proper t = true -> length (ordering t) <= fuel -> Ord t o -> 3 <= length o ->
  exists t', pq_loop fuel elems t = Ok t' /\ Ord t' o.
Proof.
  intros Hgood. induction elems as [|i rest IH]; intros t Hp Hlen Ho H3; simpl.
  - eauto.
  - destruct t as [s|k cs]; [inversion Ho; subst; simpl in H3; lia|].
    destruct (step fuel i (Node k cs) o Hp Hlen Ho (Hgood i)) as (t' & st & E & Ho').
    rewrite E. simpl.
    destruct (set_contiguous_post _ _ _ _ _ Hp E) as (_ & HAl & _ & Hperm & _).
    apply IH; auto.
    + now apply AlmostProper_flat.
    + now rewrite ordering_flat_ret, <- (Permutation_length Hperm).
    + now apply Ord_flat_ret_c.
Qed.

Theorem pq_reorder_complete_from_step elems F :
  (exists res, SetsOK F res) -> exists res', pq_reorder elems F = Ok res'.
Proof.
  intros (res & HP & Hgood). unfold pq_reorder.
  destruct (Nat.leb_spec (length F) 2) as [Hl|Hl]; [eauto|].
  assert (Hp : proper (Node KP (map Leaf F)) = true).
  { apply proper_node_iff. split; [rewrite map_length; lia|]. apply Forall_map, Forall_forall. reflexivity. }
  assert (Hleaves : ordering (Node KP (map Leaf F)) = F) by (simpl; apply ordering_leaves).
  destruct (pq_loop_complete (length F) res Hgood elems (Node KP (map Leaf F)) Hp) as (t' & E & Ho).
  - rewrite Hleaves. lia.
  - now apply Ord_leaves_perm.
  - rewrite <- (Permutation_length HP). lia.
  - rewrite E. destruct t' as [s|k cs]; [|eauto].
    inversion Ho; subst. apply Permutation_length in HP. simpl in HP. lia.
Qed.

Corollary pq_reorder_err_from_step elems F :
  pq_reorder elems F = Err ValueErr -> ~ exists res, SetsOK F res.
Proof. intros E H. destruct (pq_reorder_complete_from_step elems F H) as (r & Hr). congruence. Qed.
End FromStep.

(* ------------------------------------------------------------------------------------------------ *)
(* 0/1 words: where the ones of a concatenation of blocks can be *)
Lemma all_zero_app a b : all_zero (a ++ b) = all_zero a && all_zero b.
Proof. unfold all_zero. apply forallb_app. Qed.
Lemma all_one_app a b : all_one (a ++ b) = all_one a && all_one b.
Proof. unfold all_one. apply forallb_app. Qed.

Lemma ones_zeros_app a b :
  ones_zeros (a ++ b) = (all_one a && ones_zeros b) || (ones_zeros a && all_zero b).
Proof.
  induction a as [|[|] a IH]; simpl.
  - destruct (ones_zeros b) eqn:E; [reflexivity|]. destruct (all_zero b) eqn:E2; [|reflexivity].
    apply all_zero_ones_zeros in E2. congruence.
  - exact IH.
  - now rewrite all_zero_app.
Qed.

Lemma contig01_app a b :
  contig01 (a ++ b) = (all_zero a && contig01 b) || (contig01 a && all_zero b) || (zeros_ones a && ones_zeros b).
Proof.
  induction a as [|[|] a IH]; simpl.
  - destruct (contig01 b) eqn:E; [reflexivity|].
    destruct (all_zero b) eqn:E2; [apply all_zero_ones_zeros, ones_zeros_contig in E2; congruence|].
    destruct (ones_zeros b) eqn:E3; [apply ones_zeros_contig in E3; congruence|reflexivity].
  - rewrite ones_zeros_app. destruct (all_one a), (ones_zeros b), (ones_zeros a), (all_zero b); reflexivity.
  - exact IH.
Qed.

Lemma all_zero_concat {X} (wd : X -> list bool) l :
  all_zero (flat_map wd l) = true <-> Forall (fun x => all_zero (wd x) = true) l.
Proof.
  induction l as [|x t IH]; simpl; [split; constructor|]. rewrite all_zero_app, andb_true_iff, IH. split.
  - intros [H1 H2]. now constructor.
  - intros H. inversion H; subst. auto.
Qed.

Lemma all_zero_not_one w : w <> [] -> all_zero w = true -> all_one w = false.
Proof. destruct w as [|[|] w]; simpl; intros H1 H2; try congruence. Qed.

Section Shape.
Context {X : Type}.
Variable wd : X -> list bool.
Let az (x : X) := all_zero (wd x) = true.
Let ao (x : X) := all_one (wd x) = true.

(* the ones of the concatenation form a prefix: blocks of ones, then at most one block 1+0*, then blocks of zeros *)
Lemma shape_prefix l : Forall (fun x => wd x <> []) l -> ones_zeros (flat_map wd l) = true ->
  exists A rest, l = A ++ rest /\ Forall ao A /\
    (rest = [] \/ exists w' W3, rest = w' :: W3 /\ ones_zeros (wd w') = true /\ all_one (wd w') = false /\ Forall az W3).
Proof.
  induction 1 as [|x t Hx Ht IH]; simpl; intros H.
  - exists [], []. repeat split; auto.
  - rewrite ones_zeros_app in H. destruct (all_one (wd x)) eqn:Eo.
    + simpl in H. destruct (ones_zeros (flat_map wd t)) eqn:Et.
      * destruct (IH eq_refl) as (A & rest & -> & HA & Hr). exists (x :: A), rest. repeat split; auto.
      * simpl in H. apply andb_true_iff in H. destruct H as [_ H]. apply all_zero_ones_zeros in H. congruence.
    + simpl in H. apply andb_true_iff in H. destruct H as [H1 H2]. apply all_zero_concat in H2.
      exists [], (x :: t). repeat split; auto. right. exists x, t. auto.
Qed.

Inductive Shape : list X -> Prop :=
| Sh_none l : Forall az l -> Shape l
| Sh_one W1 w W3 : Forall az W1 -> Forall az W3 -> contig01 (wd w) = true -> all_zero (wd w) = false ->
                   Shape (W1 ++ w :: W3)
| Sh_run W1 w A R W3 : Forall az W1 -> Forall az W3 -> Forall ao A ->
                       zeros_ones (wd w) = true -> all_zero (wd w) = false ->
                       (R = [] \/ exists w', R = [w'] /\ ones_zeros (wd w') = true /\ all_one (wd w') = false /\
                                             all_zero (wd w') = false) ->
                       Shape (W1 ++ w :: A ++ R ++ W3).

Lemma Shape_cons_az x l : az x -> Shape l -> Shape (x :: l).
Proof.
  intros Hx H. destruct H as [l H|W1 w W3 H1 H3 Hc Hz|W1 w A R W3 H1 H3 HA Hw Hz HR].
  - apply Sh_none. now constructor.
  - apply (Sh_one (x :: W1)); auto.
  - apply (Sh_run (x :: W1)); auto.
Qed.

Theorem shape l : Forall (fun x => wd x <> []) l -> contig01 (flat_map wd l) = true -> Shape l.
Proof.
  induction 1 as [|x t Hx Ht IH]; simpl; intros H; [apply Sh_none; constructor|].
  rewrite contig01_app in H. destruct (all_zero (wd x)) eqn:Ez.
  - (* the block x has no one: the ones are in the rest *)
    apply Shape_cons_az; [exact Ez|]. apply IH.
    destruct (contig01 (flat_map wd t)) eqn:Ec; [reflexivity|]. simpl in H.
    apply orb_true_iff in H. destruct H as [H|H]; apply andb_true_iff in H; destruct H as [_ H].
    + apply all_zero_ones_zeros, ones_zeros_contig in H. congruence.
    + apply ones_zeros_contig in H. congruence.
  - simpl in H. apply orb_true_iff in H. destruct H as [H|H]; apply andb_true_iff in H; destruct H as [H1 H2].
    + apply all_zero_concat in H2. apply (Sh_one [] x t); auto.
    + destruct (shape_prefix t Ht H2) as (A & rest & -> & HA & Hr).
      destruct Hr as [->|(w' & W3 & -> & Ho & Hno & H3)].
      * rewrite app_nil_r. replace A with (A ++ [] ++ []) by now rewrite !app_nil_r.
        apply (Sh_run [] x A [] []); auto.
      * destruct (all_zero (wd w')) eqn:Ez'.
        -- replace (A ++ w' :: W3) with (A ++ [] ++ (w' :: W3)) by reflexivity.
           apply (Sh_run [] x A [] (w' :: W3)); auto.
        -- replace (A ++ w' :: W3) with (A ++ [w'] ++ W3) by reflexivity.
           apply (Sh_run [] x A [w'] W3); auto. right. exists w'. auto.
Qed.
End Shape.

(* ------------------------------------------------------------------------------------------------ *)
(* frontiers as 0/1 words (1 = the set contains v) *)
Definition wv (v : nat) (o : list (list nat)) : list bool := map (memn v) o.

Lemma wv_app v a b : wv v (a ++ b) = wv v a ++ wv v b.
Proof. apply map_app. Qed.

Lemma zeros_ones_app a b :
  zeros_ones (a ++ b) = (all_zero a && zeros_ones b) || (zeros_ones a && all_one b).
Proof.
  induction a as [|[|] a IH]; simpl.
  - destruct (zeros_ones b) eqn:E; [reflexivity|]. destruct (all_one b) eqn:E2; [|reflexivity].
    destruct b as [|[|] b]; simpl in *; try congruence.
  - now rewrite all_one_app.
  - exact IH.
Qed.

Lemma wv_all_zero v o : all_zero (wv v o) = true <-> Forall (fun s => ~ In v s) o.
Proof.
  unfold wv, all_zero. rewrite forallb_forall, Forall_forall. split.
  - intros H s Hs Hv. specialize (H (memn v s) (in_map _ _ _ Hs)). apply memn_iff in Hv. rewrite Hv in H. discriminate.
  - intros H b Hb. apply in_map_iff in Hb. destruct Hb as (s & <- & Hs). apply negb_true_iff.
    destruct (memn v s) eqn:E; [|reflexivity]. apply memn_iff in E. destruct (H s Hs E).
Qed.

Lemma wv_all_one v o : all_one (wv v o) = true <-> Forall (fun s => In v s) o.
Proof.
  unfold wv, all_one. rewrite forallb_forall, Forall_forall. split.
  - intros H s Hs. apply memn_iff. exact (H (memn v s) (in_map _ _ _ Hs)).
  - intros H b Hb. apply in_map_iff in Hb. destruct Hb as (s & <- & Hs). now apply memn_iff, H.
Qed.

Lemma wv_contig v o : contig01 (wv v o) = true <-> Interval (fun s => In v s) o.
Proof. unfold wv. apply (contig01_map (memn v) (fun s => In v s)). intros s. apply memn_iff. Qed.

(* frontiers of pure trees *)
Lemma Ord_PureE_word v c o : PureE v c -> Ord c o -> all_zero (wv v o) = true.
Proof.
  intros HE Ho. apply wv_all_zero. unfold PureE in HE. eapply Permutation_Forall; [apply Ord_perm; exact Ho|exact HE].
Qed.
Lemma Ord_PureF_word v c o : PureF v c -> Ord c o -> all_one (wv v o) = true.
Proof.
  intros HE Ho. apply wv_all_one. unfold PureF in HE. eapply Permutation_Forall; [apply Ord_perm; exact Ho|exact HE].
Qed.
Lemma Ord_nonempty c o : proper c = true -> Ord c o -> o <> [].
Proof.
  intros Hp Ho E. subst. apply Ord_perm in Ho. apply Permutation_sym, Permutation_nil in Ho. now apply proper_leaves in Hp.
Qed.
Lemma Ord_contains_word v c o : contains v c = true -> Ord c o -> all_zero (wv v o) = false.
Proof.
  intros Hc Ho. destruct (all_zero (wv v o)) eqn:E; [|reflexivity]. apply wv_all_zero in E.
  assert (HE : PureE v c) by (unfold PureE; eapply Permutation_Forall; [apply Permutation_sym, Ord_perm; exact Ho|exact E]).
  apply contains_false_iff in HE. congruence.
Qed.

Lemma OrdL_PureE_word v l o : Forall (PureE v) l -> OrdL l o -> all_zero (wv v o) = true.
Proof. intros H Ho. apply wv_all_zero. exact (OrdL_Forall _ l o H Ho). Qed.

Lemma OrdL_nonempty l o : l <> [] -> Forall (fun c => proper c = true) l -> OrdL l o -> o <> [].
Proof.
  intros Hne Hp Ho. destruct l as [|c r]; [congruence|]. inversion Hp as [|? ? H2 _]; subst.
  apply OrdL_cons in Ho. destruct Ho as (o1 & o2 & -> & H1 & _). intros E. apply app_eq_nil in E. destruct E as [E _].
  subst. exact (Ord_nonempty c [] H2 H1 eq_refl).
Qed.

(* words: a zero block after a one excludes 0*1*, a zero block before a one excludes 1*0* *)
Lemma zo_tail_zero a b : zeros_ones (a ++ b) = true -> all_zero a = false -> all_zero b = true -> b = [].
Proof.
  rewrite zeros_ones_app. intros H Ha Hb. rewrite Ha in H. simpl in H. apply andb_true_iff in H. destruct H as [_ H].
  destruct b as [|[|] b]; simpl in *; congruence.
Qed.
Lemma zo_head a b : zeros_ones (a ++ b) = true -> all_zero b = true -> zeros_ones a = true.
Proof.
  rewrite zeros_ones_app. intros H Hb. apply orb_true_iff in H. destruct H as [H|H]; apply andb_true_iff in H; destruct H as [H1 H2]; auto.
  now apply all_zero_zeros_ones.
Qed.
Lemma zo_drop_zero a b : zeros_ones (a ++ b) = true -> all_zero a = true -> zeros_ones b = true.
Proof.
  rewrite zeros_ones_app. intros H Ha. rewrite Ha in H. simpl in H. apply orb_true_iff in H. destruct H as [H|H]; auto.
  apply andb_true_iff in H. destruct H as [_ H]. destruct b as [|[|] b]; simpl in *; auto. discriminate.
Qed.
Lemma oz_head_zero a b : ones_zeros (a ++ b) = true -> all_zero a = true -> all_zero b = false -> a = [].
Proof.
  rewrite ones_zeros_app. intros H Ha Hb. rewrite Hb, andb_false_r, orb_false_r in H.
  apply andb_true_iff in H. destruct H as [H _]. destruct a as [|[|] a]; simpl in *; congruence.
Qed.
Lemma oz_tail a b : ones_zeros (a ++ b) = true -> all_zero a = true -> ones_zeros b = true.
Proof.
  rewrite ones_zeros_app. intros H Ha. apply orb_true_iff in H. destruct H as [H|H]; apply andb_true_iff in H; destruct H as [H1 H2]; auto.
  now apply all_zero_ones_zeros.
Qed.
Lemma oz_drop_zero a b : ones_zeros (a ++ b) = true -> all_zero b = true -> ones_zeros a = true.
Proof.
  rewrite ones_zeros_app. intros H Hb. apply orb_true_iff in H. destruct H as [H|H]; apply andb_true_iff in H; destruct H as [H1 H2]; auto.
  now apply all_one_ones_zeros.
Qed.

(* PQ.reverse loses no frontier *)
Lemma Ord_reverse_c t : forall o, Ord t o -> Ord (reverse t) o.
Proof.
  induction t as [s|k cs IH] using pq_ind'; intros o Ho; [exact Ho|]. simpl reverse.
  assert (HR : Forall2 Ref cs (map reverse cs)) by now apply Forall2_map_same.
  apply (Ref_node k cs (map reverse cs) HR) in Ho. destruct k.
  - apply (Ord_P_perm (map reverse cs)); [apply Permutation_rev|exact Ho].
  - apply Ord_Q in Ho. apply Ord_Q. rewrite rev_involutive. tauto.
Qed.

(* ------------------------------------------------------------------------------------------------ *)
(* the converse of simplify_spec *)
Lemma OrdL_empty_inv l : Forall (fun c => proper c = true) l -> OrdL l [] -> l = [].
Proof.
  intros Hp Ho. destruct l as [|c r]; [reflexivity|]. exfalso. apply (OrdL_nonempty (c :: r) []); auto. discriminate.
Qed.

Lemma P_frontier_split v es c es2 o :
  Forall (PureE v) (es ++ es2) -> Forall (fun c => proper c = true) (es ++ c :: es2) ->
  Ord (Node KP (es ++ c :: es2)) o ->
  exists l1 l2 o1 oc o2, Permutation (es ++ es2) (l1 ++ l2) /\ o = o1 ++ oc ++ o2 /\
                         OrdL l1 o1 /\ Ord c oc /\ OrdL l2 o2.
Proof.
  intros HE Hp Ho. apply Ord_P in Ho. destruct Ho as (l & HP & HL).
  assert (Hin : In c l) by (eapply Permutation_in; [exact HP|]; apply in_or_app; right; now left).
  apply in_split in Hin. destruct Hin as (l1 & l2 & ->).
  apply Permutation_app_inv in HP.
  apply OrdL_app in HL. destruct HL as (o1 & o2 & -> & Ho1 & Ho2).
  apply OrdL_cons in Ho2. destruct Ho2 as (o3 & o4 & -> & Ho3 & Ho4).
  exists l1, l2, o1, o3, o4. auto.
Qed.

Lemma P_right v es c es2 o :
  Forall (PureE v) (es ++ es2) -> Forall (fun c => proper c = true) (es ++ c :: es2) -> contains v c = true ->
  Ord (Node KP (es ++ c :: es2)) o -> zeros_ones (wv v o) = true ->
  exists o1 oc, o = o1 ++ oc /\ Ord (Node KP (es ++ es2)) o1 /\ Ord c oc /\ zeros_ones (wv v oc) = true.
Proof.
  intros HE Hp Hc Ho Hz. destruct (P_frontier_split v es c es2 o HE Hp Ho) as (l1 & l2 & o1 & oc & o2 & HP & -> & H1 & Hoc & H2).
  assert (HEl : Forall (PureE v) (l1 ++ l2)) by (eapply Permutation_Forall; eassumption).
  assert (Hpl : Forall (fun c => proper c = true) (l1 ++ l2)).
  { eapply Permutation_Forall; [exact HP|]. apply Forall_app in Hp. destruct Hp as [Ha Hb]. inversion Hb; subst.
    apply Forall_app. auto. }
  apply Forall_app in HEl. destruct HEl as [HE1 HE2]. apply Forall_app in Hpl. destruct Hpl as [Hp1 Hp2].
  pose proof (OrdL_PureE_word v l1 o1 HE1 H1) as Z1. pose proof (OrdL_PureE_word v l2 o2 HE2 H2) as Z2.
  pose proof (Ord_contains_word v c oc Hc Hoc) as Zc.
  rewrite !wv_app in Hz. apply zo_drop_zero in Hz; [|exact Z1].
  assert (Eo2 : wv v o2 = []) by (apply (zo_tail_zero (wv v oc)); auto).
  assert (o2 = []) by (destruct o2; [reflexivity|discriminate]). subst o2.
  apply OrdL_empty_inv in H2; [|exact Hp2]. subst l2. rewrite app_nil_r in *.
  exists o1, oc. split; [now rewrite ?app_nil_r|]. split; [apply Ord_P; exists l1; auto|]. split; [exact Hoc|].
  simpl in Hz. now rewrite ?app_nil_r in Hz.
Qed.

Lemma P_left v es c es2 o :
  Forall (PureE v) (es ++ es2) -> Forall (fun c => proper c = true) (es ++ c :: es2) -> contains v c = true ->
  Ord (Node KP (es ++ c :: es2)) o -> ones_zeros (wv v o) = true ->
  exists oc o2, o = oc ++ o2 /\ Ord (Node KP (es ++ es2)) o2 /\ Ord c oc /\ ones_zeros (wv v oc) = true.
Proof.
  intros HE Hp Hc Ho Hz. destruct (P_frontier_split v es c es2 o HE Hp Ho) as (l1 & l2 & o1 & oc & o2 & HP & -> & H1 & Hoc & H2).
  assert (HEl : Forall (PureE v) (l1 ++ l2)) by (eapply Permutation_Forall; eassumption).
  assert (Hpl : Forall (fun c => proper c = true) (l1 ++ l2)).
  { eapply Permutation_Forall; [exact HP|]. apply Forall_app in Hp. destruct Hp as [Ha Hb]. inversion Hb; subst.
    apply Forall_app. auto. }
  apply Forall_app in HEl. destruct HEl as [HE1 HE2]. apply Forall_app in Hpl. destruct Hpl as [Hp1 Hp2].
  pose proof (OrdL_PureE_word v l1 o1 HE1 H1) as Z1. pose proof (OrdL_PureE_word v l2 o2 HE2 H2) as Z2.
  pose proof (Ord_contains_word v c oc Hc Hoc) as Zc.
  rewrite !wv_app in Hz.
  assert (Eo1 : wv v o1 = []).
  { apply (oz_head_zero _ (wv v oc ++ wv v o2)); auto. rewrite all_zero_app, Zc. reflexivity. }
  assert (o1 = []) by (destruct o1; [reflexivity|discriminate]). subst o1.
  apply OrdL_empty_inv in H1; [|exact Hp1]. subst l1. simpl in *.
  exists oc, o2. split; [reflexivity|]. split; [apply Ord_P; exists l2; auto|]. split; [exact Hoc|].
  now apply oz_drop_zero in Hz.
Qed.

Definition sideA (la : bool) (v : nat) (o : list (list nat)) : bool :=
  if la then ones_zeros (wv v o) else zeros_ones (wv v o).
Definition sideO (la : bool) (v : nat) (o : list (list nat)) : bool :=
  if la then zeros_ones (wv v o) else ones_zeros (wv v o).

Lemma not_partial_contains v c : contains v c = false -> is_partial_child v c = false.
Proof. intros H. destruct c; [reflexivity|]. unfold is_partial_child. now rewrite H. Qed.

Lemma partial_contains v c : is_partial_child v c = true -> contains v c = true.
Proof. destruct (contains v c) eqn:E; [reflexivity|]. intros H. rewrite (not_partial_contains v c E) in H. discriminate. Qed.

Lemma contains_node_E v k es c es2 :
  Forall (PureE v) (es ++ es2) -> contains v (Node k (es ++ c :: es2)) = true -> contains v c = true.
Proof.
  intros HE H. simpl in H. apply existsb_exists in H. destruct H as (x & Hx & Hv).
  apply in_app_or in Hx. rewrite Forall_forall in HE.
  destruct Hx as [Hx|[<-|Hx]]; auto; exfalso;
    assert (Hf : contains v x = false) by (apply contains_false_iff, HE, in_or_app; auto); congruence.
Qed.

Theorem simplify_complete la v T :
  Al la v T -> proper T = true -> is_partial_child v T = true ->
  forall o, Ord T o ->
    (sideA la v o = true -> OrdL (simplify v (negb la) T) o) /\
    (sideO la v o = true -> OrdL (rev (simplify v (negb la) T)) o).
Proof.
  induction 1 as [es c es2 HE HF|es c es2 HE HA IH|es fs HE HF|es x HE HA IH]; intros Hp Hpart o Ho.
  - (* P with a full child *)
    apply proper_node_iff in Hp. destruct Hp as [Hlen Hp]. destruct (Forall_proper_app_inv _ _ _ Hp) as [HpE Hpc].
    assert (Hne : es ++ es2 <> []).
    { intros E. rewrite app_length in Hlen. simpl in Hlen. apply (f_equal (@length pq)) in E. rewrite app_length in E. simpl in E. lia. }
    pose proof (PureF_contains v c Hpc HF) as Hc.
    rewrite simplify_P_compute by assumption. rewrite Hc, (PureF_not_partial v c Hpc HF). cbv zeta.
    destruct la; simpl negb; cbv iota; unfold sideA, sideO; split; intros Hs.
    + destruct (P_left v es c es2 o HE Hp Hc Ho Hs) as (oc & o2 & -> & H2 & Hoc & _).
      apply OrdL_cons. exists oc, o2. repeat split; auto. apply OrdL_one. now apply Ord_new_node.
    + destruct (P_right v es c es2 o HE Hp Hc Ho Hs) as (o1 & oc & -> & H1 & Hoc & _).
      simpl rev. apply OrdL_cons. exists o1, oc. repeat split; auto; [now apply Ord_new_node|now apply OrdL_one].
    + destruct (P_right v es c es2 o HE Hp Hc Ho Hs) as (o1 & oc & -> & H1 & Hoc & _).
      apply OrdL_cons. exists o1, oc. repeat split; auto; [now apply Ord_new_node|now apply OrdL_one].
    + destruct (P_left v es c es2 o HE Hp Hc Ho Hs) as (oc & o2 & -> & H2 & Hoc & _).
      simpl rev. apply OrdL_cons. exists oc, o2. repeat split; auto. apply OrdL_one. now apply Ord_new_node.
  - (* P with an aligned child *)
    apply proper_node_iff in Hp. destruct Hp as [Hlen Hp]. destruct (Forall_proper_app_inv _ _ _ Hp) as [HpE Hpc].
    assert (Hne : es ++ es2 <> []).
    { intros E. rewrite app_length in Hlen. simpl in Hlen. apply (f_equal (@length pq)) in E. rewrite app_length in E. simpl in E. lia. }
    pose proof (contains_node_E v KP es c es2 HE (partial_contains _ _ Hpart)) as Hc.
    rewrite simplify_P_compute by assumption. rewrite Hc. cbv zeta.
    set (mid := if is_partial_child v c then simplify v (negb la) c else [c]).
    assert (Hmid : forall oc, Ord c oc -> (sideA la v oc = true -> OrdL mid oc) /\ (sideO la v oc = true -> OrdL (rev mid) oc)).
    { intros oc Hoc. unfold mid. destruct (is_partial_child v c) eqn:Epc; [now apply IH|].
      split; intros _; simpl; now apply OrdL_one. }
    destruct la; simpl negb; cbv iota; unfold sideA, sideO in *; split; intros Hs.
    + destruct (P_left v es c es2 o HE Hp Hc Ho Hs) as (oc & o2 & -> & H2 & Hoc & Hs').
      apply OrdL_app. exists oc, o2. repeat split; auto; [now apply (Hmid oc Hoc)|]. apply OrdL_one. now apply Ord_new_node.
    + destruct (P_right v es c es2 o HE Hp Hc Ho Hs) as (o1 & oc & -> & H1 & Hoc & Hs').
      rewrite rev_app_distr. simpl rev. apply OrdL_cons. exists o1, oc. repeat split; auto; [now apply Ord_new_node|].
      now apply (Hmid oc Hoc).
    + destruct (P_right v es c es2 o HE Hp Hc Ho Hs) as (o1 & oc & -> & H1 & Hoc & Hs').
      apply OrdL_cons. exists o1, oc. repeat split; auto; [now apply Ord_new_node|now apply (Hmid oc Hoc)].
    + destruct (P_left v es c es2 o HE Hp Hc Ho Hs) as (oc & o2 & -> & H2 & Hoc & Hs').
      simpl rev. apply OrdL_app. exists oc, o2. repeat split; auto; [now apply (Hmid oc Hoc)|].
      apply OrdL_one. now apply Ord_new_node.
  - (* Q, all children pure: es and fs are both non-empty because the node is classified as partial *)
    apply proper_node_iff in Hp. destruct Hp as [Hlen Hp]. rewrite simplify_Q_eq.
    set (cs := if la then fs ++ es else es ++ fs) in *.
    assert (HpE : Forall (fun c => proper c = true) es /\ Forall (fun c => proper c = true) fs).
    { unfold cs in Hp. destruct la; apply Forall_app in Hp; tauto. }
    destruct HpE as [HpE HpF].
    assert (Hall : Forall (fun c => is_partial_child v c = false) cs).
    { assert (H1 : Forall (fun c => is_partial_child v c = false) es)
        by (eapply Forall_impl; [|exact HE]; intros e; apply PureE_not_partial).
      assert (H2 : Forall (fun c => is_partial_child v c = false) fs).
      { apply Forall_forall. intros f Hf. rewrite Forall_forall in HpF, HF. apply PureF_not_partial; auto. }
      unfold cs. destruct la; apply Forall_app; auto. }
    rewrite flat_map_id_if by exact Hall.
    (* both kinds of children exist *)
    unfold is_partial_child in Hpart. apply andb_true_iff in Hpart. destruct Hpart as [Hcont Hdir].
    assert (Hes : es <> []).
    { intros ->. apply existsb_exists in Hdir. destruct Hdir as (x & Hx & Hv). apply negb_true_iff in Hv.
      assert (Hxf : In x fs) by (unfold cs in Hx; destruct la; [now rewrite app_nil_r in Hx|exact Hx]).
      rewrite Forall_forall in HpF, HF. rewrite (PureF_contains v x) in Hv; auto. discriminate. }
    assert (Hfs : fs <> []).
    { intros ->. simpl in Hcont. apply existsb_exists in Hcont. destruct Hcont as (x & Hx & Hv).
      assert (Hxe : In x es) by (unfold cs in Hx; destruct la; [exact Hx|now rewrite app_nil_r in Hx]).
      rewrite Forall_forall in HE. assert (contains v x = false) by (apply contains_false_iff; auto). congruence. }
    assert (WE : forall oe, OrdL es oe -> all_zero (wv v oe) = true /\ oe <> []).
    { intros oe H. split; [now apply (OrdL_PureE_word v es)|now apply (OrdL_nonempty es)]. }
    assert (WE' : forall oe, OrdL (rev es) oe -> all_zero (wv v oe) = true /\ oe <> []).
    { intros oe H. split; [apply (OrdL_PureE_word v (rev es)); auto; now apply Forall_rev|].
      apply (OrdL_nonempty (rev es)); auto; [|now apply Forall_rev].
      intros E. apply (f_equal (@rev pq)) in E. rewrite rev_involutive in E. simpl in E. congruence. }
    assert (WF : forall l of_, Permutation fs l \/ l = rev fs -> OrdL l of_ -> all_one (wv v of_) = true /\ of_ <> []).
    { intros l of_ Hl H. assert (HFl : Forall (PureF v) l /\ Forall (fun c => proper c = true) l /\ l <> []).
      { destruct Hl as [Hl| ->].
        - repeat split; try (eapply Permutation_Forall; eassumption). intros ->. apply Permutation_sym, Permutation_nil in Hl. congruence.
        - repeat split; try now apply Forall_rev. intros E. apply (f_equal (@rev pq)) in E. rewrite rev_involutive in E. simpl in E. congruence. }
      destruct HFl as (H1 & H2 & H3). split; [|now apply (OrdL_nonempty l)].
      apply wv_all_one. exact (OrdL_Forall _ l of_ H1 H). }
    assert (Hone_zero : forall a b, all_one a = true -> a <> [] -> all_zero b = true -> b <> [] ->
                        zeros_ones (a ++ b) = false /\ ones_zeros (b ++ a) = false).
    { intros a b Ha Hane Hb Hbne. split.
      - rewrite zeros_ones_app. destruct a as [|[|] a]; simpl in *; try congruence.
        destruct b as [|[|] b]; simpl in *; try congruence. now rewrite andb_false_r.
      - rewrite ones_zeros_app. destruct b as [|[|] b]; simpl in *; try congruence.
        destruct a as [|[|] a]; simpl in *; try congruence. now rewrite andb_false_r. }
    apply Ord_Q in Ho. unfold sideA, sideO, cs in *.
    destruct la; split; intros Hs; destruct Ho as [Ho|Ho]; auto; exfalso.
    + (* la, aligned side 1*0*, reversed reading = zeros first *)
      rewrite rev_app_distr in Ho. apply OrdL_app in Ho. destruct Ho as (o1 & o2 & -> & H1 & H2).
      destruct (WE' o1 H1) as [Z1 N1]. destruct (WF (rev fs) o2 (or_intror eq_refl) H2) as [Z2 N2].
      rewrite wv_app in Hs. assert (Hn1 : wv v o1 <> []) by (destruct o1; [congruence|discriminate]).
      assert (Hn2 : wv v o2 <> []) by (destruct o2; [congruence|discriminate]).
      destruct (Hone_zero _ _ Z2 Hn2 Z1 Hn1) as [_ Hc]. congruence.
    + apply OrdL_app in Ho. destruct Ho as (o1 & o2 & -> & H1 & H2).
      destruct (WF fs o1 (or_introl (Permutation_refl _)) H1) as [Z1 N1]. destruct (WE o2 H2) as [Z2 N2].
      rewrite wv_app in Hs. assert (Hn1 : wv v o1 <> []) by (destruct o1; [congruence|discriminate]).
      assert (Hn2 : wv v o2 <> []) by (destruct o2; [congruence|discriminate]).
      destruct (Hone_zero _ _ Z1 Hn1 Z2 Hn2) as [Hc _]. congruence.
    + rewrite rev_app_distr in Ho. apply OrdL_app in Ho. destruct Ho as (o1 & o2 & -> & H1 & H2).
      destruct (WF (rev fs) o1 (or_intror eq_refl) H1) as [Z1 N1]. destruct (WE' o2 H2) as [Z2 N2].
      rewrite wv_app in Hs. assert (Hn1 : wv v o1 <> []) by (destruct o1; [congruence|discriminate]).
      assert (Hn2 : wv v o2 <> []) by (destruct o2; [congruence|discriminate]).
      destruct (Hone_zero _ _ Z1 Hn1 Z2 Hn2) as [Hc _]. congruence.
    + apply OrdL_app in Ho. destruct Ho as (o1 & o2 & -> & H1 & H2).
      destruct (WE o1 H1) as [Z1 N1]. destruct (WF fs o2 (or_introl (Permutation_refl _)) H2) as [Z2 N2].
      rewrite wv_app in Hs. assert (Hn1 : wv v o1 <> []) by (destruct o1; [congruence|discriminate]).
      assert (Hn2 : wv v o2 <> []) by (destruct o2; [congruence|discriminate]).
      destruct (Hone_zero _ _ Z2 Hn2 Z1 Hn1) as [_ Hc]. congruence.
  - (* Q with one aligned child at the end *)
    apply proper_node_iff in Hp. destruct Hp as [Hlen Hp]. rewrite simplify_Q_eq.
    assert (HpE : Forall (fun c => proper c = true) es /\ proper x = true).
    { destruct la; [inversion Hp; auto|apply Forall_app in Hp; destruct Hp as [H1 H2]; inversion H2; auto]. }
    destruct HpE as [HpE Hpx].
    assert (Hes : es <> []) by (intros ->; destruct la; simpl in Hlen; lia).
    assert (Hcx : contains v x = true).
    { apply partial_contains in Hpart. destruct la.
      - apply (contains_node_E v KQ [] x es); [exact HE|exact Hpart].
      - apply (contains_node_E v KQ es x []); [now rewrite app_nil_r|exact Hpart]. }
    assert (Hesid : forall r, flat_map (fun c => if is_partial_child v c then simplify v r c else [c]) es = es).
    { intros r. apply flat_map_id_if. eapply Forall_impl; [|exact HE]. intros e. apply PureE_not_partial. }
    set (mid := if is_partial_child v x then simplify v (negb la) x else [x]).
    assert (Hmid : forall ox, Ord x ox -> (sideA la v ox = true -> OrdL mid ox) /\ (sideO la v ox = true -> OrdL (rev mid) ox)).
    { intros ox Hox. unfold mid. destruct (is_partial_child v x) eqn:Epx; [now apply IH|].
      split; intros _; simpl; now apply OrdL_one. }
    assert (WE : forall l oe, l = es \/ l = rev es -> OrdL l oe -> all_zero (wv v oe) = true /\ wv v oe <> []).
    { intros l oe Hl H. assert (HH : Forall (PureE v) l /\ Forall (fun c => proper c = true) l /\ l <> []).
      { destruct Hl as [->| ->]; [auto|]. repeat split; try now apply Forall_rev.
        intros E. apply (f_equal (@rev pq)) in E. rewrite rev_involutive in E. simpl in E. congruence. }
      destruct HH as (H1 & H2 & H3). split; [now apply (OrdL_PureE_word v l)|].
      pose proof (OrdL_nonempty l oe H3 H2 H). destruct oe; [congruence|discriminate]. }
    apply Ord_Q in Ho. unfold sideA, sideO in *. destruct la; simpl negb in *.
    + (* left aligned: x :: es *)
      change (flat_map (fun c => if is_partial_child v c then simplify v false c else [c]) (x :: es))
        with (mid ++ flat_map (fun c => if is_partial_child v c then simplify v false c else [c]) es).
      rewrite Hesid. split; intros Hs; destruct Ho as [Ho|Ho].
      * apply OrdL_cons in Ho. destruct Ho as (ox & oe & -> & Hox & Hoe). apply OrdL_app. exists ox, oe.
        repeat split; auto. apply (Hmid ox Hox). rewrite wv_app in Hs. destruct (WE es oe (or_introl eq_refl) Hoe) as [Z _].
        now apply oz_drop_zero in Hs.
      * exfalso. simpl rev in Ho. apply OrdL_app in Ho. destruct Ho as (oe & ox & -> & Hoe & Hox). apply OrdL_one in Hox.
        destruct (WE (rev es) oe (or_intror eq_refl) Hoe) as [Z N]. rewrite wv_app in Hs.
        apply oz_head_zero in Hs; auto. now apply (Ord_contains_word v x).
      * exfalso. apply OrdL_cons in Ho. destruct Ho as (ox & oe & -> & Hox & Hoe).
        destruct (WE es oe (or_introl eq_refl) Hoe) as [Z N]. rewrite wv_app in Hs.
        apply zo_tail_zero in Hs; auto. now apply (Ord_contains_word v x).
      * simpl rev in Ho. apply OrdL_app in Ho. destruct Ho as (oe & ox & -> & Hoe & Hox). apply OrdL_one in Hox.
        rewrite rev_app_distr. apply OrdL_app. exists oe, ox. repeat split; auto. apply (Hmid ox Hox).
        destruct (WE (rev es) oe (or_intror eq_refl) Hoe) as [Z _]. rewrite wv_app in Hs. now apply zo_drop_zero in Hs.
    + rewrite flat_map_app, Hesid. simpl flat_map. rewrite app_nil_r. fold mid. split; intros Hs; destruct Ho as [Ho|Ho].
      * apply OrdL_app in Ho. destruct Ho as (oe & ox & -> & Hoe & Hox). apply OrdL_one in Hox.
        apply OrdL_app. exists oe, ox. repeat split; auto. apply (Hmid ox Hox).
        destruct (WE es oe (or_introl eq_refl) Hoe) as [Z _]. rewrite wv_app in Hs. now apply zo_drop_zero in Hs.
      * exfalso. rewrite rev_app_distr in Ho. simpl in Ho. apply OrdL_cons in Ho. destruct Ho as (ox & oe & -> & Hox & Hoe).
        destruct (WE (rev es) oe (or_intror eq_refl) Hoe) as [Z N]. rewrite wv_app in Hs.
        apply zo_tail_zero in Hs; auto. now apply (Ord_contains_word v x).
      * exfalso. apply OrdL_app in Ho. destruct Ho as (oe & ox & -> & Hoe & Hox). apply OrdL_one in Hox.
        destruct (WE es oe (or_introl eq_refl) Hoe) as [Z N]. rewrite wv_app in Hs.
        apply oz_head_zero in Hs; auto. now apply (Ord_contains_word v x).
      * rewrite rev_app_distr in Ho. simpl in Ho. apply OrdL_cons in Ho. destruct Ho as (ox & oe & -> & Hox & Hoe).
        rewrite rev_app_distr. apply OrdL_app. exists ox, oe. repeat split; auto. apply (Hmid ox Hox).
        destruct (WE (rev es) oe (or_intror eq_refl) Hoe) as [Z _]. rewrite wv_app in Hs. now apply oz_drop_zero in Hs.
Qed.

(* ------------------------------------------------------------------------------------------------ *)
(* the children after the two passes, each with its status and its part (block) of the frontier o *)
Definition item := ((pq * status) * list (list nat))%type.
Definition ic (x : item) : pq := fst (fst x).
Definition ist (x : item) : status := snd (fst x).
Definition ib (x : item) : list (list nat) := snd x.

(* UNALIGNED: every frontier has a set without v at both ends *)
Definition U2 (v : nat) (t : pq) : Prop :=
  forall o, Ord t o -> hd true (wv v o) = false /\ last (wv v o) true = false.

Definition GoodItem (v : nat) (x : item) : Prop :=
  proper (ic x) = true /\ StOK v (ic x) (ist x) /\ Ord (ic x) (ib x) /\ (ist x = SPartU -> U2 v (ic x)).

Definition wd (v : nat) (x : item) : list bool := wv v (ib x).

Lemma flat_map_wd v l : flat_map (wd v) l = wv v (flat_map ib l).
Proof. induction l as [|x t IH]; simpl; [reflexivity|]. now rewrite IH, wv_app. Qed.

Lemma wd_nonempty v x : GoodItem v x -> wd v x <> [].
Proof.
  intros (Hp & _ & Ho & _). pose proof (Ord_nonempty _ _ Hp Ho). unfold wd. destruct (ib x); [congruence|discriminate].
Qed.

Lemma Partial_word v c o : Partial v c -> Ord c o -> all_zero (wv v o) = false /\ all_one (wv v o) = false.
Proof.
  intros [HE HF] Ho. pose proof (Ord_perm c o Ho) as HP. split.
  - destruct (all_zero (wv v o)) eqn:E; [|reflexivity]. exfalso. apply HE. apply wv_all_zero in E.
    unfold PureE. eapply Permutation_Forall; [apply Permutation_sym; exact HP|exact E].
  - destruct (all_one (wv v o)) eqn:E; [|reflexivity]. exfalso. apply HF. apply wv_all_one in E.
    unfold PureF. eapply Permutation_Forall; [apply Permutation_sym; exact HP|exact E].
Qed.

(* the word of a child determines its status class *)
Lemma item_class v x : GoodItem v x ->
  match ist x with
  | SFull => all_one (wd v x) = true /\ all_zero (wd v x) = false
  | SEmpty => all_zero (wd v x) = true /\ all_one (wd v x) = false
  | SPartA | SPartU => all_zero (wd v x) = false /\ all_one (wd v x) = false
  end.
Proof.
  intros HG. pose proof (wd_nonempty v x HG) as Hne. destruct HG as (Hp & HS & Ho & _). unfold wd in *.
  destruct (ist x); simpl in HS.
  - pose proof (Ord_PureF_word v _ _ HS Ho) as H. split; [exact H|].
    destruct (wv v (ib x)) as [|[|] w]; simpl in *; congruence.
  - pose proof (Ord_PureE_word v _ _ HS Ho) as H. split; [exact H|]. now apply all_zero_not_one.
  - destruct HS as [_ HP]. now apply (Partial_word v (ic x)).
  - destruct HS as [_ HP]. now apply (Partial_word v (ic x)).
Qed.

Lemma item_az v x : GoodItem v x -> all_zero (wd v x) = true -> ist x = SEmpty.
Proof. intros HG H. pose proof (item_class v x HG) as C. destruct (ist x); destruct C; congruence. Qed.
Lemma item_ao v x : GoodItem v x -> all_one (wd v x) = true -> ist x = SFull.
Proof. intros HG H. pose proof (item_class v x HG) as C. destruct (ist x); destruct C; congruence. Qed.

Lemma zo_last w : zeros_ones w = true -> all_zero w = false -> last w true = true.
Proof.
  induction w as [|[|] w IH]; simpl; intros H1 H2; try congruence.
  - destruct w as [|b w']; [reflexivity|]. clear IH H2. revert b H1. induction w' as [|b' w' IH']; intros b H1.
    + simpl in *. now destruct b.
    + simpl in H1. destruct b; [|discriminate]. apply (IH' b'). exact H1.
  - destruct w as [|b w']; [simpl in H2; discriminate|]. now apply IH.
Qed.
Lemma oz_hd w : ones_zeros w = true -> all_zero w = false -> hd true w = true.
Proof. destruct w as [|[|] w]; simpl; intros H1 H2; congruence. Qed.

(* an UNALIGNED child can neither start nor end a run of sets containing v *)
Lemma U2_not_zo v x : GoodItem v x -> ist x = SPartU -> zeros_ones (wd v x) = true -> False.
Proof.
  intros HG Hst Hz. pose proof (item_class v x HG) as C. rewrite Hst in C. destruct C as [C _].
  destruct HG as (_ & _ & Ho & HU). destruct (HU Hst _ Ho) as [_ HL]. unfold wd in *.
  rewrite (zo_last _ Hz C) in HL. discriminate.
Qed.
Lemma U2_not_oz v x : GoodItem v x -> ist x = SPartU -> ones_zeros (wd v x) = true -> False.
Proof.
  intros HG Hst Hz. pose proof (item_class v x HG) as C. rewrite Hst in C. destruct C as [C _].
  destruct HG as (_ & _ & Ho & HU). destruct (HU Hst _ Ho) as [HL _]. unfold wd in *.
  rewrite (oz_hd _ Hz C) in HL. discriminate.
Qed.

(* counting statuses over items *)
Definition cnt (s : status) (l : list item) : nat := count_st s (map ist l).

Lemma cnt_app s a b : cnt s (a ++ b) = cnt s a + cnt s b.
Proof. unfold cnt. now rewrite map_app, count_st_app. Qed.
Lemma cnt_cons s x l : cnt s (x :: l) = (if status_eqb s (ist x) then 1 else 0) + cnt s l.
Proof. unfold cnt. simpl map. rewrite count_st_cons. destruct (status_eqb s (ist x)); reflexivity. Qed.
Lemma cnt_nil s : cnt s [] = 0.
Proof. reflexivity. Qed.
Lemma cnt_all s0 s l : Forall (fun x => ist x = s0) l -> cnt s l = if status_eqb s s0 then length l else 0.
Proof.
  induction 1 as [|x t Hx Ht IH]; [now destruct (status_eqb s s0)|]. rewrite cnt_cons, IH, Hx.
  destruct (status_eqb s s0); simpl; reflexivity.
Qed.
Lemma cnt_perm s l l' : Permutation l l' -> cnt s l = cnt s l'.
Proof.
  induction 1 as [|x l l' H IH|x y l|l l' l'' H1 IH1 H2 IH2]; auto.
  - now rewrite !cnt_cons, IH.
  - rewrite !cnt_cons. lia.
  - congruence.
Qed.
Lemma cnt_total l : cnt SFull l + cnt SEmpty l + cnt SPartA l + cnt SPartU l = length l.
Proof. unfold cnt. rewrite count_st_total. apply map_length. Qed.

Lemma pick_st_items s l : pick_st s (map ic l) (map ist l) = map ic (filter (fun x => status_eqb s (ist x)) l).
Proof.
  induction l as [|x t IH]; [reflexivity|]. simpl map. rewrite pick_st_cons. simpl filter.
  destruct (status_eqb s (ist x)); simpl; now rewrite IH.
Qed.

Lemma filter_perm {T} (f : T -> bool) l l' : Permutation l l' -> Permutation (filter f l) (filter f l').
Proof.
  induction 1 as [|x l l' H IH|x y l|l l' l'' H1 IH1 H2 IH2]; simpl; auto.
  - destruct (f x); auto.
  - destruct (f x), (f y); auto. apply perm_swap.
  - eapply perm_trans; eassumption.
Qed.

Lemma OrdL_items l : Forall (fun x => Ord (ic x) (ib x)) l -> OrdL (map ic l) (flat_map ib l).
Proof.
  induction 1 as [|x t Hx Ht IH]; simpl; [now apply OrdL_nil|]. apply OrdL_cons. eauto.
Qed.

(* o is a frontier of the P-node on the children, and of every P-node on a rearrangement of them *)
Lemma frontier_P v T T' cs : Forall (GoodItem v) T -> Permutation T T' -> Permutation (map ic T) cs ->
  Ord (Node KP cs) (flat_map ib T').
Proof.
  intros HG HP Hcs. apply Ord_P. exists (map ic T'). split.
  - transitivity (map ic T); [now apply Permutation_sym|now apply Permutation_map].
  - apply OrdL_items. eapply Permutation_Forall; [exact HP|]. eapply Forall_impl; [|exact HG]. intros x H. apply H.
Qed.

(* ------------------------------------------------------------------------------------------------ *)
(* both ends without v *)
Definition ends0 (w : list bool) : Prop := w <> [] /\ hd true w = false /\ last w true = false.

Lemma last_app_ne {T} (a b : list T) d : b <> [] -> last (a ++ b) d = last b d.
Proof.
  intros Hb. induction a as [|x a IH]; [reflexivity|]. simpl. destruct (a ++ b) eqn:E; [|exact IH].
  apply app_eq_nil in E. destruct E. congruence.
Qed.

Lemma ends0_app a b : ends0 a -> ends0 b -> ends0 (a ++ b).
Proof.
  intros (Ha1 & Ha2 & Ha3) (Hb1 & Hb2 & Hb3). repeat split.
  - destruct a; [congruence|discriminate].
  - destruct a; [congruence|exact Ha2].
  - now rewrite last_app_ne.
Qed.

Lemma ends0_concat W : W <> [] -> Forall ends0 W -> ends0 (concat W).
Proof.
  intros Hne H. induction H as [|w W Hw HW IH]; [congruence|]. simpl.
  destruct W as [|w2 W']; [simpl; now rewrite app_nil_r|]. apply ends0_app; [exact Hw|]. apply IH. discriminate.
Qed.

Lemma all_zero_ends0 w : w <> [] -> all_zero w = true -> ends0 w.
Proof.
  intros Hne Hz. split; [exact Hne|]. split.
  - destruct w as [|[|] w]; simpl in *; congruence.
  - induction w as [|[|] w IH]; simpl in *; try congruence. destruct w; [reflexivity|]. apply IH; [discriminate|exact Hz].
Qed.

Lemma OrdL_blocks l : forall o, OrdL l o -> exists os, Forall2 Ord l os /\ o = concat os.
Proof. intros o (os & H & ->). eauto. Qed.

(* a node all of whose children are without v or UNALIGNED-like is UNALIGNED-like *)
Lemma U2_children v k cs : cs <> [] ->
  Forall (fun c => proper c = true /\ (PureE v c \/ U2 v c)) cs -> U2 v (Node k cs).
Proof.
  intros Hne H o Ho.
  assert (Hgen : forall l, l <> [] -> Forall (fun c => proper c = true /\ (PureE v c \/ U2 v c)) l ->
                 forall o, OrdL l o -> ends0 (wv v o)).
  { intros l Hl HF o' (os & HO & ->). unfold wv. rewrite concat_map.
    apply ends0_concat.
    - destruct l; [congruence|]. inversion HO; subst. discriminate.
    - clear Hl. induction HO as [|c oc l os Hc HO IH]; simpl; [constructor|]. inversion HF as [|? ? [Hp Hc'] HF']; subst.
      constructor; [|now apply IH].
      assert (Hne' : map (memn v) oc <> []).
      { pose proof (Ord_nonempty c oc Hp Hc). destruct oc; [congruence|discriminate]. }
      destruct Hc' as [HE|HU].
      + apply all_zero_ends0; [exact Hne'|]. exact (Ord_PureE_word v c oc HE Hc).
      + destruct (HU oc Hc) as [H1 H2]. repeat split; auto. }
  assert (HE : ends0 (wv v o)).
  { destruct k.
    - apply Ord_P in Ho. destruct Ho as (cs' & HP & HL). apply (Hgen cs'); auto.
      + intros ->. apply Permutation_sym, Permutation_nil in HP. congruence.
      + eapply Permutation_Forall; eassumption.
    - apply Ord_Q in Ho. destruct Ho as [Ho|Ho]; [now apply (Hgen cs)|]. apply (Hgen (rev cs)); auto.
      + intros E. apply (f_equal (@rev pq)) in E. rewrite rev_involutive in E. simpl in E. congruence.
      + now apply Forall_rev. }
  destruct HE as (_ & H1 & H2). auto.
Qed.

(* a Q-node whose first and last children are without v *)
Lemma U2_Q_ends v a mid b : proper a = true -> proper b = true -> PureE v a -> PureE v b ->
  Forall (fun c => proper c = true) mid -> U2 v (Node KQ (a :: mid ++ [b])).
Proof.
  intros Hpa Hpb HEa HEb Hpm o Ho.
  assert (Hgen : forall x y m o', proper x = true -> proper y = true -> PureE v x -> PureE v y ->
                 OrdL (x :: m ++ [y]) o' -> hd true (wv v o') = false /\ last (wv v o') true = false).
  { intros x y m o' Hpx Hpy HEx HEy Ho'. apply OrdL_cons in Ho'. destruct Ho' as (ox & o2 & -> & Hox & Ho2).
    apply OrdL_app in Ho2. destruct Ho2 as (om & oy & -> & Hom & Hoy). apply OrdL_one in Hoy.
    pose proof (Ord_nonempty x ox Hpx Hox) as Nx. pose proof (Ord_nonempty y oy Hpy Hoy) as Ny.
    pose proof (Ord_PureE_word v x ox HEx Hox) as Zx. pose proof (Ord_PureE_word v y oy HEy Hoy) as Zy.
    rewrite !wv_app. split.
    - destruct ox as [|s ox]; [congruence|]. simpl in *. apply andb_true_iff in Zx. destruct Zx as [Zx _].
      now apply negb_true_iff in Zx.
    - rewrite app_assoc, last_app_ne by (destruct oy; [congruence|discriminate]).
      destruct (all_zero_ends0 (wv v oy)) as (_ & _ & H); auto. destruct oy; [congruence|discriminate]. }
  apply Ord_Q in Ho. destruct Ho as [Ho|Ho]; [now apply (Hgen a b mid)|].
  simpl rev in Ho. rewrite rev_app_distr in Ho. simpl in Ho.
  now apply (Hgen b a (rev mid)).
Qed.

(* children without v around one composite child NQ whose frontier is the run in the middle *)
Lemma run_frontier v (W1 run W3 : list item) setE NQ :
  Forall (GoodItem v) (W1 ++ W3) -> Permutation setE (map ic (W1 ++ W3)) ->
  Ord NQ (flat_map ib run) -> Ord (Node KP (setE ++ [NQ])) (flat_map ib (W1 ++ run ++ W3)).
Proof.
  intros HG HP HN. apply Ord_P. exists (map ic W1 ++ [NQ] ++ map ic W3). split.
  - rewrite map_app in HP. transitivity ((map ic W1 ++ map ic W3) ++ [NQ]); [now apply Permutation_app_tail|].
    rewrite <- app_assoc. apply Permutation_app_head. apply Permutation_app_comm.
  - apply Forall_app in HG. destruct HG as [H1 H3]. rewrite !flat_map_app.
    apply OrdL_app. exists (flat_map ib W1), (flat_map ib run ++ flat_map ib W3). repeat split.
    + apply OrdL_items. eapply Forall_impl; [|exact H1]. intros x H. apply H.
    + apply OrdL_cons. exists (flat_map ib run), (flat_map ib W3). repeat split; auto.
      apply OrdL_items. eapply Forall_impl; [|exact H3]. intros x H. apply H.
Qed.

(* ------------------------------------------------------------------------------------------------ *)
(* helpers for the restructuring branches *)
Lemma Al_partial_child la v T : Al la v T -> proper T = true -> Partial v T -> is_partial_child v T = true.
Proof.
  intros HA Hp [HE HF]. destruct (is_partial_child v T) eqn:E; [reflexivity|]. exfalso. apply HF.
  apply (Al_honest la v T Hp HA); [|exact E]. destruct (contains v T) eqn:Ec; [reflexivity|].
  apply contains_false_iff in Ec. contradiction.
Qed.

Lemma Partial_reverse v t : Partial v t -> Partial v (reverse t).
Proof. intros [HE HF]. split; intros H; [apply HE; now apply PureE_reverse|apply HF; now apply PureF_reverse]. Qed.

Lemma PF_frontier v Fs setF : Forall (GoodItem v) Fs -> Permutation setF (map ic Fs) -> setF <> [] ->
  Ord (new_node KP setF) (flat_map ib Fs).
Proof.
  intros HG HP Hne. apply Ord_new_node; [exact Hne|]. apply Ord_P. exists (map ic Fs). split; [exact HP|].
  apply OrdL_items. eapply Forall_impl; [|exact HG]. intros x H. apply H.
Qed.

(* the pieces of an aligned partial child a fit its block: forwards when the sets with v are at the right end of
   the block, backwards when they are at its left end *)
Lemma PA_pieces v a : GoodItem v a -> ist a = SPartA ->
  (zeros_ones (wd v a) = true -> OrdL (simplify v true (ic a)) (ib a)) /\
  (ones_zeros (wd v a) = true -> OrdL (rev (simplify v true (ic a))) (ib a)).
Proof.
  intros (Hp & HS & Ho & _) Hst. rewrite Hst in HS. simpl in HS. destruct HS as [HA HP].
  pose proof (Al_partial_child false v (ic a) HA Hp HP) as Hpc.
  destruct (simplify_complete false v (ic a) HA Hp Hpc (ib a) Ho) as [H1 H2]. auto.
Qed.

(* ... and of its reversal, simplified to the left *)
Lemma PA_pieces_rev v a : GoodItem v a -> ist a = SPartA ->
  (ones_zeros (wd v a) = true -> OrdL (simplify v false (reverse (ic a))) (ib a)) /\
  (zeros_ones (wd v a) = true -> OrdL (rev (simplify v false (reverse (ic a)))) (ib a)).
Proof.
  intros (Hp & HS & Ho & _) Hst. rewrite Hst in HS. simpl in HS. destruct HS as [HA HP].
  assert (Hpr : proper (reverse (ic a)) = true) by now rewrite proper_reverse.
  pose proof (Al_partial_child true v _ (Al_reverse v _ HA) Hpr (Partial_reverse v _ HP)) as Hpc.
  destruct (simplify_complete true v _ (Al_reverse v _ HA) Hpr Hpc (ib a) (Ord_reverse_c _ _ Ho)) as [H1 H2]. auto.
Qed.

Lemma cnt_filter_length s l : length (filter (fun x => status_eqb s (ist x)) l) = cnt s l.
Proof.
  induction l as [|x t IH]; [reflexivity|]. rewrite cnt_cons. simpl. destruct (status_eqb s (ist x)); simpl; now rewrite IH.
Qed.

Lemma filter_st_all s0 s l : Forall (fun x => ist x = s0) l ->
  filter (fun x => status_eqb s (ist x)) l = if status_eqb s s0 then l else [].
Proof.
  induction 1 as [|x t Hx Ht IH]; [now destruct (status_eqb s s0)|]. simpl. rewrite Hx, IH.
  destruct (status_eqb s s0); reflexivity.
Qed.

(* ------------------------------------------------------------------------------------------------ *)
(* Stage B: P.set_contiguous after the two passes loses no good frontier and does not raise *)
Definition isS (s : status) (x : item) : bool := status_eqb s (ist x).

Lemma filter_isS_E_run s W1 run W3 : s <> SEmpty -> Forall (fun x => ist x = SEmpty) (W1 ++ W3) ->
  filter (isS s) (W1 ++ run ++ W3) = filter (isS s) run.
Proof.
  intros Hs H. apply Forall_app in H. destruct H as [H1 H3]. rewrite !filter_app.
  unfold isS. rewrite (filter_st_all SEmpty s W1 H1), (filter_st_all SEmpty s W3 H3).
  assert (E : status_eqb s SEmpty = false) by (destruct s; simpl; congruence). rewrite E. now rewrite app_nil_r.
Qed.

Lemma filter_isS_all s0 s l : Forall (fun x => ist x = s0) l -> filter (isS s) l = if status_eqb s s0 then l else [].
Proof. apply filter_st_all. Qed.
Lemma filter_isS_cons_eq s a l : ist a = s -> filter (isS s) (a :: l) = a :: filter (isS s) l.
Proof. intros H. simpl. unfold isS at 1. rewrite H. now destruct s. Qed.
Lemma filter_isS_cons_ne s s' a l : ist a = s' -> s <> s' -> filter (isS s) (a :: l) = filter (isS s) l.
Proof. intros H Hne. simpl. unfold isS at 1. rewrite H. destruct s, s'; simpl; congruence. Qed.

Lemma perm_singleton_eq {T} (l : list T) a : Permutation l [a] -> l = [a].
Proof. intros H. apply Permutation_sym in H. now apply Permutation_length_1_inv in H. Qed.

Section PCase.
Variable v : nat.
Variables T T' : list item.
Hypothesis Hn : 2 <= length T.
Hypothesis HG : Forall (GoodItem v) T.
Hypothesis HP : Permutation T T'.

Let HG' : Forall (GoodItem v) T'.
Proof. eapply Permutation_Forall; eassumption. Qed.

Lemma setE_perm W1 run W3 : T' = W1 ++ run ++ W3 -> Forall (fun x => ist x = SEmpty) (W1 ++ W3) ->
  filter (isS SEmpty) run = [] ->
  Permutation (map ic (filter (isS SEmpty) T)) (map ic (W1 ++ W3)).
Proof.
  intros -> HE Hr. apply Permutation_map. etransitivity; [apply filter_perm; exact HP|].
  apply Forall_app in HE. destruct HE as [H1 H3]. rewrite !filter_app, Hr. unfold isS.
  rewrite (filter_st_all SEmpty SEmpty W1 H1), (filter_st_all SEmpty SEmpty W3 H3). reflexivity.
Qed.

Lemma set_perm s W1 run W3 : s <> SEmpty -> T' = W1 ++ run ++ W3 -> Forall (fun x => ist x = SEmpty) (W1 ++ W3) ->
  Permutation (filter (isS s) T) (filter (isS s) run).
Proof.
  intros Hs -> HE. etransitivity; [apply filter_perm; exact HP|]. now rewrite filter_isS_E_run.
Qed.

(* the "else" branch with at most one aligned partial child *)
Lemma B5_complete W1 run W3 (Fs : list item) (pa : list item) :
  T' = W1 ++ run ++ W3 -> Forall (fun x => ist x = SEmpty) (W1 ++ W3) ->
  Forall (fun x => ist x = SFull) Fs -> Fs <> [] ->
  (pa = [] /\ run = Fs \/
   exists a, pa = [a] /\ ist a = SPartA /\
     (run = a :: Fs /\ zeros_ones (wd v a) = true \/ run = Fs ++ [a] /\ ones_zeros (wd v a) = true)) ->
  Ord (Node KP (map ic (filter (isS SEmpty) T) ++
                [new_node KQ (match map ic (filter (isS SPartA) T) with c :: _ => simplify v true c | [] => [] end ++
                              [new_node KP (map ic (filter (isS SFull) T))])]))
      (flat_map ib T').
Proof.
  intros ET' HE HF HFne Hforms.
  assert (HGr : Forall (GoodItem v) run /\ Forall (GoodItem v) (W1 ++ W3)).
  { rewrite ET' in HG'. apply Forall_app in HG'. destruct HG' as [G1 G2]. apply Forall_app in G2. destruct G2 as [G2 G3].
    split; [exact G2|apply Forall_app; auto]. }
  destruct HGr as [HGrun HGW].
  assert (HrunE : filter (isS SEmpty) run = []).
  { destruct Hforms as [[_ ->]|(a & _ & Ha & [[-> _]|[-> _]])].
    - now rewrite (filter_isS_all SFull SEmpty Fs HF).
    - rewrite (filter_isS_cons_ne SEmpty SPartA a Fs Ha) by discriminate. now rewrite (filter_isS_all SFull SEmpty Fs HF).
    - rewrite filter_app, (filter_isS_cons_ne SEmpty SPartA a [] Ha) by discriminate.
      now rewrite (filter_isS_all SFull SEmpty Fs HF). }
  assert (HrunF : filter (isS SFull) run = Fs).
  { destruct Hforms as [[_ ->]|(a & _ & Ha & [[-> _]|[-> _]])].
    - now rewrite (filter_isS_all SFull SFull Fs HF).
    - rewrite (filter_isS_cons_ne SFull SPartA a Fs Ha) by discriminate. now rewrite (filter_isS_all SFull SFull Fs HF).
    - rewrite filter_app, (filter_isS_cons_ne SFull SPartA a [] Ha) by discriminate.
      rewrite (filter_isS_all SFull SFull Fs HF). simpl. now rewrite app_nil_r. }
  assert (HrunPA : filter (isS SPartA) run = pa).
  { destruct Hforms as [[-> ->]|(a & -> & Ha & [[-> _]|[-> _]])].
    - now rewrite (filter_isS_all SFull SPartA Fs HF).
    - rewrite (filter_isS_cons_eq SPartA a Fs Ha). now rewrite (filter_isS_all SFull SPartA Fs HF).
    - rewrite filter_app, (filter_isS_cons_eq SPartA a [] Ha). now rewrite (filter_isS_all SFull SPartA Fs HF). }
  pose proof (set_perm SFull W1 run W3 ltac:(discriminate) ET' HE) as PF. rewrite HrunF in PF.
  pose proof (set_perm SPartA W1 run W3 ltac:(discriminate) ET' HE) as PPA. rewrite HrunPA in PPA.
  assert (HGF : Forall (GoodItem v) Fs).
  { rewrite <- HrunF. apply Forall_forall. intros x Hx. apply filter_In in Hx. rewrite Forall_forall in HGrun. now apply HGrun. }
  set (setF := map ic (filter (isS SFull) T)).
  assert (HsetF : Permutation setF (map ic Fs)) by (apply Permutation_map; exact PF).
  assert (HsetFne : setF <> []).
  { intros E. rewrite E in HsetF. apply Permutation_nil in HsetF. destruct Fs; [congruence|discriminate]. }
  pose proof (PF_frontier v Fs setF HGF HsetF HsetFne) as HPF.
  rewrite ET'. apply (run_frontier v); [exact HGW|now apply (setE_perm W1 run W3)|].
  destruct Hforms as [[-> ->]|(a & -> & Ha & Hform)].
  - apply Permutation_sym, Permutation_nil in PPA. rewrite PPA. simpl. exact HPF.
  - apply perm_singleton_eq in PPA. rewrite PPA. simpl map. cbv iota.
    assert (HGa : GoodItem v a).
    { destruct Hform as [[-> _]|[-> _]]; [now inversion HGrun|apply Forall_app in HGrun; destruct HGrun as [_ H]; now inversion H]. }
    destruct (PA_pieces v a HGa Ha) as [Hfw Hbw].
    assert (Hne : simplify v true (ic a) ++ [new_node KP setF] <> []) by (intros E; apply app_eq_nil in E; destruct E; discriminate).
    apply Ord_new_node; [exact Hne|]. apply Ord_Q.
    destruct Hform as [[-> Hz]|[-> Hz]].
    + left. simpl flat_map. apply OrdL_app. exists (ib a), (flat_map ib Fs). repeat split; auto. now apply OrdL_one.
    + right. rewrite rev_app_distr. simpl rev. rewrite flat_map_app. simpl flat_map. rewrite app_nil_r.
      apply OrdL_cons. exists (flat_map ib Fs), (ib a). repeat split; auto.
Qed.

(* the "else" branch with two aligned partial children *)
Lemma B6_complete W1 W3 (Fs : list item) a b :
  T' = W1 ++ (a :: Fs ++ [b]) ++ W3 -> Forall (fun x => ist x = SEmpty) (W1 ++ W3) ->
  Forall (fun x => ist x = SFull) Fs -> ist a = SPartA -> ist b = SPartA ->
  zeros_ones (wd v a) = true -> ones_zeros (wd v b) = true ->
  Ord (Node KP (map ic (filter (isS SEmpty) T) ++
                [new_node KQ (simplify v true (nth 0 (map ic (filter (isS SPartA) T)) (Leaf [])) ++
                              match map ic (filter (isS SFull) T) with [] => [] | _ => [new_node KP (map ic (filter (isS SFull) T))] end ++
                              simplify v false (reverse (nth 1 (map ic (filter (isS SPartA) T)) (Leaf []))))]))
      (flat_map ib T').
Proof.
  intros ET' HE HF Ha Hb Hza Hzb. set (run := a :: Fs ++ [b]) in *.
  assert (HGr : Forall (GoodItem v) run /\ Forall (GoodItem v) (W1 ++ W3)).
  { rewrite ET' in HG'. apply Forall_app in HG'. destruct HG' as [G1 G2]. apply Forall_app in G2. destruct G2 as [G2 G3].
    split; [exact G2|apply Forall_app; auto]. }
  destruct HGr as [HGrun HGW].
  assert (HGa : GoodItem v a) by now inversion HGrun.
  assert (HGFb : Forall (GoodItem v) Fs /\ GoodItem v b).
  { inversion HGrun as [|? ? _ H]; subst. apply Forall_app in H. destruct H as [H1 H2]. inversion H2; auto. }
  destruct HGFb as [HGF HGb].
  assert (HrunE : filter (isS SEmpty) run = []).
  { unfold run. rewrite (filter_isS_cons_ne SEmpty SPartA a _ Ha) by discriminate.
    rewrite filter_app, (filter_isS_cons_ne SEmpty SPartA b [] Hb) by discriminate.
    now rewrite (filter_isS_all SFull SEmpty Fs HF). }
  assert (HrunF : filter (isS SFull) run = Fs).
  { unfold run. rewrite (filter_isS_cons_ne SFull SPartA a _ Ha) by discriminate.
    rewrite filter_app, (filter_isS_cons_ne SFull SPartA b [] Hb) by discriminate.
    rewrite (filter_isS_all SFull SFull Fs HF). simpl. now rewrite app_nil_r. }
  assert (HrunPA : filter (isS SPartA) run = [a; b]).
  { unfold run. rewrite (filter_isS_cons_eq SPartA a _ Ha).
    rewrite filter_app, (filter_isS_cons_eq SPartA b [] Hb). now rewrite (filter_isS_all SFull SPartA Fs HF). }
  pose proof (set_perm SFull W1 run W3 ltac:(discriminate) ET' HE) as PF. rewrite HrunF in PF.
  pose proof (set_perm SPartA W1 run W3 ltac:(discriminate) ET' HE) as PPA. rewrite HrunPA in PPA.
  set (setF := map ic (filter (isS SFull) T)).
  assert (HsetF : Permutation setF (map ic Fs)) by (apply Permutation_map; exact PF).
  set (fullp := match setF with [] => [] | _ => [new_node KP setF] end).
  assert (Hfullp : OrdL fullp (flat_map ib Fs) /\ rev fullp = fullp).
  { unfold fullp. destruct setF as [|f r] eqn:EF.
    - apply Permutation_nil in HsetF. destruct Fs; [|discriminate]. split; [now apply OrdL_nil|reflexivity].
    - split; [|reflexivity]. apply OrdL_one. apply (PF_frontier v Fs (f :: r)); auto. discriminate. }
  destruct Hfullp as [Hfp Hfrev].
  destruct (PA_pieces v a HGa Ha) as [Hafw Habw]. destruct (PA_pieces v b HGb Hb) as [Hbfw Hbbw].
  destruct (PA_pieces_rev v a HGa Ha) as [Harfw Harbw]. destruct (PA_pieces_rev v b HGb Hb) as [Hbrfw Hbrbw].
  rewrite ET'. apply (run_frontier v); [exact HGW|now apply (setE_perm W1 run W3)|].
  assert (Hrun_o : flat_map ib run = ib a ++ flat_map ib Fs ++ ib b).
  { unfold run. simpl. rewrite flat_map_app. simpl. now rewrite app_nil_r. }
  rewrite Hrun_o.
  apply Permutation_sym, Permutation_length_2_inv in PPA. destruct PPA as [PPA|PPA]; rewrite PPA; simpl nth.
  - (* the stored order of the two partial children is the one of the frontier: read forwards *)
    assert (Hne : simplify v true (ic a) ++ fullp ++ simplify v false (reverse (ic b)) <> []).
    { intros E. apply app_eq_nil in E. destruct E as [E _]. specialize (Hafw Hza). rewrite E in Hafw.
      apply OrdL_nil in Hafw. destruct HGa as (Hp & _ & Ho & _). exact (Ord_nonempty _ _ Hp Ho Hafw). }
    apply Ord_new_node; [exact Hne|]. apply Ord_Q. left.
    apply OrdL_app. exists (ib a), (flat_map ib Fs ++ ib b). repeat split; auto.
    apply OrdL_app. exists (flat_map ib Fs), (ib b). repeat split; auto.
  - (* the other way round: read backwards *)
    assert (Hne : simplify v true (ic b) ++ fullp ++ simplify v false (reverse (ic a)) <> []).
    { intros E. apply app_eq_nil in E. destruct E as [E _]. specialize (Hbbw Hzb). rewrite E in Hbbw.
      apply OrdL_nil in Hbbw. destruct HGb as (Hp & _ & Ho & _). exact (Ord_nonempty _ _ Hp Ho Hbbw). }
    apply Ord_new_node; [exact Hne|]. apply Ord_Q. right.
    rewrite !rev_app_distr, Hfrev, <- app_assoc.
    apply OrdL_app. exists (ib a), (flat_map ib Fs ++ ib b). repeat split; auto.
    apply OrdL_app. exists (flat_map ib Fs), (ib b). repeat split; auto.
Qed.
End PCase.

(* which branch P.set_contiguous takes, in terms of the counts *)
Lemma p_cases_when v cs seq :
  let n := length cs in
  let nF := count_st SFull seq in let nE := count_st SEmpty seq in
  let nPA := count_st SPartA seq in let nPU := count_st SPartU seq in
  let setF := pick_st SFull cs seq in let setE := pick_st SEmpty cs seq in let setPA := pick_st SPartA cs seq in
  let fullp := match setF with [] => [] | _ => [new_node KP setF] end in
  nPA <= 2 -> (nPU = 0 \/ S nE = n) ->
  (nF = n -> p_cases v cs seq = Ok (Node KP cs, SFull)) /\
  (nF <> n -> nE = n -> p_cases v cs seq = Ok (Node KP cs, SEmpty)) /\
  (nF <> n -> nE <> n -> nPU = 1 -> p_cases v cs seq = Ok (Node KP cs, SPartU)) /\
  (nF <> n -> nE <> n -> nPU <> 1 -> nPA = 1 -> S nE = n -> p_cases v cs seq = Ok (Node KP (setE ++ setPA), SPartA)) /\
  (nF <> n -> nE <> n -> nPU <> 1 -> ~ (nPA = 1 /\ S nE = n) -> nPA < 2 ->
     p_cases v cs seq = Ok (Node KP (setE ++ [new_node KQ (match setPA with c :: _ => simplify v true c | [] => [] end ++ fullp)]), SPartA)) /\
  (nF <> n -> nE <> n -> nPU <> 1 -> nPA = 2 ->
     p_cases v cs seq = Ok (Node KP (setE ++ [new_node KQ (simplify v true (nth 0 setPA (Leaf [])) ++ fullp ++
                                                            simplify v false (reverse (nth 1 setPA (Leaf []))))]), SPartU)).
Proof.
  intros n nF nE nPA nPU setF setE setPA fullp H1 H2. unfold p_cases. fold n nF nE nPA nPU setF setE setPA. cbv zeta.
  assert (Eimp : impossible n nE nPA nPU = false).
  { unfold impossible. apply orb_false_iff. split; [apply Nat.ltb_ge; lia|].
    destruct H2 as [H2|H2]; [rewrite H2; reflexivity|]. apply andb_false_iff. right. apply negb_false_iff, Nat.eqb_eq. exact H2. }
  rewrite Eimp. repeat split.
  - intros E. apply Nat.eqb_eq in E. now rewrite E.
  - intros E1 E2. apply Nat.eqb_neq in E1. apply Nat.eqb_eq in E2. now rewrite E1, E2.
  - intros E1 E2 E3. apply Nat.eqb_neq in E1, E2. apply Nat.eqb_eq in E3. now rewrite E1, E2, E3.
  - intros E1 E2 E3 E4 E5. apply Nat.eqb_neq in E1, E2, E3. apply Nat.eqb_eq in E4, E5. now rewrite E1, E2, E3, E4, E5.
  - intros E1 E2 E3 E4 E5. apply Nat.eqb_neq in E1, E2, E3. rewrite E1, E2, E3.
    assert (E45 : (nPA =? 1) && (S nE =? n) = false).
    { destruct (Nat.eqb_spec nPA 1), (Nat.eqb_spec (S nE) n); simpl; auto. tauto. }
    rewrite E45. apply Nat.ltb_lt in E5. now rewrite E5.
  - intros E1 E2 E3 E4. apply Nat.eqb_neq in E1, E2, E3. rewrite E1, E2, E3, E4. simpl.
    fold fullp. reflexivity.
Qed.

Lemma az_items v l : Forall (GoodItem v) l -> Forall (fun x => all_zero (wd v x) = true) l -> Forall (fun x => ist x = SEmpty) l.
Proof. intros HG H. induction H; inversion HG; subst; constructor; auto. now apply (item_az v). Qed.
Lemma ao_items v l : Forall (GoodItem v) l -> Forall (fun x => all_one (wd v x) = true) l -> Forall (fun x => ist x = SFull) l.
Proof. intros HG H. induction H; inversion HG; subst; constructor; auto. now apply (item_ao v). Qed.

(* the pattern returned by simplify on a partial aligned tree has blocks of both kinds *)
Lemma SimpOK_both la v c L : proper c = true -> Partial v c -> SimpOK la v c L ->
  exists es fs, es <> [] /\ fs <> [] /\ Forall (PureE v) es /\ Forall (PureF v) fs /\
                Forall (fun x => proper x = true) (es ++ fs) /\ L = if la then fs ++ es else es ++ fs.
Proof.
  intros Hp [HnE HnF] ((es & fs & HE & HF & HL) & HpL & Hperm & _).
  exists es, fs. assert (Hpp : Forall (fun x => proper x = true) (es ++ fs)).
  { subst L. destruct la; [|exact HpL]. apply Forall_app in HpL. apply Forall_app. tauto. }
  repeat split; auto.
  - intros ->. apply HnF. unfold PureF. eapply Permutation_Forall; [apply Permutation_sym; exact Hperm|].
    subst L. apply Forall_forall. intros s Hs. apply in_flat_map in Hs. destruct Hs as (x & Hx & Hs).
    assert (Hxf : In x fs) by (destruct la; [now rewrite app_nil_r in Hx|exact Hx]).
    rewrite Forall_forall in HF. specialize (HF x Hxf). unfold PureF in HF. rewrite Forall_forall in HF. auto.
  - intros ->. apply HnE. unfold PureE. eapply Permutation_Forall; [apply Permutation_sym; exact Hperm|].
    subst L. apply Forall_forall. intros s Hs. apply in_flat_map in Hs. destruct Hs as (x & Hx & Hs).
    assert (Hxe : In x es) by (destruct la; [exact Hx|now rewrite app_nil_r in Hx]).
    rewrite Forall_forall in HE. specialize (HE x Hxe). unfold PureE in HE. rewrite Forall_forall in HE. auto.
Qed.

(* the tree built by the "else" branch with two partial children is UNALIGNED-like *)
Lemma U2_else_two v setE c0 c1 fullp :
  Forall (fun c => proper c = true) setE -> Forall (PureE v) setE ->
  proper c0 = true -> Al false v c0 -> Partial v c0 -> proper c1 = true -> Al false v c1 -> Partial v c1 ->
  Forall (fun c => proper c = true) fullp ->
  U2 v (Node KP (setE ++ [new_node KQ (simplify v true c0 ++ fullp ++ simplify v false (reverse c1))])).
Proof.
  intros HpE HEE Hp0 HA0 HP0 Hp1 HA1 HP1 Hpf.
  pose proof (simplify_spec false v c0 HA0 Hp0) as S0. simpl negb in S0.
  assert (Hp1r : proper (reverse c1) = true) by now rewrite proper_reverse.
  pose proof (simplify_spec true v (reverse c1) (Al_reverse v c1 HA1) Hp1r) as S1. simpl negb in S1.
  destruct (SimpOK_both false v c0 _ Hp0 HP0 S0) as (e0 & f0 & Hne0 & _ & HE0 & _ & Hpp0 & EL0).
  destruct (SimpOK_both true v _ _ Hp1r (Partial_reverse v c1 HP1) S1) as (e1 & f1 & Hne1 & _ & HE1 & _ & Hpp1 & EL1).
  rewrite EL0, EL1.
  destruct e0 as [|x e0']; [congruence|]. destruct (exists_last Hne1) as (e1' & y & ->).
  set (mid := e0' ++ f0 ++ fullp ++ f1 ++ e1').
  assert (Enew : (x :: e0') ++ f0 ++ fullp ++ f1 ++ e1' ++ [y] = x :: mid ++ [y]).
  { unfold mid. simpl. rewrite <- !app_assoc. reflexivity. }
  replace (((x :: e0') ++ f0) ++ fullp ++ f1 ++ e1' ++ [y]) with (x :: mid ++ [y])
    by (rewrite <- Enew, <- !app_assoc; reflexivity).
  assert (Hpx : proper x = true) by (inversion Hpp0; auto).
  assert (Hpy : proper y = true).
  { apply Forall_app in Hpp1. destruct Hpp1 as [H _]. apply Forall_app in H. destruct H as [_ H]. now inversion H. }
  assert (HEx : PureE v x) by now inversion HE0.
  assert (HEy : PureE v y) by (apply Forall_app in HE1; destruct HE1 as [_ H]; now inversion H).
  assert (Hpm : Forall (fun c => proper c = true) mid).
  { unfold mid. inversion Hpp0 as [|? ? _ Hr0]; subst. apply Forall_app in Hr0. destruct Hr0 as [Ha Hb].
    apply Forall_app in Hpp1. destruct Hpp1 as [Hc Hd]. apply Forall_app in Hc. destruct Hc as [Hc _].
    repeat (apply Forall_app; split); auto. }
  rewrite new_node_many by (simpl; rewrite app_length; simpl; lia).
  apply U2_children; [intros E; apply app_eq_nil in E; destruct E; discriminate|].
  apply Forall_app. split.
  - apply Forall_forall. intros c Hc. rewrite Forall_forall in HpE, HEE. auto.
  - constructor; [|constructor]. split.
    + apply proper_node_iff. split; [simpl; rewrite app_length; simpl; lia|]. constructor; [exact Hpx|].
      apply Forall_app. split; [exact Hpm|]. now constructor.
    + right. now apply U2_Q_ends.
Qed.

Lemma cnt_E_list s l : Forall (fun x => ist x = SEmpty) l -> cnt s l = if status_eqb s SEmpty then length l else 0.
Proof. apply cnt_all. Qed.
Lemma cnt_F_list s l : Forall (fun x => ist x = SFull) l -> cnt s l = if status_eqb s SFull then length l else 0.
Proof. apply cnt_all. Qed.

Lemma items_E_or (v : nat) (P : item -> Prop) l l' :
  Permutation l l' -> Forall P l' -> Forall P l.
Proof. intros HP H. eapply Permutation_Forall; [apply Permutation_sym; exact HP|exact H]. Qed.

Lemma cnt_filter_isS s l : length (filter (isS s) l) = cnt s l.
Proof. apply cnt_filter_length. Qed.

Theorem p_cases_complete v T T' :
  2 <= length T -> Forall (GoodItem v) T -> Permutation T T' -> Interval (fun s => In v s) (flat_map ib T') ->
  exists t' st, p_cases v (map ic T) (map ist T) = Ok (t', st) /\ Ord t' (flat_map ib T') /\ (st = SPartU -> U2 v t').
Proof.
  intros Hn HG HP Hint.
  assert (HG' : Forall (GoodItem v) T') by (eapply Permutation_Forall; eassumption).
  assert (Hshape : Shape (wd v) T').
  { apply shape.
    - eapply Forall_impl; [|exact HG']. intros x. apply wd_nonempty.
    - rewrite flat_map_wd. now apply wv_contig. }
  pose proof (p_cases_when v (map ic T) (map ist T)) as W. cbv zeta in W. rewrite map_length in W.
  rewrite !pick_st_items in W.
  change (count_st SFull (map ist T)) with (cnt SFull T) in W. change (count_st SEmpty (map ist T)) with (cnt SEmpty T) in W.
  change (count_st SPartA (map ist T)) with (cnt SPartA T) in W. change (count_st SPartU (map ist T)) with (cnt SPartU T) in W.
  fold (isS SFull) (isS SEmpty) (isS SPartA) in W.
  rewrite (cnt_perm SFull T T' HP), (cnt_perm SEmpty T T' HP), (cnt_perm SPartA T T' HP), (cnt_perm SPartU T T' HP) in W.
  pose proof (Permutation_length HP) as HlenT. rewrite HlenT in W, Hn.
  assert (Hunch : forall st, st <> SPartU \/ U2 v (Node KP (map ic T)) ->
            p_cases v (map ic T) (map ist T) = Ok (Node KP (map ic T), st) ->
            exists t' st', p_cases v (map ic T) (map ist T) = Ok (t', st') /\ Ord t' (flat_map ib T') /\ (st' = SPartU -> U2 v t')).
  { intros st Hst E. exists (Node KP (map ic T)), st. split; [exact E|]. split; [now apply (frontier_P v T T')|].
    intros ->. destruct Hst; [congruence|assumption]. }
  destruct Hshape as [l Haz|W1 w W3 H1 H3 Hc Hz|W1 w A R W3 H1 H3 HA Hzo Hz HR].
  - (* no set contains v *)
    pose proof (az_items v l HG' Haz) as HE.
    rewrite !(cnt_E_list _ l HE) in W. simpl in W.
    destruct W as (_ & Wb & _); [lia|now left|]. apply (Hunch SEmpty); [left; discriminate|]. apply Wb; lia.
  - (* one child carries all the sets containing v *)
    assert (HGs : Forall (GoodItem v) W1 /\ GoodItem v w /\ Forall (GoodItem v) W3).
    { apply Forall_app in HG'. destruct HG' as [Ha Hb]. inversion Hb; subst. auto. }
    destruct HGs as (HG1 & HGw & HG3).
    pose proof (az_items v W1 HG1 H1) as HE1. pose proof (az_items v W3 HG3 H3) as HE3.
    assert (HE13 : Forall (fun x => ist x = SEmpty) (W1 ++ W3)) by (apply Forall_app; auto).
    rewrite !cnt_app, !cnt_cons, !(cnt_E_list _ W1 HE1), !(cnt_E_list _ W3 HE3) in W.
    rewrite app_length in W, Hn. simpl in W, Hn.
    pose proof (item_class v w HGw) as Cw.
    destruct (ist w) eqn:Ew; simpl in W.
    + (* full: the "else" branch without partial child *)
      destruct W as (_ & _ & _ & _ & We & _); [lia|now left|].
      eexists _, SPartA. split; [apply We; lia|]. split; [|discriminate].
      assert (EF : map ic (filter (isS SFull) T) <> []).
      { intros E. apply (f_equal (@length pq)) in E. rewrite map_length, cnt_filter_isS, (cnt_perm SFull T _ HP) in E.
        rewrite cnt_app, cnt_cons, Ew, (cnt_E_list _ W1 HE1), (cnt_E_list _ W3 HE3) in E. simpl in E. lia. }
      destruct (map ic (filter (isS SFull) T)) as [|f0 r0] eqn:EFl; [congruence|]. rewrite <- EFl.
      apply (B5_complete v T (W1 ++ w :: W3) HG HP W1 [w] W3 [w] []);
        [reflexivity|exact HE13|constructor; auto|discriminate|left; auto].
    + destruct Cw. congruence.
    + (* aligned partial, all the others empty: the children are only rearranged *)
      destruct W as (_ & _ & _ & Wd & _); [lia|now left|].
      eexists _, SPartA. split; [apply Wd; lia|]. split; [|discriminate].
      apply (frontier_P v T (W1 ++ w :: W3)); auto.
      (* T is made of its empty and of its aligned partial children *)
      pose proof (pick_st_perm (fun _ _ => True) (map ic T) (map ist T)) as PP.
      rewrite !pick_st_items in PP. fold (isS SFull) (isS SEmpty) (isS SPartA) (isS SPartU) in PP.
      assert (F0 : filter (isS SFull) T = []).
      { apply length_zero_nil. rewrite cnt_filter_isS, (cnt_perm SFull T _ HP), cnt_app, cnt_cons, Ew,
          (cnt_E_list _ W1 HE1), (cnt_E_list _ W3 HE3). reflexivity. }
      assert (U0 : filter (isS SPartU) T = []).
      { apply length_zero_nil. rewrite cnt_filter_isS, (cnt_perm SPartU T _ HP), cnt_app, cnt_cons, Ew,
          (cnt_E_list _ W1 HE1), (cnt_E_list _ W3 HE3). reflexivity. }
      rewrite F0, U0 in PP. simpl in PP. rewrite app_nil_r in PP. apply PP.
      clear. induction T; simpl; constructor; auto.
    + (* unaligned partial, all the others empty: unchanged *)
      destruct W as (_ & _ & Wc & _); [lia|right; lia|].
      assert (Eq : p_cases v (map ic T) (map ist T) = Ok (Node KP (map ic T), SPartU)).
      { apply Wc; [lia|lia|reflexivity]. }
      apply (Hunch SPartU); [|exact Eq]. right.
      apply U2_children; [intros E0; apply map_eq_nil in E0; subst T; apply Permutation_nil in HP; now destruct W1|].
      apply Forall_map. apply (items_E_or v _ T (W1 ++ w :: W3) HP).
      apply Forall_app. split; [|constructor].
      * apply Forall_forall. intros x Hx. rewrite Forall_forall in HG1, HE1. destruct (HG1 x Hx) as (Hp & HS & _).
        rewrite (HE1 x Hx) in HS. split; [exact Hp|left; exact HS].
      * destruct HGw as (Hp & _ & _ & HU). split; [exact Hp|right; now apply HU].
      * apply Forall_forall. intros x Hx. rewrite Forall_forall in HG3, HE3. destruct (HG3 x Hx) as (Hp & HS & _).
        rewrite (HE3 x Hx) in HS. split; [exact Hp|left; exact HS].
  - (* a run of children *)
    assert (HGs : Forall (GoodItem v) W1 /\ GoodItem v w /\ Forall (GoodItem v) A /\ Forall (GoodItem v) R /\ Forall (GoodItem v) W3).
    { apply Forall_app in HG'. destruct HG' as [Ha Hb]. inversion Hb as [|? ? Hw Hb']; subst.
      apply Forall_app in Hb'. destruct Hb' as [Hb1 Hb2]. apply Forall_app in Hb2. destruct Hb2. auto. }
    destruct HGs as (HG1 & HGw & HGA & HGR & HG3).
    pose proof (az_items v W1 HG1 H1) as HE1. pose proof (az_items v W3 HG3 H3) as HE3.
    pose proof (ao_items v A HGA HA) as HFA.
    assert (HE13 : Forall (fun x => ist x = SEmpty) (W1 ++ W3)) by (apply Forall_app; auto).
    assert (Hw : ist w = SFull \/ ist w = SPartA).
    { pose proof (item_class v w HGw) as Cw. destruct (ist w) eqn:Ew; auto.
      - destruct Cw. congruence.
      - exfalso. exact (U2_not_zo v w HGw Ew Hzo). }
    assert (HR' : R = [] \/ exists w', R = [w'] /\ ist w' = SPartA /\ ones_zeros (wd v w') = true).
    { destruct HR as [->|(w' & -> & Ho & Hno & Hnz)]; [now left|]. right. exists w'. split; [reflexivity|].
      inversion HGR as [|? ? HGw' _]; subst. pose proof (item_class v w' HGw') as Cw. split; [|exact Ho].
      destruct (ist w') eqn:Ew; auto; try (destruct Cw; congruence).
      exfalso. exact (U2_not_oz v w' HGw' Ew Ho). }
    assert (ET' : W1 ++ w :: A ++ R ++ W3 = W1 ++ (w :: A ++ R) ++ W3) by (simpl; now rewrite <- app_assoc).
    rewrite !cnt_app, !cnt_cons, !cnt_app, !(cnt_E_list _ W1 HE1), !(cnt_E_list _ W3 HE3), !(cnt_F_list _ A HFA) in W.
    rewrite !app_length in W, Hn. simpl in W, Hn. rewrite !app_length in W, Hn.
    destruct Hw as [Ew|Ew]; destruct HR' as [->|(w' & -> & Ew' & Ho')]; rewrite Ew in W; try rewrite !cnt_cons, Ew' in W;
      simpl in W; rewrite ?cnt_nil in W; simpl in W.
    + (* full children only *)
      assert (HFs : Forall (fun x => ist x = SFull) (w :: A)) by (constructor; auto).
      destruct (Nat.eq_dec (length W1 + length W3) 0) as [E0|E0].
      * destruct W as (Wa & _); [lia|now left|]. apply (Hunch SFull); [left; discriminate|]. apply Wa. lia.
      * destruct W as (_ & _ & _ & _ & We & _); [lia|now left|].
        eexists _, SPartA. split; [apply We; lia|]. split; [|discriminate].
        assert (EF : map ic (filter (isS SFull) T) <> []).
        { intros E. apply (f_equal (@length pq)) in E. rewrite map_length, cnt_filter_isS, (cnt_perm SFull T _ HP) in E.
          rewrite !cnt_app, cnt_cons, Ew, cnt_app in E. simpl in E. lia. }
        destruct (map ic (filter (isS SFull) T)) as [|f0 r0] eqn:EFl; [congruence|]. rewrite <- EFl.
        apply (B5_complete v T _ HG HP W1 (w :: A) W3 (w :: A) []);
          [(simpl; rewrite <- ?app_assoc; reflexivity)|exact HE13|exact HFs|discriminate|left; auto].
    + (* full children, then an aligned partial child whose sets with v are at its left end *)
      assert (HFs : Forall (fun x => ist x = SFull) (w :: A)) by (constructor; auto).
      destruct W as (_ & _ & _ & _ & We & _); [lia|now left|].
      eexists _, SPartA. split; [apply We; lia|]. split; [|discriminate].
      assert (EF : map ic (filter (isS SFull) T) <> []).
      { intros E. apply (f_equal (@length pq)) in E. rewrite map_length, cnt_filter_isS, (cnt_perm SFull T _ HP) in E.
        rewrite !cnt_app, cnt_cons, Ew, cnt_app in E. simpl in E. lia. }
      destruct (map ic (filter (isS SFull) T)) as [|f0 r0] eqn:EFl; [congruence|]. rewrite <- EFl.
      apply (B5_complete v T _ HG HP W1 (w :: A ++ [w']) W3 (w :: A) [w']);
        [(simpl; rewrite <- ?app_assoc; reflexivity)|exact HE13|exact HFs|discriminate|right; exists w'; repeat split; auto].
    + (* an aligned partial child whose sets with v are at its right end, then full children *)
      destruct A as [|a0 A'].
      * (* no full child: the children are only rearranged *)
        destruct W as (_ & _ & _ & Wd & _); [simpl; lia|now left|].
        eexists _, SPartA. split; [apply Wd; simpl in *; lia|]. split; [|discriminate].
        apply (frontier_P v T _ _ HG HP).
        pose proof (pick_st_perm (fun _ _ => True) (map ic T) (map ist T)) as PP.
        rewrite !pick_st_items in PP. fold (isS SFull) (isS SEmpty) (isS SPartA) (isS SPartU) in PP.
        assert (F0 : filter (isS SFull) T = []).
        { apply length_zero_nil. rewrite cnt_filter_isS, (cnt_perm SFull T _ HP). simpl app.
          rewrite cnt_app, cnt_cons, Ew, (cnt_E_list _ W1 HE1), (cnt_E_list _ W3 HE3). reflexivity. }
        assert (U0 : filter (isS SPartU) T = []).
        { apply length_zero_nil. rewrite cnt_filter_isS, (cnt_perm SPartU T _ HP). simpl app.
          rewrite cnt_app, cnt_cons, Ew, (cnt_E_list _ W1 HE1), (cnt_E_list _ W3 HE3). reflexivity. }
        rewrite F0, U0 in PP. simpl in PP. rewrite app_nil_r in PP. apply PP.
        clear. induction T; simpl; constructor; auto.
      * destruct W as (_ & _ & _ & _ & We & _); [simpl; lia|now left|].
        eexists _, SPartA. split; [apply We; simpl in *; lia|]. split; [|discriminate].
        assert (EF : map ic (filter (isS SFull) T) <> []).
        { intros E. apply (f_equal (@length pq)) in E. rewrite map_length, cnt_filter_isS, (cnt_perm SFull T _ HP) in E.
          rewrite !cnt_app, cnt_cons, Ew, cnt_app, (cnt_F_list _ _ HFA) in E. simpl in E. lia. }
        destruct (map ic (filter (isS SFull) T)) as [|f0 r0] eqn:EFl; [congruence|]. rewrite <- EFl.
        apply (B5_complete v T _ HG HP W1 (w :: a0 :: A') W3 (a0 :: A') [w]);
          [(simpl; rewrite <- ?app_assoc; reflexivity)|exact HE13|exact HFA|discriminate|right; exists w; repeat split; auto].
    + (* two aligned partial children around the full ones *)
      destruct W as (_ & _ & _ & _ & _ & Wf); [lia|now left|].
      eexists _, SPartU. split; [apply Wf; lia|]. split.
      * apply (B6_complete v T _ HG HP W1 W3 A w w'); auto; simpl; rewrite <- ?app_assoc; reflexivity.
      * intros _.
        (* the two partial children of T *)
        assert (PPA : Permutation (filter (isS SPartA) T) [w; w']).
        { etransitivity; [apply filter_perm; exact HP|]. rewrite ET'. rewrite filter_isS_E_run; [|discriminate|exact HE13].
          rewrite (filter_isS_cons_eq SPartA w _ Ew), filter_app, (filter_isS_cons_eq SPartA w' [] Ew').
          now rewrite (filter_isS_all SFull SPartA A HFA). }
        assert (HGPA : forall x, In x (filter (isS SPartA) T) -> proper (ic x) = true /\ Al false v (ic x) /\ Partial v (ic x)).
        { intros x Hx. apply filter_In in Hx. destruct Hx as [Hx Hs]. unfold isS in Hs. apply status_eqb_eq in Hs.
          rewrite Forall_forall in HG. destruct (HG x Hx) as (Hp & HS & _). rewrite <- Hs in HS. simpl in HS. tauto. }
        apply Permutation_sym, Permutation_length_2_inv in PPA.
        assert (Hsets : Forall (fun c => proper c = true) (map ic (filter (isS SEmpty) T)) /\
                        Forall (PureE v) (map ic (filter (isS SEmpty) T)) /\
                        Forall (fun c => proper c = true) (map ic (filter (isS SFull) T))).
        { repeat split; apply Forall_map; apply Forall_forall; intros x Hx; apply filter_In in Hx; destruct Hx as [Hx Hs];
            unfold isS in Hs; apply status_eqb_eq in Hs; rewrite Forall_forall in HG; destruct (HG x Hx) as (Hp & HS & _); auto.
          rewrite <- Hs in HS. exact HS. }
        destruct Hsets as (HpE & HEE & HpF).
        assert (Hpfull : Forall (fun c => proper c = true)
                  (match map ic (filter (isS SFull) T) with [] => [] | _ :: _ => [new_node KP (map ic (filter (isS SFull) T))] end)).
        { destruct (map ic (filter (isS SFull) T)) as [|f0 r0] eqn:EFl; [constructor|]. constructor; [|constructor].
          apply proper_new_node; [discriminate|]. rewrite <- EFl in *. exact HpF. }
        destruct PPA as [PPA|PPA]; rewrite PPA in *; simpl nth.
        -- destruct (HGPA w (or_introl eq_refl)) as (Hp0 & HA0 & HP0). destruct (HGPA w' (or_intror (or_introl eq_refl))) as (Hp1 & HA1 & HP1).
           now apply U2_else_two.
        -- destruct (HGPA w' (or_introl eq_refl)) as (Hp0 & HA0 & HP0). destruct (HGPA w (or_intror (or_introl eq_refl))) as (Hp1 & HA1 & HP1).
           now apply U2_else_two.
Qed.

(* ------------------------------------------------------------------------------------------------ *)
(* Stage C: Q.set_contiguous *)
Definition pairs (l : list item) : list (pq * status) := map (fun x => (ic x, ist x)) l.

Lemma combine_pairs l : combine (map ic l) (map ist l) = pairs l.
Proof. induction l as [|x t IH]; simpl; [reflexivity|]. now rewrite IH. Qed.

Lemma pairs_app a b : pairs (a ++ b) = pairs a ++ pairs b.
Proof. apply map_app. Qed.

Lemma scan_E_false v l rest acc sre : Forall (fun x => ist x = SEmpty) l ->
  q_scan v (pairs l ++ rest) acc false sre = q_scan v rest (acc ++ map ic l) false sre.
Proof.
  intros H. revert acc. induction H as [|x t Hx Ht IH]; intros acc; simpl; [now rewrite app_nil_r|].
  rewrite Hx. rewrite IH, <- app_assoc. reflexivity.
Qed.

Lemma scan_E_true v l rest acc sre : Forall (fun x => ist x = SEmpty) l ->
  q_scan v (pairs l ++ rest) acc true sre =
  q_scan v rest (acc ++ map ic l) true (match l with [] => sre | _ => true end).
Proof.
  intros H. revert acc sre. induction H as [|x t Hx Ht IH]; intros acc sre; simpl; [now rewrite app_nil_r|].
  rewrite Hx. rewrite IH, <- app_assoc. simpl. destruct t; reflexivity.
Qed.

Lemma scan_F v l rest acc sn : Forall (fun x => ist x = SFull) l ->
  q_scan v (pairs l ++ rest) acc sn false =
  q_scan v rest (acc ++ map ic l) (match l with [] => sn | _ => true end) false.
Proof.
  intros H. revert acc sn. induction H as [|x t Hx Ht IH]; intros acc sn; simpl; [now rewrite app_nil_r|].
  rewrite Hx. rewrite IH, <- app_assoc. simpl. destruct t; reflexivity.
Qed.

Lemma scan_PA_first v a rest acc : ist a = SPartA ->
  q_scan v ((ic a, ist a) :: rest) acc false false = q_scan v rest (acc ++ simplify v true (ic a)) true false.
Proof. intros H. simpl. now rewrite H. Qed.

Lemma scan_PA_second v b rest acc : ist b = SPartA ->
  q_scan v ((ic b, ist b) :: rest) acc true false = q_scan v rest (acc ++ simplify v false (reverse (ic b))) true true.
Proof. intros H. simpl. now rewrite H. Qed.

(* the children in the stored order: empties, at most one partial child, full children, at most one partial child,
   empties; d = the frontier reads the children forwards (true) or backwards (false) *)
Definition side_ok (d first : bool) (v : nat) (x : item) : Prop :=
  ist x = SPartA /\ (if Bool.eqb d first then zeros_ones (wd v x) else ones_zeros (wd v x)) = true.

Definition Stored (d : bool) (v : nat) (T1 E1 Lp A Rp E3 : list item) : Prop :=
  T1 = E1 ++ Lp ++ A ++ Rp ++ E3 /\
  Forall (fun x => ist x = SEmpty) E1 /\ Forall (fun x => ist x = SEmpty) E3 /\ Forall (fun x => ist x = SFull) A /\
  (Lp = [] \/ exists a, Lp = [a] /\ side_ok d true v a) /\ (Rp = [] \/ exists b, Rp = [b] /\ side_ok d false v b).

(* the result of the scan on such a list *)
Lemma scan_stored d v T1 E1 Lp A Rp E3 : Stored d v T1 E1 Lp A Rp E3 -> (Rp = [] \/ Lp <> [] \/ A <> []) ->
  q_scan v (pairs T1) [] false false =
  Ok (map ic E1 ++ match Lp with [a] => simplify v true (ic a) | _ => [] end ++ map ic A ++
      match Rp with [b] => simplify v false (reverse (ic b)) | _ => [] end ++ map ic E3,
      match Rp with [] => match E3 with [] => false | _ => match Lp, A with [], [] => false | _, _ => true end end | _ => true end).
Proof.
  intros (-> & HE1 & HE3 & HA & HL & HR) Hsn.
  replace (E1 ++ Lp ++ A ++ Rp ++ E3) with (E1 ++ Lp ++ A ++ Rp ++ E3 ++ []) by now rewrite app_nil_r.
  rewrite !pairs_app, (scan_E_false v E1 _ [] false HE1). cbn [app].
  destruct HL as [->|(a & -> & Ha & _)]; destruct HR as [->|(b & -> & Hb & _)]; cbn [pairs map app].
  - rewrite (scan_F v A _ _ false HA). cbn [pairs map app]. destruct A as [|a0 A'].
    + rewrite (scan_E_false v E3 _ _ false HE3). simpl. rewrite !app_nil_r. destruct E3; reflexivity.
    + rewrite (scan_E_true v E3 _ _ false HE3). simpl. rewrite <- !app_assoc. destruct E3; reflexivity.
  - rewrite (scan_F v A _ _ false HA). destruct A as [|a0 A']; [destruct Hsn as [H|[H|H]]; congruence|].
    rewrite scan_PA_second by exact Hb.
    rewrite (scan_E_true v E3 _ _ true HE3). simpl. rewrite <- !app_assoc. simpl.
    destruct E3; reflexivity.
  - rewrite scan_PA_first by exact Ha. rewrite (scan_F v A _ _ true HA).
    replace (match A with [] => true | _ :: _ => true end) with true by now destruct A.
    cbn [pairs map app]. rewrite (scan_E_true v E3 _ _ false HE3). simpl. rewrite <- !app_assoc. destruct E3; reflexivity.
  - rewrite scan_PA_first by exact Ha. rewrite (scan_F v A _ _ true HA).
    replace (match A with [] => true | _ :: _ => true end) with true by now destruct A.
    rewrite scan_PA_second by exact Hb.
    rewrite (scan_E_true v E3 _ _ true HE3). simpl. rewrite <- !app_assoc. simpl.
    destruct E3; reflexivity.
Qed.

(* the shape of a list of children read in the order of the frontier *)
Definition RRun (v : nat) (L W1 Lp A Rp W3 : list item) : Prop :=
  L = W1 ++ Lp ++ A ++ Rp ++ W3 /\
  Forall (fun x => ist x = SEmpty) W1 /\ Forall (fun x => ist x = SEmpty) W3 /\ Forall (fun x => ist x = SFull) A /\
  (Lp = [] \/ exists a, Lp = [a] /\ ist a = SPartA /\ zeros_ones (wd v a) = true) /\
  (Rp = [] \/ exists b, Rp = [b] /\ ist b = SPartA /\ ones_zeros (wd v b) = true).

Definition ROne (L W1 : list item) (x : item) (W3 : list item) : Prop :=
  L = W1 ++ [x] ++ W3 /\ Forall (fun x => ist x = SEmpty) W1 /\ Forall (fun x => ist x = SEmpty) W3 /\
  (ist x = SPartA \/ ist x = SPartU).

Lemma rshape v L : Forall (GoodItem v) L -> Shape (wd v) L ->
  (exists W1 Lp A Rp W3, RRun v L W1 Lp A Rp W3) \/ (exists W1 x W3, ROne L W1 x W3).
Proof.
  intros HG' Hshape. destruct Hshape as [l Haz|W1 w W3 H1 H3 Hc Hz|W1 w A R W3 H1 H3 HA Hzo Hz HR].
  - left. exists l, [], [], [], []. pose proof (az_items v l HG' Haz) as HE.
    split; [now rewrite !app_nil_r|]. repeat split; auto.
  - assert (HGs : Forall (GoodItem v) W1 /\ GoodItem v w /\ Forall (GoodItem v) W3).
    { apply Forall_app in HG'. destruct HG' as [Ha Hb]. inversion Hb; subst. auto. }
    destruct HGs as (HG1 & HGw & HG3).
    pose proof (az_items v W1 HG1 H1) as HE1. pose proof (az_items v W3 HG3 H3) as HE3.
    pose proof (item_class v w HGw) as Cw. destruct (ist w) eqn:Ew.
    + left. exists W1, [], [w], [], W3. split; [reflexivity|]. repeat split; auto.
    + destruct Cw. congruence.
    + right. exists W1, w, W3. repeat split; auto.
    + right. exists W1, w, W3. repeat split; auto.
  - assert (HGs : Forall (GoodItem v) W1 /\ GoodItem v w /\ Forall (GoodItem v) A /\ Forall (GoodItem v) R /\ Forall (GoodItem v) W3).
    { apply Forall_app in HG'. destruct HG' as [Ha Hb]. inversion Hb as [|? ? Hw Hb']; subst.
      apply Forall_app in Hb'. destruct Hb' as [Hb1 Hb2]. apply Forall_app in Hb2. destruct Hb2. auto. }
    destruct HGs as (HG1 & HGw & HGA & HGR & HG3).
    pose proof (az_items v W1 HG1 H1) as HE1. pose proof (az_items v W3 HG3 H3) as HE3.
    pose proof (ao_items v A HGA HA) as HFA.
    assert (HR' : R = [] \/ exists w', R = [w'] /\ ist w' = SPartA /\ ones_zeros (wd v w') = true).
    { destruct HR as [->|(w' & -> & Ho & Hno & Hnz)]; [now left|]. right. exists w'. split; [reflexivity|].
      inversion HGR as [|? ? HGw' _]; subst. pose proof (item_class v w' HGw') as Cw. split; [|exact Ho].
      destruct (ist w') eqn:Ew; auto; try (destruct Cw; congruence).
      exfalso. exact (U2_not_oz v w' HGw' Ew Ho). }
    left. pose proof (item_class v w HGw) as Cw. destruct (ist w) eqn:Ew.
    + exists W1, [], (w :: A), R, W3. split; [reflexivity|]. repeat split; auto.
    + destruct Cw. congruence.
    + exists W1, [w], A, R, W3. split; [reflexivity|]. repeat split; auto. right. exists w. auto.
    + exfalso. exact (U2_not_zo v w HGw Ew Hzo).
Qed.

(* which branch Q.set_contiguous takes after the possible reversal *)
Lemma q_body_when v cs seq :
  let n := length cs in
  let nF := count_st SFull seq in let nE := count_st SEmpty seq in
  let nPA := count_st SPartA seq in let nPU := count_st SPartU seq in
  nPA <= 2 -> (nPU = 0 \/ S nE = n) ->
  (nF = n -> q_body v cs seq = Ok (Node KQ cs, SFull)) /\
  (nF <> n -> nE = n -> q_body v cs seq = Ok (Node KQ cs, SEmpty)) /\
  (nF <> n -> nE <> n -> nPU = 1 -> q_body v cs seq = Ok (Node KQ cs, SPartU)) /\
  (nF <> n -> nE <> n -> nPU <> 1 -> nPA = 1 -> S nE = n ->
     q_body v cs seq = Ok (Node KQ cs, if status_eqb (last seq SFull) SPartA then SPartA else SPartU)) /\
  (nF <> n -> nE <> n -> nPU <> 1 -> ~ (nPA = 1 /\ S nE = n) ->
     q_body v cs seq = match q_scan v (combine cs seq) [] false false with
                       | Err e => Err e
                       | Ok (new_children, sre) => Ok (Node KQ new_children, if sre then SPartU else SPartA)
                       end).
Proof.
  intros n nF nE nPA nPU H1 H2. unfold q_body. fold n nF nE nPA nPU. cbv zeta.
  assert (Eimp : impossible n nE nPA nPU = false).
  { unfold impossible. apply orb_false_iff. split; [apply Nat.ltb_ge; lia|].
    destruct H2 as [H2|H2]; [rewrite H2; reflexivity|]. apply andb_false_iff. right. apply negb_false_iff, Nat.eqb_eq. exact H2. }
  rewrite Eimp. repeat split.
  - intros E. apply Nat.eqb_eq in E. now rewrite E.
  - intros E1 E2. apply Nat.eqb_neq in E1. apply Nat.eqb_eq in E2. now rewrite E1, E2.
  - intros E1 E2 E3. apply Nat.eqb_neq in E1, E2. apply Nat.eqb_eq in E3. now rewrite E1, E2, E3.
  - intros E1 E2 E3 E4 E5. apply Nat.eqb_neq in E1, E2, E3. apply Nat.eqb_eq in E4, E5. now rewrite E1, E2, E3, E4, E5.
  - intros E1 E2 E3 E4. apply Nat.eqb_neq in E1, E2, E3. rewrite E1, E2, E3.
    assert (E45 : (nPA =? 1) && (S nE =? n) = false).
    { destruct (Nat.eqb_spec nPA 1), (Nat.eqb_spec (S nE) n); simpl; auto. tauto. }
    now rewrite E45.
Qed.

Lemma Ord_items_Forall v l : Forall (GoodItem v) l -> Forall (fun x => Ord (ic x) (ib x)) l.
Proof. intros H. eapply Forall_impl; [|exact H]. intros x Hx. apply Hx. Qed.

(* o is a frontier of the Q-node on the children, read forwards or backwards *)
Lemma frontier_Q v T1 (d : bool) : Forall (GoodItem v) T1 ->
  Ord (Node KQ (map ic T1)) (flat_map ib (if d then T1 else rev T1)).
Proof.
  intros HG. apply Ord_Q. destruct d; [left|right].
  - apply OrdL_items. now apply (Ord_items_Forall v).
  - rewrite <- map_rev. apply OrdL_items. apply (Ord_items_Forall v). now apply Forall_rev.
Qed.

Lemma OrdL_app2 a b oa ob : OrdL a oa -> OrdL b ob -> OrdL (a ++ b) (oa ++ ob).
Proof. intros H1 H2. apply OrdL_app. eauto. Qed.

(* the children produced by the scan represent the frontier *)
Lemma stored_frontier v d T1 E1 Lp A Rp E3 : Forall (GoodItem v) T1 -> Stored d v T1 E1 Lp A Rp E3 ->
  Ord (Node KQ (map ic E1 ++ match Lp with [a] => simplify v true (ic a) | _ => [] end ++ map ic A ++
                match Rp with [b] => simplify v false (reverse (ic b)) | _ => [] end ++ map ic E3))
      (flat_map ib (if d then T1 else rev T1)).
Proof.
  intros HG (-> & HE1 & HE3 & HA & HL & HR).
  assert (HGs : Forall (GoodItem v) E1 /\ Forall (GoodItem v) Lp /\ Forall (GoodItem v) A /\ Forall (GoodItem v) Rp /\ Forall (GoodItem v) E3).
  { apply Forall_app in HG. destruct HG as [G1 G]. apply Forall_app in G. destruct G as [G2 G].
    apply Forall_app in G. destruct G as [G3 G]. apply Forall_app in G. destruct G as [G4 G5]. auto. }
  destruct HGs as (G1 & G2 & G3 & G4 & G5).
  set (La := match Lp with [a] => simplify v true (ic a) | _ => [] end).
  set (Lb := match Rp with [b] => simplify v false (reverse (ic b)) | _ => [] end).
  apply Ord_Q. destruct d.
  - left. rewrite !flat_map_app.
    apply OrdL_app2; [apply OrdL_items; now apply (Ord_items_Forall v)|].
    apply OrdL_app2.
    { unfold La. destruct HL as [->|(a & -> & Ha & Hs)]; [now apply OrdL_nil|]. simpl in Hs. simpl flat_map. rewrite app_nil_r.
      inversion G2; subst. now apply (PA_pieces v a). }
    apply OrdL_app2; [apply OrdL_items; now apply (Ord_items_Forall v)|].
    apply OrdL_app2; [|apply OrdL_items; now apply (Ord_items_Forall v)].
    unfold Lb. destruct HR as [->|(b & -> & Hb & Hs)]; [now apply OrdL_nil|]. simpl in Hs. simpl flat_map. rewrite app_nil_r.
    inversion G4; subst. now apply (PA_pieces_rev v b).
  - right. rewrite !rev_app_distr, <- !app_assoc, !flat_map_app, <- !map_rev.
    apply OrdL_app2; [apply OrdL_items, (Ord_items_Forall v); now apply Forall_rev|].
    apply OrdL_app2.
    { unfold Lb. destruct HR as [->|(b & -> & Hb & Hs)]; [now apply OrdL_nil|]. simpl in Hs. simpl flat_map. rewrite app_nil_r.
      inversion G4; subst. now apply (PA_pieces_rev v b). }
    apply OrdL_app2; [apply OrdL_items, (Ord_items_Forall v); now apply Forall_rev|].
    apply OrdL_app2; [|apply OrdL_items, (Ord_items_Forall v); now apply Forall_rev].
    unfold La. destruct HL as [->|(a & -> & Ha & Hs)]; [now apply OrdL_nil|]. simpl in Hs. simpl flat_map. rewrite app_nil_r.
    inversion G2; subst. now apply (PA_pieces v a).
Qed.

Lemma ends_decomp {X} (x y : X) pre' m suf' : (x :: pre') ++ m ++ (suf' ++ [y]) = x :: (pre' ++ m ++ suf') ++ [y].
Proof. simpl. now rewrite <- !app_assoc. Qed.

Lemma item_E_pure v x : GoodItem v x -> ist x = SEmpty -> proper (ic x) = true /\ PureE v (ic x).
Proof. intros (Hp & HS & _) E. rewrite E in HS. auto. Qed.

(* the pieces of an aligned partial child begin with a block without v; those of its reversal end with one *)
Lemma PA_first_E v a : GoodItem v a -> ist a = SPartA ->
  exists x r, simplify v true (ic a) = x :: r /\ proper x = true /\ PureE v x /\ Forall (fun c => proper c = true) r.
Proof.
  intros (Hp & HS & _) Ha. rewrite Ha in HS. destruct HS as [HA HP].
  pose proof (simplify_spec false v (ic a) HA Hp) as S0. simpl negb in S0.
  destruct (SimpOK_both false v _ _ Hp HP S0) as (e0 & f0 & Hne0 & _ & HE0 & _ & Hpp0 & EL0).
  destruct e0 as [|x e0']; [congruence|]. exists x, (e0' ++ f0). rewrite EL0. simpl.
  inversion Hpp0; subst. inversion HE0; subst. auto.
Qed.

Lemma PA_last_E v b : GoodItem v b -> ist b = SPartA ->
  exists r y, simplify v false (reverse (ic b)) = r ++ [y] /\ proper y = true /\ PureE v y /\ Forall (fun c => proper c = true) r.
Proof.
  intros (Hp & HS & _) Hb. rewrite Hb in HS. destruct HS as [HA HP].
  assert (Hpr : proper (reverse (ic b)) = true) by now rewrite proper_reverse.
  pose proof (simplify_spec true v _ (Al_reverse v _ HA) Hpr) as S1. simpl negb in S1.
  destruct (SimpOK_both true v _ _ Hpr (Partial_reverse v _ HP) S1) as (e1 & f1 & Hne1 & _ & HE1 & _ & Hpp1 & EL1).
  destruct (exists_last Hne1) as (e1' & y & ->). exists (f1 ++ e1'), y. rewrite EL1, <- app_assoc.
  apply Forall_app in Hpp1. destruct Hpp1 as [Hpe Hpf]. apply Forall_app in Hpe. destruct Hpe as [Hpe Hpy]. inversion Hpy; subst.
  apply Forall_app in HE1. destruct HE1 as [_ HEy]. inversion HEy; subst.
  repeat split; auto. apply Forall_app. auto.
Qed.

Lemma simplify_proper_PA v a : GoodItem v a -> ist a = SPartA ->
  Forall (fun c => proper c = true) (simplify v true (ic a)) /\
  Forall (fun c => proper c = true) (simplify v false (reverse (ic a))).
Proof.
  intros (Hp & HS & _) Ha. rewrite Ha in HS. destruct HS as [HA HP]. split.
  - apply (simplify_spec false v (ic a) HA Hp).
  - assert (Hpr : proper (reverse (ic a)) = true) by now rewrite proper_reverse.
    apply (simplify_spec true v _ (Al_reverse v _ HA) Hpr).
Qed.

(* the result of the scan is UNALIGNED-like when it begins and ends with children without v *)
Lemma stored_U2 v d T1 E1 Lp A Rp E3 : Forall (GoodItem v) T1 -> Stored d v T1 E1 Lp A Rp E3 ->
  (E1 <> [] \/ Lp <> []) -> (E3 <> [] \/ Rp <> []) ->
  U2 v (Node KQ (map ic E1 ++ match Lp with [a] => simplify v true (ic a) | _ => [] end ++ map ic A ++
                 match Rp with [b] => simplify v false (reverse (ic b)) | _ => [] end ++ map ic E3)).
Proof.
  intros HG (-> & HE1 & HE3 & HA & HL & HR) Hfirst Hlast.
  assert (HGs : Forall (GoodItem v) E1 /\ Forall (GoodItem v) Lp /\ Forall (GoodItem v) A /\ Forall (GoodItem v) Rp /\ Forall (GoodItem v) E3).
  { apply Forall_app in HG. destruct HG as [G1 G]. apply Forall_app in G. destruct G as [G2 G].
    apply Forall_app in G. destruct G as [G3 G]. apply Forall_app in G. destruct G as [G4 G5]. auto. }
  destruct HGs as (G1 & G2 & G3 & G4 & G5).
  assert (Hpitems : forall l, Forall (GoodItem v) l -> Forall (fun c => proper c = true) (map ic l)).
  { intros l Hl. apply Forall_map. eapply Forall_impl; [|exact Hl]. intros x Hx. apply Hx. }
  set (La := match Lp with [a] => simplify v true (ic a) | _ => [] end).
  set (Lb := match Rp with [b] => simplify v false (reverse (ic b)) | _ => [] end).
  assert (HpLa : Forall (fun c => proper c = true) La).
  { unfold La. destruct HL as [->|(a & -> & [Ha _])]; [constructor|]. inversion G2; subst. now apply (simplify_proper_PA v a). }
  assert (HpLb : Forall (fun c => proper c = true) Lb).
  { unfold Lb. destruct HR as [->|(b & -> & [Hb _])]; [constructor|]. inversion G4; subst. now apply (simplify_proper_PA v b). }
  (* the front *)
  assert (Hpre : exists x pre', map ic E1 ++ La = x :: pre' /\ proper x = true /\ PureE v x /\ Forall (fun c => proper c = true) pre').
  { destruct E1 as [|e E1'].
    - destruct Hfirst as [H|H]; [congruence|]. destruct HL as [->|(a & -> & [Ha _])]; [congruence|].
      inversion G2; subst. destruct (PA_first_E v a) as (x & r & E & Hx1 & Hx2 & Hr); auto.
      exists x, r. unfold La. simpl. auto.
    - inversion G1; subst. inversion HE1; subst. destruct (item_E_pure v e) as [Hx1 Hx2]; auto.
      exists (ic e), (map ic E1' ++ La). simpl. repeat split; auto. apply Forall_app. split; auto. }
  assert (Hsuf : exists suf' y, Lb ++ map ic E3 = suf' ++ [y] /\ proper y = true /\ PureE v y /\ Forall (fun c => proper c = true) suf').
  { destruct (E3) as [|e0 E3'] eqn:EE3.
    - destruct Hlast as [H|H]; [congruence|]. destruct HR as [->|(b & -> & [Hb _])]; [congruence|].
      inversion G4; subst. destruct (PA_last_E v b) as (r & y & E & Hy1 & Hy2 & Hr); auto.
      exists r, y. unfold Lb. simpl. rewrite app_nil_r. auto.
    - assert (Hne : E3 <> []) by (rewrite EE3; discriminate). rewrite <- EE3 in *.
      destruct (exists_last Hne) as (E3'' & e & Eq). rewrite Eq in *.
      apply Forall_app in G5. destruct G5 as [G5a G5b]. inversion G5b; subst.
      apply Forall_app in HE3. destruct HE3 as [HE3a HE3b]. inversion HE3b; subst.
      destruct (item_E_pure v e) as [Hy1 Hy2]; auto.
      exists (Lb ++ map ic E3''), (ic e). rewrite map_app. simpl. rewrite app_assoc. repeat split; auto.
      apply Forall_app. split; auto. }
  destruct Hpre as (x & pre' & Epre & Hx1 & Hx2 & Hpre'). destruct Hsuf as (suf' & y & Esuf & Hy1 & Hy2 & Hsuf').
  replace (map ic E1 ++ La ++ map ic A ++ Lb ++ map ic E3) with ((map ic E1 ++ La) ++ map ic A ++ (Lb ++ map ic E3))
    by (rewrite <- !app_assoc; reflexivity).
  rewrite Epre, Esuf, ends_decomp. apply U2_Q_ends; auto.
  apply Forall_app. split; [exact Hpre'|]. apply Forall_app. split; [now apply Hpitems|exact Hsuf'].
Qed.

Lemma last_map_app_cons {X Y} (f : X -> Y) l x d : last (map f (l ++ [x])) d = f x.
Proof. rewrite map_app. simpl. apply last_app_ne. discriminate. Qed.

(* Q-node: one partial child among children without v *)
Lemma q_single v T1 (d : bool) E1 x E3 :
  2 <= length T1 -> Forall (GoodItem v) T1 -> T1 = E1 ++ [x] ++ E3 ->
  Forall (fun y => ist y = SEmpty) E1 -> Forall (fun y => ist y = SEmpty) E3 -> (ist x = SPartA \/ ist x = SPartU) ->
  (hd SFull (map ist T1) = SEmpty \/ last (map ist T1) SFull <> SEmpty) ->
  exists t' st, q_body v (map ic T1) (map ist T1) = Ok (t', st) /\
                Ord t' (flat_map ib (if d then T1 else rev T1)) /\ (st = SPartU -> U2 v t').
Proof.
  intros Hn HG ET HE1 HE3 Hx NF1.
  pose proof (q_body_when v (map ic T1) (map ist T1)) as W. cbv zeta in W. rewrite map_length in W.
  change (count_st SFull (map ist T1)) with (cnt SFull T1) in W. change (count_st SEmpty (map ist T1)) with (cnt SEmpty T1) in W.
  change (count_st SPartA (map ist T1)) with (cnt SPartA T1) in W. change (count_st SPartU (map ist T1)) with (cnt SPartU T1) in W.
  assert (HGs : Forall (GoodItem v) E1 /\ GoodItem v x /\ Forall (GoodItem v) E3).
  { rewrite ET in HG. apply Forall_app in HG. destruct HG as [Ha Hb]. inversion Hb; subst. auto. }
  destruct HGs as (G1 & Gx & G3).
  assert (Hlen : length T1 = length E1 + S (length E3)) by (rewrite ET, app_length; reflexivity).
  assert (Hc : forall s, cnt s T1 = (if status_eqb s SEmpty then length E1 else 0) + ((if status_eqb s (ist x) then 1 else 0) +
                                    (if status_eqb s SEmpty then length E3 else 0))).
  { intros s. rewrite ET, cnt_app. simpl app. rewrite cnt_cons, (cnt_E_list _ E1 HE1), (cnt_E_list _ E3 HE3). reflexivity. }
  rewrite !Hc, Hlen in W. rewrite Hlen in Hn.
  assert (Hunch : forall st, p_cases v [] [] = p_cases v [] [] -> (st <> SPartU \/ U2 v (Node KQ (map ic T1))) ->
            q_body v (map ic T1) (map ist T1) = Ok (Node KQ (map ic T1), st) ->
            exists t' st', q_body v (map ic T1) (map ist T1) = Ok (t', st') /\
                           Ord t' (flat_map ib (if d then T1 else rev T1)) /\ (st' = SPartU -> U2 v t')).
  { intros st _ Hst E. exists (Node KQ (map ic T1)), st. split; [exact E|]. split; [now apply (frontier_Q v)|].
    intros ->. destruct Hst; [congruence|assumption]. }
  destruct Hx as [Ex|Ex]; rewrite Ex in W; simpl in W.
  - (* aligned partial *)
    destruct W as (_ & _ & _ & Wd & _); [lia|now left|].
    assert (Eq := Wd ltac:(lia) ltac:(lia) ltac:(lia) eq_refl ltac:(lia)).
    destruct (status_eqb (last (map ist T1) SFull) SPartA) eqn:EL.
    + apply (Hunch SPartA eq_refl); [left; discriminate|exact Eq].
    + apply (Hunch SPartU eq_refl); [|exact Eq]. right.
      (* the partial child is not the last one: children without v at both ends *)
      destruct E3 as [|e3 E3'] using rev_ind.
      { exfalso. rewrite ET in EL. rewrite app_nil_r, last_map_app_cons, Ex in EL. discriminate. }
      clear IHE3'. assert (Hl : last (map ist T1) SFull = SEmpty).
      { rewrite ET. rewrite !app_assoc, last_map_app_cons. apply Forall_app in HE3. destruct HE3 as [_ H]. now inversion H. }
      destruct NF1 as [NF1|NF1]; [|congruence].
      destruct E1 as [|e1 E1'].
      { exfalso. rewrite ET in NF1. simpl in NF1. congruence. }
      assert (G1' : Forall (GoodItem v) E1') by (inversion G1; auto).
      inversion G1; subst. inversion HE1; subst. apply Forall_app in G3. destruct G3 as [G3a G3b]. inversion G3b; subst.
      apply Forall_app in HE3. destruct HE3 as [HE3a HE3b]. inversion HE3b; subst.
      destruct (item_E_pure v e1) as [Hp1 HP1]; auto. destruct (item_E_pure v e3) as [Hp3 HP3]; auto.
      assert (Emap : map ic ((e1 :: E1') ++ [x] ++ E3' ++ [e3]) = ic e1 :: map ic (E1' ++ [x] ++ E3') ++ [ic e3]).
      { repeat (rewrite ?map_app; simpl). rewrite <- ?app_assoc. reflexivity. }
      rewrite Emap. apply U2_Q_ends; auto.
      apply Forall_map. apply Forall_app. split; [|constructor].
      * eapply Forall_impl; [|exact G1']. intros y Hy. apply Hy.
      * apply Gx.
      * eapply Forall_impl; [|exact G3a]. intros y Hy. apply Hy.
  - (* unaligned partial *)
    destruct W as (_ & _ & Wc & _); [lia|right; lia|].
    assert (Eq := Wc ltac:(lia) ltac:(lia) eq_refl).
    apply (Hunch SPartU eq_refl); [|exact Eq]. right.
    apply U2_children; [destruct T1; [simpl in *; lia|discriminate]|].
    apply Forall_map. rewrite ET. apply Forall_app. split; [|constructor].
    + apply Forall_forall. intros y Hy. rewrite Forall_forall in G1, HE1. destruct (item_E_pure v y); auto.
    + destruct Gx as (Hp & _ & _ & HU). auto.
    + apply Forall_forall. intros y Hy. rewrite Forall_forall in G3, HE3. destruct (item_E_pure v y); auto.
Qed.

(* from the shape in reading order to the stored order *)
Lemma stored_of_rrun v (d : bool) T1 W1 Lp A Rp W3 :
  RRun v (if d then T1 else rev T1) W1 Lp A Rp W3 ->
  exists E1 Lp' A' Rp' E3, Stored d v T1 E1 Lp' A' Rp' E3.
Proof.
  intros (EL & HE1 & HE3 & HA & HL & HR). destruct d.
  - exists W1, Lp, A, Rp, W3. split; [exact EL|]. split; [exact HE1|]. split; [exact HE3|]. split; [exact HA|]. split.
    + destruct HL as [->|(a & -> & Ha & Hs)]; [now left|right; exists a; repeat split; auto].
    + destruct HR as [->|(b & -> & Hb & Hs)]; [now left|right; exists b; repeat split; auto].
  - exists (rev W3), (rev Rp), (rev A), (rev Lp), (rev W1). split; [|split; [|split; [|split; [|split]]]].
    + rewrite <- (rev_involutive T1), EL, !rev_app_distr, <- !app_assoc. reflexivity.
    + now apply Forall_rev.
    + now apply Forall_rev.
    + now apply Forall_rev.
    + destruct HR as [->|(b & -> & Hb & Hs)]; [now left|right; exists b; repeat split; auto].
    + destruct HL as [->|(a & -> & Ha & Hs)]; [now left|right; exists a; repeat split; auto].
Qed.

Lemma one_of_rone (d : bool) T1 W1 x W3 :
  ROne (if d then T1 else rev T1) W1 x W3 ->
  exists E1 E3, T1 = E1 ++ [x] ++ E3 /\ Forall (fun y => ist y = SEmpty) E1 /\ Forall (fun y => ist y = SEmpty) E3 /\
                (ist x = SPartA \/ ist x = SPartU).
Proof.
  intros (EL & HE1 & HE3 & Hx). destruct d.
  - exists W1, W3. auto.
  - exists (rev W3), (rev W1). split; [|split; [|split]]; auto using Forall_rev.
    rewrite <- (rev_involutive T1), EL, !rev_app_distr, <- !app_assoc. reflexivity.
Qed.

Theorem q_body_complete v T1 (d : bool) :
  2 <= length T1 -> Forall (GoodItem v) T1 -> Interval (fun s => In v s) (flat_map ib (if d then T1 else rev T1)) ->
  (hd SFull (map ist T1) = SEmpty \/ last (map ist T1) SFull <> SEmpty) ->
  (hd SFull (map ist T1) = SEmpty \/
   (exists a Fs, T1 = a :: Fs /\ ist a = SPartA /\ Forall (fun x => ist x = SFull) Fs) \/
   ~ (last (map ist T1) SFull = SPartA /\ S (cnt SFull T1) = length T1)) ->
  exists t' st, q_body v (map ic T1) (map ist T1) = Ok (t', st) /\
                Ord t' (flat_map ib (if d then T1 else rev T1)) /\ (st = SPartU -> U2 v t').
Proof.
  intros Hn HG Hint NF1 NF2.
  set (L := if d then T1 else rev T1) in *.
  assert (HGL : Forall (GoodItem v) L) by (unfold L; destruct d; [exact HG|now apply Forall_rev]).
  assert (Hshape : Shape (wd v) L).
  { apply shape.
    - eapply Forall_impl; [|exact HGL]. intros x. apply wd_nonempty.
    - rewrite flat_map_wd. now apply wv_contig. }
  destruct (rshape v L HGL Hshape) as [(W1 & Lp0 & A0 & Rp0 & W3 & HR)|(W1 & x & W3 & HO)].
  2:{ destruct (one_of_rone d T1 W1 x W3 HO) as (E1 & E3 & ET & HE1 & HE3 & Hx). now apply (q_single v T1 d E1 x E3). }
  destruct (stored_of_rrun v d T1 W1 Lp0 A0 Rp0 W3 HR) as (E1 & Lp & A & Rp & E3 & HS).
  pose proof HS as (ET & HE1 & HE3 & HA & HL & HRp).
  (* one partial child and no full child: the previous lemma *)
  assert (Hsingle : A = [] -> (Lp = [] /\ Rp <> [] \/ Lp <> [] /\ Rp = []) ->
            exists t' st, q_body v (map ic T1) (map ist T1) = Ok (t', st) /\ Ord t' (flat_map ib L) /\ (st = SPartU -> U2 v t')).
  { intros -> Hone. destruct Hone as [[-> HRne]|[HLne ->]].
    - destruct HRp as [->|(b & -> & [Hb _])]; [congruence|].
      apply (q_single v T1 d E1 b E3); auto; try (rewrite ET; simpl; now rewrite ?app_nil_r).
    - destruct HL as [->|(a & -> & [Ha _])]; [congruence|].
      apply (q_single v T1 d E1 a E3); auto; try (rewrite ET; simpl; now rewrite ?app_nil_r). }
  pose proof (q_body_when v (map ic T1) (map ist T1)) as W. cbv zeta in W. rewrite map_length in W.
  change (count_st SFull (map ist T1)) with (cnt SFull T1) in W. change (count_st SEmpty (map ist T1)) with (cnt SEmpty T1) in W.
  change (count_st SPartA (map ist T1)) with (cnt SPartA T1) in W. change (count_st SPartU (map ist T1)) with (cnt SPartU T1) in W.
  assert (HcL : forall s, cnt s Lp = if status_eqb s SPartA then length Lp else 0).
  { intros s. destruct HL as [->|(a & -> & [Ha _])]; [now destruct s|]. rewrite cnt_cons, Ha, cnt_nil. destruct s; reflexivity. }
  assert (HcR : forall s, cnt s Rp = if status_eqb s SPartA then length Rp else 0).
  { intros s. destruct HRp as [->|(b & -> & [Hb _])]; [now destruct s|]. rewrite cnt_cons, Hb, cnt_nil. destruct s; reflexivity. }
  assert (HlL : length Lp <= 1) by (destruct HL as [->|(a & -> & _)]; simpl; lia).
  assert (HlR : length Rp <= 1) by (destruct HRp as [->|(b & -> & _)]; simpl; lia).
  assert (Hc : forall s, cnt s T1 = (if status_eqb s SEmpty then length E1 else 0) + ((if status_eqb s SPartA then length Lp else 0) +
              ((if status_eqb s SFull then length A else 0) + ((if status_eqb s SPartA then length Rp else 0) +
               (if status_eqb s SEmpty then length E3 else 0))))).
  { intros s. rewrite ET, !cnt_app, (cnt_E_list _ E1 HE1), (cnt_E_list _ E3 HE3), (cnt_F_list _ A HA), HcL, HcR. reflexivity. }
  assert (Hlen : length T1 = length E1 + (length Lp + (length A + (length Rp + length E3)))) by (rewrite ET, !app_length; reflexivity).
  rewrite !Hc, Hlen in W. simpl in W. rewrite Hlen in Hn.
  assert (Hunch : forall st, st <> SPartU ->
            q_body v (map ic T1) (map ist T1) = Ok (Node KQ (map ic T1), st) ->
            exists t' st', q_body v (map ic T1) (map ist T1) = Ok (t', st') /\ Ord t' (flat_map ib L) /\ (st' = SPartU -> U2 v t')).
  { intros st Hst E. exists (Node KQ (map ic T1)), st. split; [exact E|]. split; [now apply (frontier_Q v)|]. intros ->. congruence. }
  destruct W as (Wa & Wb & _ & _ & We); [lia|now left|].
  destruct (Nat.eq_dec (length A) (length E1 + (length Lp + (length A + (length Rp + length E3))))) as [EF|EF].
  { apply (Hunch SFull); [discriminate|]. apply Wa. lia. }
  destruct (Nat.eq_dec (length E1 + length E3) (length E1 + (length Lp + (length A + (length Rp + length E3))))) as [EE|EE].
  { apply (Hunch SEmpty); [discriminate|]. apply Wb; lia. }
  destruct (Nat.eq_dec (length Lp + (length A + length Rp)) (length Lp + length Rp)) as [EA0|EA0];
    [destruct (Nat.eq_dec (length Lp + length Rp) 1) as [E1p|E1p]|].
  { (* one partial child, no full child *)
    apply Hsingle; [apply length_zero_nil; lia|]. destruct Lp, Rp; simpl in *; try lia; [left|right]; split; auto; discriminate. }
  all: (* the scan *)
    assert (Hsn : Rp = [] \/ Lp <> [] \/ A <> []) by
      (destruct Rp; [now left|right]; destruct Lp; [right; destruct A; [simpl in *; lia|discriminate]|left; discriminate]);
    pose proof (scan_stored d v T1 E1 Lp A Rp E3 HS Hsn) as Hscan;
    assert (Eq := We ltac:(lia) ltac:(lia) ltac:(lia) ltac:(lia));
    rewrite combine_pairs, Hscan in Eq;
    eexists _, _; (split; [exact Eq|]); (split; [now apply (stored_frontier v d T1 E1 Lp A Rp E3)|]);
    intros Hst;
    (* UNALIGNED: children without v at both ends *)
    (assert (Hsre : Rp <> [] \/ (E3 <> [] /\ (Lp <> [] \/ A <> []))) by
       (destruct Rp; [|left; discriminate]; right; destruct E3; [discriminate|]; split; [discriminate|];
        destruct Lp; [|left; discriminate]; destruct A; [discriminate|right; discriminate]));
    apply (stored_U2 v d T1 E1 Lp A Rp E3 HG HS); [|destruct Hsre as [H|[H _]]; auto];
    (destruct E1 as [|e1 E1']; [|left; discriminate]); (destruct Lp as [|a Lp']; [|right; discriminate]); exfalso;
    (* the first child is full: excluded by the normal form of the stored order *)
    (destruct A as [|a0 A']; [simpl in *; lia|]);
    (assert (Hhd : hd SFull (map ist T1) = SFull) by (rewrite ET; simpl; inversion HA; auto));
    (destruct NF1 as [NF1|NF1]; [congruence|]);
    (assert (HE3nil : E3 = []) by
       (destruct E3 as [|e3 E3'] using rev_ind; [reflexivity|]; exfalso; apply NF1; rewrite ET, !app_assoc, last_map_app_cons;
        apply Forall_app in HE3; destruct HE3 as [_ H]; now inversion H));
    subst E3;
    (destruct HRp as [->|(b & -> & [Hb _])]; [destruct Hsre as [H|[H _]]; congruence|]);
    (destruct NF2 as [NF2|[(a' & Fs & Ea & Ha' & _)|NF2]];
      [congruence
      |rewrite ET in Ea; simpl in Ea; inversion Ea; subst; inversion HA; congruence
      |apply NF2; split;
        [rewrite ET; simpl app; rewrite ?app_nil_r, app_comm_cons, last_map_app_cons; exact Hb
        |rewrite Hc, Hlen; simpl; lia]]).
Qed.




Lemma hd_rev {X} (l : list X) d : hd d (rev l) = last l d.
Proof.
  induction l as [|x t IH] using rev_ind; [reflexivity|]. rewrite rev_app_distr. simpl. now rewrite last_app_ne by discriminate.
Qed.
Lemma last_rev {X} (l : list X) d : last (rev l) d = hd d l.
Proof. rewrite <- (rev_involutive l) at 2. now rewrite hd_rev. Qed.

Lemma cnt_all_inv s l : cnt s l = length l -> Forall (fun x => ist x = s) l.
Proof.
  induction l as [|x t IH]; intros H; [constructor|]. rewrite cnt_cons in H. simpl in H.
  assert (Hle : cnt s t <= length t) by (unfold cnt; rewrite <- (map_length ist t); apply count_st_le).
  destruct (status_eqb s (ist x)) eqn:E; [|lia]. apply status_eqb_eq in E. constructor; [now symmetry|]. apply IH. lia.
Qed.

(* Stage C: Q.set_contiguous after the two passes keeps every good frontier (read forwards or backwards) *)
Theorem q_cases_complete v T (d : bool) :
  2 <= length T -> Forall (GoodItem v) T -> Interval (fun s => In v s) (flat_map ib (if d then T else rev T)) ->
  exists t' st, q_cases v (map ic T) (map ist T) = Ok (t', st) /\
                Ord t' (flat_map ib (if d then T else rev T)) /\ (st = SPartU -> U2 v t').
Proof.
  intros Hn HG Hint. rewrite q_cases_body. cbv zeta. rewrite map_length.
  change (count_st SFull (map ist T)) with (cnt SFull T).
  destruct (status_eqb (last (map ist T) SFull) SEmpty || (status_eqb (last (map ist T) SFull) SPartA && (S (cnt SFull T) =? length T))) eqn:Eflip.
  - (* the children are reversed *)
    rewrite <- !map_rev.
    assert (Hn' : 2 <= length (rev T)) by now rewrite rev_length.
    assert (HG' : Forall (GoodItem v) (rev T)) by now apply Forall_rev.
    assert (Hint' : Interval (fun s => In v s) (flat_map ib (if negb d then rev T else rev (rev T)))).
    { rewrite rev_involutive. destruct d; exact Hint. }
    assert (Hres : exists t' st, q_body v (map ic (rev T)) (map ist (rev T)) = Ok (t', st) /\
                     Ord t' (flat_map ib (if negb d then rev T else rev (rev T))) /\ (st = SPartU -> U2 v t')).
    { apply (q_body_complete v (rev T) (negb d) Hn' HG' Hint').
      - rewrite map_rev, hd_rev, last_rev. apply orb_true_iff in Eflip. destruct Eflip as [E|E].
        + left. now apply status_eqb_eq.
        + right. apply andb_true_iff in E. destruct E as [E1 E2]. apply status_eqb_eq in E1. apply Nat.eqb_eq in E2.
          (* all the other children are full *)
          destruct T as [|x0 T0] using rev_ind; [simpl in Hn; lia|]. clear IHT0.
          rewrite last_map_app_cons in E1. rewrite cnt_app, cnt_cons, E1, cnt_nil, app_length in E2. simpl in E2.
          assert (HF : Forall (fun x => ist x = SFull) T0) by (apply cnt_all_inv; lia).
          rewrite app_length in Hn. simpl in Hn. destruct T0 as [|y T0']; [simpl in Hn; lia|]. inversion HF; subst. simpl. congruence.
      - rewrite map_rev, hd_rev, last_rev. apply orb_true_iff in Eflip. destruct Eflip as [E|E].
        + left. now apply status_eqb_eq.
        + right. left. apply andb_true_iff in E. destruct E as [E1 E2]. apply status_eqb_eq in E1. apply Nat.eqb_eq in E2.
          destruct T as [|x0 T0] using rev_ind; [simpl in Hn; lia|]. clear IHT0.
          rewrite last_map_app_cons in E1. rewrite cnt_app, cnt_cons, E1, cnt_nil, app_length in E2. simpl in E2.
          assert (HF : Forall (fun x => ist x = SFull) T0) by (apply cnt_all_inv; lia).
          exists x0, (rev T0). rewrite rev_app_distr. simpl. repeat split; auto. now apply Forall_rev. }
    destruct Hres as (t' & st & E & Ho & HU). exists t', st. split; [exact E|]. split; [|exact HU].
    rewrite rev_involutive in Ho. destruct d; exact Ho.
  - apply (q_body_complete v T d Hn HG Hint).
    + right. apply orb_false_iff in Eflip. destruct Eflip as [E _]. intros H. rewrite H in E. discriminate.
    + right. right. apply orb_false_iff in Eflip. destruct Eflip as [_ E]. intros [H1 H2].
      rewrite H1, H2, Nat.eqb_refl in E. discriminate.
Qed.

(* ------------------------------------------------------------------------------------------------ *)
(* Stage D: the step lemma for set_contiguous, by induction on the fuel *)
Lemma sublist_refl {X} (l : list X) : sublist l l.
Proof. induction l; [constructor|now apply sl_keep]. Qed.
Lemma sublist_app_r {X} (a b : list X) : sublist b (a ++ b).
Proof. induction a; simpl; [apply sublist_refl|now apply sl_skip]. Qed.
Lemma sublist_app_l {X} (a b : list X) : sublist a (a ++ b).
Proof. induction a; simpl; [apply sublist_nil_l|now apply sl_keep]. Qed.
Lemma sublist_trans_app {X} (x a b : list X) : sublist x b -> sublist x (a ++ b).
Proof. intros H. induction a; simpl; [exact H|now apply sl_skip]. Qed.

Lemma sublist_flat_map {X Y} (f : X -> list Y) l x : In x l -> sublist (f x) (flat_map f l).
Proof.
  induction l as [|y t IH]; simpl; [tauto|]. intros [->|H]; [apply sublist_app_l|]. apply sublist_trans_app. now apply IH.
Qed.

Lemma mapM_intro {X Y} (g : X -> result Y) l :
  Forall (fun x => exists y, g x = Ok y) l -> exists ys, mapM g l = Ok ys /\ Forall2 (fun x y => g x = Ok y) l ys.
Proof.
  induction 1 as [|x t (y & Hy) Ht (ys & E & F)]; simpl; [exists []; split; constructor|].
  exists (y :: ys). rewrite Hy. simpl. rewrite E. simpl. split; [reflexivity|constructor; auto].
Qed.

Lemma child_leaves k cs f : proper (Node k cs) = true -> length (ordering (Node k cs)) <= S f ->
  forall c, In c cs -> length (ordering c) <= f.
Proof.
  intros Hp Hlen c Hc. apply proper_node_iff in Hp. destruct Hp as [Hn Hpc]. simpl in Hlen.
  assert (Hsum : forall l : list pq, Forall (fun c => proper c = true) l -> length l <= length (flat_map ordering l)).
  { induction 1 as [|x l Hx Hl IHl]; simpl; [lia|]. rewrite app_length. apply proper_leaves in Hx.
    destruct (ordering x); [congruence|simpl; lia]. }
  apply in_split in Hc. destruct Hc as (l1 & l2 & ->). rewrite flat_map_app in Hlen. simpl in Hlen.
  rewrite !app_length in Hlen. apply Forall_app in Hpc. destruct Hpc as [Hp1 Hp2]. inversion Hp2; subst.
  pose proof (Hsum l1 Hp1). pose proof (Hsum l2 H2). rewrite app_length in Hn. simpl in Hn. lia.
Qed.

Definition StepFull : Prop :=
  forall f v t o, proper t = true -> length (ordering t) <= f -> Ord t o -> Interval (fun s => In v s) o ->
    exists t' st, set_contiguous f v t = Ok (t', st) /\ Ord t' o /\ (st = SPartU -> U2 v t').

(* the two passes over the children (cb = a child with its block of the frontier) *)
Lemma passes_complete f v :
  (forall t o, proper t = true -> length (ordering t) <= f -> Ord t o -> Interval (fun s => In v s) o ->
     exists t' st, set_contiguous f v t = Ok (t', st) /\ Ord t' o /\ (st = SPartU -> U2 v t')) ->
  forall CB : list (pq * list (list nat)),
    Forall (fun cb => proper (fst cb) = true /\ length (ordering (fst cb)) <= f /\ Ord (fst cb) (snd cb) /\
                      Interval (fun s => In v s) (snd cb)) CB ->
    exists cs1 res,
      mapM (fun c => rmap fst (set_contiguous f v c)) (map fst CB) = Ok cs1 /\ length cs1 = length CB /\
      mapM (set_contiguous f v) (map flat_ret cs1) = Ok res /\
      exists T : list item, map ic T = map fst res /\ map ist T = map snd res /\ Forall (GoodItem v) T /\
                            Forall2 (fun cb x => ib x = snd cb) CB T.
Proof.
  intros IH CB H. induction H as [|[c blk] CB (Hp & Hl & Ho & Hi) HCB IHCB]; simpl in *.
  - exists [], []. repeat split; auto. exists []. repeat split; constructor.
  - destruct IHCB as (cs1 & res & E1 & Hlen & E2 & T & HT1 & HT2 & HG & HF).
    destruct (IH c blk Hp Hl Ho Hi) as (c1 & st1 & Ec1 & Ho1 & _).
    destruct (set_contiguous_post f v c c1 st1 Hp Ec1) as (HS1 & HAl1 & _ & Hperm1 & _).
    assert (Hp2 : proper (flat_ret c1) = true) by now apply AlmostProper_flat.
    assert (Hl2 : length (ordering (flat_ret c1)) <= f) by now rewrite ordering_flat_ret, <- (Permutation_length Hperm1).
    destruct (IH (flat_ret c1) blk Hp2 Hl2 (Ord_flat_ret_c c1 blk Ho1) Hi) as (c3 & st3 & Ec3 & Ho3 & HU3).
    destruct (set_contiguous_post f v _ c3 st3 Hp2 Ec3) as (HS3 & _ & HB3 & _ & _).
    assert (Hp3 : proper c3 = true) by (apply HB3, CF_flat_ret; now apply (StOK_CF v c1 st1)).
    exists (c1 :: cs1), ((c3, st3) :: res). rewrite Ec1. simpl. rewrite E1. simpl. rewrite Ec3. simpl. rewrite E2. simpl.
    repeat split; auto.
    exists (((c3, st3), blk) :: T). simpl. rewrite HT1, HT2. repeat split; auto.
    constructor; [|exact HG]. unfold GoodItem, ic, ist, ib. simpl. auto.
Qed.

Lemma F2_blocks (CB : list (pq * list (list nat))) (T : list item) :
  Forall2 (fun cb x => ib x = snd cb) CB T -> flat_map ib T = flat_map snd CB.
Proof. induction 1 as [|cb x CB T H _ IH]; simpl; [reflexivity|]. now rewrite H, IH. Qed.

Lemma Forall2_to_pairs l os : Forall2 Ord l os ->
  exists CB : list (pq * list (list nat)), map fst CB = l /\ map snd CB = os /\ Forall (fun cb => Ord (fst cb) (snd cb)) CB.
Proof.
  induction 1 as [|c o l os H _ (CB & E1 & E2 & HF)]; [exists []; repeat split; constructor|].
  exists ((c, o) :: CB). simpl. rewrite E1, E2. repeat split; auto.
Qed.

Lemma CB_props v k cs f o (CB : list (pq * list (list nat))) :
  proper (Node k cs) = true -> length (ordering (Node k cs)) <= S f -> Interval (fun s => In v s) o ->
  Permutation cs (map fst CB) -> Forall (fun cb => Ord (fst cb) (snd cb)) CB ->
  (forall cb, In cb CB -> sublist (snd cb) o) ->
  Forall (fun cb => proper (fst cb) = true /\ length (ordering (fst cb)) <= f /\ Ord (fst cb) (snd cb) /\
                    Interval (fun s => In v s) (snd cb)) CB.
Proof.
  intros Hp Hlen Hint HP HO Hsub. apply Forall_forall. intros cb Hcb.
  assert (Hin : In (fst cb) cs) by (eapply Permutation_in; [apply Permutation_sym; exact HP|now apply in_map]).
  repeat split.
  - apply proper_node_iff in Hp. destruct Hp as [_ Hp]. rewrite Forall_forall in Hp. auto.
  - now apply (child_leaves k cs f Hp Hlen).
  - rewrite Forall_forall in HO. auto.
  - apply (Interval_sublist _ _ o); auto.
Qed.

Theorem step_full : StepFull.
Proof.
  intros f. induction f as [|f IH]; intros v t o Hp Hlen Ho Hint.
  - destruct t as [s|k cs].
    + rewrite set_contiguous_leaf. eexists _, _. split; [reflexivity|]. split; [exact Ho|]. now destruct (memn v s).
    + exfalso. apply proper_leaves in Hp. destruct (ordering (Node k cs)); [congruence|simpl in Hlen; lia].
  - destruct t as [s|k cs].
    { rewrite set_contiguous_leaf. eexists _, _. split; [reflexivity|]. split; [exact Ho|]. now destruct (memn v s). }
    pose proof Hp as Hp0. apply proper_node_iff in Hp0. destruct Hp0 as [Hn Hpc].
    rewrite set_contiguous_node.
    (* the common part: given the children with their blocks, run the two passes *)
    assert (Hrun : forall CB : list (pq * list (list nat)), cs = map fst CB ->
              Forall (fun cb => proper (fst cb) = true /\ length (ordering (fst cb)) <= f /\ Ord (fst cb) (snd cb) /\
                                Interval (fun s => In v s) (snd cb)) CB ->
              exists T : list item, Forall (GoodItem v) T /\ Forall2 (fun cb x => ib x = snd cb) CB T /\
                (forall r, (match k with KP => p_cases v (map ic T) (map ist T) | KQ => q_cases v (map ic T) (map ist T) end) = r ->
                   rbind (mapM (fun c => rmap fst (set_contiguous f v c)) cs) (fun cs1 =>
                     let cs2 := match cs1 with [c] => [flat_inplace c] | _ => map flat_ret cs1 end in
                     rbind (mapM (set_contiguous f v) cs2) (fun res =>
                       match k with KP => p_cases v (map fst res) (map snd res) | KQ => q_cases v (map fst res) (map snd res) end)) = r)).
    { intros CB Ecs HCB. destruct (passes_complete f v (IH v) CB HCB) as (cs1 & res & E1 & Hl1 & E2 & T & HT1 & HT2 & HG & HF).
      exists T. split; [exact HG|]. split; [exact HF|]. intros r Hr. rewrite Ecs, E1. simpl rbind.
      assert (Ecs2 : match cs1 with [c] => [flat_inplace c] | _ => map flat_ret cs1 end = map flat_ret cs1).
      { destruct cs1 as [|a [|b r']]; try reflexivity. simpl in Hl1. rewrite Ecs, map_length in Hn. lia. }
      cbv zeta. rewrite Ecs2, E2. simpl rbind. rewrite <- HT1, <- HT2. exact Hr. }
    destruct k.
    + (* P-node *)
      apply Ord_P in Ho. destruct Ho as (cs' & HP & (os & HO & ->)).
      destruct (Forall2_to_pairs cs' os HO) as (CB' & E1 & E2 & HF').
      rewrite <- E1 in HP. destruct (Permutation_map_inv _ _ HP) as (CB & Ecs & HPCB).
      assert (Ho_eq : concat os = flat_map snd CB') by (rewrite <- E2; symmetry; apply flat_map_concat_map).
      assert (HCB : Forall (fun cb => proper (fst cb) = true /\ length (ordering (fst cb)) <= f /\ Ord (fst cb) (snd cb) /\
                                      Interval (fun s => In v s) (snd cb)) CB).
      { apply (CB_props v KP cs f (concat os) CB Hp Hlen Hint).
        - rewrite Ecs. reflexivity.
        - eapply Permutation_Forall; [exact HPCB|exact HF'].
        - intros cb Hcb. rewrite Ho_eq. apply (sublist_flat_map snd CB' cb).
          eapply Permutation_in; [apply Permutation_sym; exact HPCB|exact Hcb]. }
      destruct (Hrun CB Ecs HCB) as (T & HG & HF & Heq).
      destruct (Forall2_perm _ CB CB' T (Permutation_sym HPCB) HF) as (T' & HPT & HF2).
      assert (HnT : 2 <= length T) by (rewrite <- (Forall2_len' _ _ _ HF), <- (map_length fst CB), <- Ecs; exact Hn).
      assert (Hint' : Interval (fun s => In v s) (flat_map ib T')) by (rewrite (F2_blocks CB' T' HF2), <- Ho_eq; exact Hint).
      destruct (p_cases_complete v T T' HnT HG HPT Hint') as (t' & st & Ec & Hot & HU).
      exists t', st. split; [now apply Heq|]. split; [|exact HU]. rewrite Ho_eq, <- (F2_blocks CB' T' HF2). exact Hot.
    + (* Q-node *)
      apply Ord_Q in Ho. destruct Ho as [(os & HO & ->)|(os & HO & ->)].
      * destruct (Forall2_to_pairs cs os HO) as (CB & E1 & E2 & HF').
        assert (Ho_eq : concat os = flat_map snd CB) by (rewrite <- E2; symmetry; apply flat_map_concat_map).
        assert (HCB : Forall (fun cb => proper (fst cb) = true /\ length (ordering (fst cb)) <= f /\ Ord (fst cb) (snd cb) /\
                                        Interval (fun s => In v s) (snd cb)) CB).
        { apply (CB_props v KQ cs f (concat os) CB Hp Hlen Hint); [now rewrite E1|exact HF'|].
          intros cb Hcb. rewrite Ho_eq. now apply (sublist_flat_map snd CB cb). }
        destruct (Hrun CB (eq_sym E1) HCB) as (T & HG & HF & Heq).
        assert (HnT : 2 <= length T) by (rewrite <- (Forall2_len' _ _ _ HF), <- (map_length fst CB), E1; exact Hn).
        assert (Hint' : Interval (fun s => In v s) (flat_map ib (if true then T else rev T)))
          by (simpl; rewrite (F2_blocks CB T HF), <- Ho_eq; exact Hint).
        destruct (q_cases_complete v T true HnT HG Hint') as (t' & st & Ec & Hot & HU).
        exists t', st. split; [now apply Heq|]. split; [|exact HU]. simpl in Hot. rewrite Ho_eq, <- (F2_blocks CB T HF). exact Hot.
      * destruct (Forall2_to_pairs (rev cs) os HO) as (CBr & E1 & E2 & HF').
        set (CB := rev CBr).
        assert (Ecs : cs = map fst CB) by (unfold CB; rewrite map_rev, E1, rev_involutive; reflexivity).
        assert (Ho_eq : concat os = flat_map snd (rev CB)).
        { unfold CB. rewrite rev_involutive, <- E2. symmetry. apply flat_map_concat_map. }
        assert (HCB : Forall (fun cb => proper (fst cb) = true /\ length (ordering (fst cb)) <= f /\ Ord (fst cb) (snd cb) /\
                                        Interval (fun s => In v s) (snd cb)) CB).
        { apply (CB_props v KQ cs f (concat os) CB Hp Hlen Hint); [now rewrite <- Ecs|unfold CB; now apply Forall_rev|].
          intros cb Hcb. rewrite Ho_eq. apply (sublist_flat_map snd (rev CB) cb). rewrite <- in_rev. exact Hcb. }
        destruct (Hrun CB Ecs HCB) as (T & HG & HF & Heq).
        assert (HnT : 2 <= length T) by (rewrite <- (Forall2_len' _ _ _ HF), <- (map_length fst CB), <- Ecs; exact Hn).
        assert (HFr : Forall2 (fun cb x => ib x = snd cb) (rev CB) (rev T)) by now apply Forall2_rev.
        assert (Hint' : Interval (fun s => In v s) (flat_map ib (if false then T else rev T)))
          by (simpl; rewrite (F2_blocks (rev CB) (rev T) HFr), <- Ho_eq; exact Hint).
        destruct (q_cases_complete v T false HnT HG Hint') as (t' & st & Ec & Hot & HU).
        exists t', st. split; [now apply Heq|]. split; [|exact HU]. simpl in Hot.
        rewrite Ho_eq, <- (F2_blocks (rev CB) (rev T) HFr). exact Hot.
Qed.

Corollary step_C : StepC.
Proof. intros f v t o Hp Hl Ho Hi. destruct (step_full f v t o Hp Hl Ho Hi) as (t' & st & E & Ho' & _). eauto. Qed.

(* COMPLETENESS of the mirrored reorder_sets *)
Theorem pq_reorder_complete elems F : (exists res, SetsOK F res) -> exists res', pq_reorder elems F = Ok res'.
Proof. apply (pq_reorder_complete_from_step step_C). Qed.

Corollary pq_reorder_err elems F : pq_reorder elems F = Err ValueErr -> ~ exists res, SetsOK F res.
Proof. apply (pq_reorder_err_from_step step_C). Qed.

(* ------------------------------------------------------------------------------------------------ *)
(* the whole contract of reorder_sets is now a theorem about the mirror; chained down to the solver and recognisers *)
From PrefVerif Require Import Model.Approval Proofs.Approval.

Theorem pq_contract elems_of : (forall F, incl (concat F) (elems_of F)) -> reorder_contract (pq_reorder_fn elems_of).
Proof.
  intros Hcov F _ _. unfold pq_reorder_fn. destruct (pq_reorder (elems_of F) F) as [res|e] eqn:E.
  - apply (pq_reorder_sound (elems_of F)); [apply Hcov|exact E].
  - intros res Hres. destruct (pq_reorder_complete (elems_of F) F (ex_intro _ res Hres)) as (r & Hr). congruence.
Qed.

Theorem pq_solve_correct elems_of : (forall F, incl (concat F) (elems_of F)) -> forall rows nc,
  match solve_model (pq_reorder_fn elems_of) rows nc with
  | Some perm => c1p_check rows nc perm = true
  | None => c1p_decide rows nc = false
  end.
Proof. intros Hcov. apply solve_model_correct. now apply pq_contract. Qed.

Theorem pq_isC1P_correct elems_of : (forall F, incl (concat F) (elems_of F)) -> forall rows nc,
  isC1P_model (pq_reorder_fn elems_of) rows nc = c1p_decide rows nc.
Proof. intros Hcov. apply isC1P_model_correct. now apply pq_contract. Qed.

(* completeness needs no hypothesis on the visiting order *)
Theorem pq_solve_complete elems_of rows nc :
  c1p_decide rows nc = true -> exists perm, solve_model (pq_reorder_fn elems_of) rows nc = Some perm.
Proof.
  intros Hd. unfold solve_model. destruct (group_cols_spec rows nc) as [Hfam _].
  apply c1p_decide_correct in Hd. destruct (family_arrangement rows nc _ Hfam Hd) as (res & Hres).
  unfold pq_reorder_fn. destruct (pq_reorder_complete (elems_of (map fst (group_cols rows nc))) _ (ex_intro _ res Hres)) as (r & Hr).
  rewrite Hr. eauto.
Qed.

Theorem pq_isC1P_complete elems_of rows nc :
  c1p_decide rows nc = true -> isC1P_model (pq_reorder_fn elems_of) rows nc = true.
Proof.
  intros Hd. unfold isC1P_model. pose proof (dedup_sets_family rows nc) as Hfam.
  apply c1p_decide_correct in Hd. destruct (family_arrangement rows nc _ Hfam Hd) as (res & Hres).
  unfold pq_reorder_fn.
  destruct (pq_reorder_complete (elems_of (dedup_sets (map (col_set rows) (seq 0 nc)))) _ (ex_intro _ res Hres)) as (r & Hr).
  now rewrite Hr.
Qed.

Lemma pq_solver_ok elems_of : (forall F, incl (concat F) (elems_of F)) ->
  forall M nc, match solve_model (pq_reorder_fn elems_of) M nc with
               | Some perm => c1p_check M nc perm = true
               | None => c1p_decide M nc = false
               end.
Proof. exact (pq_solve_correct elems_of). Qed.

(* the six recognisers on the mirrored solver on the mirrored PQ-tree: sound, complete, valid witnesses *)
Section MirrorRecognisers.
Variable elems_of : list (list nat) -> list nat.
Hypothesis elems_cover : forall F, incl (concat F) (elems_of F).
Let solve := solve_model (pq_reorder_fn elems_of).

Theorem pq_ci_correct alts ballots :
  match is_candidate_interval solve alts ballots with
  | Some order => ci_check alts ballots order = true | None => ~ CI alts ballots end.
Proof. apply recog_ci. exact (pq_solver_ok elems_of elems_cover). Qed.
Theorem pq_cei_correct alts ballots :
  match is_candidate_extremal_interval solve alts ballots with
  | Some order => cei_check alts ballots order = true | None => ~ CEI alts ballots end.
Proof. apply recog_cei. exact (pq_solver_ok elems_of elems_cover). Qed.
Theorem pq_vi_correct alts ballots :
  match is_voter_interval solve alts ballots with
  | Some border => vi_check alts ballots border = true | None => ~ VI alts ballots end.
Proof. apply recog_vi. exact (pq_solver_ok elems_of elems_cover). Qed.
Theorem pq_vei_correct alts ballots :
  match is_voter_extremal_interval solve alts ballots with
  | Some border => vei_check alts ballots border = true | None => ~ VEI alts ballots end.
Proof. apply recog_vei. exact (pq_solver_ok elems_of elems_cover). Qed.
Theorem pq_wsc_correct alts ballots :
  match is_weakly_single_crossing solve alts ballots with
  | Some border => wsc_check alts ballots border = true | None => ~ WSC alts ballots end.
Proof. apply recog_wsc. exact (pq_solver_ok elems_of elems_cover). Qed.
Theorem pq_de_correct alts ballots : Forall (fun b => incl b alts) ballots ->
  match is_dichotomous_euclidean solve alts ballots with
  | Some w => de_check alts ballots (fst w) (snd w) = true | None => ~ DE alts ballots end.
Proof. apply recog_de. exact (pq_solver_ok elems_of elems_cover). Qed.
End MirrorRecognisers.
