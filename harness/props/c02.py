"""C02 — incrementally built ordinal instances stay consistent with the multiset of votes added
(append_order / append_order_array / append_order_list / append_vote_map / populate_*, infer_type, vote_map,
full_profile, flatten_strict, basic.py statistics, sanity.orders)."""
import itertools
import random

from core import proto
from .common import case

ID = "C02"
COVER_FILES = ['instances/preflibinstance/ordinal.py', 'properties/basic.py']
RULE = ("a case = a history of operations on a fresh OrdinalInstance plus a regrouped twin (same multiset of votes, "
        "other batching / entry points); every public field and view is compared with the extracted model after EACH "
        "operation, and the final observables of the two twins are compared with each other. exhaustive: all histories "
        "of <= 2 operations (thorough: + all histories of 3 operations over a reduced operation universe) over "
        "alternatives {1,2}; random: histories of 1-8 operations over <= 6 alternatives with arbitrary ids, repeated "
        "votes, weak / incomplete votes, numpy arrays, populate_* with the sampler's raw rows captured (the model applies its own mirror of "
        "prefsampling_ordinal_wrapper: op c02.wrapper compared as a dict, and the run on AppendVoteMap(wrapper rows)). "
        "non-trivial = the history uses >= 2 different entry points and some vote is added more than once. ")
EXHAUSTIVE = {"quick": "all histories of <= 2 operations over the 73-operation universe on alternatives {1,2}; all histories "
                       "append | recompute_cardinality_param() | append over the 29-operation sub-universe",
              "thorough": "all histories of <= 2 operations over the 73-operation universe on alternatives {1,2}; all "
                          "histories of 3 operations over a 29-operation sub-universe"}
TRUSTED = ["modelled (mirror): OrdinalInstance.append_order / append_order_array / append_order_list / append_vote_map "
           "/ infer_type / vote_map / full_profile / flatten_strict, basic.py statistics, sanity.orders; "
           "populate_* : sampling.prefsampling_ordinal_wrapper is mirrored (Model wrapper, C02_wrapper, "
           "C02_populate_rows); the raw rows returned by prefsampling are captured by wrapping the wrapper's "
           "`sampler` argument and replayed through the model as AppendVoteMap (wrapper rows). prefsampling itself "
           "(which rows are drawn) and the parameter preparation in generate_* are outside the model: any list of "
           "non-empty duplicate-free rankings is covered by C02_populate_rows",
           "iteration order of the Python set of alternatives in append_order_array / append_order_list is not "
           "modelled: alternatives_name is compared as a set of (id, name) pairs",
           "numpy: conversion of array entries to dict keys / str() of numpy integers in append_order_array"]
ROUND5 = ("purity / aliasing: after every step full_profile(), vote_map(), flatten_strict() are called, their results "
          "modified in place by the caller (extend with junk orders / clear / reverse / dict update) and everything is "
          "read again; common.snapshot before / after every read-only call; maintenance calls "
          "(recompute_cardinality_param, infer_type, flatten_strict, full_profile, vote_map) between appends; numpy.int64 "
          "counts and ids in vote maps and append_order; history and twin replayed alternately on two live instances")
RULE = RULE + "round 5: " + ROUND5
ASSUMPTIONS = ["well-formed votes: at least one class, classes non-empty, no alternative twice in a vote; vote-map "
               "multiplicities >= 1; alternative ids are positive integers",
               "the fresh instance (empty history) has data_type 'toi' while infer_type() says 'soc' "
               "(C02_fresh_type_refuted): data_type and sanity are compared only after the first operation; the "
               "basic.py statistics only on states with at least one order (they raise / disagree on the empty "
               "profile, see C02_type)"]
TIMEOUT_S = 60.0
THEOREMS_FOR_OP = {"c02.history": "C02_reachable, C02_views, C02_type, C02_sanity, C02_no_raise (observables after each "
                                   "operation); C02_regroup (final observables of the regrouped twin)"}
CHUNK = 25

DT = {"soc": 0, "soi": 1, "toc": 2, "toi": 3, None: 4}
K_ORDER, K_ARRAY, K_LIST, K_VM, K_POP, K_BARE, K_ROWS, K_MAINT = 0, 1, 2, 3, 4, 5, 6, 7
MAINT = {0: "recompute_cardinality_param()", 1: "infer_type()", 2: "flatten_strict() + caller modifies the result",
         3: "full_profile() + caller modifies the result", 4: "vote_map() + caller modifies the result"}


# ---------------------------------------------------------------------------------------------
# histories
def votes_of_op(op):
    k, d = op
    if k == K_ORDER:
        return [[[a] for a in d]]
    if k == K_ARRAY:
        return [[[a] for a in row] for row in d]
    if k in (K_LIST, K_BARE):
        return [o for o in d]
    if k == K_VM:
        return [o for o, m in d for _ in range(m)]
    if k == K_ROWS:
        return [[[a] for a in row] for row in d]
    if k == K_MAINT:
        return []
    raise ValueError(k)


def votes_of(h):
    return [v for op in h for v in votes_of_op(op)]


def is_strict_vote(o):
    return all(len(c) == 1 for c in o)


def regroup(votes, rng, nonempty):
    """another history adding the same multiset of votes: shuffled, re-batched, other entry points"""
    vs = [proto.norm(v) for v in votes]
    rng.shuffle(vs)
    h = []
    i = 0
    while i < len(vs):
        b = rng.choice([1, 1, 2, 3, 4, len(vs)])
        batch = vs[i:i + b]
        i += len(batch)
        strict = all(is_strict_vote(o) for o in batch)
        kinds = [K_LIST, K_VM]
        if strict and len(batch) == 1:
            kinds += [K_ORDER, K_ORDER]
        if strict and len(set(len(o) for o in batch)) == 1:
            kinds += [K_ARRAY, K_ARRAY]
        k = rng.choice(kinds)
        if k == K_ORDER:
            h.append([K_ORDER, [c[0] for c in batch[0]]])
        elif k == K_ARRAY:
            h.append([K_ARRAY, [[c[0] for c in o] for o in batch]])
        elif k == K_LIST:
            h.append([K_LIST, batch])
        else:
            vm = []
            for o in batch:
                for e in vm:
                    if e[0] == o:
                        e[1] += 1
                        break
                else:
                    vm.append([o, 1])
            h.append([K_VM, vm])
    if rng.random() < 0.2:
        h.insert(rng.randrange(len(h) + 1), rng.choice([[K_LIST, []], [K_VM, []], [K_ARRAY, []]]))
    if nonempty and not h:
        h.append(rng.choice([[K_LIST, []], [K_VM, []], [K_ARRAY, []]]))
    return sprinkle(h, rng, 0.25)


def sprinkle(h, rng, p):
    """maintenance / accessor calls between appends (they add no vote)"""
    out = []
    for op in h:
        out.append(op)
        if rng.random() < p:
            out.append([K_MAINT, [rng.choice([0, 0, 0, 1, 2, 3, 3, 4])]])
    return out


def mk_case(h, seed, **tags):
    """twin is derived deterministically from the history (None when the history contains a populate call:
    the votes are then only known after the implementation ran; impl() builds the twin)"""
    if any(op[0] in (K_POP, K_BARE) for op in h):
        return case("c02.history", [h, [], seed], pop=1, **tags)
    twin = regroup(votes_of(h), random.Random(seed * 7919 + 13), nonempty=bool(h))
    return case("c02.history", [h, twin, seed], **tags)


VOTES2 = [[[1]], [[2]], [[1], [2]], [[2], [1]], [[1, 2]], [[2, 1]]]
STRICT2 = [[1], [2], [1, 2], [2, 1]]


def universe(full=True):
    u = []
    for o in STRICT2:
        u.append([K_ORDER, o])
    u.append([K_ARRAY, []])
    for o in STRICT2:
        u.append([K_ARRAY, [o]])
    for a, b in itertools.product(STRICT2, STRICT2):
        if len(a) == len(b) and (full or a == b):
            u.append([K_ARRAY, [a, b]])
    u.append([K_LIST, []])
    for o in VOTES2:
        u.append([K_LIST, [o]])
    for i, a in enumerate(VOTES2):
        for b in VOTES2[i:]:
            if full or (a == b and a in (VOTES2[2], VOTES2[4])):
                u.append([K_LIST, [a, b]])
    u.append([K_VM, []])
    for o in VOTES2:
        for k in ((1, 2) if full else (2,)):
            u.append([K_VM, [[o, k]]])
    for i, a in enumerate(VOTES2):
        for b in VOTES2[i + 1:]:
            if full:
                u.append([K_VM, [[a, 1], [b, 1]]])
    return u


def rand_vote(rng, alts, p_tie, p_inc):
    a = list(alts)
    rng.shuffle(a)
    if rng.random() < p_inc and len(a) > 1:
        a = a[: rng.randint(1, len(a))]
    out = [[a[0]]]
    for x in a[1:]:
        if rng.random() < p_tie:
            out[-1].append(x)
        else:
            out.append([x])
    return out


def rand_history(rng, i):
    m = rng.randint(1, 6)
    alts = rng.sample(range(1, rng.choice([7, 12, 40, 10 ** 6, 10 ** 18])), m)
    mode = rng.choice(["strict", "strict-complete", "weak", "mixed", "mixed"])
    p_tie = 0.0 if mode.startswith("strict") else (0.5 if mode == "weak" else 0.25)
    p_inc = 0.0 if mode == "strict-complete" else 0.4
    pool = []
    for _ in range(rng.randint(1, 5)):
        pool.append(rand_vote(rng, alts, p_tie, p_inc))

    def vote(strict=False):
        for _ in range(20):
            v = rng.choice(pool) if rng.random() < 0.7 else rand_vote(rng, alts, 0.0 if strict else p_tie, p_inc)
            if not strict or is_strict_vote(v):
                return v
        return rand_vote(rng, alts, 0.0, p_inc)

    h = []
    for _ in range(rng.randint(1, 8)):
        k = rng.choice([K_ORDER, K_ARRAY, K_LIST, K_VM, K_LIST, K_VM])
        if k == K_ORDER:
            h.append([k, [c[0] for c in vote(True)]])
        elif k == K_ARRAY:
            first = vote(True)
            rows = [first]
            for _ in range(rng.randint(0, 3)):
                v = vote(True)
                if len(v) == len(first):
                    rows.append(v)
                else:
                    rows.append(first if rng.random() < 0.5 else rand_perm_of(rng, first))
            if rng.random() < 0.05:
                rows = []
            h.append([k, [[c[0] for c in o] for o in rows]])
        elif k == K_LIST:
            h.append([k, [vote() for _ in range(rng.randint(0, 4))]])
        else:
            vm = []
            for _ in range(rng.randint(0, 3)):
                v = vote()
                if all(e[0] != v for e in vm):
                    vm.append([v, rng.randint(1, 3)])
            h.append([k, vm])
    return h, mode


def corner_history(rng):
    m = rng.randint(3, 5)
    alts = rng.sample(range(1, 9), m)
    complete = [rand_vote(rng, alts, rng.choice([0.0, 0.0, 0.5]), 0.0) for _ in range(rng.randint(1, 4))]
    while True:
        w = rand_vote(rng, alts, 0.7, 1.0)
        if not is_strict_vote(w) and sum(len(c) for c in w) < m:
            break
    strict_c = [v for v in complete if is_strict_vote(v)]
    weak_c = [v for v in complete if not is_strict_vote(v)]
    rng.shuffle(strict_c)
    rng.shuffle(weak_c)
    seq = strict_c + [w] + weak_c            # the first weak order is the incomplete one
    if rng.random() < 0.3:
        rng.shuffle(seq)
    seq = seq + [rng.choice(seq) for _ in range(rng.randint(0, 3))]
    h = []
    i = 0
    while i < len(seq):
        b = rng.randint(1, 3)
        batch = seq[i:i + b]
        i += b
        if len(batch) == 1 and is_strict_vote(batch[0]) and rng.random() < 0.5:
            h.append([K_ORDER, [c[0] for c in batch[0]]])
        elif all(is_strict_vote(v) for v in batch) and len(set(len(v) for v in batch)) == 1 and rng.random() < 0.5:
            h.append([K_ARRAY, [[c[0] for c in v] for v in batch]])
        elif rng.random() < 0.5:
            h.append([K_LIST, batch])
        else:
            vm = []
            for o in batch:
                for e in vm:
                    if e[0] == o:
                        e[1] += 1
                        break
                else:
                    vm.append([o, 1])
            h.append([K_VM, vm])
    return h


def degenerate_history(rng):
    m = rng.randint(1, 5)
    alts = list(range(1, m + 1)) if rng.random() < 0.7 else rng.sample(range(1, 8), m)
    pool = []
    for _ in range(rng.randint(1, 4)):
        v = rand_vote(rng, alts, 0.5, 0.4)
        pool.append([sorted(c) for c in v])
    h = []
    for _ in range(rng.randint(1, 7)):
        k = rng.choice([K_ARRAY, K_LIST, K_VM, K_LIST, K_VM, K_ORDER])
        n = rng.choice([0, 0, 1, 1, 1, 2])
        vs = [rng.choice(pool) for _ in range(n)]
        if k == K_ORDER:
            a = list(alts)
            if rng.random() < 0.5:
                rng.shuffle(a)
            h.append([k, a[: rng.randint(1, len(a))]])
        elif k == K_ARRAY:
            rows = [[a for c in v for a in c] for v in vs]
            if len(set(len(r_) for r_ in rows)) > 1:
                rows = rows[:1]
            h.append([k, rows])
        elif k == K_LIST:
            h.append([k, vs])
        else:
            vm = []
            for v in vs:
                if all(e[0] != v for e in vm):
                    vm.append([v, rng.randint(1, 3)])
            h.append([k, vm])
    return sprinkle(h, rng, 0.15)


def distinct_history(rng):
    m = rng.randint(2, 5)
    alts = rng.sample(range(1, 12), m)
    strict_only = rng.random() < 0.5
    votes = []
    for _ in range(rng.randint(2, 7)):
        v = rand_vote(rng, alts, 0.0 if strict_only else 0.3, rng.choice([0.0, 0.4]))
        if v not in votes:
            votes.append(v)
    h = []
    i = 0
    while i < len(votes):
        batch = votes[i:i + rng.randint(1, 3)]
        i += len(batch)
        strict = all(is_strict_vote(v) for v in batch)
        kinds = [K_LIST, K_VM]
        if strict and len(batch) == 1:
            kinds += [K_ORDER] * 2
        if strict and len(set(len(v) for v in batch)) == 1:
            kinds += [K_ARRAY] * 2
        k = rng.choice(kinds)
        if k == K_ORDER:
            h.append([k, [c[0] for c in batch[0]]])
        elif k == K_ARRAY:
            h.append([k, [[c[0] for c in v] for v in batch]])
        elif k == K_LIST:
            h.append([k, batch])
        else:
            h.append([k, [[v, 1] for v in batch]])
    return sprinkle(h, rng, 0.5)


def rand_perm_of(rng, o):
    a = [c[0] for c in o]
    rng.shuffle(a)
    return [[x] for x in a]


def generate(tier, seed):
    rng = random.Random(1000003 * seed + 2)
    out = [mk_case([], 0, exh=1)]
    u = universe(True)
    for a in u:
        out.append(mk_case([a], len(out), exh=1))
    for a in u:
        for b in u:
            out.append(mk_case([a, b], len(out), exh=2))
    if tier != "quick":
        u3 = universe(False)
        for a in u3:
            for b in u3:
                for c in u3:
                    out.append(mk_case([a, b, c], len(out), exh=3))
    # append | recompute_cardinality_param() | append  (the maintenance call must not detach any alias / counter)
    u3 = universe(False)
    for a in u3:
        for b in u3:
            out.append(mk_case([a, [K_MAINT, [0]], b], len(out), exh=3, mode="append-recompute-append"))
    nrand = 1500 if tier == "quick" else 20000
    for i in range(nrand):
        h, mode = rand_history(rng, i)
        if i % 2 == 0:
            h = sprinkle(h, rng, 0.3)
        out.append(mk_case(h, rng.randrange(10 ** 9), rnd=1, mode=mode))
    # degenerate batches (empty list / array / vote map, one vote) mixed with ordinary ones; classes written in
    # ascending order so that frozenset / range containers apply
    for i in range(300 if tier == "quick" else 3000):
        out.append(mk_case(degenerate_history(rng), rng.randrange(10 ** 9), rnd=1, mode="degenerate-batches"))
    # no vote repeated (every multiplicity is 1), maintenance / accessor calls in between
    for i in range(400 if tier == "quick" else 4000):
        out.append(mk_case(distinct_history(rng), rng.randrange(10 ** 9), rnd=1, mode="all-multiplicities-1"))
    # corner: the first weak (tied) order of `orders` is incomplete and is the only incomplete order (-> toi),
    # entered in every rotation / through several entry points; and histories made of vote maps only
    for i in range(120 if tier == "quick" else 1500):
        out.append(mk_case(corner_history(rng), rng.randrange(10 ** 9), rnd=1, mode="corner-first-weak-incomplete"))
    for i in range(60 if tier == "quick" else 600):
        h, _ = rand_history(rng, i)
        vs = votes_of(h)
        hh = []
        j = 0
        while j < len(vs):
            b = rng.randint(1, 3)
            vm = []
            for o in vs[j:j + b]:
                for e in vm:
                    if e[0] == o:
                        e[1] += 1
                        break
                else:
                    vm.append([o, 1])
            hh.append([K_VM, vm])
            j += b
        out.append(mk_case(hh, rng.randrange(10 ** 9), rnd=1, mode="vote-maps-only"))
    # populate_* (the sampler's vote map is captured on the implementation side)
    npop = 150 if tier == "quick" else 1000
    for i in range(npop):
        h = []
        for _ in range(rng.randint(1, 3)):
            if rng.random() < 0.7:
                which = rng.choice([0, 1, 2, 3])
                na = rng.randint(1, 5)
                nv = rng.randint(1, 12)
                p3 = rng.randint(0, 30) if which == 1 else rng.randint(1, 3)
                h.append([K_POP, [which, nv, na, p3, rng.randrange(10 ** 6)]])
            else:
                hh, _ = rand_history(rng, i)
                h.extend(hh[:2])
        out.append(mk_case(h, rng.randrange(10 ** 9), rnd=1, mode="populate"))
    # append_order_list with bare alternatives instead of classes (the `isinstance(a, Iterable)` branch)
    for i in range(10 if tier == "quick" else 60):
        h, _ = rand_history(rng, i)
        pos = rng.randrange(len(h) + 1)
        alts = rng.sample(range(1, 9), rng.randint(1, 4))
        h.insert(pos, [K_BARE, [[[a] for a in alts]]])
        out.append(mk_case(h, rng.randrange(10 ** 9), rnd=1, mode="bare"))
    return out


# ---------------------------------------------------------------------------------------------
# implementation side
def _t(o):
    return tuple(tuple(c) for c in o)


def _guard(fn, *a):
    from .common import guarded
    return guarded(fn, *a)


JUNK1 = ((10 ** 9 + 7,),)
JUNK2 = ((10 ** 9 + 9,), (10 ** 9 + 7,))


def poison(obj, mode):
    """what a caller may do with a returned list / dict: it is his object"""
    try:
        if isinstance(obj, dict):
            if mode % 3 == 0:
                for k in list(obj):
                    obj[k] = obj[k] + 7
                obj[JUNK1] = 5
            elif mode % 3 == 1:
                obj.clear()
            else:
                obj.update({JUNK2: 1, JUNK1: 2})
        elif isinstance(obj, list):
            if mode % 3 == 0:
                obj += [JUNK1, JUNK2]
            elif mode % 3 == 1:
                obj.clear()
            else:
                obj.append(JUNK1)
                obj.reverse()
    except (TypeError, AttributeError):
        pass            # immutable result: nothing a caller could do to it


def observe(inst, raised, mode=0):
    from preflibtools.instances import sanity
    from preflibtools.properties import basic
    from . import common
    # accessors first; their results are recorded, then modified in place by the "caller"; the instance must not
    # notice (purity + no aliasing of internal state), and a second call must give the same answers
    before = common.snapshot(inst)
    fp = inst.full_profile()
    fp1 = proto.norm(list(fp))
    vm = inst.vote_map()
    vm1 = proto.norm([[o, int(k)] for o, k in vm.items()])
    fs = inst.flatten_strict()
    fs1 = proto.norm([[list(o), int(k)] for o, k in fs])
    inst.infer_type()
    poison(fp, mode)
    poison(vm, mode + 1)
    poison(fs, mode + 2)
    d = common.snap_diff(before, common.snapshot(inst))
    if d:
        raise RuntimeError("the instance changed when the caller modified the objects returned by full_profile() / "
                           "vote_map() / flatten_strict() (or an accessor is not pure): " + d)
    import numbers
    for where, os_ in (("orders", inst.orders), ("multiplicity keys", list(inst.multiplicity))):
        for o in os_:
            if not (isinstance(o, tuple) and all(isinstance(c, tuple) and all(isinstance(a, numbers.Integral) for a in c)
                                                 for c in o)):
                raise RuntimeError("%s: stored order %r is not a tuple of tuples of integers (the entry points promise "
                                   "to normalise every vote to that form)" % (where, o))
    mult = [[o, int(k)] for o, k in inst.multiplicity.items()]
    names = [[int(a), proto.text(n)] for a, n in inst.alternatives_name.items()]
    vm = inst.vote_map()
    errs = sanity.orders(inst) if not raised else None
    if errs is not None:
        errs = list(errs)
    res = proto.norm([
        mult,
        list(inst.orders),
        inst.num_voters,
        inst.num_unique_orders,
        inst.num_alternatives,
        names,
        DT.get(inst.data_type, 9),
        _guard(lambda: DT.get(inst.infer_type(), 9)),
        inst.full_profile(),
        [[o, int(k)] for o, k in vm.items()],
        [[list(o), int(k)] for o, k in inst.flatten_strict()],
        1 if basic.is_strict(inst) else 0,
        _guard(lambda: 1 if basic.is_complete(inst) else 0),
        _guard(lambda: int(basic.largest_ballot(inst))),
        _guard(lambda: int(basic.smallest_ballot(inst))),
        int(basic.max_num_indif(inst)),
        int(basic.min_num_indif(inst)),
        int(basic.largest_indif(inst)),
        int(basic.smallest_indif(inst)),
        1 if (errs is not None and len([e for e in errs if "0 appears" not in e]) == 0) else 0,
        1 if (errs is not None and len([e for e in errs if "0 appears" in e]) == 0) else 0,
        1 if raised else 0,
        list(inst.preferences),
        DT.get(inst.data_type, 9),
        fp1, vm1, fs1,
    ])
    d = common.snap_diff(before, common.snapshot(inst))
    if d:
        raise RuntimeError("a read-only call (views, basic.py statistics, sanity.orders) modified the instance: " + d)
    return res


class _Capture:
    """wraps ordinal.generate_* (the names through which populate_* obtains its vote map) and
    sampling.prefsampling_ordinal_wrapper (to see the sampler's raw rows and the vote map made of them)"""

    def __init__(self, seed):
        self.seed = seed
        self.vm = None
        self.calls = []          # [rows, vote map returned by the wrapper] per wrapper call

    def __enter__(self):
        import numpy as np
        from preflibtools.instances.preflibinstance import ordinal
        self.np, self.ordinal = np, ordinal
        self.saved = {n: getattr(ordinal, n) for n in
                      ("generate_IC", "generate_IC_anon", "generate_urn", "generate_mallows", "generate_mallows_mix")}
        self.saved_rng = np.random.default_rng
        ctr = [0]

        def rng(s=None):
            ctr[0] += 1
            return self.saved_rng(self.seed * 1000 + ctr[0] if s is None else s)

        np.random.default_rng = rng       # prefsampling draws from default_rng(None): make it replayable
        np.random.seed(self.seed % (2 ** 32))

        def wrap(f):
            def g(*a, **kw):
                r = f(*a, **kw)
                self.vm = [[[list(c) for c in o], int(k)] for o, k in r.items()]
                return r
            return g
        for n, f in self.saved.items():
            setattr(ordinal, n, wrap(f))
        from preflibtools.instances import sampling
        self.sampling = sampling
        self.saved_wrapper = getattr(sampling, "prefsampling_ordinal_wrapper", None)
        if self.saved_wrapper is not None:
            orig = self.saved_wrapper

            def patched(sampler, sampler_params):
                box = {}

                def s2(**kw):
                    r = sampler(**kw)
                    box["rows"] = [[int(a) for a in row] for row in r]
                    return r
                vm = orig(s2, sampler_params)
                if "rows" in box:
                    self.calls.append([box["rows"], [[[list(c) for c in o], int(k)] for o, k in vm.items()]])
                return vm
            sampling.prefsampling_ordinal_wrapper = patched
        return self

    def __exit__(self, *exc):
        for n, f in self.saved.items():
            setattr(self.ordinal, n, f)
        self.np.random.default_rng = self.saved_rng
        if self.saved_wrapper is not None:
            self.sampling.prefsampling_ordinal_wrapper = self.saved_wrapper
        return False


def _cls(c, how):
    """the same indifference class in another container (only where iterating it gives the same sequence)"""
    c = list(c)
    if how == 1 and list(frozenset(c)) == c:
        return frozenset(c)
    if how == 2 and c == list(range(c[0], c[0] + len(c))):
        return range(c[0], c[0] + len(c))
    if how == 3:
        return list(c)
    return tuple(c)


def _key(o, how, i=0):
    """a hashable vote-map key for the order o: tuple of tuples / frozensets / ranges (how 3: mixed per class)"""
    if how == 3:
        return tuple(_cls(c, (i + j) % 3) for j, c in enumerate(o))
    return tuple(_cls(c, how) for c in o)


def _vm_keys(d, how):
    """keys for the vote map d in the container style `how`; falls back to tuples of tuples for the whole map unless
    the converted keys stay pairwise distinct (frozensets compare coarser than tuples: {16,24} == {24,16}) and each
    one iterates in exactly the payload's member order"""
    keys = [_key(o, how, j) for j, (o, m) in enumerate(d)]
    ok = len(set(keys)) == len(d) and all([list(c) for c in k] == [list(c) for c in o] for k, (o, m) in zip(keys, d))
    if ok:
        probe = dict(zip(keys, range(len(keys))))
        ok = len(probe) == len(d) and all([list(c) for c in k] == [list(c) for c in d[i][0]] for k, i in probe.items())
    return keys if ok else [_t(o) for o, m in d]


def containers_used(op, variant):
    k, d = op
    if k == K_VM and d and variant % 4 != 3:
        how = (variant // 4) % 4
        keys = _vm_keys(d, how)
        out = set()
        for key in keys:
            for c in key:
                if not isinstance(c, tuple):
                    out.add("vote-map key class as %s%s" % (type(c).__name__, " (multi-member)" if len(c) > 1 else ""))
        return sorted(out)
    if k == K_ORDER:
        v = variant % 4
        if v == 3 and not (d and list(d) == list(range(d[0], d[0] + len(d)))):
            v = 0
        return ["append_order given a " + ["tuple", "list", "numpy array", "range"][v]]
    if k == K_LIST and d:
        return ["append_order_list variant %d" % (variant % 7)]
    return []


def _checked_vm(vm, d):
    if len(vm) != len(d):
        raise AssertionError("harness: the vote map built from the payload lost a key")
    return vm


def apply_op(inst, op, variant, sink=None):
    """returns the resolved operation (populate -> the captured vote map; bare list -> list of orders)"""
    import numpy as np
    k, d = op
    if k == K_MAINT:
        code = d[0]
        if code == 0:
            inst.recompute_cardinality_param()
        elif code == 1:
            inst.infer_type()
        elif code == 2:
            poison(inst.flatten_strict(), variant)
        elif code == 3:
            poison(inst.full_profile(), variant)
        else:
            poison(inst.vote_map(), variant)
        return op
    if k == K_ORDER:
        v = variant % 4
        if v == 3 and d and list(d) == list(range(d[0], d[0] + len(d))):
            inst.append_order(range(d[0], d[0] + len(d)))
        else:
            inst.append_order([tuple(d), list(d), np.array(d, dtype=np.int64), tuple(d)][v])
        return op
    if k == K_ARRAY:
        if d:
            arr = np.array(d, dtype=np.int64 if max(max(r) for r in d) < 2 ** 62 else object)
            arr = arr.reshape(len(d), len(d[0]))
        else:
            arr = np.empty((0, 0), dtype=np.int64)
        inst.append_order_array(arr)
        return op
    if k == K_LIST:
        v = variant % 7
        os_ = [_t(o) for o in d]
        if v == 1:
            os_ = tuple(os_)
        elif v == 2:
            os_ = [tuple(list(c) for c in o) for o in d]      # tuples of lists (re-tupled by the method)
        elif v == 3:
            os_ = [[list(c) for c in o] for o in d]           # lists of lists
        elif v == 4:
            os_ = [tuple(_cls(c, 1) for c in o) for o in d]   # classes as frozensets where the sequence is the same
        elif v == 5:
            os_ = [[_cls(c, 2) for c in o] for o in d]        # classes as ranges where possible
        elif v == 6:
            # strict orders as (k, 1) numpy arrays
            os_ = [np.array(o, dtype=np.int64) if o and all(len(c) == 1 for c in o) else _t(o) for o in d]
        inst.append_order_list(os_)
        return op
    if k == K_VM:
        if variant % 2 == 1:
            # a tally made with numpy (np.unique(..., return_counts=True)): counts (and ids) are numpy integers
            if variant % 4 == 3:
                inst.append_vote_map(_checked_vm({tuple(tuple(np.int64(a) for a in c) for c in o): np.int64(m) for o, m in d}, d))
            else:
                keys = _vm_keys(d, (variant // 4) % 4)
                inst.append_vote_map(_checked_vm({k_: np.int64(m) for k_, (o, m) in zip(keys, d)}, d))
        else:
            # the same votes written with other hashable containers for the classes (tuples / frozensets / ranges)
            keys = _vm_keys(d, (variant // 4) % 4)
            inst.append_vote_map(_checked_vm({k_: m for k_, (o, m) in zip(keys, d)}, d))
        return op
    if k == K_POP:
        which, nv, na, p3, seed = d
        with _Capture(seed) as cap:
            if which == 0:
                inst.populate_IC(nv, na)
            elif which == 1:
                inst.populate_urn(nv, na, p3)
            elif which == 2:
                inst.populate_mallows_mix(nv, na, p3)
            else:
                inst.populate_IC_anon(nv, na)
        if cap.vm is None:
            raise RuntimeError("populate_* did not go through ordinal.generate_*")
        if cap.calls:
            # the sampler's raw rows were seen: the model runs its own wrapper on the rows of the last call
            # (generate_mallows_mix also draws its reference rankings through the wrapper)
            if sink is not None:
                sink.extend(cap.calls)
            return [K_ROWS, cap.calls[-1][0]]
        return [K_VM, cap.vm]        # wrapper not reachable under that name: fall back to the handed vote map
    if k == K_BARE:
        inst.append_order_list([tuple(c[0] for c in o) for o in d])
        return [K_LIST, d]
    raise ValueError(k)


class Replay:
    def __init__(self, h, seed):
        from preflibtools.instances import OrdinalInstance
        self.h, self.seed, self.i = h, seed, 0
        self.inst = OrdinalInstance()
        self.obs = [observe(self.inst, False, seed)]
        self.resolved, self.bare_raised, self.wrap_calls = [], False, []
        self.done = not h

    def step(self):
        if self.done:
            return
        op = self.h[self.i]
        try:
            r = apply_op(self.inst, op, self.seed + self.i, self.wrap_calls)
        except TypeError:
            if op[0] == K_BARE:
                self.bare_raised = True        # not claimed by the property: the history ends here
                self.done = True
                return
            raise
        self.resolved.append(r)
        self.obs.append(observe(self.inst, False, self.seed + self.i))
        self.i += 1
        if self.i >= len(self.h):
            self.done = True

    def run(self):
        while not self.done:
            self.step()
        return self


def impl(c):
    h, twin, seed = c["payload"]
    if c["tags"].get("pop"):
        a = Replay(h, seed).run()
        twin = regroup(votes_of(a.resolved), random.Random(seed * 7919 + 13), nonempty=bool(a.resolved))
        b = Replay(twin, seed + 101).run()
        inter = 0
    elif seed % 2 == 0:
        # two live instances in one process, filled alternately (shared class-level / default-argument / module state
        # would leak from one to the other)
        a, b = Replay(h, seed), Replay(twin, seed + 101)
        while not (a.done and b.done):
            a.step()
            b.step()
        inter = 1
    else:
        a = Replay(h, seed).run()
        b = Replay(twin, seed + 101).run()
        inter = 0
    return {"H": proto.norm(a.resolved), "T": proto.norm(b.resolved), "obsH": a.obs, "obsT": b.obs,
            "bare_raised": a.bare_raised, "wrap": proto.norm(a.wrap_calls), "interleaved": inter}


def oracle_requests(c, r):
    if not isinstance(r, dict) or "H" not in r:
        return [("c02.history", c["payload"][0]), ("c02.history", c["payload"][1])]
    return [("c02.history", r["H"]), ("c02.history", r["T"])] + [("c02.wrapper", rows) for rows, _ in r.get("wrap", [])]


# ---------------------------------------------------------------------------------------------
NAMES = ["multiplicity", "orders", "num_voters", "num_unique_orders", "num_alternatives", "alternatives_name",
         "data_type", "infer_type()", "full_profile()", "vote_map()", "flatten_strict()", "is_strict", "is_complete",
         "largest_ballot", "smallest_ballot", "max_num_indif", "min_num_indif", "largest_indif", "smallest_indif",
         "sanity.orders clean", "sanity: no alternative 0", "raised", "preferences",
         "data_type vs the type of the multiset of votes by definition (C02_type)"]
AS_SET = {0, 1, 5, 8, 9, 10, 22}        # compared up to order (multisets): insertion order is not named by the property
STATS = set(range(11, 19))          # basic.py statistics: only on states holding at least one order
NOT_FRESH = {6, 19}                 # data_type / sanity: only after the first operation
SPEC_TYPE = 23                      # model: spec_type(votes so far); implementation: data_type. Only with >= 1 vote


def canon(i, x):
    return sorted(x) if i in AS_SET else x


def compare_obs(step, a, b, who):
    """a: implementation, b: model"""
    if len(a) != len(b) + 3:
        return "%s step %d: observation shapes differ" % (who, step)
    has_orders = len(b[1]) > 0
    for j, i in enumerate((8, 9, 10)):
        if sorted(a[len(b) + j]) != sorted(b[i]):
            return "%s after operation %d: %s (first call): implementation %r, model %r" % (
                who, step, NAMES[i], a[len(b) + j], b[i])
    for i in range(len(b)):
        if i in STATS and not has_orders:
            continue
        if i in NOT_FRESH and step == 0:
            continue
        if i == SPEC_TYPE and not has_orders:
            continue
        if canon(i, a[i]) != canon(i, b[i]):
            return "%s after operation %d: %s: implementation %r, model %r" % (who, step, NAMES[i], a[i], b[i])
    return None


FINAL = [0, 1, 2, 3, 4, 5, 6, 7]


def judge(c, r, mres):
    # prefsampling_ordinal_wrapper: rows -> vote map, compared as a dict with the model's wrapper (C02_wrapper)
    for i, (rows, vm) in enumerate(r.get("wrap", [])):
        if sorted(vm) != sorted(mres[2 + i]):
            return {"kind": "mismatch", "theorem": "C02_wrapper / C02_populate_rows",
                    "reason": "prefsampling_ordinal_wrapper on rows %r: implementation %r, model %r"
                              % (rows, vm, mres[2 + i])}
    for who, obs, m in (("history", r["obsH"], mres[0]), ("twin", r["obsT"], mres[1])):
        if len(obs) != len(m):
            return "%s: %d observations from the implementation, %d from the model" % (who, len(obs), len(m))
        for step, (a, b) in enumerate(zip(obs, m)):
            e = compare_obs(step, a, b, who)
            if e:
                return e
    # regrouping: the two histories add the same multiset of votes -> same final observables (implementation side)
    fa, fb = r["obsH"][-1], r["obsT"][-1]
    both_started = len(r["obsH"]) > 1 and len(r["obsT"]) > 1
    for i in FINAL:
        if i in (6,) and not both_started:
            continue
        if canon(i, fa[i]) != canon(i, fb[i]):
            return {"kind": "mismatch", "theorem": "C02_regroup",
                    "reason": "regrouped twin: %s differs: %r vs %r" % (NAMES[i], fa[i], fb[i])}
    return None


def _kinds(h):
    return set(op[0] for op in h if op[0] != K_MAINT)


def nontrivial(c, r, m):
    h = r["H"]
    vs = [proto.enc(v) for v in votes_of(h)]
    return len(_kinds(h)) >= 2 and len(set(vs)) < len(vs)


def stats(c, r, m):
    h = r["H"]
    out = ["ops=%d" % len(h)]
    final = r["obsH"][-1]
    out.append("final data_type=%s" % {0: "soc", 1: "soi", 2: "toc", 3: "toi"}.get(final[6], "?"))
    out.append("entry points=%d" % len(_kinds(h)))
    vs = [proto.enc(v) for v in votes_of(h)]
    out.append("repeated vote" if len(set(vs)) < len(vs) else "no repeated vote")
    if c["tags"].get("mode"):
        out.append("mode=" + c["tags"]["mode"])
    if c["tags"].get("exh"):
        out.append("exhaustive len=%d" % c["tags"]["exh"])
    if vs and len(set(vs)) == len(vs):
        out.append("round 5: non-empty history in which every multiplicity is 1 (results of the accessors poisoned "
                   "after every step)")
    for op in h:
        if op[0] == K_MAINT:
            out.append("round 5: between appends: " + MAINT[op[1][0]])
    seed = c["payload"][2]
    if any(op[0] == K_VM and op[1] and (seed + i) % 2 == 1 for i, op in enumerate(h)):
        out.append("round 5: vote map with numpy.int64 counts")
    for i, op in enumerate(h):
        for lb in containers_used(op, seed + i):
            out.append("round 6: " + lb)
        if op[0] in (K_ARRAY, K_LIST, K_VM) and not op[1]:
            out.append("round 6: empty batch (%s)" % {K_ARRAY: "array", K_LIST: "list", K_VM: "vote map"}[op[0]])
        if op[0] in (K_ARRAY, K_LIST, K_VM) and len(op[1]) == 1:
            out.append("round 6: one-vote batch")
    if r.get("interleaved"):
        out.append("round 5: history and twin replayed alternately on two live instances")
    # corners asked for by the coordinator (measured, see the evidence)
    orders = final[1]
    if orders:
        na = final[4]
        inc = [sum(len(c) for c in o) != na for o in orders]
        weak = [any(len(c) != 1 for c in o) for o in orders]
        if any(weak):
            fw = weak.index(True)
            if inc[fw] and sum(inc) == 1:
                out.append("corner: first weak order is incomplete and the only incomplete order (toi expected)")
    if h and all(op[0] in (K_VM, K_ROWS) for op in h):
        out.append("corner: instance populated through vote maps only" +
                   (" (populate_*)" if any(op[0] == K_POP for op in c["payload"][0]) else ""))
    seen = set()
    bump = 0
    for op in h:
        ovs = [proto.enc(v) for v in votes_of_op(op)]
        if ovs and all(v in seen for v in ovs):
            bump += 1
        seen.update(ovs)
    if bump:
        out.append("corner: some operation only raises multiplicities of existing orders")
    if r.get("wrap"):
        out.append("populate: raw sampler rows captured, wrapper compared (c02.wrapper)")
        if any(len(set(map(tuple, rows))) < len(rows) for rows, _ in r["wrap"]):
            out.append("populate: sampler rows contain a repeated ranking")
    elif any(op[0] == K_POP for op in c["payload"][0]):
        out.append("populate: raw rows NOT captured (fallback: handed vote map)")
    if r.get("bare_raised"):
        out.append("append_order_list with bare alternatives raised TypeError (history truncated there)")
    for op in c["payload"][0]:
        if op[0] == K_POP:
            out.append("populate kind=%d" % op[1][0])
    return out


def describe(c):
    kn = {0: "append_order", 1: "append_order_array", 2: "append_order_list", 3: "append_vote_map",
          4: "populate(which,nv,na,param,seed)", 5: "append_order_list(bare alternatives)",
          6: "populate_X = append_vote_map(wrapper(sampler rows))", 7: "maintenance / accessor call"}
    return {"history": [[kn[k], d] for k, d in c["payload"][0]],
            "twin": [[kn[k], d] for k, d in c["payload"][1]]}


def shrink(c):
    h, twin, seed = c["payload"]
    if any(op[0] in (K_POP, K_BARE) for op in h):
        for i in range(len(h)):
            yield dict(mk_case(h[:i] + h[i + 1:], seed), tags=c["tags"])
        return
    # a failure may live in the twin only: try the twin as the history
    for i in range(len(h)):
        yield mk_case(h[:i] + h[i + 1:], seed, **c["tags"])
    if twin:
        yield mk_case(twin, seed, **c["tags"])
    for i, (k, d) in enumerate(h):
        if k in (K_ARRAY, K_LIST, K_VM):
            for j in range(len(d)):
                yield mk_case(h[:i] + [[k, d[:j] + d[j + 1:]]] + h[i + 1:], seed, **c["tags"])
        if k == K_VM:
            for j in range(len(d)):
                if d[j][1] > 1:
                    yield mk_case(h[:i] + [[k, d[:j] + [[d[j][0], d[j][1] - 1]] + d[j + 1:]]] + h[i + 1:], seed,
                                  **c["tags"])
    for s2 in range(3):
        yield mk_case(h, seed + 1 + s2, **c["tags"])
