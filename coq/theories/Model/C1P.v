(* Model/C1P.v — consecutive-ones property of 0/1 matrices (C05, also used by C11).
   Shape (R): specification, verified witness checker, verified reference decider by enumeration.
   The PQ-tree internals of preflibtools/properties/subdomains/consecutive_ones.py are NOT modelled;
   solve_consecutive_ones(matrix) and isC1P(matrix) both decide: "is there an order of the COLUMNS of
   matrix such that in every ROW the ones are consecutive" (checked by brute force on all 3x4 and 4x3
   matrices: both functions take the sets {rows with a 1 in column c} and reorder the columns).
   Executable definitions only; proofs are in Proofs/C1P.v. *)
From Coq Require Import List Arith Bool.
From PrefVerif Require Import Lib.Perms.
Import ListNotations.

(* a matrix is the list of its rows; the number of columns nc is carried separately *)
Definition matrix := list (list bool).

(* entry j of a row (false outside the row) and the row read in the column order perm *)
Definition pick (row : list bool) (j : nat) : bool := nth j row false.
Definition permute_row (perm : list nat) (row : list bool) : list bool := map (pick row) perm.

(* shapes of 0/1 words *)
Definition all_zero (l : list bool) : bool := forallb negb l.
Definition all_one (l : list bool) : bool := forallb (fun b => b) l.

Fixpoint ones_zeros (l : list bool) : bool :=        (* 1*0* : the ones form a prefix *)
  match l with
  | [] => true
  | true :: t => ones_zeros t
  | false :: t => all_zero t
  end.

Fixpoint zeros_ones (l : list bool) : bool :=        (* 0*1* : the ones form a suffix *)
  match l with
  | [] => true
  | false :: t => zeros_ones t
  | true :: t => all_one t
  end.

Fixpoint contig01 (l : list bool) : bool :=          (* 0*1*0* : the ones are consecutive *)
  match l with
  | [] => true
  | false :: t => contig01 t
  | true :: t => ones_zeros t
  end.

Definition extremal01 (l : list bool) : bool := ones_zeros l || zeros_ones l.

(* the ones of the row occupy consecutive positions when the columns are listed in the order perm *)
Definition row_contig (perm : list nat) (row : list bool) : bool := contig01 (permute_row perm row).
(* ... a prefix or a suffix *)
Definition row_extremal (perm : list nat) (row : list bool) : bool := extremal01 (permute_row perm row).

(* perm is a permutation of 0 .. nc-1 *)
Definition memn (j : nat) (l : list nat) : bool := existsb (Nat.eqb j) l.
Definition perm_of_seq (nc : nat) (perm : list nat) : bool :=
  (length perm =? nc) && forallb (fun j => memn j perm) (seq 0 nc).

(* the verified witness checker *)
Definition c1p_check (rows : matrix) (nc : nat) (perm : list nat) : bool :=
  perm_of_seq nc perm && forallb (row_contig perm) rows.

(* the verified reference decider (enumeration of all column orders) *)
Definition c1p_decide (rows : matrix) (nc : nat) : bool :=
  existsb (fun perm => forallb (row_contig perm) rows) (perms (seq 0 nc)).

(* matrix operations used by the reductions *)
Definition complement (M : matrix) : matrix := map (map negb) M.
Definition transpose (nc : nat) (M : matrix) : matrix :=
  map (fun j => map (fun r => pick r j) M) (seq 0 nc).

(* submatrix certificate for a negative verdict: the rows with indices ridx restricted to the distinct columns
   cols form a matrix without the consecutive-ones property (then the whole matrix has not got it either:
   Proofs/C1P.v c1p_core_refuted_sound) *)
Definition select_cols (cols : list nat) (row : list bool) : list bool := map (pick row) cols.
Fixpoint nodupb (l : list nat) : bool :=
  match l with
  | [] => true
  | x :: t => negb (memn x t) && nodupb t
  end.
Definition c1p_core_refuted (rows : matrix) (nc : nat) (ridx cols : list nat) : bool :=
  nodupb cols && forallb (fun j => j <? nc) cols && forallb (fun i => i <? length rows) ridx &&
  negb (c1p_decide (map (select_cols cols) (map (fun i => nth i rows []) ridx)) (length cols)).

(* ------------------------------------------------------------------------------------------------ *)
(* (M) the pre- and post-processing of solve_consecutive_ones and isC1P around reorder_sets.
   A "set" is the tuple of the row indices (ascending, as np.argwhere / the comprehension produce them) in which a
   column has a 1.  reorder_sets (the PQ-tree) is a parameter:  reorder F = Some ordering | None (ValueError). *)
Fixpoint lnat_eqb (a b : list nat) : bool :=
  match a, b with
  | [], [] => true
  | x :: a', y :: b' => Nat.eqb x y && lnat_eqb a' b'
  | _, _ => false
  end.

(* columns_indices[col]: the rows holding a 1 in column j, ascending *)
Definition col_set (rows : matrix) (j : nat) : list nat :=
  filter (fun i => pick (nth i rows []) j) (seq 0 (length rows)).

(* indices_to_columns = defaultdict(list); indices_to_columns[key].append(col)  (insertion order kept) *)
Fixpoint add_col (k : list nat) (j : nat) (g : list (list nat * list nat)) : list (list nat * list nat) :=
  match g with
  | [] => [(k, [j])]
  | (k', cs) :: t => if lnat_eqb k k' then (k', cs ++ [j]) :: t else (k', cs) :: add_col k j t
  end.
Definition group_cols (rows : matrix) (nc : nat) : list (list nat * list nat) :=
  fold_left (fun g j => add_col (col_set rows j) j g) (seq 0 nc) [].
Fixpoint group_get (k : list nat) (g : list (list nat * list nat)) : list nat :=   (* defaultdict: [] if absent *)
  match g with
  | [] => []
  | (k', cs) :: t => if lnat_eqb k k' then cs else group_get k t
  end.

(* isC1P: "if s not in sets: sets.append(s)" *)
Definition memk (k : list nat) (l : list (list nat)) : bool := existsb (lnat_eqb k) l.
Definition dedup_sets (l : list (list nat)) : list (list nat) :=
  fold_left (fun acc s => if memk s acc then acc else acc ++ [s]) l [].

Section SolverMirror.
Variable reorder : list (list nat) -> option (list (list nat)).

(* solve_consecutive_ones(matrix): Some ordered_idx = (True, ordered_idx); None = (False, None) *)
Definition solve_model (rows : matrix) (nc : nat) : option (list nat) :=
  let g := group_cols rows nc in
  match reorder (map fst g) with
  | None => None
  | Some result => Some (flat_map (fun k => group_get k g) result)
  end.

(* isC1P(matrix) *)
Definition isC1P_model (rows : matrix) (nc : nat) : bool :=
  match reorder (dedup_sets (map (col_set rows) (seq 0 nc))) with
  | None => false
  | Some _ => true
  end.
End SolverMirror.

(* reorder_sets itself: "if len(sets) <= 2: return sets", otherwise the PQ-tree (parameter pq_tree) *)
Definition reorder_sets_model (pq_tree : list (list nat) -> option (list (list nat))) (F : list (list nat))
  : option (list (list nat)) :=
  if length F <=? 2 then Some F else pq_tree F.

(* the contract of reorder_sets, as a checker and a reference decider (for the direct contract test):
   result is a rearrangement of the family in which, for every element, the sets containing it are consecutive *)
Definition countk (k : list nat) (l : list (list nat)) : nat := length (filter (lnat_eqb k) l).
Definition sets_consec (F result : list (list nat)) : bool :=
  forallb (fun v => contig01 (map (memn v) result)) (nodup Nat.eq_dec (concat F)).
Definition sets_check (F result : list (list nat)) : bool :=
  forallb (fun k => countk k F =? countk k result) (F ++ result) && sets_consec F result.
(* the enumeration only needs the contiguity test: its candidates are permutations of F by construction *)
Definition sets_decide (F : list (list nat)) : bool := existsb (sets_consec F) (perms F).
