"""Source of MANIFEST.json (bin/gen-manifest). One entry per claimed property."""

GENERIC_NOTE = ("Trusted: Coq 8.16.1 kernel; extraction (ExtrOcamlBasic only) + ocamlopt + coq/oracle/main.ml; the Python "
                "correspondence harness; CPython and the packages preflibtools imports. The theorems are about the "
                "hand-written Gallina model; the model is tied to /repo's working tree on every run by differential "
                "execution (exhaustive small ranges + seeded structured random), not by proof. ")

TECH = "machine-checked proof in Coq (mirror model, theorems for all inputs) + model/implementation correspondence check via extracted OCaml oracle"

CLAIMED = {
    "C20": {
        "text": "Theorems in Coq (all sizes) about a mirror model of distances.py; model tied to the code by "
                "exhaustive (n<=4/5) and random (n<=40) differential runs on every invocation.",
        "design_ref": "DESIGN.md §7 C20",
        "note": GENERIC_NOTE + "Final float division compared through exact rationals.",
        "technique": TECH,
    },
    "C07": {
        "text": "Coq theorems (all instances, all sizes, Closed under the global context) about a mirror model of "
                "pairwise_scores, copeland_scores, has_condorcet, borda_scores and order_to_pwg: closed forms of every table "
                "entry as voter-level counts on the expanded profile, the Condorcet iff, the pwg line/total/number clauses, "
                "regrouping invariance, type guards. The model is tied to the code by exhaustive (m<=3, <=2 ballots) and random "
                "(m<=7/9) differential runs on every invocation, tables compared entry by entry.",
        "design_ref": "DESIGN.md §7 C07",
        "note": GENERIC_NOTE + "Reading: a ballot that does not rank b does not compare a with b (stated as an Example). "
                "order_to_pwg text is re-read by the harness (split on newline/comma), not modelled character by character.",
        "technique": TECH,
    },
}

_PENDING = "not claimed yet: the model and check for this property are still being built (see DESIGN.md §12)"
NOT_APPLICABLE = {f"C{i:02d}": _PENDING for i in range(1, 21) if f"C{i:02d}" not in CLAIMED}

NOTES = ("All checks share one Coq development (coq/) built by bin/setup; bin/check <ID> <tier> rebuilds what changed, "
         "re-captures Print Assumptions, runs the correspondence against /repo's working tree and rewrites "
         "evidence/<ID>.json. Known findings: known_findings.json. Design and trusted base: DESIGN.md.")
