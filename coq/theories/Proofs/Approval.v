(* Proofs/Approval.v — lemmas about Model/Approval.v: specifications of the approval domains, correctness of
   the witness checkers and reference deciders, the reductions to the consecutive-ones property, the
   Euclidean construction, is_part / is_2_part. *)
From Coq Require Import List Arith NArith ZArith QArith Qabs Bool Lia Permutation.
From PrefVerif Require Import Lib.Perms Model.C1P Model.Approval Proofs.C1P.
Import ListNotations.
Local Open Scope nat_scope.

(* ------------------------------------------------------------------------------------------------ *)
(* membership, permutations of the alternatives *)
Lemma mem_iff a l : mem a l = true <-> In a l.
Proof.
  unfold mem. rewrite existsb_exists. split.
  - intros (x & Hx & E). apply N.eqb_eq in E. now subst.
  - intros H. exists a. split; [assumption|apply N.eqb_refl].
Qed.

Lemma mem_false_iff a l : mem a l = false <-> ~ In a l.
Proof. rewrite <- mem_iff. destruct (mem a l); split; congruence. Qed.

Lemma count_count_occ a l : count a l = count_occ N.eq_dec l a.
Proof.
  unfold count. induction l as [|x t IH]; simpl; [reflexivity|].
  destruct (N.eq_dec x a) as [->|Hne].
  - rewrite N.eqb_refl. simpl. now rewrite IH.
  - destruct (N.eqb_spec a x) as [->|_]; [congruence|exact IH].
Qed.

Theorem perm_of_correct alts order : perm_of alts order = true <-> Permutation alts order.
Proof.
  unfold perm_of. rewrite forallb_forall, (Permutation_count_occ N.eq_dec). split.
  - intros H x. destruct (in_dec N.eq_dec x (alts ++ order)) as [Hin|Hnin].
    + specialize (H x Hin). apply Nat.eqb_eq in H. now rewrite <- !count_count_occ.
    + assert (H1 : ~ In x alts) by (intros H1; apply Hnin, in_or_app; now left).
      assert (H2 : ~ In x order) by (intros H2; apply Hnin, in_or_app; now right).
      apply (count_occ_not_In N.eq_dec) in H1. apply (count_occ_not_In N.eq_dec) in H2. congruence.
  - intros H x _. apply Nat.eqb_eq. rewrite !count_count_occ. apply H.
Qed.

(* ------------------------------------------------------------------------------------------------ *)
(* specifications (Prop) *)
Definition Approves (b : list N) (a : N) : Prop := In a b.

(* CI: some order of all the alternatives makes every approval set an interval *)
Definition CI_order (alts : list N) (ballots : list (list N)) (order : list N) : Prop :=
  Permutation alts order /\ Forall (fun b => Interval (fun a => In a b) order) ballots.
Definition CI alts ballots : Prop := exists order, CI_order alts ballots order.
(* CEI: ... a prefix or a suffix *)
Definition CEI_order (alts : list N) (ballots : list (list N)) (order : list N) : Prop :=
  Permutation alts order /\ Forall (fun b => Extremal (fun a => In a b) order) ballots.
Definition CEI alts ballots : Prop := exists order, CEI_order alts ballots order.
(* VI: some order of the ballots (indices 0..n-1) makes, for every alternative, the ballots approving it consecutive *)
Definition VI_order (alts : list N) (ballots : list (list N)) (border : list nat) : Prop :=
  Permutation (seq 0 (length ballots)) border /\
  Forall (fun a => Interval (fun i => In a (ballot_at ballots i)) border) alts.
Definition VI alts ballots : Prop := exists border, VI_order alts ballots border.
Definition VEI_order (alts : list N) (ballots : list (list N)) (border : list nat) : Prop :=
  Permutation (seq 0 (length ballots)) border /\
  Forall (fun a => Extremal (fun i => In a (ballot_at ballots i)) border) alts.
Definition VEI alts ballots : Prop := exists border, VEI_order alts ballots border.
(* WSC (documented reading): for every ordered pair (a, b) the ballots approving a but not b are consecutive *)
Definition WSC_order (alts : list N) (ballots : list (list N)) (border : list nat) : Prop :=
  Permutation (seq 0 (length ballots)) border /\
  forall a b, In a alts -> In b alts ->
    Interval (fun i => In a (ballot_at ballots i) /\ ~ In b (ballot_at ballots i)) border.
Definition WSC alts ballots : Prop := exists border, WSC_order alts ballots border.

(* ------------------------------------------------------------------------------------------------ *)
(* checkers = specifications *)
Theorem ci_check_correct alts ballots order :
  ci_check alts ballots order = true <-> CI_order alts ballots order.
Proof.
  unfold ci_check, CI_order. rewrite andb_true_iff, perm_of_correct, forallb_forall, Forall_forall.
  split; intros [HP H]; (split; [exact HP|]); intros b Hb; specialize (H b Hb);
    apply (contig01_map (fun a => mem a b) (fun a => In a b) (fun a => mem_iff a b)); exact H.
Qed.

Theorem cei_check_correct alts ballots order :
  cei_check alts ballots order = true <-> CEI_order alts ballots order.
Proof.
  unfold cei_check, CEI_order. rewrite andb_true_iff, perm_of_correct, forallb_forall, Forall_forall.
  split; intros [HP H]; (split; [exact HP|]); intros b Hb; specialize (H b Hb);
    apply (extremal01_map (fun a => mem a b) (fun a => In a b) (fun a => mem_iff a b)); exact H.
Qed.

Theorem vi_check_correct alts ballots border :
  vi_check alts ballots border = true <-> VI_order alts ballots border.
Proof.
  unfold vi_check, VI_order. rewrite andb_true_iff, perm_of_seq_correct, forallb_forall, Forall_forall.
  split; intros [HP H]; (split; [exact HP|]); intros a Ha; specialize (H a Ha);
    apply (contig01_map (fun i => mem a (ballot_at ballots i)) (fun i => In a (ballot_at ballots i))
             (fun i => mem_iff a (ballot_at ballots i))); exact H.
Qed.

Theorem vei_check_correct alts ballots border :
  vei_check alts ballots border = true <-> VEI_order alts ballots border.
Proof.
  unfold vei_check, VEI_order. rewrite andb_true_iff, perm_of_seq_correct, forallb_forall, Forall_forall.
  split; intros [HP H]; (split; [exact HP|]); intros a Ha; specialize (H a Ha);
    apply (extremal01_map (fun i => mem a (ballot_at ballots i)) (fun i => In a (ballot_at ballots i))
             (fun i => mem_iff a (ballot_at ballots i))); exact H.
Qed.

Lemma wsc_entry_iff a b bl : mem a bl && negb (mem b bl) = true <-> In a bl /\ ~ In b bl.
Proof. rewrite andb_true_iff, negb_true_iff, mem_iff, mem_false_iff. reflexivity. Qed.

Theorem wsc_check_correct alts ballots border :
  wsc_check alts ballots border = true <-> WSC_order alts ballots border.
Proof.
  unfold wsc_check, WSC_order. rewrite andb_true_iff, perm_of_seq_correct, forallb_forall.
  split; intros [HP H]; (split; [exact HP|]).
  - intros a b Ha Hb. specialize (H a Ha). rewrite forallb_forall in H. specialize (H b Hb).
    apply (contig01_map (fun i => mem a (ballot_at ballots i) && negb (mem b (ballot_at ballots i)))
             (fun i => In a (ballot_at ballots i) /\ ~ In b (ballot_at ballots i))
             (fun i => wsc_entry_iff a b (ballot_at ballots i))). exact H.
  - intros a Ha. rewrite forallb_forall. intros b Hb.
    apply (contig01_map (fun i => mem a (ballot_at ballots i) && negb (mem b (ballot_at ballots i)))
             (fun i => In a (ballot_at ballots i) /\ ~ In b (ballot_at ballots i))
             (fun i => wsc_entry_iff a b (ballot_at ballots i))). now apply H.
Qed.

(* reference deciders = existence of a witness *)
Theorem ci_decide_correct alts ballots : ci_decide alts ballots = true <-> CI alts ballots.
Proof.
  unfold ci_decide, CI. rewrite (exists_perm_dec N (CI_order alts ballots) _ (ci_check_correct alts ballots)).
  split; intros (o & H); exists o; [apply H|split; [apply H|exact H]].
Qed.
Theorem cei_decide_correct alts ballots : cei_decide alts ballots = true <-> CEI alts ballots.
Proof.
  unfold cei_decide, CEI. rewrite (exists_perm_dec N (CEI_order alts ballots) _ (cei_check_correct alts ballots)).
  split; intros (o & H); exists o; [apply H|split; [apply H|exact H]].
Qed.
Theorem vi_decide_correct alts ballots : vi_decide alts ballots = true <-> VI alts ballots.
Proof.
  unfold vi_decide, VI. rewrite (exists_perm_dec nat (VI_order alts ballots) _ (vi_check_correct alts ballots)).
  split; intros (o & H); exists o; [apply H|split; [apply H|exact H]].
Qed.
Theorem vei_decide_correct alts ballots : vei_decide alts ballots = true <-> VEI alts ballots.
Proof.
  unfold vei_decide, VEI. rewrite (exists_perm_dec nat (VEI_order alts ballots) _ (vei_check_correct alts ballots)).
  split; intros (o & H); exists o; [apply H|split; [apply H|exact H]].
Qed.
Theorem wsc_decide_correct alts ballots : wsc_decide alts ballots = true <-> WSC alts ballots.
Proof.
  unfold wsc_decide, WSC. rewrite (exists_perm_dec nat (WSC_order alts ballots) _ (wsc_check_correct alts ballots)).
  split; intros (o & H); exists o; [apply H|split; [apply H|exact H]].
Qed.

(* ------------------------------------------------------------------------------------------------ *)
(* reductions to the consecutive-ones property *)

Lemma ballot_row_length alts b : length (ballot_row alts b) = length alts.
Proof. apply map_length. Qed.

Lemma ci_matrix_rows alts ballots : Forall (fun r => length r = length alts) (ci_matrix alts ballots).
Proof.
  unfold ci_matrix. apply Forall_forall. intros r Hr. apply in_map_iff in Hr.
  destruct Hr as (b & <- & _). apply ballot_row_length.
Qed.

(* a row of the CI matrix read in the column order perm = the ballot read along the candidate order *)
Lemma ballot_row_permute alts b perm :
  Forall (fun j => j < length alts) perm ->
  permute_row perm (ballot_row alts b) = map (fun a => mem a b) (order_of_perm alts perm).
Proof.
  intros H. unfold permute_row, pick, ballot_row, order_of_perm. rewrite map_map.
  apply map_ext_in. intros j Hj. rewrite Forall_forall in H. specialize (H j Hj).
  rewrite (nth_indep _ false (mem 0%N b)) by (rewrite map_length; exact H).
  apply (map_nth (fun a => mem a b)).
Qed.

Lemma order_of_perm_Permutation alts perm :
  Permutation (seq 0 (length alts)) perm -> Permutation alts (order_of_perm alts perm).
Proof.
  intros HP. unfold order_of_perm. rewrite <- (map_nth_seq alts 0%N) at 1. now apply Permutation_map.
Qed.

(* generic in the shape sh of the permuted 0/1 word (contig01 for CI, extremal01 for CEI) *)
Lemma cand_reduction (sh : list bool -> bool) alts ballots :
  (exists order, Permutation alts order /\ Forall (fun b => sh (map (fun a => mem a b) order) = true) ballots) <->
  (exists perm, Permutation (seq 0 (length alts)) perm /\
                Forall (fun row => sh (permute_row perm row) = true) (ci_matrix alts ballots)).
Proof.
  unfold ci_matrix. split.
  - intros (order & HP & H). destruct (Permutation_index 0%N alts order HP) as (perm & Hperm & Heq).
    exists perm. split; [exact Hperm|]. rewrite Forall_map. rewrite Forall_forall in *.
    intros b Hb. rewrite ballot_row_permute by (apply perm_of_seq_range; exact Hperm).
    fold (order_of_perm alts perm) in Heq. rewrite <- Heq. now apply H.
  - intros (perm & Hperm & H). exists (order_of_perm alts perm). split.
    + now apply order_of_perm_Permutation.
    + rewrite Forall_map in H. rewrite Forall_forall in *. intros b Hb.
      rewrite <- ballot_row_permute by (apply perm_of_seq_range; exact Hperm). now apply H.
Qed.

Lemma CI_bool alts ballots :
  CI alts ballots <->
  exists order, Permutation alts order /\ Forall (fun b => contig01 (map (fun a => mem a b) order) = true) ballots.
Proof.
  unfold CI. split; intros (o & H); exists o.
  - apply ci_check_correct in H. unfold ci_check in H. apply andb_true_iff in H. destruct H as [H1 H2].
    split; [now apply perm_of_correct|]. apply Forall_forall. now apply forallb_forall.
  - apply ci_check_correct. unfold ci_check. apply andb_true_iff. destruct H as [H1 H2].
    split; [now apply perm_of_correct|]. apply forallb_forall. now apply Forall_forall.
Qed.

Lemma CEI_bool alts ballots :
  CEI alts ballots <->
  exists order, Permutation alts order /\ Forall (fun b => extremal01 (map (fun a => mem a b) order) = true) ballots.
Proof.
  unfold CEI. split; intros (o & H); exists o.
  - apply cei_check_correct in H. unfold cei_check in H. apply andb_true_iff in H. destruct H as [H1 H2].
    split; [now apply perm_of_correct|]. apply Forall_forall. now apply forallb_forall.
  - apply cei_check_correct. unfold cei_check. apply andb_true_iff. destruct H as [H1 H2].
    split; [now apply perm_of_correct|]. apply forallb_forall. now apply Forall_forall.
Qed.

(* CI  <->  the matrix of instance_to_ci_matrix has the consecutive-ones property *)
Theorem ci_reduction alts ballots : CI alts ballots <-> C1P (ci_matrix alts ballots) (length alts).
Proof. rewrite CI_bool. apply (cand_reduction contig01). Qed.

(* CEI  <->  the matrix stacked on its complement has the consecutive-ones property *)
Theorem cei_reduction_instance alts ballots : CEI alts ballots <-> C1P (cei_matrix alts ballots) (length alts).
Proof.
  rewrite CEI_bool. unfold cei_matrix. rewrite (cei_reduction_c1p _ _ (ci_matrix_rows alts ballots)).
  apply (cand_reduction extremal01).
Qed.

(* the witness translation of is_candidate_interval: a column order accepted by the C1P checker becomes a
   candidate order accepted by the CI checker *)
Theorem ci_witness alts ballots perm :
  c1p_check (ci_matrix alts ballots) (length alts) perm = true ->
  ci_check alts ballots (order_of_perm alts perm) = true.
Proof.
  rewrite c1p_check_correct. intros [HP H]. unfold ci_check. apply andb_true_iff. split.
  - apply perm_of_correct. now apply order_of_perm_Permutation.
  - apply forallb_forall. intros b Hb. rewrite <- ballot_row_permute by (apply perm_of_seq_range; exact HP).
    rewrite Forall_forall in H. apply H. unfold ci_matrix. now apply in_map.
Qed.

(* ... of is_candidate_extremal_interval (ordered_idx[:m] is the whole column order: it has m entries) *)
Theorem cei_witness alts ballots perm :
  c1p_check (cei_matrix alts ballots) (length alts) perm = true ->
  firstn (length alts) perm = perm /\ cei_check alts ballots (order_of_perm alts perm) = true.
Proof.
  rewrite c1p_check_correct. intros [HP H]. split.
  - apply firstn_all2. rewrite <- (Permutation_length HP), seq_length. lia.
  - unfold cei_matrix in H.
    apply (cei_reduction _ _ perm (ci_matrix_rows alts ballots) (perm_of_seq_range _ _ HP)) in H.
    unfold cei_check. apply andb_true_iff. split.
    + apply perm_of_correct. now apply order_of_perm_Permutation.
    + apply forallb_forall. intros b Hb. rewrite <- ballot_row_permute by (apply perm_of_seq_range; exact HP).
      rewrite Forall_forall in H. apply (H (ballot_row alts b)). unfold ci_matrix. now apply in_map.
Qed.

(* ---- voter side: the transposed matrix ---- *)
Lemma vi_matrix_eq alts ballots : vi_matrix alts ballots = map (fun a => map (mem a) ballots) alts.
Proof.
  unfold vi_matrix, transpose, ci_matrix.
  transitivity (map (fun a => map (mem a) ballots) (map (fun i => nth i alts 0%N) (seq 0 (length alts))));
    [|now rewrite map_nth_seq].
  rewrite map_map. apply map_ext_in. intros j Hj.
  apply in_seq in Hj. rewrite map_map. apply map_ext. intros b. unfold pick, ballot_row.
  rewrite (nth_indep _ false (mem 0%N b)) by (rewrite map_length; lia).
  apply (map_nth (fun a => mem a b)).
Qed.

Lemma vi_row_permute a ballots border :
  permute_row border (map (mem a) ballots) = map (fun i => mem a (ballot_at ballots i)) border.
Proof.
  unfold permute_row, pick, ballot_at. apply map_ext. intros i.
  change false with (mem a []). apply (map_nth (mem a)).
Qed.

Lemma forallb_map {X Y} (f : Y -> bool) (g : X -> Y) l : forallb f (map g l) = forallb (fun x => f (g x)) l.
Proof. induction l as [|x t IH]; simpl; [reflexivity|]. now rewrite IH. Qed.

Lemma forallb_ext' {X} (f g : X -> bool) l : (forall x, f x = g x) -> forallb f l = forallb g l.
Proof. intros H. induction l as [|x t IH]; simpl; [reflexivity|]. now rewrite H, IH. Qed.

(* the voter-interval checker is literally the C1P checker on the transposed matrix *)
Theorem vi_check_c1p alts ballots border :
  vi_check alts ballots border = c1p_check (vi_matrix alts ballots) (length ballots) border.
Proof.
  unfold vi_check, c1p_check. f_equal. rewrite vi_matrix_eq, forallb_map.
  apply forallb_ext'. intros a. unfold row_contig. now rewrite vi_row_permute.
Qed.

Theorem vi_reduction alts ballots : VI alts ballots <-> C1P (vi_matrix alts ballots) (length ballots).
Proof.
  unfold VI, C1P. split; intros (p & H); exists p.
  - apply vi_check_correct in H. rewrite vi_check_c1p in H. now apply c1p_check_correct.
  - apply vi_check_correct. rewrite vi_check_c1p. now apply c1p_check_correct.
Qed.

Lemma vi_matrix_rows alts ballots : Forall (fun r => length r = length ballots) (vi_matrix alts ballots).
Proof.
  rewrite vi_matrix_eq. apply Forall_forall. intros r Hr. apply in_map_iff in Hr.
  destruct Hr as (a & <- & _). apply map_length.
Qed.

Theorem vei_check_c1p alts ballots border :
  vei_check alts ballots border = true <-> c1p_check (vei_matrix alts ballots) (length ballots) border = true.
Proof.
  rewrite c1p_check_correct. unfold vei_check, vei_matrix. rewrite andb_true_iff, perm_of_seq_correct.
  split; intros [HP H]; (split; [exact HP|]).
  - apply (cei_reduction _ _ border (vi_matrix_rows alts ballots) (perm_of_seq_range _ _ HP)).
    rewrite vi_matrix_eq, Forall_map. apply Forall_forall. intros a Ha.
    rewrite forallb_forall in H. specialize (H a Ha). unfold row_extremal. now rewrite vi_row_permute.
  - apply (cei_reduction _ _ border (vi_matrix_rows alts ballots) (perm_of_seq_range _ _ HP)) in H.
    rewrite vi_matrix_eq, Forall_map, Forall_forall in H. apply forallb_forall. intros a Ha.
    specialize (H a Ha). unfold row_extremal in H. now rewrite vi_row_permute in H.
Qed.

Theorem vei_reduction alts ballots : VEI alts ballots <-> C1P (vei_matrix alts ballots) (length ballots).
Proof.
  unfold VEI, C1P. split; intros (p & H); exists p.
  - apply vei_check_correct, vei_check_c1p in H. now apply c1p_check_correct.
  - apply vei_check_correct, vei_check_c1p. now apply c1p_check_correct.
Qed.

(* ---- weak single-crossing: two rows per unordered pair ---- *)
Lemma wsc_entry2_swap a b bl : wsc_entry2 a b bl = wsc_entry1 b a bl.
Proof. unfold wsc_entry2, wsc_entry1. destruct (mem a bl), (mem b bl); reflexivity. Qed.

Lemma pairs_in l a b : In (a, b) (pairs l) -> In a l /\ In b l.
Proof.
  induction l as [|x t IH]; simpl; [tauto|]. intros H. apply in_app_or in H. destruct H as [H|H].
  - apply in_map_iff in H. destruct H as (y & E & Hy). injection E as <- <-. auto.
  - destruct (IH H). auto.
Qed.

Lemma pairs_total l a b : In a l -> In b l -> a <> b -> In (a, b) (pairs l) \/ In (b, a) (pairs l).
Proof.
  induction l as [|x t IH]; simpl; [tauto|]. intros [Ha|Ha] [Hb|Hb] Hne.
  - congruence.
  - subst x. left. apply in_or_app. left. now apply in_map.
  - subst x. right. apply in_or_app. left. now apply in_map.
  - destruct (IH Ha Hb Hne); [left|right]; apply in_or_app; now right.
Qed.

Lemma contig01_all_false {X} (l : list X) : contig01 (map (fun _ => false) l) = true.
Proof. induction l; simpl; auto. Qed.

Lemma wsc_row_permute a b ballots border :
  permute_row border (map (wsc_entry1 a b) ballots) =
  map (fun i => mem a (ballot_at ballots i) && negb (mem b (ballot_at ballots i))) border.
Proof.
  unfold permute_row, pick, ballot_at. apply map_ext. intros i.
  change false with (wsc_entry1 a b []). apply (map_nth (wsc_entry1 a b)).
Qed.

Theorem wsc_check_c1p alts ballots border :
  wsc_check alts ballots border = true <-> c1p_check (wsc_matrix alts ballots) (length ballots) border = true.
Proof.
  rewrite c1p_check_correct. unfold wsc_check, wsc_matrix. rewrite andb_true_iff, perm_of_seq_correct.
  rewrite Forall_flat_map, Forall_forall, forallb_forall.
  split; intros [HP H]; (split; [exact HP|]).
  - intros [a b] Hab. apply pairs_in in Hab. destruct Hab as [Ha Hb]. simpl.
    assert (Hab := H a Ha). rewrite forallb_forall in Hab. specialize (Hab b Hb).
    assert (Hba := H b Hb). rewrite forallb_forall in Hba. specialize (Hba a Ha).
    repeat constructor; unfold row_contig.
    + now rewrite wsc_row_permute.
    + rewrite (map_ext _ _ (wsc_entry2_swap a b)). now rewrite wsc_row_permute.
  - intros a Ha. apply forallb_forall. intros b Hb.
    destruct (N.eq_dec a b) as [->|Hne].
    + rewrite (map_ext _ (fun _ => false)); [apply contig01_all_false|].
      intros i. now destruct (mem b (ballot_at ballots i)).
    + destruct (pairs_total alts a b Ha Hb Hne) as [Hin|Hin]; specialize (H _ Hin); simpl in H;
        inversion H as [|? ? H1 H']; subst; inversion H' as [|? ? H2 _]; subst; unfold row_contig in *.
      * now rewrite wsc_row_permute in H1.
      * rewrite (map_ext _ _ (wsc_entry2_swap b a)) in H2. now rewrite wsc_row_permute in H2.
Qed.

Theorem wsc_reduction alts ballots : WSC alts ballots <-> C1P (wsc_matrix alts ballots) (length ballots).
Proof.
  unfold WSC, C1P. split; intros (p & H); exists p.
  - apply wsc_check_correct, wsc_check_c1p in H. now apply c1p_check_correct.
  - apply wsc_check_correct, wsc_check_c1p. now apply c1p_check_correct.
Qed.

(* ------------------------------------------------------------------------------------------------ *)
(* partitions *)
Definition SetEq (s t : list N) : Prop := forall x, In x s <-> In x t.
Definition Disjoint (s t : list N) : Prop := forall x, In x s -> In x t -> False.

Lemma SetEq_refl s : SetEq s s.
Proof. intros x. reflexivity. Qed.
Lemma SetEq_sym s t : SetEq s t -> SetEq t s.
Proof. intros H x. symmetry. apply H. Qed.
Lemma SetEq_trans s t u : SetEq s t -> SetEq t u -> SetEq s u.
Proof. intros H1 H2 x. rewrite (H1 x). apply H2. Qed.

Lemma subset_iff s t : subset s t = true <-> incl s t.
Proof.
  unfold subset, incl. rewrite forallb_forall. split; intros H x Hx; apply mem_iff; now apply H.
Qed.

Lemma set_eq_iff s t : set_eq s t = true <-> SetEq s t.
Proof.
  unfold set_eq, SetEq. rewrite andb_true_iff, !subset_iff. unfold incl. split.
  - intros [H1 H2] x. split; auto.
  - intros H. split; intros x; apply H.
Qed.

Lemma set_eq_false_iff s t : set_eq s t = false <-> ~ SetEq s t.
Proof. rewrite <- set_eq_iff. destruct (set_eq s t); split; congruence. Qed.

Lemma meets_iff s t : meets s t = true <-> exists x, In x s /\ In x t.
Proof.
  unfold meets. rewrite existsb_exists. split; intros (x & H1 & H2); exists x; (split; [exact H1|]);
    now apply mem_iff.
Qed.

Lemma meets_false_iff s t : meets s t = false <-> Disjoint s t.
Proof.
  unfold Disjoint. split.
  - intros H x H1 H2. assert (E : meets s t = true) by (apply meets_iff; eauto). congruence.
  - intros H. destruct (meets s t) eqn:E; [|reflexivity]. apply meets_iff in E.
    destruct E as (x & H1 & H2). destruct (H x H1 H2).
Qed.

Lemma meets_sym s t : meets s t = meets t s.
Proof.
  destruct (meets t s) eqn:E.
  - apply meets_iff in E. apply meets_iff. destruct E as (x & H1 & H2). eauto.
  - apply meets_false_iff in E. apply meets_false_iff. intros x H1 H2. exact (E x H2 H1).
Qed.

Lemma to_set_In x l : In x (to_set l) <-> In x l.
Proof.
  induction l as [|y t IH]; simpl; [reflexivity|]. destruct (mem y t) eqn:E.
  - rewrite IH. apply mem_iff in E. split; [auto|]. intros [->|H]; auto.
  - simpl. rewrite IH. reflexivity.
Qed.

Lemma to_set_SetEq l : SetEq (to_set l) l.
Proof. intros x. apply to_set_In. Qed.

Lemma to_set_NoDup l : NoDup (to_set l).
Proof.
  induction l as [|y t IH]; simpl; [constructor|]. destruct (mem y t) eqn:E; [exact IH|].
  constructor; [|exact IH]. rewrite to_set_In. now apply mem_false_iff.
Qed.

(* any two approval sets are equal or disjoint *)
Definition PartOK (ballots : list (list N)) : Prop :=
  forall b1 b2, In b1 ballots -> In b2 ballots -> SetEq b1 b2 \/ Disjoint b1 b2.

(* the relation the parts of a partition witness satisfy pairwise *)
Definition part_rel (s t : list N) : bool := negb (set_eq s t) && negb (meets s t).

Lemma part_rel_sym s t : part_rel s t = part_rel t s.
Proof.
  unfold part_rel. rewrite (meets_sym s t). f_equal. f_equal.
  destruct (set_eq t s) eqn:E.
  - apply set_eq_iff. apply set_eq_iff in E. now apply SetEq_sym.
  - apply set_eq_false_iff. apply set_eq_false_iff in E. intros H. apply E. now apply SetEq_sym.
Qed.

Lemma pairwise_app_one {T} (r : T -> T -> bool) l a :
  pairwise r (l ++ [a]) = pairwise r l && forallb (fun s => r s a) l.
Proof.
  induction l as [|x t IH]; simpl; [reflexivity|].
  rewrite IH, forallb_app. simpl. rewrite andb_true_r.
  destruct (forallb (r x) t), (r x a), (pairwise r t), (forallb (fun s => r s a) t); reflexivity.
Qed.

Lemma pairwise_in {T} (r : T -> T -> bool) l x y :
  (forall u v, r u v = r v u) -> pairwise r l = true -> In x l -> In y l -> x = y \/ r x y = true.
Proof.
  intros Hsym. induction l as [|z t IH]; simpl; [tauto|].
  rewrite andb_true_iff, forallb_forall. intros [Hz Ht] [Hx|Hx] [Hy|Hy].
  - left. congruence.
  - subst z. right. now apply Hz.
  - subst z. right. rewrite Hsym. now apply Hz.
  - now apply IH.
Qed.

(* Prop reading of the partition checker: parts = the distinct approval sets, pairwise disjoint *)
Theorem part_check_spec ballots parts :
  part_check ballots parts = true <->
  (forall b, In b ballots -> exists s, In s parts /\ SetEq s b) /\
  (forall s, In s parts -> exists b, In b ballots /\ SetEq s b) /\
  pairwise part_rel parts = true.
Proof.
  unfold part_check. rewrite !andb_true_iff, !forallb_forall. fold part_rel. split.
  - intros [[H1 H2] H3]. split; [|split]; [| |exact H3].
    + intros b Hb. specialize (H1 b Hb). apply existsb_exists in H1. destruct H1 as (s & Hs & E).
      exists s. split; [exact Hs|now apply set_eq_iff].
    + intros s Hs. specialize (H2 s Hs). apply existsb_exists in H2. destruct H2 as (b & Hb & E).
      exists b. split; [exact Hb|now apply set_eq_iff].
  - intros (H1 & H2 & H3). split; [split|exact H3].
    + intros b Hb. destruct (H1 b Hb) as (s & Hs & E). apply existsb_exists. exists s.
      split; [exact Hs|now apply set_eq_iff].
    + intros s Hs. destruct (H2 s Hs) as (b & Hb & E). apply existsb_exists.
      exists b. split; [exact Hb|now apply set_eq_iff].
Qed.

(* a partition witness certifies membership in the partition domain *)
Theorem part_check_sound ballots parts : part_check ballots parts = true -> PartOK ballots.
Proof.
  rewrite part_check_spec. intros (H1 & _ & H3) b1 b2 Hb1 Hb2.
  destruct (H1 b1 Hb1) as (s1 & Hs1 & E1). destruct (H1 b2 Hb2) as (s2 & Hs2 & E2).
  destruct (pairwise_in part_rel parts s1 s2 part_rel_sym H3 Hs1 Hs2) as [->|R].
  - left. eapply SetEq_trans; [apply SetEq_sym; exact E1|exact E2].
  - right. unfold part_rel in R. apply andb_true_iff in R. destruct R as [_ R].
    apply negb_true_iff, meets_false_iff in R. intros x Hx1 Hx2.
    apply (R x); [now apply E1|now apply E2].
Qed.

Lemma part_scan_spec parts a :
  match part_scan parts a with
  | Some false => exists s, In s parts /\ set_eq s a = true
  | Some true => forall s, In s parts -> set_eq s a = false /\ meets a s = false
  | None => exists s, In s parts /\ set_eq s a = false /\ meets a s = true
  end.
Proof.
  induction parts as [|s rest IH]; simpl.
  - intros s [].
  - destruct (set_eq s a) eqn:E1.
    + exists s. auto.
    + destruct (meets a s) eqn:E2.
      * exists s. auto.
      * destruct (part_scan rest a) as [[|]|].
        -- intros s' [<-|Hs']; auto.
        -- destruct IH as (s' & Hs' & E). exists s'. auto.
        -- destruct IH as (s' & Hs' & E). exists s'. auto.
Qed.

Lemma part_loop_spec bs : forall done parts,
  part_check done parts = true ->
  match part_loop bs parts with
  | Some parts' => part_check (done ++ bs) parts' = true
  | None => ~ PartOK (done ++ bs)
  end.
Proof.
  induction bs as [|b bs IH]; intros done parts Hinv; simpl.
  - now rewrite app_nil_r.
  - pose proof (part_scan_spec parts (to_set b)) as Hscan.
    pose proof (to_set_SetEq b) as Hb.
    apply part_check_spec in Hinv. destruct Hinv as (H1 & H2 & H3).
    destruct (part_scan parts (to_set b)) as [[|]|].
    + (* a new part *)
      specialize (IH (done ++ [b]) (parts ++ [to_set b])). rewrite <- app_assoc in IH. simpl in IH.
      apply IH. apply part_check_spec. split; [|split].
      * intros b' Hb'. apply in_app_or in Hb'. destruct Hb' as [Hb'|[<-|[]]].
        -- destruct (H1 b' Hb') as (s & Hs & E). exists s. split; [apply in_or_app; now left|exact E].
        -- exists (to_set b). split; [apply in_or_app; right; now left|exact Hb].
      * intros s Hs. apply in_app_or in Hs. destruct Hs as [Hs|[<-|[]]].
        -- destruct (H2 s Hs) as (b' & Hb' & E). exists b'. split; [apply in_or_app; now left|exact E].
        -- exists b. split; [apply in_or_app; right; now left|exact Hb].
      * rewrite pairwise_app_one, H3. simpl. apply forallb_forall. intros s Hs.
        destruct (Hscan s Hs) as [E1 E2]. unfold part_rel. now rewrite E1, meets_sym, E2.
    + (* an approval set seen before *)
      specialize (IH (done ++ [b]) parts). rewrite <- app_assoc in IH. simpl in IH.
      apply IH. apply part_check_spec. split; [|split]; [| |exact H3].
      * intros b' Hb'. apply in_app_or in Hb'. destruct Hb' as [Hb'|[<-|[]]]; [now apply H1|].
        destruct Hscan as (s & Hs & E). exists s. split; [exact Hs|].
        apply set_eq_iff in E. eapply SetEq_trans; [exact E|exact Hb].
      * intros s Hs. destruct (H2 s Hs) as (b' & Hb' & E). exists b'. split; [apply in_or_app; now left|exact E].
    + (* overlap without equality *)
      destruct Hscan as (s & Hs & E1 & E2). destruct (H2 s Hs) as (b0 & Hb0 & E0).
      intros HP. apply set_eq_false_iff in E1. apply meets_iff in E2. destruct E2 as (x & Hx1 & Hx2).
      destruct (HP b0 b) as [HE|HD].
      * apply in_or_app. now left.
      * apply in_or_app. right. now left.
      * apply E1. eapply SetEq_trans; [exact E0|]. eapply SetEq_trans; [exact HE|now apply SetEq_sym].
      * apply (HD x); [now apply E0|now apply Hb].
Qed.

(* is_part returns a list <-> any two approval sets are equal or disjoint; the returned list is then accepted
   by the partition checker: it consists of the distinct approval sets, each once, pairwise disjoint *)
Theorem part_witness ballots parts : is_part ballots = Some parts -> part_check ballots parts = true.
Proof.
  unfold is_part. intros H. pose proof (part_loop_spec ballots [] [] eq_refl) as L.
  rewrite H in L. exact L.
Qed.

Theorem part_correct ballots : (exists parts, is_part ballots = Some parts) <-> PartOK ballots.
Proof.
  split.
  - intros (parts & H). apply (part_check_sound ballots parts), part_witness, H.
  - intros HP. pose proof (part_loop_spec ballots [] [] eq_refl) as L. unfold is_part.
    destruct (part_loop ballots []) as [parts|]; [now exists parts|]. now destruct L.
Qed.

Theorem part_decide_correct ballots : part_decide ballots = true <-> PartOK ballots.
Proof.
  unfold part_decide, PartOK. rewrite forallb_forall. split.
  - intros H b1 b2 H1 H2. specialize (H b1 H1). rewrite forallb_forall in H. specialize (H b2 H2).
    apply orb_true_iff in H. destruct H as [H|H]; [left; now apply set_eq_iff|].
    right. now apply meets_false_iff, negb_true_iff.
  - intros H b1 H1. apply forallb_forall. intros b2 H2. apply orb_true_iff.
    destruct (H b1 b2 H1 H2) as [E|D]; [left; now apply set_eq_iff|].
    right. now apply negb_true_iff, meets_false_iff.
Qed.

(* ------------------------------------------------------------------------------------------------ *)
(* 2-partitions: at most two distinct approval sets s and t (none when there is no ballot), any two approval sets
   equal or disjoint, and if s and t differ they cover all the alternatives *)
Definition TwoPart (alts : list N) (ballots : list (list N)) : Prop :=
  PartOK ballots /\
  (ballots = [] \/
   exists s t, In s ballots /\ In t ballots /\
     (forall b, In b ballots -> SetEq b s \/ SetEq b t) /\
     (SetEq s t \/ SetEq (s ++ t) alts)).

Definition two_cond (alts : list N) (parts : list (list N)) : Prop :=
  length parts = 1 \/ (length parts = 2 /\ SetEq (concat parts) alts).

Lemma SetEq_app s s' t t' : SetEq s s' -> SetEq t t' -> SetEq (s ++ t) (s' ++ t').
Proof. intros H1 H2 x. rewrite !in_app_iff, (H1 x), (H2 x). reflexivity. Qed.

Lemma two_part_A alts ballots parts :
  part_check ballots parts = true -> two_cond alts parts -> TwoPart alts ballots.
Proof.
  intros Hc Hcond. split; [now apply (part_check_sound ballots parts)|].
  apply part_check_spec in Hc. destruct Hc as (H1 & H2 & H3).
  destruct Hcond as [Hlen|[Hlen Hcov]].
  - destruct parts as [|p [|q r]]; try discriminate.
    destruct (H2 p (or_introl eq_refl)) as (b0 & Hb0 & E0).
    right. exists b0, b0. repeat split; auto.
    + intros b Hb. destruct (H1 b Hb) as (s & [<-|[]] & E). left.
      eapply SetEq_trans; [apply SetEq_sym; exact E|exact E0].
    + left. apply SetEq_refl.
  - destruct parts as [|p [|q [|r rest]]]; try discriminate.
    destruct (H2 p (or_introl eq_refl)) as (bp & Hbp & Ep).
    destruct (H2 q (or_intror (or_introl eq_refl))) as (bq & Hbq & Eq).
    right. exists bp, bq. repeat split; auto.
    + intros b Hb. destruct (H1 b Hb) as (s & [<-|[<-|[]]] & E).
      * left. eapply SetEq_trans; [apply SetEq_sym; exact E|exact Ep].
      * right. eapply SetEq_trans; [apply SetEq_sym; exact E|exact Eq].
    + right. simpl in Hcov. rewrite app_nil_r in Hcov.
      eapply SetEq_trans; [|exact Hcov]. apply SetEq_app; now apply SetEq_sym.
Qed.

Lemma part_rel_not_eq p q : part_rel p q = true -> ~ SetEq p q.
Proof.
  unfold part_rel. rewrite andb_true_iff, negb_true_iff. intros [H _]. now apply set_eq_false_iff.
Qed.

Lemma two_part_B alts ballots parts :
  ballots <> [] -> part_check ballots parts = true -> TwoPart alts ballots -> two_cond alts parts.
Proof.
  intros Hne Hc [_ [Hnil|(s & t & Hs & Ht & Hall & Hcov)]]; [contradiction|].
  apply part_check_spec in Hc. destruct Hc as (H1 & H2 & H3).
  assert (Hst : forall p, In p parts -> SetEq p s \/ SetEq p t).
  { intros p Hp. destruct (H2 p Hp) as (b & Hb & E). destruct (Hall b Hb) as [E'|E'];
      [left|right]; eapply SetEq_trans; eassumption. }
  assert (Hsame : forall p q u, SetEq p u -> SetEq q u -> part_rel p q = true -> False).
  { intros p q u Hp Hq R. apply (part_rel_not_eq p q R).
    eapply SetEq_trans; [exact Hp|now apply SetEq_sym]. }
  destruct parts as [|p [|q [|r rest]]].
  - destruct (H1 s Hs) as (x & [] & _).
  - left. reflexivity.
  - right. split; [reflexivity|]. simpl. rewrite app_nil_r.
    simpl in H3. rewrite !andb_true_iff in H3. destruct H3 as [[R _] _].
    destruct (Hst p (or_introl eq_refl)) as [Ep|Ep];
      destruct (Hst q (or_intror (or_introl eq_refl))) as [Eq|Eq].
    + destruct (Hsame p q s Ep Eq R).
    + destruct Hcov as [Hcov|Hcov].
      * destruct (Hsame p q t); auto. eapply SetEq_trans; eassumption.
      * eapply SetEq_trans; [|exact Hcov]. now apply SetEq_app.
    + destruct Hcov as [Hcov|Hcov].
      * destruct (Hsame p q t); auto. eapply SetEq_trans; eassumption.
      * eapply SetEq_trans; [|exact Hcov]. intros x. rewrite !in_app_iff, (Ep x), (Eq x). tauto.
    + destruct (Hsame p q t Ep Eq R).
  - exfalso. simpl in H3. rewrite !andb_true_iff in H3.
    destruct H3 as [[Rpq [Rpr _]] [[Rqr _] _]].
    destruct (Hst p (or_introl eq_refl)) as [Ep|Ep];
      destruct (Hst q (or_intror (or_introl eq_refl))) as [Eq|Eq];
      destruct (Hst r (or_intror (or_intror (or_introl eq_refl)))) as [Er|Er];
      eauto using Hsame.
Qed.

Lemma is_2_part_unfold alts ballots parts :
  is_2_part alts ballots = Some parts <-> is_part ballots = Some parts /\ two_cond alts parts.
Proof.
  unfold is_2_part, two_cond. destruct (is_part ballots) as [ps|]; [|split; [discriminate|intros [H _]; discriminate]].
  assert (Hcov : set_eq (union_all ps) (to_set alts) = true <-> SetEq (concat ps) alts).
  { rewrite set_eq_iff. unfold union_all. split; intros H.
    - eapply SetEq_trans; [apply SetEq_sym, to_set_SetEq|]. eapply SetEq_trans; [exact H|apply to_set_SetEq].
    - eapply SetEq_trans; [apply to_set_SetEq|]. eapply SetEq_trans; [exact H|apply SetEq_sym, to_set_SetEq]. }
  destruct (Nat.eqb_spec (length ps) 1) as [E1|E1].
  - split; [intros [= <-]; auto|intros [[= <-] _]; reflexivity].
  - destruct (Nat.eqb_spec (length ps) 2) as [E2|E2]; simpl.
    + destruct (set_eq (union_all ps) (to_set alts)) eqn:E.
      * split; [intros [= <-]; split; [reflexivity|right; split; [exact E2|now apply Hcov]]
               |intros [[= <-] _]; reflexivity].
      * split; [discriminate|]. intros [[= <-] [H|[_ H]]]; [contradiction|].
        apply Hcov in H. congruence.
    + split; [discriminate|]. intros [[= <-] [H|[H _]]]; contradiction.
Qed.

(* is_2_part returns a list <-> the profile is a 2-partition; the returned list passes the 2-partition checker *)
Theorem two_part_correct alts ballots :
  ballots <> [] ->
  ((exists parts, is_2_part alts ballots = Some parts) <-> TwoPart alts ballots).
Proof.
  intros Hne. split.
  - intros (parts & H). apply is_2_part_unfold in H. destruct H as [H Hc].
    apply (two_part_A alts ballots parts); [now apply part_witness|exact Hc].
  - intros HT. assert (HP : PartOK ballots) by apply HT.
    apply part_correct in HP. destruct HP as (parts & Hp). exists parts.
    apply is_2_part_unfold. split; [exact Hp|].
    apply (two_part_B alts ballots parts Hne); [now apply part_witness|exact HT].
Qed.

(* soundness of is_2_part holds without the hypothesis *)
Theorem two_part_sound alts ballots parts : is_2_part alts ballots = Some parts -> TwoPart alts ballots.
Proof.
  intros H. apply is_2_part_unfold in H. destruct H as [H Hc].
  apply (two_part_A alts ballots parts); [now apply part_witness|exact Hc].
Qed.

Definition two_cond_check (alts : list N) (parts : list (list N)) : Prop :=
  length parts <= 1 \/ (length parts = 2 /\ SetEq (concat parts) alts).

Lemma part2_check_unfold alts ballots parts :
  part2_check alts ballots parts = true <-> part_check ballots parts = true /\ two_cond_check alts parts.
Proof.
  unfold part2_check, two_cond_check.
  rewrite andb_true_iff, orb_true_iff, andb_true_iff, Nat.leb_le, Nat.eqb_eq, set_eq_iff. reflexivity.
Qed.

Theorem two_part_witness alts ballots parts :
  is_2_part alts ballots = Some parts -> part2_check alts ballots parts = true.
Proof.
  intros H. apply is_2_part_unfold in H. destruct H as [H Hc].
  apply part2_check_unfold. split; [now apply part_witness|].
  destruct Hc as [Hc|Hc]; [left; lia|now right].
Qed.

Theorem part2_check_sound alts ballots parts : part2_check alts ballots parts = true -> TwoPart alts ballots.
Proof.
  intros H. apply part2_check_unfold in H. destruct H as [H Hc].
  destruct parts as [|p rest].
  - (* no part: no ballot *)
    apply part_check_spec in H. destruct H as (H1 & _ & _).
    destruct ballots as [|b bs]; [|destruct (H1 b (or_introl eq_refl)) as (s & [] & _)].
    split; [intros b1 b2 []|now left].
  - apply (two_part_A alts ballots (p :: rest) H).
    destruct Hc as [Hc|Hc]; [left; simpl in *; lia|now right].
Qed.

(* is_2_part refuses the profile without ballots, which has zero (at most two) distinct approval sets *)
Theorem two_part_no_ballots alts : is_2_part alts [] = None.
Proof. reflexivity. Qed.

Theorem two_part_no_ballots_refuted :
  exists alts ballots, TwoPart alts ballots /\ is_2_part alts ballots = None.
Proof.
  exists [1%N], []. split; [|reflexivity]. split; [intros b1 b2 []|now left].
Qed.

Theorem part2_decide_correct alts ballots : part2_decide alts ballots = true <-> TwoPart alts ballots.
Proof.
  unfold part2_decide, TwoPart. rewrite andb_true_iff, part_decide_correct.
  split; intros [HP H]; (split; [exact HP|]).
  - destruct ballots as [|s rest]; [now left|]. right.
    apply existsb_exists in H. destruct H as (t & Ht & H). apply andb_true_iff in H. destruct H as [Hall Hcov].
    exists s, t. split; [now left|]. split; [exact Ht|]. split.
    + intros b Hb. rewrite forallb_forall in Hall. specialize (Hall b Hb). apply orb_true_iff in Hall.
      destruct Hall as [E|E]; [left|right]; now apply set_eq_iff.
    + apply orb_true_iff in Hcov. destruct Hcov as [E|E]; [left|right]; now apply set_eq_iff.
  - destruct ballots as [|s0 rest]; [reflexivity|].
    destruct H as [H|(s & t & Hs & Ht & Hall & Hcov)]; [discriminate|].
    (* the first ballot is one of the two sets *)
    assert (Hgen : forall u, In u (s0 :: rest) -> (forall b, In b (s0 :: rest) -> SetEq b s0 \/ SetEq b u) ->
                   (SetEq s0 u \/ SetEq (s0 ++ u) alts) ->
                   existsb (fun t0 => forallb (fun b => set_eq b s0 || set_eq b t0) (s0 :: rest) &&
                                      (set_eq s0 t0 || set_eq (s0 ++ t0) alts)) (s0 :: rest) = true).
    { intros u Hu Hall' Hcov'. apply existsb_exists. exists u. split; [exact Hu|]. apply andb_true_iff. split.
      - apply forallb_forall. intros b Hb. apply orb_true_iff.
        destruct (Hall' b Hb) as [E|E]; [left|right]; now apply set_eq_iff.
      - apply orb_true_iff. destruct Hcov' as [E|E]; [left|right]; now apply set_eq_iff. }
    destruct (Hall s0 (or_introl eq_refl)) as [E0|E0].
    + apply (Hgen t Ht).
      * intros b Hb. destruct (Hall b Hb) as [E|E]; [left|now right].
        eapply SetEq_trans; [exact E|now apply SetEq_sym].
      * destruct Hcov as [E|E]; [left; eapply SetEq_trans; eassumption|right].
        eapply SetEq_trans; [|exact E]. apply SetEq_app; [exact E0|apply SetEq_refl].
    + apply (Hgen s Hs).
      * intros b Hb. destruct (Hall b Hb) as [E|E]; [now right|left].
        eapply SetEq_trans; [exact E|now apply SetEq_sym].
      * destruct Hcov as [E|E]; [left; eapply SetEq_trans; [exact E0|now apply SetEq_sym]|right].
        eapply SetEq_trans; [|exact E]. intros x. rewrite !in_app_iff, (E0 x). tauto.
Qed.

(* ------------------------------------------------------------------------------------------------ *)
(* dichotomous Euclidean *)
Local Open Scope Q_scope.

(* every voter has a position and a radius (the pair v), every alternative a position p a, and the voter
   approves exactly the alternatives within distance <= radius of its position *)
Definition DE_embed (alts : list N) (ballots : list (list N)) (vpr : list (Q * Q)) (p : N -> Q) : Prop :=
  Forall2 (fun b v => forall a, In a alts -> (Qabs (p a - fst v) <= snd v <-> In a b)) ballots vpr.
Definition DE alts ballots : Prop := exists vpr p, DE_embed alts ballots vpr p.

Definition pos_of (ap : list (N * Q)) (a : N) : Q := match lookupQ a ap with Some q => q | None => 0 end.

Lemma Forall_combine_Forall2 {X Y} (R : X -> Y -> Prop) l1 l2 :
  length l1 = length l2 -> (Forall (fun xy => R (fst xy) (snd xy)) (combine l1 l2) <-> Forall2 R l1 l2).
Proof.
  revert l2. induction l1 as [|x t IH]; intros [|y u] Hlen; simpl in *; try discriminate.
  - split; constructor.
  - injection Hlen as Hlen. split; intros H; inversion H; subst; constructor; auto; now apply (IH u Hlen).
Qed.

Lemma Forall2_len {X Y} (R : X -> Y -> Prop) l1 l2 : Forall2 R l1 l2 -> length l1 = length l2.
Proof. induction 1; simpl; congruence. Qed.

Lemma within_iff p x r : within p x r = true <-> Qabs (p - x) <= r.
Proof. unfold within. apply Qle_bool_iff. Qed.

(* Prop reading of the Euclidean checker *)
Theorem de_check_correct alts ballots vpr ap :
  de_check alts ballots vpr ap = true <->
  (forall a, In a alts -> ballots <> [] -> lookupQ a ap <> None) /\
  DE_embed alts ballots vpr (pos_of ap).
Proof.
  unfold de_check, DE_embed. rewrite andb_true_iff, Nat.eqb_eq, forallb_forall. split.
  - intros [Hlen H]. split.
    + intros a Ha Hne. destruct ballots as [|b bs]; [congruence|]. destruct vpr as [|v vs]; [discriminate|].
      specialize (H (b, v) (or_introl eq_refl)). rewrite forallb_forall in H. specialize (H a Ha).
      destruct (lookupQ a ap); [discriminate|discriminate H].
    + apply Forall_combine_Forall2; [now symmetry|]. apply Forall_forall. intros [b v] Hbv a Ha.
      specialize (H (b, v) Hbv). rewrite forallb_forall in H. specialize (H a Ha). cbn [fst snd] in *.
      unfold pos_of. destruct (lookupQ a ap) as [q|]; [|discriminate].
      apply eqb_prop in H. rewrite <- within_iff, H. apply mem_iff.
  - intros [Hlk H]. assert (Hlen := Forall2_len _ _ _ H). split; [now symmetry|].
    apply Forall_combine_Forall2 in H; [|exact Hlen]. rewrite Forall_forall in H.
    intros [b v] Hbv. apply forallb_forall. intros a Ha. specialize (H (b, v) Hbv a Ha). cbn [fst snd] in *.
    assert (Hne : ballots <> []) by (intros ->; destruct Hbv).
    specialize (Hlk a Ha Hne). unfold pos_of in H. destruct (lookupQ a ap) as [q|]; [|congruence].
    rewrite <- within_iff in H. rewrite <- mem_iff in H.
    destruct (within q (fst v) (snd v)), (mem a b); try reflexivity; destruct H; intuition congruence.
Qed.

Corollary de_check_sound alts ballots vpr ap : de_check alts ballots vpr ap = true -> DE alts ballots.
Proof. intros H. apply de_check_correct in H. exists vpr, (pos_of ap). apply H. Qed.

(* ---- the construction of is_dichotomous_euclidean ---- *)
Local Open Scope nat_scope.

Lemma index_of_lt a l : In a l -> index_of a l < length l.
Proof.
  induction l as [|y t IH]; simpl; [tauto|]. intros H. destruct (N.eqb_spec a y) as [->|Hne]; [lia|].
  destruct H as [H|H]; [congruence|]. specialize (IH H). lia.
Qed.

Lemma nth_index_of a l d : In a l -> nth (index_of a l) l d = a.
Proof.
  induction l as [|y t IH]; simpl; [tauto|]. intros H. destruct (N.eqb_spec a y) as [->|Hne]; [reflexivity|].
  destruct H as [H|H]; [congruence|]. now apply IH.
Qed.

Lemma index_of_inj a b l : In a l -> In b l -> index_of a l = index_of b l -> a = b.
Proof.
  intros Ha Hb E. rewrite <- (nth_index_of a l 0%N Ha), <- (nth_index_of b l 0%N Hb). now rewrite E.
Qed.

Lemma zmin_list_spec ps : forall p,
  In (zmin_list p ps) (p :: ps) /\ (forall q, In q (p :: ps) -> (zmin_list p ps <= q)%Z).
Proof.
  unfold zmin_list. induction ps as [|x t IH]; intros p; simpl.
  - split; [now left|]. intros q [<-|[]]. lia.
  - destruct (IH (Z.min p x)) as [Hin Hle]. split.
    + destruct Hin as [E|Hin]; [|now right; right]. rewrite <- E.
      destruct (Z.min_spec p x) as [[_ ->]|[_ ->]]; [now left|right; now left].
    + intros q [<-|[<-|Hq]].
      * specialize (Hle (Z.min p x) (or_introl eq_refl)). lia.
      * specialize (Hle (Z.min p x) (or_introl eq_refl)). lia.
      * apply Hle. now right.
Qed.

Lemma zmax_list_spec ps : forall p,
  In (zmax_list p ps) (p :: ps) /\ (forall q, In q (p :: ps) -> (q <= zmax_list p ps)%Z).
Proof.
  unfold zmax_list. induction ps as [|x t IH]; intros p; simpl.
  - split; [now left|]. intros q [<-|[]]. lia.
  - destruct (IH (Z.max p x)) as [Hin Hle]. split.
    + destruct Hin as [E|Hin]; [|now right; right]. rewrite <- E.
      destruct (Z.max_spec p x) as [[_ ->]|[_ ->]]; [right; now left|now left].
    + intros q [<-|[<-|Hq]].
      * specialize (Hle (Z.max p x) (or_introl eq_refl)). lia.
      * specialize (Hle (Z.max p x) (or_introl eq_refl)). lia.
      * apply Hle. now right.
Qed.

Lemma within_half p l r : within (inject_Z p) (Qmake (l + r) 2) (Qmake (r - l) 2) = true <-> (l <= p <= r)%Z.
Proof.
  unfold within. rewrite Qle_bool_iff, Qabs_Qle_condition.
  unfold Qle, Qopp, Qminus, Qplus, Qopp, inject_Z. simpl. lia.
Qed.

Lemma within_zero p q : within (inject_Z p) (inject_Z q) (inject_Z 0) = true <-> p = q.
Proof.
  unfold within. rewrite Qle_bool_iff, Qabs_Qle_condition.
  unfold Qle, Qopp, Qminus, Qplus, Qopp, inject_Z. simpl. lia.
Qed.

(* between the leftmost and the rightmost approved alternative everything is approved *)
Lemma span_iff order b a0 rest a :
  b = a0 :: rest -> incl b order -> In a order ->
  contig01 (map (fun x => mem x b) order) = true ->
  ((zmin_list (alt_pos order a0) (map (alt_pos order) rest) <= alt_pos order a
    <= zmax_list (alt_pos order a0) (map (alt_pos order) rest))%Z <-> In a b).
Proof.
  intros Hb Hincl Ha Hc.
  destruct (zmin_list_spec (map (alt_pos order) rest) (alt_pos order a0)) as [Hlin Hlle].
  destruct (zmax_list_spec (map (alt_pos order) rest) (alt_pos order a0)) as [Hrin Hrle].
  change (alt_pos order a0 :: map (alt_pos order) rest) with (map (alt_pos order) (a0 :: rest)) in *.
  rewrite <- Hb in *. split.
  - intros [Hl Hr].
    apply in_map_iff in Hlin. destruct Hlin as (al & El & Hal).
    apply in_map_iff in Hrin. destruct Hrin as (ar & Er & Har).
    rewrite <- El in Hl. rewrite <- Er in Hr. unfold alt_pos in Hl, Hr.
    assert (Hal' := Hincl _ Hal). assert (Har' := Hincl _ Har).
    destruct (Nat.eq_dec (index_of al order) (index_of a order)) as [E|NE1].
    { apply index_of_inj in E; auto. now subst. }
    destruct (Nat.eq_dec (index_of a order) (index_of ar order)) as [E|NE2].
    { apply index_of_inj in E; auto. now subst. }
    rewrite (contig01_map_between (fun x => mem x b) (fun x => In x b) (fun x => mem_iff x b)) in Hc.
    specialize (Hc (index_of al order) (index_of a order) (index_of ar order) 0%N).
    rewrite !nth_index_of in Hc by assumption.
    apply Hc; auto; try lia. now apply index_of_lt.
  - intros Hab. split.
    + apply Hlle. now apply in_map.
    + apply Hrle. now apply in_map.
Qed.

Lemma de_voter_correct order b a :
  incl b order -> In a order -> contig01 (map (fun x => mem x b) order) = true ->
  within (inject_Z (alt_pos order a)) (fst (de_voter order b)) (snd (de_voter order b)) = mem a b.
Proof.
  intros Hincl Ha Hc. destruct b as [|a0 [|a1 rest]].
  - (* empty ballot: position -1, radius 0 *)
    simpl. destruct (within _ _ _) eqn:E; [|reflexivity]. apply within_zero in E.
    unfold alt_pos in E. lia.
  - (* singleton *)
    cbn [de_voter fst snd]. destruct (within _ _ _) eqn:E.
    + apply within_zero in E. unfold alt_pos in E. apply Nat2Z.inj in E.
      apply index_of_inj in E; auto; [|apply Hincl; now left]. subst. symmetry. apply mem_iff. now left.
    + symmetry. apply mem_false_iff. intros [->|[]]. 
      assert (E' : within (inject_Z (alt_pos order a)) (inject_Z (alt_pos order a)) (inject_Z 0) = true)
        by now apply within_zero.
      congruence.
  - cbn [de_voter fst snd].
    pose proof (span_iff order (a0 :: a1 :: rest) a0 (a1 :: rest) a eq_refl Hincl Ha Hc) as Hs.
    destruct (within _ _ _) eqn:E.
    + apply within_half in E. symmetry. apply mem_iff. now apply Hs.
    + symmetry. apply mem_false_iff. intros Hab. apply Hs in Hab. apply within_half in Hab. congruence.
Qed.

Lemma lookupQ_map (f : N -> Q) order a :
  In a order -> lookupQ a (map (fun x => (x, f x)) order) = Some (f a).
Proof.
  induction order as [|y t IH]; simpl; [tauto|]. intros H.
  destruct (N.eqb_spec a y) as [->|Hne]; [reflexivity|]. destruct H as [H|H]; [congruence|now apply IH].
Qed.

Lemma forallb_combine_map {X Y} (g : X * Y -> bool) (f : X -> Y) l :
  forallb g (combine l (map f l)) = forallb (fun x => g (x, f x)) l.
Proof. induction l as [|x t IH]; simpl; [reflexivity|]. now rewrite IH. Qed.

(* the code's construction is accepted by the Euclidean checker whenever the candidate order is accepted by
   the CI checker (ballots only mention alternatives of the instance) *)
Theorem de_construct_accepted alts ballots order :
  Forall (fun b => incl b alts) ballots ->
  ci_check alts ballots order = true ->
  de_check alts ballots (fst (de_construct ballots order)) (snd (de_construct ballots order)) = true.
Proof.
  intros Hwf Hci. unfold ci_check in Hci. apply andb_true_iff in Hci. destruct Hci as [HP Hc].
  apply perm_of_correct in HP. rewrite forallb_forall in Hc. rewrite Forall_forall in Hwf.
  unfold de_construct, de_check. cbn [fst snd]. rewrite map_length, Nat.eqb_refl. cbn [andb].
  rewrite forallb_combine_map. apply forallb_forall. intros b Hb. apply forallb_forall. intros a Ha.
  cbn [fst snd].
  assert (Ha' : In a order) by (eapply Permutation_in; eassumption).
  rewrite (lookupQ_map (fun x => inject_Z (alt_pos order x)) order a Ha').
  rewrite de_voter_correct; auto.
  - apply eqb_reflx.
  - intros x Hx. eapply Permutation_in; [exact HP|]. now apply (Hwf b Hb).
Qed.

(* CI => dichotomous Euclidean, with the code's construction as the witness *)
Theorem ci_implies_de alts ballots :
  Forall (fun b => incl b alts) ballots -> CI alts ballots -> DE alts ballots.
Proof.
  intros Hwf (order & H). apply ci_check_correct in H.
  eapply de_check_sound. apply (de_construct_accepted alts ballots order Hwf H).
Qed.

(* ------------------------------------------------------------------------------------------------ *)
(* dichotomous Euclidean => CI: sort the alternatives by their position *)
From Coq Require Import Sorted Lqa.

Section SortByKey.
Variable key : N -> Q.

Fixpoint insert_by (a : N) (l : list N) : list N :=
  match l with
  | [] => [a]
  | y :: t => if Qle_bool (key a) (key y) then a :: y :: t else y :: insert_by a t
  end.
Definition sort_by (l : list N) : list N := fold_right insert_by [] l.

Lemma insert_by_perm a l : Permutation (a :: l) (insert_by a l).
Proof.
  induction l as [|y t IH]; simpl; [reflexivity|]. destruct (Qle_bool (key a) (key y)); [reflexivity|].
  transitivity (y :: a :: t); [apply perm_swap|]. now constructor.
Qed.

Lemma sort_by_perm l : Permutation l (sort_by l).
Proof.
  induction l as [|a t IH]; simpl; [constructor|].
  transitivity (a :: sort_by t); [now constructor|apply insert_by_perm].
Qed.

Definition key_le (a b : N) : Prop := (key a <= key b)%Q.

Lemma insert_by_sorted a l : StronglySorted key_le l -> StronglySorted key_le (insert_by a l).
Proof.
  induction l as [|y t IH]; simpl; intros Hs.
  - constructor; constructor.
  - inversion Hs as [|? ? Hst Hall]; subst. destruct (Qle_bool (key a) (key y)) eqn:E.
    + apply Qle_bool_iff in E. constructor; [exact Hs|]. constructor; [exact E|].
      rewrite Forall_forall in *. intros z Hz. unfold key_le in *. specialize (Hall z Hz). lra.
    + assert (Hlt : (key y <= key a)%Q).
      { destruct (Qlt_le_dec (key y) (key a)) as [H|H]; [lra|]. apply Qle_bool_iff in H. congruence. }
      constructor; [now apply IH|]. rewrite Forall_forall in *. intros z Hz.
      apply (Permutation_in _ (Permutation_sym (insert_by_perm a t))) in Hz.
      destruct Hz as [<-|Hz]; [exact Hlt|now apply Hall].
Qed.

Lemma sort_by_sorted l : StronglySorted key_le (sort_by l).
Proof. induction l as [|a t IH]; simpl; [constructor|now apply insert_by_sorted]. Qed.

Lemma sorted_nth l d : StronglySorted key_le l ->
  forall i j, (i < j)%nat -> (j < length l)%nat -> key_le (nth i l d) (nth j l d).
Proof.
  induction 1 as [|x t Hs IH Hall]; intros i j Hij Hj; simpl in *; [lia|].
  destruct j as [|j]; [lia|]. destruct i as [|i].
  - rewrite Forall_forall in Hall. apply Hall, nth_In. lia.
  - apply IH; lia.
Qed.
End SortByKey.

Theorem de_implies_ci alts ballots : DE alts ballots -> CI alts ballots.
Proof.
  intros (vpr & p & H). exists (sort_by p alts). split; [apply sort_by_perm|].
  assert (Hperm := sort_by_perm p alts).
  assert (Hsorted := sort_by_sorted p alts).
  unfold DE_embed in H. induction H as [|b v bs vs Hbv _ IH]; constructor; [|exact IH].
  apply (contig01_map (fun a => mem a b) (fun a => In a b) (fun a => mem_iff a b)).
  apply (contig01_map_between (fun a => mem a b) (fun a => In a b) (fun a => mem_iff a b)).
  intros i j k d Hij Hjk Hk Hi Hkk.
  set (order := sort_by p alts) in *.
  assert (Hin : forall n, (n < length order)%nat -> In (nth n order d) alts).
  { intros n Hn. apply (Permutation_in _ (Permutation_sym Hperm)), nth_In, Hn. }
  apply (Hbv _ (Hin i ltac:(lia))) in Hi. apply (Hbv _ (Hin k Hk)) in Hkk.
  apply (Hbv _ (Hin j ltac:(lia))).
  apply Qabs_Qle_condition in Hi. apply Qabs_Qle_condition in Hkk. apply Qabs_Qle_condition.
  pose proof (sorted_nth p order d Hsorted i j Hij ltac:(lia)) as H1.
  pose proof (sorted_nth p order d Hsorted j k Hjk Hk) as H2.
  unfold key_le in *. lra.
Qed.

(* dichotomous Euclidean over rational positions <-> candidate interval *)
Theorem de_iff_ci alts ballots :
  Forall (fun b => incl b alts) ballots -> (DE alts ballots <-> CI alts ballots).
Proof. intros Hwf. split; [apply de_implies_ci|now apply ci_implies_de]. Qed.

Theorem de_decide_correct alts ballots :
  Forall (fun b => incl b alts) ballots -> (de_decide alts ballots = true <-> DE alts ballots).
Proof.
  intros Hwf. unfold de_decide. rewrite existsb_exists. split.
  - intros (order & _ & H). now apply de_check_sound in H.
  - intros H. apply de_implies_ci in H. destruct H as (order & H). exists order. split.
    + apply perms_iff. apply H.
    + apply de_construct_accepted; [exact Hwf|now apply ci_check_correct].
Qed.

(* ------------------------------------------------------------------------------------------------ *)
(* the recognisers, relative to a consecutive-ones solver that is sound, complete and returns valid column
   orders (which is what the correspondence establishes for solve_consecutive_ones on every run) *)
Section RecognisersCorrect.
Variable solve : matrix -> nat -> option (list nat).
Hypothesis solve_ok : forall M nc,
  match solve M nc with
  | Some perm => c1p_check M nc perm = true
  | None => c1p_decide M nc = false
  end.

Lemma solve_none M nc : solve M nc = None -> ~ C1P M nc.
Proof.
  intros E H. pose proof (solve_ok M nc) as Hs. rewrite E in Hs.
  apply c1p_decide_correct in H. congruence.
Qed.

Theorem recog_ci alts ballots :
  match is_candidate_interval solve alts ballots with
  | Some order => ci_check alts ballots order = true
  | None => ~ CI alts ballots
  end.
Proof.
  unfold is_candidate_interval. pose proof (solve_ok (ci_matrix alts ballots) (length alts)) as Hs.
  destruct (solve (ci_matrix alts ballots) (length alts)) as [perm|] eqn:E; simpl.
  - now apply ci_witness.
  - rewrite ci_reduction. now apply solve_none.
Qed.

Theorem recog_cei alts ballots :
  match is_candidate_extremal_interval solve alts ballots with
  | Some order => cei_check alts ballots order = true
  | None => ~ CEI alts ballots
  end.
Proof.
  unfold is_candidate_extremal_interval.
  pose proof (solve_ok (cei_matrix alts ballots) (length alts)) as Hs.
  destruct (solve (cei_matrix alts ballots) (length alts)) as [perm|] eqn:E; simpl.
  - apply cei_witness in Hs. destruct Hs as [-> Hs]. exact Hs.
  - rewrite cei_reduction_instance. now apply solve_none.
Qed.

Theorem recog_vi alts ballots :
  match is_voter_interval solve alts ballots with
  | Some border => vi_check alts ballots border = true
  | None => ~ VI alts ballots
  end.
Proof.
  unfold is_voter_interval. pose proof (solve_ok (vi_matrix alts ballots) (length ballots)) as Hs.
  destruct (solve (vi_matrix alts ballots) (length ballots)) as [perm|] eqn:E.
  - now rewrite vi_check_c1p.
  - rewrite vi_reduction. now apply solve_none.
Qed.

Theorem recog_vei alts ballots :
  match is_voter_extremal_interval solve alts ballots with
  | Some border => vei_check alts ballots border = true
  | None => ~ VEI alts ballots
  end.
Proof.
  unfold is_voter_extremal_interval. pose proof (solve_ok (vei_matrix alts ballots) (length ballots)) as Hs.
  destruct (solve (vei_matrix alts ballots) (length ballots)) as [perm|] eqn:E.
  - now apply vei_check_c1p.
  - rewrite vei_reduction. now apply solve_none.
Qed.

Theorem recog_wsc alts ballots :
  match is_weakly_single_crossing solve alts ballots with
  | Some border => wsc_check alts ballots border = true
  | None => ~ WSC alts ballots
  end.
Proof.
  unfold is_weakly_single_crossing. pose proof (solve_ok (wsc_matrix alts ballots) (length ballots)) as Hs.
  destruct (solve (wsc_matrix alts ballots) (length ballots)) as [perm|] eqn:E.
  - now apply wsc_check_c1p.
  - rewrite wsc_reduction. now apply solve_none.
Qed.

Theorem recog_de alts ballots :
  Forall (fun b => incl b alts) ballots ->
  match is_dichotomous_euclidean solve alts ballots with
  | Some w => de_check alts ballots (fst w) (snd w) = true
  | None => ~ DE alts ballots
  end.
Proof.
  intros Hwf. unfold is_dichotomous_euclidean. pose proof (recog_ci alts ballots) as Hci.
  destruct (is_candidate_interval solve alts ballots) as [order|]; simpl.
  - now apply de_construct_accepted.
  - intros H. apply Hci. now apply de_implies_ci.
Qed.
End RecognisersCorrect.

(* the hypothesis on the solver is satisfiable: the reference enumeration itself *)
Lemma ref_solve_ok : forall M nc,
  match find (fun perm => forallb (row_contig perm) M) (perms (seq 0 nc)) with
  | Some perm => c1p_check M nc perm = true
  | None => c1p_decide M nc = false
  end.
Proof.
  intros M nc. destruct (find _ _) as [perm|] eqn:E.
  - apply find_some in E. destruct E as [Hin Hc]. unfold c1p_check. rewrite Hc, andb_true_r.
    apply perm_of_seq_correct. now apply perms_iff.
  - unfold c1p_decide. destruct (existsb _ _) eqn:Ex; [|reflexivity].
    apply existsb_exists in Ex. destruct Ex as (perm & Hin & Hc).
    now rewrite (find_none _ _ E perm Hin) in Hc.
Qed.
