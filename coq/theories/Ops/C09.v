(* Ops/C09.v — protocol entry points for property C09 (matching files, Model/WmdIO.v at W := text:
   a weight is its raw token).

   meta     = (file_name title description data_type modification_type relates_to related_files
               publication_date modification_date num_alternatives num_voters ((alt name) ...))
   instance = (meta num_edges ((node (neighbour ...)) ...) (((n1 n2) token) ...))   node ids: integers of either sign
   c09.write     instance                                  -> result text   (Err 5 = KeyError in write)
   c09.parse     (autocorrect header_only data_type file_name splitter text) -> result instance
                 splitter: 0 = file.readlines() (parse_file), 1 = str.splitlines() (parse_str)
   c09.roundtrip instance -> (result instance', text written from the instance, result text written from instance')
   c09.build     ((0 node) | (1 n1 n2 token) ...)          -> (node_mapping weights) after these add_node / add_edge
                                                              calls on an empty WeightedDiGraph *)
From Coq Require Import List ZArith NArith String.
From PrefVerif Require Import Lib.Val Lib.Dec Lib.PyStr Model.Meta Model.WmdIO.
Import ListNotations.
Open Scope string_scope.

Definition d_text (v : val) : text := dlist dN v.
Definition e_text (t : text) : val := elist eN t.

Definition d_meta (v : val) : meta :=
  mkMeta (d_text (dnth 0 v)) (d_text (dnth 1 v)) (d_text (dnth 2 v)) (d_text (dnth 3 v)) (d_text (dnth 4 v))
         (d_text (dnth 5 v)) (d_text (dnth 6 v)) (d_text (dnth 7 v)) (d_text (dnth 8 v))
         (dN (dnth 9 v)) (dN (dnth 10 v)) (dlist (dpair dN d_text) (dnth 11 v)) [].
Definition e_meta (m : meta) : val :=
  VL [e_text (file_name m); e_text (title m); e_text (description m); e_text (data_type m);
      e_text (modification_type m); e_text (relates_to m); e_text (related_files m);
      e_text (publication_date m); e_text (modification_date m); eN (num_alternatives m);
      eN (num_voters m); elist (epair eN e_text) (alt_names m)].

Definition d_inst (v : val) : twinst :=
  mkW (d_meta (dnth 0 v)) (dN (dnth 1 v))
      (dlist (dpair dZ (dlist dZ)) (dnth 2 v))
      (dlist (dpair (dpair dZ dZ) d_text) (dnth 3 v)).
Definition e_inst (i : twinst) : val :=
  VL [e_meta (w_meta i); eN (w_num_edges i);
      elist (epair eZ (elist eZ)) (w_nodes i);
      elist (epair (epair eZ eZ) e_text) (w_weights i)].

Definition write_r (i : twinst) : result text :=
  if wmd_write_ok i then Ok (wmd_write_tok i) else Err OtherErr.

Definition op_write (v : val) : val := eresult e_text (write_r (d_inst v)).

Definition split_lines (splitter : nat) (t : text) : list text :=
  match splitter with O => readlines t | _ => splitlines t end.

Definition op_parse (v : val) : val :=
  let ac := dbool (dnth 0 v) in
  let ho := dbool (dnth 1 v) in
  let m0 := set_file_name (meta0 (d_text (dnth 2 v))) (d_text (dnth 3 v)) in
  eresult e_inst (wmd_parse_tok ac ho m0 (split_lines (dnat (dnth 4 v)) (d_text (dnth 5 v)))).

Definition op_roundtrip (v : val) : val :=
  let i := d_inst v in
  let t := wmd_write_tok i in
  let r := wmd_parse_tok false false (meta0 (lit "wmd")) (readlines t) in
  VL [eresult e_inst r; eresult e_text (write_r i); eresult e_text (rbind r write_r)].

Definition build_step (g : nmap * wtab text) (v : val) : nmap * wtab text :=
  match dnat (dnth 0 v) with
  | O => (add_node (dZ (dnth 1 v)) (fst g), snd g)
  | _ => add_edge (dZ (dnth 1 v)) (dZ (dnth 2 v)) (d_text (dnth 3 v)) g
  end.
Definition op_build (v : val) : val :=
  let g := fold_left build_step (dlist (fun x => x) v) ([], []) in
  VL [elist (epair eZ (elist eZ)) (fst g); elist (epair (epair eZ eZ) e_text) (snd g)].

Definition ops : optable :=
  [ ("c09.write", op_write); ("c09.parse", op_parse); ("c09.roundtrip", op_roundtrip); ("c09.build", op_build) ].
