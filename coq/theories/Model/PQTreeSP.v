(* Model/PQTreeSP.v — is_single_peaked_pq_tree as the ALGORITHM it runs (C11 on top of the C05 mirror):
     type guard; matrix = sp_cons_ones_matrix (Model/SP.v sp_matrix); isC1P(matrix) (Model/C1P.v isC1P_model) with
     reorder_sets = the mirrored PQ-tree (Model/PQTree.v pq_reorder).
   elems = the order in which reorder_sets visits the elements (iteration order of the CPython set
   set().union( *sets )); it is read off the same expression by the harness.  Executable definitions only. *)
From Coq Require Import List NArith.
From PrefVerif Require Import Lib.Val Model.C1P Model.PQTree Model.SP.
Import ListNotations.

Definition pq_reorder_opt (elems : list nat) (F : list (list nat)) : option (list (list nat)) :=
  match pq_reorder elems F with Ok res => Some res | Err _ => None end.

Definition is_single_peaked_pq_tree_algo (elems : list nat) (d : ord_dt) (alts : list N) (p : list order)
  : result bool :=
  if dt_soc_toc d then Ok (isC1P_model (pq_reorder_opt elems) (sp_matrix alts p) (length alts)) else Err TypeErr.
