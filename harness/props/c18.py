"""C18 — k-alternative partitions are valid, and the brute-force one is minimum.

Case  c18.approx  payload [alts, rankings, mults, mode]
   k_alt_partition_approx(instance) -> axes.  The axes go through the verified checker  c18.check  (partition_check,
   theorem partition_check_correct) at every size.  mode 1 (small): additionally len(axes) >= c18.min (the verified
   optimum; theorem check_valid_bound says this follows from the check - a failure there is a broken correspondence).
Case  c18.bf      payload [alts, rankings, mults, ks]
   k_alternative_partition_brut_force(instance, k) for every k of ks (1..m+1) -> None or ONE partition (list of axes).
   Judge = the model's  brute_force_ok  (second sentence of the property; theorem brute_force_ok_correct) evaluated for
   every (k, result) with the verified optimum min_partition:  optimum <= k -> a partition passing partition_check
   with exactly `optimum` axes;  optimum > k -> None.
Every c18.bf case is also compared with the MIRROR of the (repaired) brute force, c18.bf_algo (Model/PartitionAlgo.v): same
None-ness and same number of axes for every k; equality of the returned partition is only counted.  The mirror is run
with the order in which CPython iterates the L-sets (observed by calling /repo's get_L_sets in the worker) as its order
parameter.  Case c18.algo (m = 9..14): implementation against the mirror only.
Case  c18.hist  payload [pre, alts, rankings, mults, script, flags]   (round-5 lessons: purity, aliasing, lifetime)
   One worker call: first the calls of `pre` on OTHER instances ([alts', rankings', kind, k] with overlapping ids:
   another m / a profile solved with one axis / a call answering None), then ONE instance object for the profile under
   test, built with the variations of `flags` (bit 1: instance.orders reversed and instance.multiplicity rebuilt in
   another key order; bit 2: numpy.int64 ids; bit 4: recompute_cardinality_param(), flatten_strict(), full_profile()
   called - and their results poisoned - before and between the calls), then the calls of `script` ([0] = approx,
   [1, k] = brute force with k) on that same object.  After every call common.snapshot / snap_diff must report no
   change of the instance, the returned partition (outer list and every axis) is poisoned in place, and EVERY answer is
   judged against the model of the ORIGINAL profile (c18.check / c18.bf).
rankings : flat strict complete rankings (distinct), storage order; mults : multiplicities (>= 1).
Defect KF-C18-a (from m = 6 on the brute force was not minimum: pairs only inside one L-set) was found by this check and
repaired in /repo by 175f7ec; its 77 failing inputs are kept in corpus/C18/fixed-175f7ec-bruteforce-not-minimum.json."""
import itertools
import random
import sys

from .common import case, guarded, ordinal_instance, strict, rand_perm

ID = "C18"
RULE = ("approx (seed-dependent): exhaustive small sets (below); random / planted k-partitions (votes single-peaked on each of "
        "k hidden blocks, randomly interleaved) / planted + noise / reversal pairs / cyclic shifts, m <= 25, n <= 15, arbitrary "
        "non-negative ids (id 0 in about half of the cases); axes through the verified checker at every size, reference optimum for m <= 8. "
        "brute force, every k in 1..m+1: m <= 5 exhaustive (below) + seed-dependent random/planted/cyclic (n <= 4, cyclic "
        "n <= m), m = 1 and m = 2 included; m >= 6: a fixed core of 3 000 profiles (constant seed) + regression profiles + "
        "10 000 (thorough 23 000) seed-dependent profiles, m = 6-8 (thorough 6-9), odd and even m; the corpus (77 inputs of "
        "the repaired defect KF-C18-a, the cap defect 07cd506) runs first; every brute-force case is also compared with "
        "the mirror bf_algo, and 150 (thorough 1 200) seed-dependent profiles with m = 9-13 (thorough 9-14) with the mirror only. "
        "histories (900, thorough 6 000, m <= 7): calls on other instances with overlapping ids first, then approx / brute "
        "force (several k, repeated) on ONE instance object with decoupled storage order / numpy.int64 ids / maintenance "
        "calls in between, instance snapshot compared and the returned partition poisoned after every call, every "
        "answer judged against the model of the original profile. "
        "non-trivial = reference optimum >= 2 axes")
EXHAUSTIVE = {"quick": "both functions: all sets of 1-2 distinct strict orders over m<=3, with the ids 1..m and with the ids 0..m-1; brute force: every set of <= 3 strict "
                       "orders over m = 4 and m = 5 containing the identity ranking (= every profile of <= 3 orders up to "
                       "relabelling), every k in 1..m+1",
              "thorough": "both functions: all sets of 1-3 distinct strict orders over m<=3, with the ids 1..m and with the ids 0..m-1; brute force: every set of <= 4 strict "
                          "orders over m = 4 and m = 5 containing the identity ranking (= every profile of <= 4 orders up to "
                          "relabelling), every k in 1..m+1"}
TRUSTED = ["(R) not verified, compared with the verified reference min_partition on bounded inputs (m <= 8, thorough 9) and "
           "through the verified checker partition_check at every size: k_alt_partition_approx, longest_single_peaked_axis "
           "(Erdelyi-Lackner-Pfandler dynamic programme: get_L_sets, eligible_alternatives, last_check, place, case_2, "
           "case_3, check_case_4, boundary), k_alternative_partition_brut_force (dfs, extend, "
           "singleton_pair_combinations); termination only observed by the watchdog",
           "k_alternative_partition_brut_force is additionally MIRRORED (Model/PartitionAlgo.v, bf_algo) and compared with "
           "its mirror on every brute-force case (None-ness and number of axes; identical partitions counted in the "
           "distribution): the mirror is proved sound and minimum for every size (bf_sound, bf_complete_min, bf_algo_ok); "
           "that the code behaves like the mirror is established by this comparison (and, independently, by the comparison "
           "with min_partition); the iteration order of the Python L-sets is observed in the worker and handed to the "
           "mirror as its order parameter"]
ASSUMPTIONS = ["data_type = soc; every order ranks every alternative exactly once; >= 1 alternative, >= 1 order; orders "
               "distinct; k >= 1 (quantifier of C18)",
               "k_alternative_partition_brut_force returns ONE partition (a list of axes) or None - the docstring's "
               "'list of optimal partitions' is not what the code does; the property text ('returns such a partition') "
               "agrees with the code"]
COVER_FILES = ["properties/subdomains/ordinal/singlepeaked/k_alternative_partition.py",
               "properties/subdomains/ordinal/singlepeaked/k_alternative_deletion.py"]
COVER_TIMEOUT_S = 60
TIMEOUT_S = 120.0
CHUNK = 4
THEOREMS_FOR_OP = {"c18.hist": "partition_check_correct / brute_force_ok_correct (every call of a history on one object)",
                   "c18.algo": "bf_algo_ok / bf_sound / bf_complete_min (mirror Model/PartitionAlgo.v)",
                   "c18.approx": "partition_check_correct / check_valid_bound",
                   "c18.bf": "brute_force_ok_correct / min_partition_correct / partition_check_correct"}
REF_MAX_M = 8      # the reference optimum is run up to this size


# ------------------------------------------------------------------------------------------------ generators
def sp_vote(rng, axis, style):
    """a ranking single-peaked on axis: Conitzer (random walk from a random peak) or Walsh (uniform)"""
    m = len(axis)
    if style == 0:
        l = r = rng.randrange(m)
        out = [axis[l]]
        while l > 0 or r < m - 1:
            if l == 0 or (r < m - 1 and rng.random() < 0.5):
                r += 1
                out.append(axis[r])
            else:
                l -= 1
                out.append(axis[l])
        return out
    l, r = 0, m - 1
    rev = []
    while l < r:
        if rng.random() < 0.5:
            rev.append(axis[l])
            l += 1
        else:
            rev.append(axis[r])
            r -= 1
    rev.append(axis[l])
    return rev[::-1]


def interleave(rng, seqs):
    """random merge keeping the internal order of every sequence"""
    seqs = [list(s) for s in seqs if s]
    out = []
    while seqs:
        w = [len(s) for s in seqs]
        i = rng.choices(range(len(seqs)), weights=w)[0]
        out.append(seqs[i].pop(0))
        if not seqs[i]:
            seqs.pop(i)
    return out


def planted(rng, alts, k, n, style=None):
    """n votes that are single-peaked on each of k hidden blocks (so the optimum is <= k)"""
    a = rand_perm(rng, alts)
    k = max(1, min(k, len(a)))
    cuts = sorted(rng.sample(range(1, len(a)), k - 1)) if k > 1 else []
    blocks = [a[i:j] for i, j in zip([0] + cuts, cuts + [len(a)])]
    votes = []
    for _ in range(n):
        st = rng.randrange(2) if style is None else style
        votes.append(interleave(rng, [sp_vote(rng, b, st) for b in blocks]))
    return votes


def distinct(rs):
    out = []
    for r in rs:
        if r not in out:
            out.append(r)
    return out


def rand_ids(rng, m):
    """arbitrary non-negative ids; id 0 (the samplers of preflibtools are 0-based) is present in about half of the cases"""
    hi = rng.choice([m + 1, 30, 1000, 10 ** 9])
    if rng.random() < 0.5:
        ids = [0] + rng.sample(range(1, hi), m - 1)
        rng.shuffle(ids)
        return ids
    return rng.sample(range(1, hi), m)


def mixed_votes(rng, i, m, alts):
    """one structured profile; i selects the style"""
    n = rng.randint(1, 4)
    style = i % 6
    if style == 0 or m == 1:
        votes = [rand_perm(rng, alts) for _ in range(n)]
    elif style == 1:
        votes = planted(rng, alts, rng.randint(1, max(1, (m + 1) // 2)), n)
    elif style == 2:      # planted + one noise vote
        votes = planted(rng, alts, rng.randint(1, max(1, m // 2)), max(1, n - 1)) + [rand_perm(rng, alts)]
    elif style == 3:      # reversal pairs: many alternatives compete for the last place
        v = rand_perm(rng, alts)
        votes = [v, v[::-1]] + [rand_perm(rng, alts) for _ in range(n - 2)]
    elif style == 4:      # cyclic shifts: no three alternatives are single-peaked together when all shifts are present
        v = rand_perm(rng, alts)
        sh = rng.sample(range(m), m if i % 18 == 4 else min(m, rng.randint(2, 6)))
        votes = [v[j:] + v[:j] for j in sh]
    else:                 # many random votes: optimum close to ceil(m/2)
        votes = [rand_perm(rng, alts) for _ in range(rng.randint(3, 4))]
    rng.shuffle(votes)
    votes = distinct(votes)
    mults = [rng.choice([1, 1, 2, 7]) for _ in votes]
    return votes, mults, style


def bf_case(alts, rankings, mults=None, **tags):
    rankings = [list(r) for r in rankings]
    mults = list(mults) if mults else [1] * len(rankings)
    ks = list(range(1, len(alts) + 2))
    return case("c18.bf", [list(alts), rankings, mults, ks], m=len(alts), **tags)


CORE_SEED = 18000006
CORE_SIZE = 3000

# profiles (ids 0..m-1, multiplicities 1) on which a seeded change of the repaired DFS showed up only about once in
# 20 000 random profiles (seeded/C18-3: a piece gets its own new axis only if it fits on no existing axis)
REGRESSION_PROFILES = [
    [[1, 4, 2, 6, 3, 7, 5, 0], [6, 5, 2, 3, 1, 4, 7, 0], [1, 0, 6, 3, 7, 5, 4, 2]],
    [[7, 5, 6, 2, 1, 0, 3, 4], [0, 4, 6, 5, 3, 1, 7, 2], [2, 1, 6, 7, 0, 3, 5, 4]],
    [[5, 1, 3, 0, 4, 6, 2], [4, 5, 1, 0, 2, 6, 3], [6, 5, 2, 4, 1, 0, 3], [0, 3, 1, 6, 5, 4, 2]],
    [[5, 4, 2, 0, 3, 1, 6], [1, 3, 2, 4, 5, 0, 6], [6, 1, 4, 0, 5, 3, 2]],
    [[1, 2, 3, 0, 4, 6, 5], [0, 3, 4, 5, 6, 2, 1], [3, 5, 6, 2, 4, 0, 1], [2, 0, 6, 3, 1, 4, 5]],
    [[2, 3, 0, 1, 4, 5, 6], [3, 4, 6, 5, 1, 0, 2], [2, 4, 3, 0, 5, 1, 6], [2, 1, 4, 3, 0, 5, 6]]
]


def core_bf_cases():
    """Fixed core of the brute-force cases with m >= 6 (constant seed, identical in every run and tier): the first
    CORE_SIZE profiles of the former fixed campaign set + REGRESSION_PROFILES.  (The 77 inputs on which the defect
    KF-C18-a, repaired by 175f7ec, showed are in corpus/C18/fixed-175f7ec-bruteforce-not-minimum.json and run first.)"""
    out = []
    rq = random.Random(CORE_SEED)
    for i in range(CORE_SIZE):
        m = 8 if i % 50 == 7 else rq.choice([6, 6, 7])
        alts = rand_ids(rq, m)
        votes, mults, style = mixed_votes(rq, i, m, alts)
        out.append(bf_case(rand_perm(rq, alts), votes, mults, style=style, core=1))
    for votes in REGRESSION_PROFILES:
        out.append(bf_case(sorted(votes[0]), votes, core=2))
    return out


def det_bf_cases(tier):
    """kept for the dormant tool props/c18_known.py: the fixed part of the m >= 6 campaign"""
    return core_bf_cases()


def generate(tier, seed):
    rng = random.Random(1000003 * seed + 18)
    thorough = tier != "quick"
    out = []

    def add_approx(alts, rankings, mults=None, **tags):
        rankings = [list(r) for r in rankings]
        mults = list(mults) if mults else [1] * len(rankings)
        mode = 1 if len(alts) <= REF_MAX_M else 0
        out.append(case("c18.approx", [list(alts), rankings, mults, mode], m=len(alts), **tags))

    def add_bf(alts, rankings, mults=None, **tags):
        out.append(bf_case(alts, rankings, mults, **tags))

    # ---- exhaustive small (both functions)
    for m, lo in ((1, 1), (2, 1), (3, 1), (1, 0), (2, 0), (3, 0)):       # ids 1..m and ids 0..m-1
        alts = list(range(lo, m + lo))
        perms = list(itertools.permutations(alts))
        for k in range(1, min(len(perms), 3 if thorough else 2) + 1):
            for sub in itertools.combinations(perms, k):
                add_bf(alts, sub, exh=1)
                add_approx(alts, sub, exh=1)
                if k == 2:
                    add_bf(alts, sub[::-1], exh=1, rev=1)
    # m = 4, 5: every set of orders containing the identity ranking (= every profile up to relabelling)
    for m, nmax in ((4, 3 if not thorough else 4), (5, 3 if not thorough else 4)):
        alts = list(range(1, m + 1))
        perms = list(itertools.permutations(alts))
        for n in range(1, nmax + 1):
            for rest in itertools.combinations(perms[1:], n - 1):
                sub = (perms[0],) + rest
                add_bf(alts, sub, exh=1)
                if n <= 2 or (m == 4 and n == 3 and thorough):
                    add_approx(alts, sub, exh=1)
                if n <= 2:                                   # the same profile with the ids 0..m-1
                    sub0 = [[a - 1 for a in r] for r in sub]
                    add_bf([a - 1 for a in alts], sub0, exh=1, zero=1)
                    add_approx([a - 1 for a in alts], sub0, exh=1, zero=1)

    # ---- brute force, m <= 5: seed-dependent random / planted / cyclic, arbitrary ids, n <= 4 (cyclic: n <= m)
    nsmall = 1500 if not thorough else 12000
    for i in range(nsmall):
        m = rng.randint(1, 5) if i % 3 else rng.choice([4, 5, 5])
        alts = rand_ids(rng, m)
        votes, mults, style = mixed_votes(rng, i, m, alts)
        add_bf(rand_perm(rng, alts), votes, mults, style=style)

    # ---- brute force, m >= 6: the fixed core + a seed-dependent remainder (m = 6-8, thorough 6-9), spread evenly over
    # the (cheap) cases generated so far so that the oracle's request stream is balanced over its worker processes
    # (the order of the cases has no other meaning)
    det = core_bf_cases()
    for i in range(10000 if not thorough else 23000):
        if thorough:
            m = 9 if i % 115 == 7 else rng.choice([6, 7, 7, 8])
        else:
            m = 8 if i % 50 == 7 else rng.choice([6, 6, 7])
        alts = rand_ids(rng, m)
        votes, mults, style = mixed_votes(rng, i, m, alts)
        det.append(bf_case(rand_perm(rng, alts), votes, mults, style=style))
    step = max(1, len(out) // max(1, len(det)))
    merged, j = [], 0
    for i, c in enumerate(out):
        merged.append(c)
        if i % step == 0 and j < len(det):
            merged.append(det[j])
            j += 1
    merged.extend(det[j:])
    out[:] = merged

    # ---- brute force against its MIRROR only (no reference optimum at these sizes): m = 9..13 (thorough 9..14)
    for i in range(150 if not thorough else 1200):
        m = rng.randint(9, 13 if not thorough else 14)
        alts = rand_ids(rng, m)
        votes, mults, style = mixed_votes(rng, i, m, alts)
        c = bf_case(rand_perm(rng, alts), votes, mults, style=style)
        c["op"] = "c18.algo"
        c["payload"][3] = sorted({1, 2, 3, rng.randint(1, m), (m + 1) // 2, m + 1})
        out.append(c)

    # ---- histories on one instance object, after calls on other instances (purity / aliasing / object lifetime)
    for i in range(900 if not thorough else 6000):
        m = rng.randint(1, 7) if i % 4 else rng.choice([5, 6, 7])
        alts = rand_ids(rng, m)
        votes, mults, style = mixed_votes(rng, i, m, alts)
        pre = []
        for j in range(rng.randint(0, 3)):
            kind = rng.randrange(4)
            m2 = max(1, m + rng.choice([-2, -1, 0, 1, 2]))
            pool = list(alts) + [a for a in rand_ids(rng, m2 + 1) if a not in alts]
            alts2 = rng.sample(pool, m2) if kind != 3 else list(alts)   # overlapping ids, kind 3: the same ids
            if kind == 1:      # solved with one axis
                v2 = distinct(planted(rng, alts2, 1, rng.randint(1, 3)))
                pre.append([alts2, v2, rng.randrange(2), rng.randint(1, m2)])
            elif kind == 2:    # typically answers None: k = 1 on unrelated random votes
                v2 = distinct([rand_perm(rng, alts2) for _ in range(3)])
                pre.append([alts2, v2, 1, 1])
            else:
                v2, _, _ = mixed_votes(rng, rng.randrange(6), m2, alts2)
                pre.append([alts2, v2, rng.randrange(2), rng.randint(1, m2 + 1)])
        script = []
        for j in range(rng.randint(2, 6)):
            script.append([0] if rng.random() < 0.35 else [1, rng.choice([1, 1, 2, 2, 3, (m + 1) // 2, m, m + 1])])
        if rng.random() < 0.5:
            script = script + script[:2]                      # the same calls again
        flags = rng.randrange(8)
        out.append(case("c18.hist", [pre, rand_perm(rng, alts), [list(r) for r in votes], list(mults), script, flags],
                        m=m, style=style, flags=flags))

    # ---- approx with the reference optimum (m <= REF_MAX_M), seed-dependent
    nref = 900 if not thorough else 7000
    mmax = 7 if not thorough else 8
    for i in range(nref):
        m = rng.randint(1, mmax) if i % 5 else rng.choice([mmax - 2, mmax - 1, mmax])
        if i % 20 == 7 and not thorough:
            m = 8
        alts = rand_ids(rng, m)
        votes, mults, style = mixed_votes(rng, i, m, alts)
        add_approx(rand_perm(rng, alts), votes, mults, style=style)

    # ---- approx: all sizes (checker only above REF_MAX_M).  The dynamic programme is exponential on profiles that are
    # (nearly) single-peaked on many alternatives, so the hidden blocks of the large planted cases are kept <= 14 long
    nap = 150 if not thorough else 1500
    for i in range(nap):
        big = i % 3 == 0
        style = (i // 3) % 3
        m = rng.randint(9, 25) if big else rng.randint(2, 12)
        alts = rand_ids(rng, m)
        n = rng.randint(1, 15 if m <= 18 else 8)
        kmin = max(1, (m + 13) // 14)
        if style == 0:
            votes = planted(rng, alts, rng.randint(kmin, max(kmin, min(6, m // 2))), n)
        elif style == 1:
            votes = planted(rng, alts, rng.randint(kmin, max(kmin, min(4, m // 3))), n) + \
                    [rand_perm(rng, alts) for _ in range(rng.randint(1, 2))]
        else:
            votes = [rand_perm(rng, alts) for _ in range(min(n, 6))]
        rng.shuffle(votes)
        votes = distinct(votes)
        mults = [rng.choice([1, 1, 3]) for _ in votes]
        add_approx(rand_perm(rng, alts), votes, mults, style=style, big=int(big))
    return out


# ------------------------------------------------------------------------------------------------ implementation side
def _axes(v):
    """canonical shape of a returned partition: list of lists of ints, or a crash description"""
    if not isinstance(v, list):
        return None
    out = []
    for ax in v:
        if not isinstance(ax, (list, tuple)):
            return None
        row = []
        for a in ax:
            if isinstance(a, bool) or not isinstance(a, int):
                try:
                    import numpy as np
                    if isinstance(a, np.integer):
                        row.append(int(a))
                        continue
                except Exception:
                    pass
                return None
            row.append(a)
        out.append(row)
    return out


def _poison(part):
    """spoil a returned partition in place: every axis and the outer list"""
    if isinstance(part, list):
        for ax in part:
            if isinstance(ax, list):
                ax.append(-7)
                ax.reverse()
                ax.insert(0, ax[-1])
        part.append([-7, -8])
        part.reverse()


def _build(alts, rankings, mults, flags):
    """the instance for the profile, with the storage variations selected by flags"""
    import numpy as np
    conv = (lambda a: np.int64(a)) if flags & 2 else (lambda a: a)
    inst = ordinal_instance([([[conv(a)] for a in r], (np.int64(mu) if flags & 2 else mu)) for r, mu in zip(rankings, mults)],
                            data_type="soc", alts=[conv(a) for a in alts])
    if flags & 1 and len(inst.orders) > 1:
        keys = list(inst.multiplicity.keys())
        keys = keys[1:] + keys[:1]
        inst.multiplicity = {k: inst.multiplicity[k] for k in keys}      # another key order
        inst.orders.reverse()                                            # and another list order
    return inst


def _maintenance(inst):
    inst.recompute_cardinality_param()
    fs = inst.flatten_strict()
    fp = inst.full_profile()
    fs.append(((-1,), 1))
    fs.reverse()
    fp.append(((-1,),))
    fp.reverse()


def impl_hist(c):
    from preflibtools.properties.subdomains.ordinal.singlepeaked import k_alternative_partition as KP
    from .common import snapshot, snap_diff
    pre, alts, rankings, mults, script, flags = c["payload"]
    for alts2, v2, kind, k2 in pre:
        i2 = ordinal_instance([(strict(r), 1) for r in v2], data_type="soc", alts=list(alts2))
        r = guarded(KP.k_alternative_partition_brut_force, i2, k2) if kind else guarded(KP.k_alt_partition_approx, i2)
        if r[0] != 0:
            return [1, r[1], "preliminary call"] + r[2:]
        _poison(r[1])
    inst = _build(alts, rankings, mults, flags)
    if flags & 4:
        _maintenance(inst)
    out = []
    for step in script:
        before = snapshot(inst)
        if step[0] == 0:
            r = guarded(KP.k_alt_partition_approx, inst)
        else:
            r = guarded(KP.k_alternative_partition_brut_force, inst, step[1])
        if r[0] != 0:
            return [1, r[1], "step %r" % (step,)] + r[2:]
        d = snap_diff(before, snapshot(inst))
        if d:
            return {"crash": "the call %s changed the instance: %s"
                             % ("k_alt_partition_approx" if step[0] == 0 else "k_alternative_partition_brut_force(k=%d)" % step[1], d)}
        if r[1] is None:
            out.append([])
        else:
            ax = _axes(r[1])
            if ax is None:
                return {"crash": "step %r returned %r" % (step, r[1])}
            out.append([ax])
            _poison(r[1])
        if flags & 4:
            _maintenance(inst)
    return [0, out]


def impl(c):
    if c["op"] == "c18.hist":
        return impl_hist(c)
    from preflibtools.properties.subdomains.ordinal.singlepeaked import k_alternative_partition as KP
    alts, rankings, mults = c["payload"][0], c["payload"][1], c["payload"][2]
    if sys.gettrace() is not None and len(alts) > 12:
        return [1, 0]     # line-coverage sampling (core.cover, evidence only) runs under settrace: skip the slow large cases

    def inst():
        return ordinal_instance([(strict(r), mu) for r, mu in zip(rankings, mults)], data_type="soc", alts=list(alts))

    if c["op"] == "c18.approx":
        r = guarded(KP.k_alt_partition_approx, inst())
        if r[0] != 0:
            return r
        ax = _axes(r[1])
        if ax is None:
            return {"crash": "k_alt_partition_approx returned %r" % (r[1],)}
        return [0, ax]
    ks = c["payload"][3]
    res = []
    # the order in which CPython iterates the L-sets (a hashing artefact): the order parameter of the mirror
    from preflibtools.properties.subdomains.ordinal.singlepeaked.k_alternative_deletion import get_L_sets
    uv = [vote for vote, _ in inst().flatten_strict()]
    Lsets = get_L_sets(list(alts), uv)
    hint = [int(a) for j in sorted(Lsets) for a in Lsets[j]]
    for k in ks:
        r = guarded(KP.k_alternative_partition_brut_force, inst(), k)
        if r[0] != 0:
            return [1, r[1], k] + r[2:]
        if r[1] is None:
            res.append([k, []])
        else:
            ax = _axes(r[1])
            if ax is None:
                return {"crash": "k_alternative_partition_brut_force(k=%d) returned %r" % (k, r[1])}
            res.append([k, [ax]])
    return [0, res, hint]


def oracle_requests(c, r):
    alts, rankings = c["payload"][0], c["payload"][1]
    okr = isinstance(r, list) and r[0] == 0
    reqs = []
    if c["op"] == "c18.approx":
        if c["payload"][3] == 1:
            reqs.append(("c18.min", [alts, rankings]))
        if okr:
            reqs.append(("c18.check", [alts, rankings, r[1]]))
        return reqs
    if c["op"] == "c18.hist":
        alts, rankings, script = c["payload"][1], c["payload"][2], c["payload"][4]
        if not okr:
            return [("c18.min", [alts, rankings])]
        bf = [[st[1], res] for st, res in zip(script, r[1]) if st[0] == 1]
        reqs.append(("c18.bf", [alts, rankings, bf]))
        for st, res in zip(script, r[1]):
            if res:
                reqs.append(("c18.check", [alts, rankings, res[0]]))
        return reqs
    if c["op"] == "c18.algo":
        if okr:
            reqs.append(("c18.bf_algo", [alts, rankings, [k for k, _ in r[1]], r[2]]))
        return reqs
    if okr:
        reqs.append(("c18.bf", [alts, rankings, r[1]]))
        reqs.append(("c18.bf_algo", [alts, rankings, [k for k, _ in r[1]], r[2]]))
        seen = []
        for k, opt in r[1]:
            if opt and opt[0] not in seen:
                seen.append(opt[0])
                reqs.append(("c18.check", [alts, rankings, opt[0]]))
    else:
        reqs.append(("c18.min", [alts, rankings]))
    return reqs


def judge(c, r, mres):
    alts, rankings = c["payload"][0], c["payload"][1]
    if not (isinstance(r, list) and r[0] == 0):
        return {"kind": "exception", "reason": "%s raised: %r" % (c["op"], r)}
    if c["op"] == "c18.approx":
        mode = c["payload"][3]
        mn = mres[0] if mode == 1 else None
        chk = mres[-1]
        if chk != 1:
            return {"kind": "mismatch", "theorem": "partition_check_correct",
                    "reason": "k_alt_partition_approx returned %r: not a partition of the alternatives into axes on which "
                              "the restricted profile is single-peaked (partition_check = false)" % (r[1],)}
        if mn is not None and len(r[1]) < mn:
            return {"kind": "broken-correspondence",
                    "reason": "model: checker accepts %d axes but min_partition = %d (contradicts check_valid_bound)"
                              % (len(r[1]), mn)}
        return None
    if c["op"] == "c18.hist":
        return judge_hist(c, r, mres)
    if c["op"] == "c18.algo":
        return judge_mirror(r, mres[0])
    mn, oks = mres[0]
    seen, chk = [], {}
    for k, opt in r[1]:
        if opt and opt[0] not in seen:
            seen.append(opt[0])
            chk[len(seen) - 1] = mres[1 + len(seen)]
    for (k, opt), okk in zip(r[1], oks):
        if okk == 1:
            continue
        if not opt:
            why = "returned None although a valid partition with %d <= k axes exists" % mn
        else:
            valid = chk[seen.index(opt[0])] == 1
            if not valid:
                why = "returned %r which is not a valid partition into single-peaked axes" % (opt[0],)
            elif mn > k:
                why = "returned a partition with %d axes although k = %d" % (len(opt[0]), k)
            else:
                why = "returned %d axes %r but the minimum is %d" % (len(opt[0]), opt[0], mn)
        return {"kind": "mismatch", "theorem": "brute_force_ok_correct",
                "reason": "k_alternative_partition_brut_force(instance, k=%d) %s (reference optimum min_partition = %d)"
                          % (k, why, mn)}
    if len(oks) != len(r[1]):
        return {"kind": "broken-correspondence", "reason": "model answered %d verdicts for %d calls" % (len(oks), len(r[1]))}
    return judge_mirror(r, mres[1])


def judge_hist(c, r, mres):
    """every answer of the history is judged against the model of the ORIGINAL profile"""
    script = c["payload"][4]
    mn, oks = mres[0]
    checks = list(mres[1:])
    bi = 0
    for n, (st, res) in enumerate(zip(script, r[1])):
        chk = checks.pop(0) if res else None
        what = "call %d of the history, %s" % (n + 1, "k_alt_partition_approx" if st[0] == 0
                                               else "k_alternative_partition_brut_force(k=%d)" % st[1])
        if st[0] == 0:
            if not res or chk != 1:
                return {"kind": "mismatch", "theorem": "partition_check_correct",
                        "reason": "%s returned %r: not a valid partition of the original profile" % (what, res[0] if res else None)}
        else:
            if oks[bi] != 1:
                return {"kind": "mismatch", "theorem": "brute_force_ok_correct",
                        "reason": "%s returned %s, which violates the second sentence for the original profile "
                                  "(optimum %d%s)" % (what, ("%d axes %r" % (len(res[0]), res[0])) if res else "None", mn,
                                                     "" if not res else (", checker %s" % ("accepts" if chk == 1 else "rejects")))}
            bi += 1
    return None


def judge_mirror(r, algo):
    """the implementation and the mirror bf_algo (Model/PartitionAlgo.v; bf_sound / bf_complete_min talk about it) agree
    on None-ness and on the number of axes for every k; which partition is returned is only counted (stats)"""
    if len(algo) != len(r[1]):
        return {"kind": "broken-correspondence", "reason": "mirror answered %d results for %d calls" % (len(algo), len(r[1]))}
    for (k, opt), a in zip(r[1], algo):
        if bool(opt) != bool(a) or (opt and len(opt[0]) != len(a[0])):
            return {"kind": "mismatch", "theorem": "bf_sound / bf_complete_min (mirror Model/PartitionAlgo.v)",
                    "reason": "k_alternative_partition_brut_force(instance, k=%d) returned %s but its mirror bf_algo returns %s"
                              % (k, ("%d axes %r" % (len(opt[0]), opt[0])) if opt else "None",
                                 ("%d axes %r" % (len(a[0]), a[0])) if a else "None")}
    return None


def mirror_exact(r, algo):
    return all((not opt and not a) or (opt and a and opt[0] == a[0]) for (k, opt), a in zip(r[1], algo))


def _opt(c, r, m):
    if c["op"] == "c18.hist":
        return m[0][0] if m and isinstance(m[0], list) else (m[0] if m else None)
    if c["op"] == "c18.algo":
        return None
    if c["op"] == "c18.approx":
        return m[0] if c["payload"][3] == 1 and m else None
    if m and isinstance(m[0], list):
        return m[0][0]
    return m[0] if m else None


def nontrivial(c, r, m):
    mn = _opt(c, r, m)
    if c["op"] == "c18.algo":
        return isinstance(r, list) and r[0] == 0 and any(opt and len(opt[0]) >= 2 for k, opt in r[1])
    if mn is None:      # large approx case: no reference; count it when more than one axis came back
        return isinstance(r, list) and r[0] == 0 and len(r[1]) >= 2
    return mn >= 2


def stats(c, r, m):
    if c["op"] == "c18.hist":
        pre, alts, rankings, mults, script, flags = c["payload"]
        lab = ["hist m=%d" % len(alts), "hist: %d earlier instance(s)" % len(pre)]
        lab += [t for b, t in ((1, "hist: storage order decoupled"), (2, "hist: numpy.int64 ids"),
                               (4, "hist: maintenance calls in between")) if flags & b]
        if isinstance(r, list) and r[0] == 0:
            lab += ["hist answer None" if not res else "hist answer partition" for res in r[1]]
        return lab
    alts, rankings = c["payload"][0], c["payload"][1]
    mm = len(alts)
    size = "m=%d" % mm if mm <= 8 else ("m=9-15" if mm <= 15 else "m=16-25")
    lab = []
    mn = _opt(c, r, m)
    okr = isinstance(r, list) and r[0] == 0
    if c["op"] == "c18.algo":
        lab.append("algo-only m=9-14")
        if okr and m:
            lab.append("mirror: same partition for every k" if mirror_exact(r, m[0]) else "mirror: same size, other partition")
            lab.extend(["algo-only answer None"] * sum(1 for k, opt in r[1] if not opt))
            lab.extend(["algo-only answer %d axes" % len(opt[0]) for k, opt in r[1] if opt][:1])
        return lab
    if c["op"] == "c18.approx":
        lab.append("approx %s" % size)
        if okr:
            lab.append("approx axes checked")
            if mn is not None:
                lab.append("approx: axes - optimum = %d" % (len(r[1]) - mn))
                lab.append("approx optimum=%d" % mn)
            else:
                lab.append("approx large: %s axes" % (len(r[1]) if len(r[1]) < 6 else "6+"))
    else:
        lab.append("bf %s" % size)
        lab.append("bf %s" % ("odd m" if mm % 2 else "even m"))
        if mn is not None:
            lab.append("bf optimum=%d" % mn)
            if mn == (mm + 1) // 2:
                lab.append("bf optimum = ceil(m/2)")
                if mm % 2:
                    lab.append("bf optimum = (m+1)/2, m odd (defect 07cd506 region)")
        if okr and len(m) > 1 and isinstance(m[1], list):
            lab.append("mirror: same partition for every k" if mirror_exact(r, m[1]) else "mirror: same size, other partition")
        if okr:
            nn = sum(1 for k, opt in r[1] if not opt)
            lab.extend(["bf answer None"] * nn)
            lab.extend(["bf answer partition"] * (len(r[1]) - nn))
    if any(mu > 1 for mu in c["payload"][2]):
        lab.append("with multiplicities")
    if len(rankings) == 1:
        lab.append("single order")
    if 0 in alts:
        lab.append("id 0 present")
    return lab


def describe(c):
    if c["op"] == "c18.hist":
        pre, alts, rankings, mults, script, flags = c["payload"]
        return {"earlier calls on other instances [alts, orders, 0=approx/1=brute force, k]": pre,
                "alternatives": alts, "orders (best first)": rankings, "multiplicities": mults,
                "calls on the one instance ([0] approx, [1, k] brute force)": script,
                "flags (1 storage order decoupled, 2 numpy ids, 4 maintenance calls)": flags}
    alts, rankings, mults = c["payload"][0], c["payload"][1], c["payload"][2]
    d = {"function": "k_alt_partition_approx" if c["op"] == "c18.approx" else "k_alternative_partition_brut_force"
                     + (" (mirror only)" if c["op"] == "c18.algo" else ""),
         "alternatives": alts, "orders (best first)": rankings, "multiplicities": mults}
    if c["op"] == "c18.bf":
        d["k values"] = c["payload"][3]
    return d


def shrink(c):
    if c["op"] == "c18.hist":
        pre, alts, rankings, mults, script, flags = c["payload"]
        for i in range(len(pre)):
            yield dict(c, payload=[pre[:i] + pre[i + 1:], alts, rankings, mults, script, flags])
        if len(script) > 1:
            for i in range(len(script)):
                yield dict(c, payload=[pre, alts, rankings, mults, script[:i] + script[i + 1:], flags])
        for b in (1, 2, 4):
            if flags & b:
                yield dict(c, payload=[pre, alts, rankings, mults, script, flags & ~b])
        if len(rankings) > 1:
            for i in range(len(rankings)):
                yield dict(c, payload=[pre, alts, rankings[:i] + rankings[i + 1:], mults[:i] + mults[i + 1:], script, flags])
        return
    alts, rankings, mults, last = c["payload"]
    if c["op"] in ("c18.bf", "c18.algo") and len(last) > 1:
        for k in last:
            yield dict(c, payload=[alts, rankings, mults, [k]])
    if len(rankings) > 1:
        for i in range(len(rankings)):
            yield dict(c, payload=[alts, rankings[:i] + rankings[i + 1:], mults[:i] + mults[i + 1:], last])
    if any(mu > 1 for mu in mults):
        yield dict(c, payload=[alts, rankings, [1] * len(mults), last])
    if len(alts) > 1:
        for a in alts:
            na = [x for x in alts if x != a]
            nr, nm = [], []
            for r, mu in zip(rankings, mults):
                q = [x for x in r if x != a]
                if q not in nr:
                    nr.append(q)
                    nm.append(mu)
            nl = last
            if c["op"] == "c18.approx":
                nl = 1 if len(na) <= REF_MAX_M else 0
            yield dict(c, payload=[na, nr, nm, nl])
