"""C16 — parsing with autocorrect=True yields a normal form and conserves voters
(OrdinalInstance.parse, CategoricalInstance.parse, PrefLibInstance.parse_lines / parse_metadata).

A case is a file content as TEXT, generated from a structure that is kept next to it (tags["struct"]):
   header entries  [kind, line, id, raw_name]   kind: "h" other header line, "a" alternative name, "c" category name
   body entries    [line, multiplicity, ballot] ballot = None for a blank line; multiplicity = None for a malformed line
The implementation parses the text with autocorrect=True and autocorrect=False through parse_file and parse_str.
Checks (all on the observables the property names):
  (1) the autocorrected instance equals the extracted model's (ord_parse true / cat_parse true) field by field:
      header fields, the three / four counts, the name dicts as ordered item lists, the ballot list, the
      multiplicity table as a set of pairs;  errors must agree in class
  (2) directly on the implementation's result, against the generated structure: no ballot twice, multiplicity =
      sum over the lines carrying that ballot, num_voters = sum over all lines, unique count = number of distinct
      ballots, num_alternatives = number of named alternatives, names pairwise distinct, first occurrences
      unchanged and later duplicates = raw + "__" + k (when the header ids are pairwise distinct)
  (3) the model's independent description (Model/Autocorrect.v: ord_expected / cat_expected / raw_names) agrees
      with the implementation's table, counts and with the generated structure
  (4) sanity.metadata / sanity.orders / sanity.categories report none of the defects autocorrect repairs
  (5) on content the model classifies as clean, autocorrect=True and False give equal instances
  (6) ordinal: after EVERY parse the ballot list is read under both documented names, instance.orders and its alias
      instance.preferences (same ballots required; `preferences is orders` is a recorded statistic);
      preflibtools.properties.basic (largest/smallest_ballot, *_indif, is_strict, is_complete, is_approval,
      num_different_preferences ...) on the autocorrected instance must equal the values computed from the ballot
      lines; in ~12% of the ordinal cases the parsed object is continued with append_order / append_order_list and
      re-observed (orders = preferences, first-occurrence list, multiplicity = sums + 1 per appended order, counters)
  (7) round-5 lessons: names / category names that START with blanks or a tab after the canonical ": " (distinct from the
      unpadded name), inner double blanks / tabs / U+00A0, and header lines "NAME <id> : x" that the patterns do not
      match; in 25% of the cases ANOTHER file sharing names is parsed first (autocorrect, own instance, sometimes
      raising) inside the same worker call, and every case parses its content four times into fresh instances after
      spoiling the containers of the previous instance (class-level / default-argument state shows inside ONE case);
      sanity.* and properties.basic are called (basic twice) between two common.snapshot()s; continuations interleave
      recompute_cardinality_param / infer_type / flatten_strict / full_profile / vote_map (results poisoned in place,
      snapshot-compared) with append_order / append_order_list / append_order_array (numpy int64 rows)
"""
import os
import random
import re
import shutil
import tempfile

from core import proto, oracle
from .common import case, guarded
from . import common
from . import c01, c08

ID = "C16"
COVER_FILES = ['instances/preflibinstance/ordinal.py', 'instances/preflibinstance/categorical.py', 'instances/preflibinstance/instance.py']
RULE = ("random ordinal (soc/soi/toc/toi) and categorical contents built as text from a recorded structure: "
        "1-6 alternatives (6%: 12-15 alternatives or 12-14 categories all carrying one name, so that the suffix "
        "counter reaches two digits, also next to X__9 / X__10 / X__11), names drawn with repetition from pools with "
        "generated-suffix look-alikes (X, X__1, X__2, X__1__1, '', __1, Y, Y__1; X__9, X__10, X__11, X__99, X__100), "
        "header ids distinct (85%) or repeated, 0-8 ballot lines drawn "
        "with repetition from a pool of 1-4 ballots with different multiplicities (0, 1, 2, 5, 10^15; in 15% of the "
        "contents from 2^53-1 .. 2^53+3, 2^53+2k+1, 3*2^53+7, 10^17+3, 2^64+-1, 10^30+7, and 2^52-sized values whose "
        "sum over repeated lines crosses 2^53) and different "
        "spellings / spacing of the same ballot, header counts right or wrong (also beyond 2^53, also the value a "
        "double would round the right count to) or missing or repeated, header lines "
        "in any order, outer whitespace, LF / CRLF / CR; about a third of the contents is clean by construction; "
        "a few percent carry a malformed line (error classes must agree). Every content is parsed with "
        "autocorrect on and off through parse_file and parse_str. non-trivial = some raw name or some ballot "
        "occurs at least twice in the content and the parse succeeds")
EXHAUSTIVE = {"quick": "every sequence of <= 3 alternative names (and of <= 3 category names) over {X, X__1, X__2} "
                       "with two repeated ballot lines; 11/12/13/14/23 copies of one name alone and before/after "
                       "X__9, X__10, X__11; every sequence of <= 4 names over {X, X__9, X__10} with X repeated; every "
                       "multiplicity in {2^53-1, 2^53, 2^53+1, 2^53+3, 3*2^53+7, 10^17+3, 2^64-1, 2^64+1, 10^30+7} on "
                       "one line, on a repeated line and next to small ones, with right and double-rounded header "
                       "counts; repeated lines whose sum crosses 2^53",
              "thorough": "every sequence of <= 4 alternative names (and of <= 4 category names) over "
                          "{X, X__1, X__2, X__1__1} with two repeated ballot lines; the many-copies, X__9/X__10 "
                          "(sequences <= 5) and 2^53-edge families of the quick tier; every sequence of <= 4 ballot "
                          "lines over 2 ballots x 2 multiplicities"}
TRUSTED = ["modelled: OrdinalInstance.parse, CategoricalInstance.parse (+ recompute_cardinality_param), "
           "PrefLibInstance.parse_lines (reserved-name pre-scan) and parse_metadata; parse_file / parse_str through "
           "their line splitters; the regex engine on the name and ballot patterns (hand-written matchers in the "
           "model, compared on every run by C01 / C08 and here through the parsed result)",
           "int() / \\d are modelled on ASCII digits only"]
ASSUMPTIONS = ["the content parses (otherwise only the error class is compared)",
               "ac_first_occurrence: ids listed by the header are pairwise distinct (a repeated id overwrites the "
               "entry of the SAME alternative, see ac_first_occurrence_dup_id_refuted); ac_merge, ac_names_distinct "
               "and ac_clean_noop need no such hypothesis",
               "clean content = no raw name listed twice in the header, no ballot on two lines, header counts equal "
               "to the recomputed ones (Model/Autocorrect.v: ord_clean / cat_clean); equality of the two parses is "
               "modulo the bookkeeping attribute reserved_names",
               "generated names are single-line text without outer whitespace; multiplicities and ids are "
               "unsigned ASCII decimals"]
TIMEOUT_S = 60.0
CHUNK = 20

WORK = os.path.join(oracle.VERIF, ".work")
T = proto.text
U = proto.untext
TYPES = ["soc", "soi", "toc", "toi"]
NAME_POOL = ["X", "X", "X", "X__1", "X__1", "X__2", "X__1__1", "", "", "__1", "Y", "Y__1", "Z z"]
DISTINCT_NAMES = ["X", "X__1", "X__2", "X__1__1", "", "__1", "Y", "Y__1", "Z z", "A", "B",
                  " X", "  X", "\tX", " Y", "Z  z", "Z\tz", "Z\u00a0z", "\u00a0X", " X__1"]
# names that differ only by blanks / a tab after the canonical ": " of the header line, or by inner whitespace
PADDED_POOLS = [["Ann", " Ann", "Ann", "  Ann"], ["Ann", "\tAnn", " Ann"], ["X", " X", "X__1", " X__1"],
                ["Z z", "Z  z", "Z\tz", "Z\u00a0z", "Z z"], [" X", " X", "  X", "X"], ["", " __1", "__1", ""]]
# header lines the name patterns do NOT match (blanks between the id and the colon): they define no name
NO_MATCH = ["# ALTERNATIVE NAME 3 : X", "# ALTERNATIVE NAME 1 :X", "# ALTERNATIVE NAME 2\t: Ann", "# CATEGORY NAME 1 : X",
            "# CATEGORY NAME 2  :  Ann", "# ALTERNATIVE NAME  4: X", "# CATEGORY NAME  1: X"]
# multiplicities / counts beyond the range where a double is exact (2**53), and sums that cross it
BIG = [2 ** 53 - 1, 2 ** 53, 2 ** 53 + 1, 2 ** 53 + 1, 2 ** 53 + 3, 3 * 2 ** 53 + 7, 10 ** 17 + 3, 2 ** 64 - 1,
       2 ** 64 + 1, 10 ** 30 + 7, 2 ** 52, 2 ** 52 + 1, 2 ** 53 - 2, 1, 3]
SUFFIX_POOLS = [["X", "X", "X", "X__9", "X__10"], ["X", "X", "X__10", "X__9", "X__11"], ["X", "X__9", "X__10", "X__11"],
                ["X", "X", "X__99", "X__100"], ["X", "X", "X__9", "X__10", "X__10__1"]]


def big_mult(rng):
    r = rng.random()
    if r < 0.25:
        return 2 ** 53 + 2 * rng.randint(0, 10 ** 6) + 1
    if r < 0.35:
        return rng.choice([2 ** 64, 10 ** 30, 10 ** 17]) + rng.randint(1, 99)
    return rng.choice(BIG)


PADS = ["", "", "", "", " ", "  ", "\t", "\u00a0", "\x1f ", "\u3000"]


# ---------------------------------------------------------------------------------------------------
# structure -> text
# ---------------------------------------------------------------------------------------------------
def render(st):
    lines = [h[1] for h in st["hdr"]] + [b[0] for b in st["body"]]
    eol = st["eol"]
    return eol.join(lines) + (eol if st["final"] and lines else "")


def mk_case(st, **tags):
    st = dict(st)
    kind = st["kind"]
    return case("c16." + ("cat" if kind == "cat" else "ord"), [T(st["dt"]), T(render(st))], struct=st, **tags)


def ord_ballot_text(rng, o):
    """a spelling of order o (tuple of classes); all whitespace is removed by the parser"""
    style = rng.random()
    parts = []
    for c in o:
        if len(c) == 1 and style < 0.85:
            parts.append(str(c[0]))
        else:
            parts.append("{" + ("," if style < 0.5 else ", ").join(map(str, c)) + "}")
    sep = rng.choice([",", ", ", " , ", ",  "])
    s = sep.join(parts)
    if rng.random() < 0.1:
        s += ","                      # an empty field is skipped
    return s


def cat_ballot_text(rng, b):
    style = rng.random()
    parts = []
    for c in b:
        if not c:
            parts.append("{}")
        elif len(c) == 1 and style < 0.85:
            parts.append(str(c[0]))
        else:
            parts.append("{" + rng.choice([",", ", ", " , "]).join(map(str, c)) + "}")
    return rng.choice([",", ", ", " , "]).join(parts)


def pad(rng, line, dirty):
    if not dirty:
        return line
    return rng.choice(PADS) + line + rng.choice(PADS)


def name_line(rng, prefix, i, name, dirty):
    sep = rng.choice([": ", ": ", ": ", ":"]) if dirty else ": "
    if name[:1].isspace():
        sep = ": "             # canonical separator: the pattern drops at most ONE blank, the rest belongs to the name
    return "# %s NAME %d%s%s" % (prefix, i, sep, name)


MAINT = ["recompute_cardinality_param", "infer_type", "flatten_strict", "full_profile", "vote_map"]


def prior_content(rng, kind, dt, alts, cats):
    """another file that shares names with the content under test; it is parsed (autocorrect=True) into its OWN
    instance earlier in the same worker call.  [kind, data_type, text, entry]"""
    pk = kind if rng.random() < 0.7 else ("cat" if kind == "ord" else "ord")
    pdt = dt if pk == kind else ("cat" if pk == "cat" else "soc")
    lines = []
    names = [n for _, n in alts] or ["X"]
    cnames = [n for _, n in cats] or ["X"]
    if pk == "cat":
        for k in range(rng.randint(1, 3)):
            lines.append("# CATEGORY NAME %d: %s" % (k + 1, rng.choice(cnames + names)))
    for k in range(rng.randint(1, 4)):
        nm = rng.choice(names + cnames)
        lines.append("# ALTERNATIVE NAME %d: %s" % (k + 1, nm if not nm[:1].isspace() else nm))
    lines.append(rng.choice(["1: 1", "2: 1", "1: 1\n3: 1", "oops", "1: x", "1:2:3"]))     # the last three raise
    return [pk, pdt, "\n".join(lines) + "\n", rng.choice(["file", "str"])]


def float_like(n):
    """what int(float(n)) would make of n (a wrong header count that looks right)"""
    v = int(float(n))
    return v if v != n else n + 2 ** 53 + 1


def gen_struct(rng, kind, clean):
    dirty = not clean
    dt = "cat" if kind == "cat" else rng.choice(TYPES)
    many = (not clean) and rng.random() < 0.06           # one name carried by >= 12 entries
    big = rng.random() < 0.15                             # multiplicities / counts beyond 2**53
    m = rng.randint(12, 15) if many and kind == "ord" or many and rng.random() < 0.5 else rng.randint(1, 6)
    bigids = rng.random() < 0.1
    ids = rng.sample(range(1, 10 ** 18 if bigids else 20), m)
    # --- names ---
    def draw_names(n_ids, id_list):
        if clean:
            return list(zip(id_list, rng.sample(DISTINCT_NAMES, len(id_list))))
        named = list(id_list)
        r = rng.random()
        if r < 0.15 and named:
            named.insert(rng.randrange(len(named) + 1), rng.choice(named))       # an id listed twice
        if len(named) >= 12:
            base = rng.choice(["X", "X", "", "X__1"])
            pool = rng.choice([[base], [base] * 12 + [base + "__9", base + "__10", base + "__11"], [base] * 8 + ["Y"]])
            return [(a, rng.choice(pool)) for a in named]
        if rng.random() < 0.15:
            pool = rng.choice(SUFFIX_POOLS)
            return [(a, rng.choice(pool)) for a in named]
        if rng.random() < 0.15:
            pool = rng.choice(PADDED_POOLS)
            return [(a, rng.choice(pool)) for a in named]
        pool = rng.choice([NAME_POOL, ["X", "X", "X__1"], ["X", "X__1", "X__2", "X__3"], ["", "__1", "__2"],
                           ["X", "X__1", "X__1__1"]])
        return [(a, rng.choice(pool)) for a in named]
    alts = draw_names(m, ids)
    hdr = []
    meta = [("# FILE NAME: ", "f." + dt), ("# TITLE: ", rng.choice(["t", "", "X__1", "a: b"])),
            ("# DESCRIPTION: ", ""), ("# DATA TYPE: ", dt), ("# MODIFICATION TYPE: ", "original"),
            ("# RELATES TO: ", ""), ("# RELATED FILES: ", ""), ("# PUBLICATION DATE: ", "2020-01-01"),
            ("# MODIFICATION DATE: ", "")]
    for k, v in meta:
        if rng.random() < 0.7:
            hdr.append(["h", pad(rng, (k + v).strip() if not v else k + v, dirty), 0, ""])
    # --- ballots ---
    ncat = rng.randint(12, 14) if many and kind == "cat" and m <= 6 else rng.randint(1, 3)
    nb_pool = rng.randint(1, 4)
    pool = []
    for _ in range(nb_pool * 4):
        b = c08.rand_ballot(rng, ids, ncat) if kind == "cat" else c01.rand_order(rng, ids)
        if b not in pool:
            pool.append(b)
        if len(pool) >= nb_pool:
            break
    nlines = rng.choice([0, 1, 2, 2, 3, 3, 4, 5, 8]) if dirty else rng.randint(0 if rng.random() < 0.05 else 1, len(pool))
    if clean:
        chosen = rng.sample(pool, nlines)
    else:
        chosen = [rng.choice(pool) for _ in range(nlines)]
    body = []
    for b in chosen:
        mult = big_mult(rng) if big and rng.random() < 0.8 else rng.choice([1, 1, 2, 5, 10 ** 15, 0, 3])
        txt = cat_ballot_text(rng, b) if kind == "cat" else ord_ballot_text(rng, b)
        ms = str(mult)
        if dirty and rng.random() < 0.1:
            ms = "0" + ms                                  # int() accepts leading zeros
        line = ms + rng.choice([": ", ":", " : "] if dirty else [": "]) + txt
        body.append([pad(rng, line, dirty), mult, [list(c) for c in b]])
    if dirty and kind == "ord" and rng.random() < 0.15:
        body.insert(rng.randrange(len(body) + 1), [rng.choice(["", "  ", "\t"]), None, None])   # blank: skipped
    malformed = False
    if dirty and rng.random() < 0.04:
        body.insert(rng.randrange(len(body) + 1),
                    [rng.choice(["x: 1", "1:2:3", "3 1,2", ": 1", "2: 1,a", "# TITLE: late"]), None, "bad"])
        malformed = True
    # --- counts ---
    nvot = sum(b[1] for b in body if b[1] is not None)
    nuniq = len({proto.enc(b[2]) for b in body if b[1] is not None})
    def count_line(key, right):
        if clean or rng.random() < 0.5:
            v = right
        else:
            v = rng.choice([0, 1, right + 1, 99, 10 ** 20, 2 ** 53 + 1, float_like(right)])
        return ["h", pad(rng, "# %s: %d" % (key, v), dirty), 0, ""]
    keys = [("NUMBER ALTERNATIVES", len(alts)), ("NUMBER VOTERS", nvot),
            ("NUMBER UNIQUE " + ("PREFERENCES" if kind == "cat" else "ORDERS"), nuniq)]
    cats = []
    if kind == "cat":
        keys.append(("NUMBER CATEGORIES", ncat))
        cats = draw_names(ncat, list(range(1, ncat + 1)))
    cnt = []
    for key, right in keys:
        reps = 1 if clean else rng.choice([0, 1, 1, 1, 1, 2])
        for _ in range(reps):
            cnt.append(count_line(key, right))
    names = [["c", pad(rng, name_line(rng, "CATEGORY", c, n, dirty), dirty), c, n] for c, n in cats] + \
            [["a", pad(rng, name_line(rng, "ALTERNATIVE", a, n, dirty), dirty), a, n] for a, n in alts]
    if dirty and rng.random() < 0.3:
        rest = cnt + names
        rng.shuffle(rest)
        # keep the relative order inside each kind of name unspecified: any order is legitimate input
        hdr = hdr + rest
    else:
        hdr = hdr + cnt + names
    if dirty and rng.random() < 0.05:
        hdr.append(["h", rng.choice(["# ALTERNATIVE NAME x: y", "# CATEGORY NAME: none", "#", "# SOMETHING: 1"]), 0, ""])
    if rng.random() < 0.08:
        hdr.insert(rng.randrange(len(hdr) + 1), ["h", rng.choice(NO_MATCH), 0, ""])
    cont = None
    if kind == "ord" and rng.random() < 0.12:
        def strict_of(b):
            return [cl[0] for cl in b] if all(len(cl) == 1 for cl in b) else None
        picks = []
        for _ in range(rng.randint(1, 3)):
            b = rng.choice(pool) if rng.random() < 0.6 else c01.rand_order(rng, ids + [max(ids) + 1])
            picks.append([list(cl) for cl in b])
        maint = [rng.choice(MAINT) for _ in range(rng.choice([0, 1, 2, 3]))]
        r = rng.random()
        if r < 0.4:
            flat = [strict_of(b) or rng.sample(ids, rng.randint(1, len(ids))) for b in picks]
            cont = ["append_order", flat, maint]
        elif r < 0.55:
            width = rng.randint(1, len(ids))
            cont = ["append_order_array", [rng.sample(ids + [max(ids) + 1], width) for _ in picks], maint]
        else:
            cont = ["append_order_list", picks, maint]
    prior = None
    if rng.random() < 0.25:
        prior = prior_content(rng, kind, dt, alts, cats)
    eol = rng.choice(["\n", "\n", "\n", "\r\n", "\r"])
    return {"kind": kind, "cont": cont, "prior": prior, "dt": dt, "hdr": hdr, "body": body, "eol": eol, "final": rng.random() < 0.85,
            "clean": bool(clean), "malformed": malformed}


def fixed_struct(kind, alt_names, cat_names, body, dt=None, counts=None, cont=None, prior=None, extra_hdr=None):
    """hand-made content: names = list of (id, name); body = list of (mult, ballot)"""
    dt = "cat" if kind == "cat" else (dt or "soc")
    hdr = [["h", "# FILE NAME: f." + dt, 0, ""], ["h", "# DATA TYPE: " + dt, 0, ""]]
    for c in counts or []:
        hdr.append(["h", c, 0, ""])
    for x in extra_hdr or []:
        hdr.append(["h", x, 0, ""])
    for c, n in cat_names:
        hdr.append(["c", "# CATEGORY NAME %d: %s" % (c, n), c, n])
    for a, n in alt_names:
        hdr.append(["a", "# ALTERNATIVE NAME %d: %s" % (a, n), a, n])
    rng = random.Random(0)
    lines = []
    for mult, b in body:
        txt = cat_ballot_text(rng, b) if kind == "cat" else ord_ballot_text(rng, b)
        lines.append(["%d: %s" % (mult, txt), mult, [list(c) for c in b]])
    return {"kind": kind, "dt": dt, "hdr": hdr, "body": lines, "eol": "\n", "final": True, "clean": False,
            "malformed": False, "cont": cont, "prior": prior}


def seq_over(pool, n):
    import itertools
    for k in range(n + 1):
        yield from itertools.product(pool, repeat=k)


def generate(tier, seed):
    rng = random.Random(1000003 * seed + 16)
    quick = tier == "quick"
    out = []
    # (1) exhaustive name sequences
    pool = ["X", "X__1", "X__2"] if quick else ["X", "X__1", "X__2", "X__1__1"]
    n = 3 if quick else 4
    for names in seq_over(pool, n):
        an = [(k + 1, nm) for k, nm in enumerate(names)]
        out.append(mk_case(fixed_struct("ord", an, [], [(2, [[1], [2]]), (3, [[1], [2]])]), exh=1))
        out.append(mk_case(fixed_struct("cat", an, [(1, "Yes"), (2, "Yes")], [(2, [[1], [2]]), (3, [[1], [2]])]), exh=1))
        out.append(mk_case(fixed_struct("cat", [(1, "a"), (2, "a")], an, [(1, [[1]] + [[] for _ in an[1:]])] * 2), exh=1))
    # many copies of one name (suffix counter reaches two digits), alone and next to X__9 / X__10 / X__11
    for n_copies in (11, 12, 13, 14, 23):
        for extra in ([], ["X__9"], ["X__10"], ["X__9", "X__10"], ["X__10", "X__9", "X__11"]):
            for front in (0, 1):
                names = (extra + ["X"] * n_copies) if front else (["X"] * n_copies + extra)
                an = [(k + 1, nm) for k, nm in enumerate(names)]
                out.append(mk_case(fixed_struct("ord", an, [], [(2, [[1], [2]]), (3, [[1], [2]])]), exh=3))
                out.append(mk_case(fixed_struct("cat", an, [(1, "Yes"), (2, "Yes")], [(2, [[1], [2]]), (3, [[1], [2]])]), exh=3))
                out.append(mk_case(fixed_struct("cat", [(1, "a"), (2, "a")], an, [(1, [[1]] + [[] for _ in an[1:]])] * 2), exh=3))
    for names in seq_over(["X", "X__9", "X__10"], 4 if quick else 5):
        if names.count("X") >= 2:
            an = [(k + 1, nm) for k, nm in enumerate(names)]
            out.append(mk_case(fixed_struct("ord", an, [], [(2, [[1], [2]]), (3, [[1], [2]])]), exh=3))
            out.append(mk_case(fixed_struct("cat", [(1, "a"), (2, "a")], an, [(1, [[1]] + [[] for _ in an[1:]])] * 2), exh=3))
    # multiplicities around 2**53 (where a double stops being exact): single lines, and repeated lines whose sum crosses it
    edge = [2 ** 53 - 1, 2 ** 53, 2 ** 53 + 1, 2 ** 53 + 3, 3 * 2 ** 53 + 7, 10 ** 17 + 3, 2 ** 64 - 1, 2 ** 64 + 1, 10 ** 30 + 7]
    for kind, b1, b2 in (("ord", [[1], [2]], [[2], [1]]), ("cat", [[1], [2]], [[1, 2], []])):
        cn = [(1, "c"), (2, "d")] if kind == "cat" else []
        for x in edge:
            for body in ([(x, b1)], [(x, b1), (1, b2)], [(x, b1), (x, b1)], [(1, b1), (x, b2), (2, b1)]):
                for right in (0, 1):
                    nv, nu = sum(mm for mm, _ in body), len({proto.enc(b) for _, b in body})
                    counts = ["# NUMBER ALTERNATIVES: 2", "# NUMBER VOTERS: %d" % (nv if right else float_like(nv)),
                              "# NUMBER UNIQUE %s: %d" % ("PREFERENCES" if kind == "cat" else "ORDERS", nu)]
                    if kind == "cat":
                        counts.append("# NUMBER CATEGORIES: 2")
                    st = fixed_struct(kind, [(1, "a"), (2, "b")], cn, body, dt="soc", counts=counts)
                    st["clean"] = bool(right) and nu == len(body)
                    out.append(mk_case(st, exh=4))
        for x, y in ((2 ** 52, 2 ** 52 + 1), (2 ** 53 - 1, 2), (2 ** 53, 1), (2 ** 52 + 1, 2 ** 52 + 2)):
            out.append(mk_case(fixed_struct(kind, [(1, "a"), (2, "b")], cn, [(x, b1), (y, b1), (1, b1)], dt="soc"), exh=4))
    # names that begin with blanks / a tab after the canonical ": " are different names; "id :" defines no name
    for names in seq_over(["Ann", " Ann", "  Ann", "\tAnn"], 3):
        if not names:
            continue
        an = [(k + 1, nm) for k, nm in enumerate(names)]
        for extra in ([], ["# ALTERNATIVE NAME 9 : Ann", "# CATEGORY NAME 9 : Ann"]):
            st = fixed_struct("ord", an, [], [(2, [[1], [2]]), (3, [[2], [1]])], extra_hdr=extra,
                              counts=["# NUMBER ALTERNATIVES: %d" % len(an), "# NUMBER VOTERS: 5", "# NUMBER UNIQUE ORDERS: 2"])
            st["clean"] = len(set(names)) == len(names)
            out.append(mk_case(st, exh=6))
            out.append(mk_case(fixed_struct("cat", an, [(1, "Yes"), (2, " Yes")], [(2, [[1], [2]]), (3, [[1], [2]])],
                                            extra_hdr=extra), exh=6))
            out.append(mk_case(fixed_struct("cat", [(1, "a"), (2, " a")], an, [(1, [[1]] + [[] for _ in an[1:]])] * 2,
                                            extra_hdr=extra), exh=6))
    # an earlier autocorrect parse of ANOTHER file sharing names (same worker call, its own instance), also one that raises
    for names in seq_over(["X", "X__1"], 2):
        an = [(k + 1, nm) for k, nm in enumerate(names)]
        for ptext in ("# ALTERNATIVE NAME 1: X\n# ALTERNATIVE NAME 2: X\n1: 1\n", "# ALTERNATIVE NAME 7: X__1\n# ALTERNATIVE NAME 8: X\noops\n",
                      "# CATEGORY NAME 1: X\n# CATEGORY NAME 2: X\n# ALTERNATIVE NAME 1: X\n1: 1\n"):
            for pk in ("ord", "cat"):
                pr = [pk, "soc" if pk == "ord" else "cat", ptext, "str"]
                out.append(mk_case(fixed_struct("ord", an, [], [(2, [[1], [2]])], prior=pr), exh=7))
                out.append(mk_case(fixed_struct("cat", an, an, [(2, [[1], [2]])], prior=pr), exh=7))
    # repeated lines, then the parsed object is extended: both names of the ballot list must follow
    bl2 = [(2, [[1], [2]]), (3, [[2], [1]]), (1, [[1, 2]])]
    for body in seq_over(bl2, 3):
        if not body:
            continue
        for cont in (["append_order", [[1, 2]], ["vote_map"]], ["append_order", [[2, 1], [3, 1, 2]], ["recompute_cardinality_param", "full_profile"]],
                     ["append_order_list", [[[1, 2]], [[1], [2]]], ["flatten_strict", "infer_type"]],
                     ["append_order_list", [[[2], [1, 3]]], []], ["append_order_array", [[1, 2], [2, 1], [1, 2]], ["recompute_cardinality_param"]]):
            out.append(mk_case(fixed_struct("ord", [(1, "a"), (2, "b")], [], list(body), dt="toi", cont=cont), exh=5))
    if not quick:
        bl = [(1, [[1], [2]]), (5, [[1], [2]]), (1, [[2, 1]]), (5, [[2, 1]])]
        for body in seq_over(bl, 4):
            out.append(mk_case(fixed_struct("ord", [(1, "a"), (2, "b")], [], list(body), dt="toc"), exh=2))
            out.append(mk_case(fixed_struct("cat", [(1, "a"), (2, "b")], [(1, "c")],
                                            [(mm, [sum(b, [])]) for mm, b in body]), exh=2))
    # (2) random contents
    for _ in range(6000 if quick else 40000):
        kind = "cat" if rng.random() < 0.5 else "ord"
        out.append(mk_case(gen_struct(rng, kind, rng.random() < 0.3), rnd=1))
    return out


# ---------------------------------------------------------------------------------------------------
# implementation side
# ---------------------------------------------------------------------------------------------------
def _write_raw(path, s):
    with open(path, "w", encoding="utf-8", newline="") as f:
        f.write(s)


def _new(kind):
    from preflibtools.instances import OrdinalInstance, CategoricalInstance
    return CategoricalInstance() if kind == "cat" else OrdinalInstance()


def _dump(kind, inst):
    return c08.canon(inst) if kind == "cat" else c01.dump_instance(inst)


def _sanity(kind, inst):
    """the error lists of the individual sanity checks (orders / categories only where they are defined:
    infer_type and the strictness check take max() over the classes of every order)"""
    from preflibtools.instances import sanity
    out = {"metadata": [str(e) for e in sanity.metadata(inst)]}
    if kind == "cat":
        out["categories"] = [str(e) for e in sanity.categories(inst)]
    elif all(len(o) > 0 for o in inst.orders):
        out["orders"] = [str(e) for e in sanity.orders(inst)]
    return out


BASIC = ["num_alternatives", "num_voters", "num_different_preferences", "largest_ballot", "smallest_ballot",
         "max_num_indif", "min_num_indif", "largest_indif", "smallest_indif", "is_approval", "is_complete"]


def _views(kind, inst):
    """the ballot list under every name the class documents: OrdinalInstance.orders and its alias .preferences"""
    if kind == "cat":
        return {}
    return {"prefs": [[list(cl) for cl in o] for o in inst.preferences], "alias": inst.preferences is inst.orders}


def _basic(kind, inst):
    """preflibtools.properties.basic on the parsed instance (max()/min() need at least one non-empty ballot)"""
    from preflibtools.properties import basic
    ballots = inst.preferences
    if not ballots or any(len(b) == 0 for b in ballots) or (kind == "ord" and not inst.orders):
        return None
    out = {f: getattr(basic, f)(inst) for f in BASIC}
    if kind == "ord":
        out["is_strict"] = basic.is_strict(inst)
    return {k: int(v) for k, v in out.items()}


def _poison_result(res):
    """the caller owns what an accessor returns: spoil it in place"""
    if isinstance(res, list):
        res.append(((424242,),))
        res.reverse()
        del res[1:]
    elif isinstance(res, dict):
        res.clear()
        res[((424242,),)] = 99


def _maint(inst, name, impure):
    """a maintenance / accessor call in the middle of a history: must leave the content of the instance alone"""
    if name == "full_profile" and inst.num_voters > 5000:
        return
    before = common.snapshot(inst)
    res = getattr(inst, name)()
    _poison_result(res)
    df = common.snap_diff(before, common.snapshot(inst))
    if df:
        impure.append("%s(): %s" % (name, df))


def _continue(inst, cont):
    fn, orders, maint = cont
    impure = []
    for name in maint:
        _maint(inst, name, impure)
    if fn == "append_order":
        for k, o in enumerate(orders):
            inst.append_order(list(o))
            if k == 0 and maint:
                _maint(inst, maint[0], impure)
    elif fn == "append_order_array":
        import numpy as np
        inst.append_order_array(np.array(orders))
    else:
        inst.append_order_list([tuple(tuple(cl) for cl in o) for o in orders])
    res = {"dump": _dump("ord", inst), "impure": impure}
    res.update(_views("ord", inst))
    return res


def _poison_instance(kind, inst):
    """the instance is finished with: spoil every container it owns, so that state shared with LATER instances
    (class attributes, mutable defaults) shows up in the following parses of this case"""
    inst.alternatives_name[10 ** 9] = "X"
    inst.alternatives_name[10 ** 9 + 1] = "X__1"
    inst.reserved_names.add("X")
    inst.reserved_names.add("X__2")
    inst.multiplicity[((424242,),)] = 99
    inst.preferences.append(((424242,),))
    if kind == "cat":
        inst.categories_name[10 ** 9] = "X"
    else:
        inst.orders.append(((424243,),))


def _one(kind, dt, text, entry, d, autocorrect, cont=None):
    inst = _new(kind)
    if entry == "file":
        p = os.path.join(d, "r." + dt)
        _write_raw(p, text)
        inst.parse_file(p, autocorrect=autocorrect)
    else:
        inst.parse_str(text, dt, autocorrect=autocorrect)
    res = {"dump": _dump(kind, inst)}
    res.update(_views(kind, inst))
    if autocorrect:
        before = common.snapshot(inst)
        res["sanity"] = _sanity(kind, inst)
        res["basic"] = guarded(_basic, kind, inst)
        res["basic2"] = guarded(_basic, kind, inst)
        df = common.snap_diff(before, common.snapshot(inst))
        res["impure"] = ["sanity / properties.basic: " + df] if df else []
        if cont and kind == "ord":
            res["cont"] = guarded(_continue, inst, cont)
    _poison_instance(kind, inst)
    return res


def _prior(prior, d):
    pk, pdt, text, entry = prior
    inst = _new(pk)
    if entry == "file":
        p = os.path.join(d, "prior." + pdt)
        _write_raw(p, text)
        inst.parse_file(p, autocorrect=True)
    else:
        inst.parse_str(text, pdt, autocorrect=True)
    return len(inst.alternatives_name)


def impl(c):
    dt, text = U(c["payload"][0]), U(c["payload"][1])
    kind = "cat" if c["op"] == "c16.cat" else "ord"
    os.makedirs(WORK, exist_ok=True)
    d = tempfile.mkdtemp(prefix="c16_", dir=WORK)
    try:
        out = {}
        st = c["tags"].get("struct") or {}
        if st.get("prior"):
            out["prior"] = guarded(_prior, st["prior"], d)      # may raise by construction; its own instance
        for entry in ("file", "str"):
            for au in (True, False):
                out[entry + ("T" if au else "F")] = guarded(_one, kind, dt, text, entry, d, au,
                                                            (c["tags"].get("struct") or {}).get("cont"))
        return out
    finally:
        shutil.rmtree(d, ignore_errors=True)


# ---------------------------------------------------------------------------------------------------
# model side and judgement
# ---------------------------------------------------------------------------------------------------
def oracle_requests(c, r):
    dt, text = c["payload"]
    return [(c["op"], [0, T("r." + U(dt)), dt, text]), (c["op"], [1, [], dt, text])]


# messages of sanity.py that name a defect autocorrect repairs (prefix of the message)
FORBIDDEN = {
    "metadata": ["Number of alternatives", "Some alternatives have the same name"],
    "orders": ["len(orders)", "Number of voters", "Number of unique order", "Some orders appear several times",
               "Order "],
    "categories": ["len(preferences)", "Number of voters", "Number of unique preferences",
                   "Some preferences appear several times", "Preference "],
}
SAME_RE = re.compile(r"^(Order|Preference) .* is the same than (order|preference) ")


def bad_sanity(san):
    for chk, msgs in san.items():
        for msg in msgs:
            for p in FORBIDDEN[chk]:
                if msg.startswith(p):
                    if p in ("Order ", "Preference ") and not SAME_RE.match(msg):
                        continue
                    return "sanity.%s reports %r on the autocorrected instance" % (chk, msg)
    return None


def split_dump(kind, d):
    """-> dict of observables"""
    if kind == "cat":
        f, na, nv, an, nu, nc, cn, prefs, mult = d
        return {"fields": f, "na": na, "nv": nv, "alt_names": an, "nu": nu, "ncat": nc, "cat_names": cn,
                "ballots": prefs, "mult": mult}
    f, na, nv, an, nu, orders, mult = d
    return {"fields": f, "na": na, "nv": nv, "alt_names": an, "nu": nu, "cat_names": [], "ballots": orders,
            "mult": mult}


def same_instance(kind, a, b):
    """field-by-field comparison; the multiplicity table is compared as a set of pairs"""
    x, y = split_dump(kind, a), split_dump(kind, b)
    for k in x:
        u, v = x[k], y[k]
        if k == "mult":
            u, v = sorted(proto.enc(p) for p in u), sorted(proto.enc(p) for p in v)
        if u != v:
            return "%s: %r vs %r" % (k, x[k], y[k])
    return None


def check_names(what, raws, final, ids_distinct):
    """raws: [(id, raw)] in header order; final: [[id, T(name)]] of the implementation"""
    fin = [(a, U(n)) for a, n in final]
    vals = [n for _, n in fin]
    if len(set(vals)) != len(vals):
        return "%s names are not pairwise distinct: %r" % (what, fin)
    if not ids_distinct:
        return None
    if [a for a, _ in fin] != [a for a, _ in raws]:
        return "%s ids %r, header lists %r" % (what, [a for a, _ in fin], [a for a, _ in raws])
    seen = set()
    for (a, raw), (_, name) in zip(raws, fin):
        if raw not in seen:
            if name != raw:
                return "first %s carrying the name %r (id %d) was renamed to %r" % (what, raw, a, name)
        elif not re.fullmatch(re.escape(raw) + r"__[1-9][0-9]*", name):
            return "repeated %s name %r (id %d) became %r, not %r + '__' + k" % (what, raw, a, name, raw)
        seen.add(raw)
    return None


def check_direct(kind, st, d):
    """the clauses of the property on the implementation's autocorrected instance, against the structure"""
    o = split_dump(kind, d)
    lines = [(b[1], b[2]) for b in st["body"] if b[1] is not None]
    keys = [proto.enc(b) for b in o["ballots"]]
    if len(set(keys)) != len(keys):
        return "a ballot is listed twice: %r" % (o["ballots"],)
    table = {}
    for b, k in o["mult"]:
        table[proto.enc(b)] = k
    if sorted(table) != sorted(keys) or len(o["mult"]) != len(keys):
        return "keys of the multiplicity table differ from the ballot list: %r vs %r" % (o["mult"], o["ballots"])
    want = {}
    first = []
    for mult, b in lines:
        e = proto.enc(b)
        if e not in want:
            first.append(e)
        want[e] = want.get(e, 0) + mult
    if want != table:
        return "multiplicities %r, sums over the lines %r" % (o["mult"], sorted(want.items()))
    if keys != first:
        return "ballot list %r is not the list of first occurrences of the lines" % (o["ballots"],)
    if o["nv"] != sum(mult for mult, _ in lines):
        return "num_voters %d, lines sum to %d" % (o["nv"], sum(mult for mult, _ in lines))
    if o["nu"] != len(want):
        return "unique-ballot count %d, distinct ballots %d" % (o["nu"], len(want))
    if o["na"] != len(o["alt_names"]):
        return "num_alternatives %d, named alternatives %d" % (o["na"], len(o["alt_names"]))
    for tag, what, fin in (("a", "alternative", o["alt_names"]), ("c", "category", o["cat_names"])):
        raws = [(h[2], h[3]) for h in st["hdr"] if h[0] == tag]
        ids = [a for a, _ in raws]
        r = check_names(what, raws, fin, len(set(ids)) == len(ids))
        if r:
            return r
    return None


def check_basic(kind, st, o, got):
    """preflibtools.properties.basic on the autocorrected instance against the generated ballot lines"""
    bal = [b[2] for b in st["body"] if b[1] is not None]
    if not bal or any(len(b) == 0 for b in bal):
        return None
    if got[0] != 0 or got[1] is None:
        return "properties.basic on the autocorrected instance: %r" % (got,)
    na = o["na"]
    sizes = [sum(len(cl) for cl in b) for b in bal]
    indif = [len([cl for cl in b if len(cl) > 1]) for b in bal]
    cls = [len(cl) for b in bal for cl in b if len(cl) > 0]
    complete = int(min(sizes) == na)
    want = {"num_alternatives": na, "num_voters": sum(b[1] for b in st["body"] if b[1] is not None),
            "num_different_preferences": len({proto.enc(b) for b in bal}),
            "largest_ballot": max(sizes), "smallest_ballot": min(sizes), "max_num_indif": max(indif + [0]),
            "min_num_indif": min(indif + [na]), "largest_indif": max(cls + [0]), "smallest_indif": min(cls + [na]),
            "is_complete": complete}
    if kind == "ord":
        mlen = max(len(b) for b in bal)
        want["is_approval"] = int(mlen == 1 or (mlen == 2 and complete == 1))
        want["is_strict"] = int(max(cls + [0]) == 1)
    else:
        want["is_approval"] = int(o["ncat"] == 1 or (o["ncat"] == 2 and complete == 1))
    for k, v in want.items():
        if got[1].get(k) != v:
            return "properties.basic.%s = %r on the autocorrected instance, %r from the ballot lines" % (k, got[1].get(k), v)
    return None


def check_cont(st, o, got):
    """after append_order / append_order_list on the autocorrected instance: same normal form, one more voter per order"""
    fn, orders = st["cont"][:2]
    if got[0] != 0:
        return "%s on the autocorrected instance raised %r" % (fn, got[1:])
    if got[1]["impure"]:
        return "the parsed instance was modified by " + "; ".join(got[1]["impure"])
    d = split_dump("ord", got[1]["dump"])
    if got[1]["prefs"] != d["ballots"]:
        return "after %s: instance.preferences lists %r but instance.orders lists %r" % (fn, got[1]["prefs"], d["ballots"])
    want, first = {}, []
    for mult, b in [(b[1], b[2]) for b in st["body"] if b[1] is not None] + \
                   [(1, [[a] for a in x] if fn != "append_order_list" else x) for x in orders]:
        e = proto.enc(b)
        if e not in want:
            first.append(e)
        want[e] = want.get(e, 0) + mult
    keys = [proto.enc(b) for b in d["ballots"]]
    table = {proto.enc(b): k for b, k in d["mult"]}
    if keys != first:
        return "after %s: ballot list %r is not the list of first occurrences" % (fn, d["ballots"])
    if table != want or len(d["mult"]) != len(want):
        return "after %s: multiplicities %r, expected %r" % (fn, d["mult"], sorted(want.items()))
    if d["nv"] != sum(want.values()) or d["nu"] != len(want) or d["na"] != len(d["alt_names"]):
        return "after %s: counts (voters %d, unique %d, alternatives %d) vs (%d, %d, %d)" % (
            fn, d["nv"], d["nu"], d["na"], sum(want.values()), len(want), len(d["alt_names"]))
    if d["alt_names"][:len(o["alt_names"])] != o["alt_names"]:
        return "after %s: existing names changed" % fn
    return None


def judge(c, r, mres):
    kind = "cat" if c["op"] == "c16.cat" else "ord"
    st = c["tags"].get("struct")
    for entry, m in (("file", mres[0]), ("str", mres[1])):
        mT, mF, mexp = m[0], m[1], m[2]
        raw_alt = m[3]
        raw_cat = m[4] if kind == "cat" else []
        mclean = m[5] if kind == "cat" else m[4]
        rT, rF = r[entry + "T"], r[entry + "F"]
        where = "parse_%s" % entry
        # (1) implementation vs mirror model
        for au, ri, mi in (("True", rT, mT), ("False", rF, mF)):
            if ri[0] != mi[0] or (ri[0] == 1 and ri[1] != mi[1]):
                return "%s autocorrect=%s: implementation %r, model %r" % (where, au, ri[:2] if ri[0] else "ok", mi[:2] if mi[0] else "ok")
            if ri[0] == 0 and kind == "ord" and ri[1]["prefs"] != split_dump(kind, ri[1]["dump"])["ballots"]:
                return ("%s autocorrect=%s: instance.preferences lists %r but instance.orders lists %r (the two names "
                        "of the ballot list must show the same ballots)"
                        % (where, au, ri[1]["prefs"], split_dump(kind, ri[1]["dump"])["ballots"]))
            if ri[0] == 0:
                df = same_instance(kind, ri[1]["dump"], mi[1])
                if df and (au == "True" or mclean):
                    return "%s autocorrect=%s: implementation and model differ in %s" % (where, au, df)
        if rT[0] != 0:
            continue
        d = rT[1]["dump"]
        o = split_dump(kind, d)
        # (3) the independent description
        if mexp[0] != 0:
            return {"kind": "broken-correspondence", "reason": "expected table undefined although the parse succeeds"}
        emu, env, enu = mexp[1]
        if sorted(proto.enc(p) for p in emu) != sorted(proto.enc(p) for p in o["mult"]) or env != o["nv"] or enu != o["nu"]:
            return "%s: table/counts %r %d %d, sums over the ballot lines (model) %r %d %d" % (
                where, o["mult"], o["nv"], o["nu"], emu, env, enu)
        if [b for b, _ in emu] != o["ballots"]:
            return "%s: ballot list %r, first occurrences (model) %r" % (where, o["ballots"], [b for b, _ in emu])
        for what, raws, fin in (("alternative", raw_alt, o["alt_names"]), ("category", raw_cat, o["cat_names"])):
            ids = [a for a, _ in raws]
            rr = check_names(what, [(a, U(n)) for a, n in raws], fin, len(set(ids)) == len(ids))
            if rr:
                return where + ": " + rr
        # (2) against the generated structure
        if st is not None and not st.get("malformed"):
            if [[h[2], T(h[3])] for h in st["hdr"] if h[0] == "a"] != raw_alt or \
               [[h[2], T(h[3])] for h in st["hdr"] if h[0] == "c"] != raw_cat:
                return {"kind": "broken-correspondence",
                        "reason": "generator and model disagree about the names listed by the header: %r vs %r %r"
                                  % ([h for h in st["hdr"] if h[0] in "ac"], raw_alt, raw_cat)}
            rr = check_direct(kind, st, d)
            if rr:
                return where + ": " + rr
        # (4) sanity, basic statistics, continuation with append_order / append_order_list
        rr = bad_sanity(rT[1]["sanity"])
        if rr:
            return where + ": " + rr
        if st is not None and not st.get("malformed"):
            rr = check_basic(kind, st, o, rT[1]["basic"]) or check_basic(kind, st, o, rT[1]["basic2"])
            if rr:
                return where + ": " + rr
            if rT[1]["impure"]:
                return where + ": the parsed instance was modified by " + "; ".join(rT[1]["impure"])
            if "cont" in rT[1]:
                rr = check_cont(st, o, rT[1]["cont"])
                if rr:
                    return where + ": " + rr
        # (5) clean content
        if st is not None and st.get("clean") and not mclean:
            return {"kind": "broken-correspondence", "reason": "content generated as clean is not clean for the model"}
        if mclean:
            if rF[0] != 0:
                return "%s: clean content parses with autocorrect=True but not with False" % where
            df = same_instance(kind, d, rF[1]["dump"])
            if df:
                return "%s: clean content, autocorrect=True and False differ in %s" % (where, df)
    return None


def _repeats(st):
    names_a = [h[3] for h in st["hdr"] if h[0] == "a"]
    names_c = [h[3] for h in st["hdr"] if h[0] == "c"]
    bal = [proto.enc(b[2]) for b in st["body"] if b[1] is not None]
    return (len(set(names_a)) < len(names_a) or len(set(names_c)) < len(names_c), len(set(bal)) < len(bal))


def nontrivial(c, r, m):
    st = c["tags"].get("struct")
    if not st or not isinstance(r, dict) or r.get("strT", [1])[0] != 0:
        return False
    rn, rb = _repeats(st)
    return rn or rb


def stats(c, r, m):
    kind = "cat" if c["op"] == "c16.cat" else "ord"
    st = c["tags"].get("struct") or {}
    lab = []
    ok = isinstance(r, dict) and r.get("strT", [1])[0] == 0
    lab.append("%s %s" % (kind, "ok" if ok else "error%s" % (r["strT"][1] if isinstance(r, dict) else "?")))
    if ok and st:
        rn, rb = _repeats(st)
        lab.append("%s repeated-name=%d repeated-ballot=%d" % (kind, rn, rb))
        mm = m[1]
        mclean = mm[5] if kind == "cat" else mm[4]
        lab.append("%s clean(model)=%d" % (kind, mclean))
        ids_ok = all(mm[k] for k in ((6, 7) if kind == "cat" else (5,)))
        lab.append("%s ids-distinct=%d" % (kind, ids_ok))
        renamed = sum(1 for (a, raw), (_, fin) in zip(mm[3], split_dump(kind, r["strT"][1]["dump"])["alt_names"])
                      if raw != fin) if ids_ok else -1
        lab.append("alt names renamed=%s" % (renamed if renamed < 3 else ">=3"))
        mx = max([b[1] for b in st["body"] if b[1] is not None] + [0])
        lab.append("largest line multiplicity %s" % ("<= 2^53" if mx <= 2 ** 53 else "> 2^53"))
        for tag, what in (("a", "alternative"), ("c", "category")):
            raws = [h[3] for h in st["hdr"] if h[0] == tag]
            if raws and max(raws.count(x) for x in raws) >= 12:
                lab.append("%s name carried by >= 12 entries" % what)
        if kind == "ord":
            lab.append("ord preferences is orders=%d" % int(bool(r["strT"][1].get("alias"))))
            if "cont" in r["strT"][1]:
                lab.append("ord continued with %s" % st["cont"][0])
                for nm in st["cont"][2]:
                    lab.append("ord maintenance call %s" % nm)
        if st.get("prior"):
            lab.append("earlier parse of another file in the same call: %s" % ("ok" if r["prior"][0] == 0 else "raises"))
        if any(h[0] in "ac" and h[3][:1].isspace() for h in st["hdr"]):
            lab.append("name starting with blank/tab")
        nb = len([b for b in st["body"] if b[1] is not None])
        lab.append("ballot lines=%s" % (nb if nb <= 5 else ">5"))
        ra, rT = r["strT"][1]["dump"], r["strF"]
        if rT[0] == 0:
            lab.append("autocorrect changes the instance=%d" % (same_instance(kind, ra, rT[1]["dump"]) is not None))
    return lab


def describe(c):
    st = c["tags"].get("struct")
    d = {"op": c["op"], "data_type": U(c["payload"][0]), "content": U(c["payload"][1])}
    if st:
        d["names_in_header"] = [[h[0], h[2], h[3]] for h in st["hdr"] if h[0] in "ac"]
        d["ballot_lines"] = [[b[1], b[2]] for b in st["body"]]
    return d


def shrink(c):
    st = c["tags"].get("struct")
    if not st:
        return
    keep = {k: v for k, v in c["tags"].items() if k != "struct"}
    for k in range(len(st["body"])):
        s2 = dict(st, body=st["body"][:k] + st["body"][k + 1:], clean=False)
        yield mk_case(s2, **keep)
    for k in range(len(st["hdr"])):
        s2 = dict(st, hdr=st["hdr"][:k] + st["hdr"][k + 1:], clean=False)
        yield mk_case(s2, **keep)
    if st["eol"] != "\n":
        yield mk_case(dict(st, eol="\n"), **keep)
    for k, h in enumerate(st["hdr"]):
        if h[1] != h[1].strip():
            yield mk_case(dict(st, hdr=st["hdr"][:k] + [[h[0], h[1].strip(), h[2], h[3]]] + st["hdr"][k + 1:]), **keep)
