(* Properties/C12.v — statements for property C12 (being completed; see Proofs/Deletion.v). *)
From Coq Require Import List NArith Bool.
From PrefVerif Require Import Lib.Val Lib.Contig Model.SP Model.Deletion.
Import ListNotations.
Open Scope N_scope.

Example C12_example_alt :
  min_alt_del [1;2;3] [ [[1];[2];[3]] ; [[2];[3];[1]] ; [[3];[1];[2]] ] = 1%nat
  /\ cert_alt [1;2;3] [ [[1];[2];[3]] ; [[2];[3];[1]] ; [[3];[1];[2]] ] 1 [1;2;3] [3] = true.
Proof. split; vm_compute; reflexivity. Qed.
